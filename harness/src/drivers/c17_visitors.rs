//! C17 visitors: `Recording<T>` wraps duke's own tree-building visitor `T` (`Vec<ClassFile>`,
//! `ClassFile`, `Field`, `Method`, `RecordComponent`; `RecCode` wraps `Code`) and
//!   (i)   reports a caller-chosen interest mask at its level,
//!   (ii)  declines caller-chosen classes / fields / methods / codes / record components (1-based ordinals),
//!   (iii) delegates every call it receives to the wrapped tree builder, so a (partial) tree results,
//!   (iv)  appends one event per visit_* / finish_* call to a shared log.
//! Nothing here judges anything: the log is raw material for Trace_Visit.tla.
//!
//! Event = {lvl, ev, c, mk, mi, vis, arg, frame}
//!   lvl   level whose trait received the call: multi | class | field | method | code | rc
//!   ev    name of the trait method
//!   c     ordinal of the class in the stream (1-based), mk/mi member kind ("" | f | m | r) and ordinal
//!   vis   "v" / "i" for the (type) annotation events, "" otherwise
//!   arg   canonical digest of the payload (Debug form of duke's value; labels as instruction positions;
//!         long digests are cut and hashed); frame = digest of the stack map frame of an instruction
//!
//! Unknown attributes are received as duke's `Attribute` (the only implementation of the crate-private
//! `UnknownAttributeVisitor` that keeps name and bytes); the event is recorded in `visit_unknown_attribute`.
use std::cell::{Cell, RefCell};
use std::collections::{BTreeSet, HashMap};
use std::fmt::Debug;
use std::ops::ControlFlow;
use std::rc::Rc;
use anyhow::{anyhow, Result};
use java_string::JavaString;
use serde_json::{json, Value};
use duke::tree::annotation::{Annotation, ElementValue};
use duke::tree::attribute::Attribute;
use duke::tree::class::{ClassAccess, ClassFile, ClassName, ClassSignature, EnclosingMethod, InnerClass, ObjClassName};
use duke::tree::field::{ConstantValue, Field, FieldAccess, FieldDescriptor, FieldName, FieldSignature};
use duke::tree::method::code::{Code, Exception, Instruction, Label, Lv};
use duke::tree::method::{Method, MethodAccess, MethodDescriptor, MethodName, MethodParameter, MethodSignature};
use duke::tree::module::{Module, PackageName};
use duke::tree::record::{RecordComponent, RecordName};
use duke::tree::type_annotation::{TargetInfoClass, TargetInfoCode, TargetInfoField, TargetInfoMethod, TypeAnnotation};
use duke::tree::version::Version;
use duke::verif::{FieldInterests, FieldVisitor, RecordComponentInterests, RecordComponentVisitor};
use duke::visitor::class::{ClassInterests, ClassVisitor};
use duke::visitor::method::code::{CodeInterests, CodeVisitor, StackMapData, VerificationTypeInfo};
use duke::visitor::method::{MethodInterests, MethodVisitor};
use duke::visitor::simple::class::SimpleClassVisitor;
use duke::visitor::MultiClassVisitor;

// ------------------------------------------------------------------------------------------------
// configuration

pub const CLASS_FLAGS: &[&str] = &["inner_classes", "enclosing_method", "signature", "source_file", "source_debug_extension",
	"runtime_visible_annotations", "runtime_invisible_annotations", "runtime_visible_type_annotations",
	"runtime_invisible_type_annotations", "module", "module_packages", "module_main_class", "nest_host", "nest_members",
	"permitted_subclasses", "record", "unknown_attributes", "fields", "methods"];
pub const FIELD_FLAGS: &[&str] = &["constant_value", "signature", "runtime_visible_annotations", "runtime_invisible_annotations",
	"runtime_visible_type_annotations", "runtime_invisible_type_annotations", "unknown_attributes"];
pub const METHOD_FLAGS: &[&str] = &["code", "exceptions", "signature", "runtime_visible_annotations", "runtime_invisible_annotations",
	"runtime_visible_type_annotations", "runtime_invisible_type_annotations", "runtime_visible_parameter_annotations",
	"runtime_invisible_parameter_annotations", "annotation_default", "method_parameters", "unknown_attributes"];
pub const CODE_FLAGS: &[&str] = &["stack_map_table", "line_number_table", "local_variable_table", "local_variable_type_table",
	"runtime_visible_type_annotations", "runtime_invisible_type_annotations", "unknown_attributes"];
pub const RC_FLAGS: &[&str] = &["signature", "runtime_visible_annotations", "runtime_invisible_annotations",
	"runtime_visible_type_annotations", "runtime_invisible_type_annotations", "unknown_attributes"];
pub const LEVELS: &[(&str, &[&str])] = &[("class", CLASS_FLAGS), ("field", FIELD_FLAGS), ("method", METHOD_FLAGS),
	("code", CODE_FLAGS), ("rc", RC_FLAGS)];

/// `CodeInterests` is neither `Clone` nor `Copy`, so the code level keeps its own copy of the seven flags.
#[derive(Clone, Copy, Default)]
pub struct CodeFlags {
	pub stack_map_table: bool,
	pub line_number_table: bool,
	pub local_variable_table: bool,
	pub local_variable_type_table: bool,
	pub runtime_visible_type_annotations: bool,
	pub runtime_invisible_type_annotations: bool,
	pub unknown_attributes: bool,
}

#[derive(Clone)]
pub struct Mask {
	pub class: ClassInterests,
	pub field: FieldInterests,
	pub method: MethodInterests,
	pub code: CodeFlags,
	pub rc: RecordComponentInterests,
	/// the interests the visitors of the members with an even ordinal report instead (field, method, code, rc levels): the API lets
	/// a class visitor hand out differently configured member visitors
	pub alt: Option<Box<Mask>>,
}

fn flag(v: &Value, lvl: &str, name: &str) -> Result<bool> {
	v.get(lvl).and_then(|l| l.get(name)).and_then(Value::as_bool).ok_or_else(|| anyhow!("mask.{lvl}.{name} missing or not a boolean"))
}

macro_rules! read_flags {
	($init:expr, $v:expr, $lvl:expr, [$($f:ident),* $(,)?]) => {{
		let mut x = $init;
		$( x.$f = flag($v, $lvl, stringify!($f))?; )*
		x
	}};
}

impl Mask {
	pub fn all() -> Mask {
		Mask {
			class: ClassInterests::all(), field: FieldInterests::all(), method: MethodInterests::all(),
			code: CodeFlags { stack_map_table: true, line_number_table: true, local_variable_table: true, local_variable_type_table: true,
				runtime_visible_type_annotations: true, runtime_invisible_type_annotations: true, unknown_attributes: true },
			rc: RecordComponentInterests::all(),
			alt: None,
		}
	}

	/// the mask the visitor of member number `mi` (1-based) reports
	pub fn for_member(&self, mi: usize) -> &Mask {
		match &self.alt { Some(a) if mi % 2 == 0 => a, _ => self }
	}

	/// Either every flag of every level as `v[level][flag]` (a missing flag is an error, nothing is defaulted), or
	/// the compact form `{"base": "all"|"none", "flip": [[level, flag]..]}` (the base mask with the listed flags inverted).
	pub fn from_json(v: &Value) -> Result<Mask> {
		if let Some(alt) = v.get("alt").filter(|a| a.get("base").is_some() || a.get("class").is_some()) {
			let mut rest = v.clone();
			if let Some(o) = rest.as_object_mut() { o.remove("alt"); }
			let mut m = Mask::from_json(&rest)?;
			m.alt = Some(Box::new(Mask::from_json(alt)?));
			return Ok(m);
		}
		if let Some(base) = v.get("base").and_then(Value::as_str) {
			let b = match base { "all" => true, "none" => false, _ => return Err(anyhow!("mask.base must be all or none")) };
			let mut full = mask_json(b);
			let flips: Vec<Value> = match v.get("flip") {
				Some(Value::Array(a)) => a.clone(),
				Some(Value::Object(o)) if o.is_empty() => vec![],
				_ => return Err(anyhow!("mask.flip must be a list")),
			};
			for f in flips {
				let (l, n) = (f[0].as_str().unwrap_or(""), f[1].as_str().unwrap_or(""));
				if full.get(l).and_then(|x| x.get(n)).is_none() {
					return Err(anyhow!("mask.flip: unknown flag {l}.{n}"));
				}
				full[l][n] = Value::Bool(!b);
			}
			return Mask::from_json(&full);
		}
		Ok(Mask {
			class: read_flags!(ClassInterests::none(), v, "class", [inner_classes, enclosing_method, signature, source_file,
				source_debug_extension, runtime_visible_annotations, runtime_invisible_annotations, runtime_visible_type_annotations,
				runtime_invisible_type_annotations, module, module_packages, module_main_class, nest_host, nest_members,
				permitted_subclasses, record, unknown_attributes, fields, methods]),
			field: read_flags!(FieldInterests::none(), v, "field", [constant_value, signature, runtime_visible_annotations,
				runtime_invisible_annotations, runtime_visible_type_annotations, runtime_invisible_type_annotations, unknown_attributes]),
			method: read_flags!(MethodInterests::none(), v, "method", [code, exceptions, signature, runtime_visible_annotations,
				runtime_invisible_annotations, runtime_visible_type_annotations, runtime_invisible_type_annotations,
				runtime_visible_parameter_annotations, runtime_invisible_parameter_annotations, annotation_default, method_parameters,
				unknown_attributes]),
			code: read_flags!(CodeFlags::default(), v, "code", [stack_map_table, line_number_table, local_variable_table,
				local_variable_type_table, runtime_visible_type_annotations, runtime_invisible_type_annotations, unknown_attributes]),
			rc: read_flags!(RecordComponentInterests::none(), v, "rc", [signature, runtime_visible_annotations,
				runtime_invisible_annotations, runtime_visible_type_annotations, runtime_invisible_type_annotations, unknown_attributes]),
			alt: None,
		})
	}
}

/// The full mask as JSON (every flag true).
pub fn mask_json(value: bool) -> Value {
	let mut m = serde_json::Map::new();
	for (lvl, flags) in LEVELS {
		m.insert((*lvl).into(), Value::Object(flags.iter().map(|f| ((*f).to_owned(), Value::Bool(value))).collect()));
	}
	Value::Object(m)
}

#[derive(Clone, Default)]
pub struct Declines {
	pub classes: BTreeSet<usize>,
	pub fields: BTreeSet<usize>,
	pub methods: BTreeSet<usize>,
	pub codes: BTreeSet<usize>,
	pub rcs: BTreeSet<usize>,
}

impl Declines {
	pub fn from_json(v: &Value) -> Result<Declines> {
		let set = |k: &str| -> Result<BTreeSet<usize>> {
			match v.get(k) {
				None => Err(anyhow!("declines.{k} missing")),
				Some(Value::Array(a)) => a.iter().map(|x| x.as_u64().map(|n| n as usize).ok_or_else(|| anyhow!("declines.{k}: not an ordinal"))).collect(),
				// TLC prints the empty sequence and the empty record alike
				Some(Value::Object(o)) if o.is_empty() => Ok(BTreeSet::new()),
				_ => Err(anyhow!("declines.{k}: not a list")),
			}
		};
		Ok(Declines { classes: set("classes")?, fields: set("fields")?, methods: set("methods")?, codes: set("codes")?, rcs: set("rcs")? })
	}
}

pub fn declines_json_none() -> Value {
	json!({"classes": [], "fields": [], "methods": [], "codes": [], "rcs": []})
}

// ------------------------------------------------------------------------------------------------
// the log

#[derive(Clone, Debug)]
pub struct Ev {
	pub lvl: &'static str,
	pub ev: &'static str,
	pub c: usize,
	pub mk: &'static str,
	pub mi: usize,
	pub vis: &'static str,
	pub arg: String,
	pub frame: String,
	/// number of items of a list payload (annotation lists), -1 otherwise
	pub n: i64,
}

impl Ev {
	pub fn to_json(&self) -> Value {
		json!({"lvl": self.lvl, "ev": self.ev, "c": self.c, "mk": self.mk, "mi": self.mi, "vis": self.vis, "arg": self.arg, "frame": self.frame, "n": self.n})
	}
}

pub struct Shared {
	pub mask: Mask,
	pub declines: Declines,
	pub log: RefCell<Vec<Ev>>,
	pub class_no: Cell<usize>,
}

impl Shared {
	pub fn new(mask: Mask, declines: Declines) -> Rc<Shared> {
		Rc::new(Shared { mask, declines, log: RefCell::new(Vec::new()), class_no: Cell::new(0) })
	}
	pub fn events(&self) -> Vec<Ev> {
		self.log.borrow().clone()
	}
}

fn fnv(s: &str) -> u64 {
	let mut h: u64 = 0xcbf29ce484222325;
	for b in s.as_bytes() {
		h ^= *b as u64;
		h = h.wrapping_mul(0x100000001b3);
	}
	h
}

/// Keeps digests small: a long one is cut to its head plus a hash of the whole.
pub fn shorten(s: String) -> String {
	if s.len() <= 48 {
		return s;
	}
	let mut cut = 24;
	while !s.is_char_boundary(cut) {
		cut -= 1;
	}
	format!("{}~{:016x}", &s[..cut], fnv(&s))
}

fn dbg<T: Debug>(x: &T) -> String {
	format!("{x:?}")
}

fn vis(visible: bool) -> &'static str {
	if visible { "v" } else { "i" }
}

// ------------------------------------------------------------------------------------------------
// labels: written as \u{1}<id>\u{2} while the code is being visited, resolved to instruction positions at finish_code
// (Debug never prints a raw control character, so the markers cannot collide with payload text)

fn lab(l: &Label) -> String {
	format!("\u{1}{}\u{2}", duke::verif::label_id(l))
}

fn resolve_labels(s: &str, labels: &HashMap<u16, usize>) -> String {
	let mut out = String::with_capacity(s.len());
	let mut rest = s;
	while let Some(a) = rest.find('\u{1}') {
		out.push_str(&rest[..a]);
		let tail = &rest[a + 1..];
		let b = tail.find('\u{2}').unwrap_or(tail.len());
		match tail[..b].parse::<u16>().ok().and_then(|id| labels.get(&id)) {
			Some(pos) => out.push_str(&format!("@{pos}")),
			None => out.push_str(&format!("@?{}", &tail[..b])),
		}
		rest = if b < tail.len() { &tail[b + 1..] } else { "" };
	}
	out.push_str(rest);
	out
}

fn insn_digest(i: &Instruction) -> String {
	use Instruction::*;
	macro_rules! jump { ($($v:ident),*) => { match i { $( $v(l) => return format!("{}({})", stringify!($v), lab(l)), )* _ => {} } }; }
	jump!(IfEq, IfNe, IfLt, IfGe, IfGt, IfLe, IfICmpEq, IfICmpNe, IfICmpLt, IfICmpGe, IfICmpGt, IfICmpLe, IfACmpEq, IfACmpNe,
		Goto, Jsr, IfNull, IfNonNull);
	match i {
		TableSwitch { default, low, high, table } =>
			format!("TableSwitch({},{low},{high},[{}])", lab(default), table.iter().map(lab).collect::<Vec<_>>().join(",")),
		LookupSwitch { default, pairs } =>
			format!("LookupSwitch({},[{}])", lab(default), pairs.iter().map(|(k, l)| format!("{k}:{}", lab(l))).collect::<Vec<_>>().join(",")),
		other => dbg(other),
	}
}

fn vt_digest(v: &VerificationTypeInfo) -> String {
	match v {
		VerificationTypeInfo::Uninitialized(l) => format!("Uninitialized({})", lab(l)),
		other => dbg(other),
	}
}

fn vts(l: &[VerificationTypeInfo]) -> String {
	l.iter().map(vt_digest).collect::<Vec<_>>().join(",")
}

fn frame_digest(f: &StackMapData) -> String {
	match f {
		StackMapData::Same => "Same".to_owned(),
		StackMapData::SameLocals1StackItem { stack } => format!("Same1({})", vt_digest(stack)),
		StackMapData::Chop { k } => format!("Chop({k})"),
		StackMapData::Append { locals } => format!("Append([{}])", vts(locals)),
		StackMapData::Full { locals, stack } => format!("Full([{}],[{}])", vts(locals), vts(stack)),
	}
}

fn range_digest(r: &duke::tree::method::code::LabelRange) -> String {
	let (a, b) = duke::verif::label_range(r);
	format!("{}..{}", lab(&a), lab(&b))
}

fn target_code_digest(t: &TargetInfoCode) -> String {
	use TargetInfoCode::*;
	let table = |t: &Vec<(duke::tree::method::code::LabelRange, duke::tree::method::code::LvIndex)>| {
		t.iter().map(|(r, i)| format!("{}={}", range_digest(r), i.index)).collect::<Vec<_>>().join(",")
	};
	match t {
		LocalVariable { table: t } => format!("LocalVariable[{}]", table(t)),
		ResourceVariable { table: t } => format!("ResourceVariable[{}]", table(t)),
		ExceptionParameter { index } => format!("ExceptionParameter({index})"),
		InstanceOf(l) => format!("InstanceOf({})", lab(l)),
		New(l) => format!("New({})", lab(l)),
		ConstructorReference(l) => format!("ConstructorReference({})", lab(l)),
		MethodReference(l) => format!("MethodReference({})", lab(l)),
		Cast { label, index } => format!("Cast({},{index})", lab(label)),
		ConstructorInvocationTypeArgument { label, index } => format!("CtorInvTA({},{index})", lab(label)),
		MethodInvocationTypeArgument { label, index } => format!("MethInvTA({},{index})", lab(label)),
		ConstructorReferenceTypeArgument { label, index } => format!("CtorRefTA({},{index})", lab(label)),
		MethodReferenceTypeArgument { label, index } => format!("MethRefTA({},{index})", lab(label)),
	}
}

// ------------------------------------------------------------------------------------------------
// Recording<T>

pub struct Recording<T> {
	pub inner: T,
	pub sh: Rc<Shared>,
	c: usize,
	mk: &'static str,
	mi: usize,
	nf: usize,
	nm: usize,
	nr: usize,
}

impl<T> Recording<T> {
	fn sub<U>(&self, inner: U, mk: &'static str, mi: usize) -> Recording<U> {
		Recording { inner, sh: self.sh.clone(), c: self.c, mk, mi, nf: 0, nm: 0, nr: 0 }
	}
	fn with<U>(self, inner: U) -> Recording<U> {
		Recording { inner, sh: self.sh, c: self.c, mk: self.mk, mi: self.mi, nf: self.nf, nm: self.nm, nr: self.nr }
	}
	fn split(self) -> (T, Recording<()>) {
		(self.inner, Recording { inner: (), sh: self.sh, c: self.c, mk: self.mk, mi: self.mi, nf: self.nf, nm: self.nm, nr: self.nr })
	}
	fn ev(&self, lvl: &'static str, ev: &'static str, vis: &'static str, arg: String) {
		self.sh.log.borrow_mut().push(Ev { lvl, ev, c: self.c, mk: self.mk, mi: self.mi, vis, arg: shorten(arg), frame: String::new(), n: -1 });
	}
	fn set_last_n(&self, n: usize) {
		if let Some(e) = self.sh.log.borrow_mut().last_mut() {
			e.n = n as i64;
		}
	}
	fn ev_member(&self, lvl: &'static str, ev: &'static str, mk: &'static str, mi: usize, arg: String) {
		self.sh.log.borrow_mut().push(Ev { lvl, ev, c: self.c, mk, mi, vis: "", arg: shorten(arg), frame: String::new(), n: -1 });
	}
}

impl Recording<Vec<ClassFile>> {
	pub fn new(sh: Rc<Shared>) -> Self {
		Recording { inner: Vec::new(), sh, c: 0, mk: "", mi: 0, nf: 0, nm: 0, nr: 0 }
	}
}

impl MultiClassVisitor for Recording<Vec<ClassFile>> {
	type ClassVisitor = Recording<ClassFile>;
	type ClassResidual = Recording<Vec<ClassFile>>;

	fn visit_class(mut self, version: Version, access: ClassAccess, name: ObjClassName, super_class: Option<ObjClassName>, interfaces: Vec<ObjClassName>)
			-> Result<ControlFlow<Self, (Self::ClassResidual, Self::ClassVisitor)>> {
		let c = self.sh.class_no.get() + 1;
		self.sh.class_no.set(c);
		self.c = c;
		self.ev("multi", "visit_class", "", format!("{:?} {access:?} {name:?} {super_class:?} {interfaces:?}", duke::verif::version(&version)));
		if self.sh.declines.classes.contains(&c) {
			return Ok(ControlFlow::Break(self));
		}
		let (inner, me) = self.split();
		match inner.visit_class(version, access, name, super_class, interfaces)? {
			ControlFlow::Continue((vec, class)) => {
				let cv = me.sub(class, "", 0);
				Ok(ControlFlow::Continue((me.with(vec), cv)))
			},
			ControlFlow::Break(vec) => Ok(ControlFlow::Break(me.with(vec))),
		}
	}

	fn finish_class(this: Self::ClassResidual, class_visitor: Self::ClassVisitor) -> Result<Self> {
		this.ev("multi", "finish_class", "", String::new());
		let (vec, me) = this.split();
		Ok(me.with(<Vec<ClassFile> as MultiClassVisitor>::finish_class(vec, class_visitor.inner)?))
	}
}

/// The (type) annotation attributes: opened here, the list is collected by duke's own `Vec<Annotation>` /
/// `Vec<TypeAnnotation<T>>` visitors and handed to the wrapped builder (and digested) at finish.
macro_rules! annotation_methods {
	($lvl:expr, $trait:ident, $inner:ty, $target:ty) => {
		fn visit_annotations(self, visible: bool) -> Result<(Self::AnnotationsResidual, Self::AnnotationsVisitor)> {
			self.ev($lvl, "visit_annotations", vis(visible), String::new());
			Ok(((self, visible), Vec::new()))
		}
		fn finish_annotations((this, visible): Self::AnnotationsResidual, annotations: Self::AnnotationsVisitor) -> Result<Self> {
			this.ev($lvl, "finish_annotations", vis(visible), format!("{} {annotations:?}", annotations.len()));
			this.set_last_n(annotations.len());
			let (inner, me) = this.split();
			let (res, _empty) = <$inner as $trait>::visit_annotations(inner, visible)?;
			Ok(me.with(<$inner as $trait>::finish_annotations(res, annotations)?))
		}
		fn visit_type_annotations(self, visible: bool) -> Result<(Self::TypeAnnotationsResidual, Self::TypeAnnotationsVisitor)> {
			self.ev($lvl, "visit_type_annotations", vis(visible), String::new());
			Ok(((self, visible), Vec::new()))
		}
		fn finish_type_annotations((this, visible): Self::TypeAnnotationsResidual, annotations: Self::TypeAnnotationsVisitor) -> Result<Self> {
			this.ev($lvl, "finish_type_annotations", vis(visible), format!("{} {annotations:?}", annotations.len()));
			this.set_last_n(annotations.len());
			let (inner, me) = this.split();
			let (res, _empty) = <$inner as $trait>::visit_type_annotations(inner, visible)?;
			Ok(me.with(<$inner as $trait>::finish_type_annotations(res, annotations)?))
		}
	};
}

macro_rules! simple_event {
	($lvl:expr, $trait:ident, $inner:ty, $name:ident, $arg:ident : $t:ty) => {
		fn $name(&mut self, $arg: $t) -> Result<()> {
			self.ev($lvl, stringify!($name), "", dbg(&$arg));
			<$inner as $trait>::$name(&mut self.inner, $arg)
		}
	};
}

macro_rules! unknown_attribute_method {
	($lvl:expr, $trait:ident, $inner:ty) => {
		fn visit_unknown_attribute(&mut self, unknown_attribute: Attribute) -> Result<()> {
			self.ev($lvl, "visit_unknown_attribute", "", dbg(&unknown_attribute));
			<$inner as $trait>::visit_unknown_attribute(&mut self.inner, unknown_attribute)
		}
	};
}

macro_rules! dep_syn_method {
	($lvl:expr, $trait:ident, $inner:ty) => {
		fn visit_deprecated_and_synthetic_attribute(&mut self, deprecated: bool, synthetic: bool) -> Result<()> {
			self.ev($lvl, "visit_deprecated_and_synthetic_attribute", "", format!("{deprecated} {synthetic}"));
			<$inner as $trait>::visit_deprecated_and_synthetic_attribute(&mut self.inner, deprecated, synthetic)
		}
	};
}

impl ClassVisitor for Recording<ClassFile> {
	type AnnotationsVisitor = Vec<Annotation>;
	type AnnotationsResidual = (Self, bool);
	type TypeAnnotationsVisitor = Vec<TypeAnnotation<TargetInfoClass>>;
	type TypeAnnotationsResidual = (Self, bool);
	type RecordComponentVisitor = Recording<RecordComponent>;
	type RecordComponentResidual = Self;
	type FieldVisitor = Recording<Field>;
	type FieldResidual = Self;
	type MethodVisitor = Recording<Method>;
	type MethodResidual = Self;
	type UnknownAttribute = Attribute;

	fn interests(&self) -> ClassInterests {
		self.sh.mask.class
	}

	dep_syn_method!("class", ClassVisitor, ClassFile);
	simple_event!("class", ClassVisitor, ClassFile, visit_inner_classes, inner_classes: Vec<InnerClass>);
	simple_event!("class", ClassVisitor, ClassFile, visit_enclosing_method, enclosing_method: EnclosingMethod);
	simple_event!("class", ClassVisitor, ClassFile, visit_signature, signature: ClassSignature);
	simple_event!("class", ClassVisitor, ClassFile, visit_source_file, source_file: JavaString);
	simple_event!("class", ClassVisitor, ClassFile, visit_source_debug_extension, source_debug_extension: JavaString);
	annotation_methods!("class", ClassVisitor, ClassFile, TargetInfoClass);
	simple_event!("class", ClassVisitor, ClassFile, visit_module, module: Module);
	simple_event!("class", ClassVisitor, ClassFile, visit_module_packages, module_packages: Vec<PackageName>);
	simple_event!("class", ClassVisitor, ClassFile, visit_module_main_class, module_main_class: ClassName);
	simple_event!("class", ClassVisitor, ClassFile, visit_nest_host_class, nest_host_class: ClassName);
	simple_event!("class", ClassVisitor, ClassFile, visit_nest_members, nest_members: Vec<ClassName>);
	simple_event!("class", ClassVisitor, ClassFile, visit_permitted_subclasses, permitted_subclasses: Vec<ClassName>);
	unknown_attribute_method!("class", ClassVisitor, ClassFile);

	fn visit_record_component(mut self, name: RecordName, descriptor: FieldDescriptor)
			-> Result<ControlFlow<Self, (Self::RecordComponentResidual, Self::RecordComponentVisitor)>> {
		self.nr += 1;
		let i = self.nr;
		self.ev_member("class", "visit_record_component", "r", i, format!("{name:?} {descriptor:?}"));
		if self.sh.declines.rcs.contains(&i) {
			return Ok(ControlFlow::Break(self));
		}
		let (inner, me) = self.split();
		match inner.visit_record_component(name, descriptor)? {
			ControlFlow::Continue((class, rc)) => {
				let v = me.sub(rc, "r", i);
				Ok(ControlFlow::Continue((me.with(class), v)))
			},
			ControlFlow::Break(class) => Ok(ControlFlow::Break(me.with(class))),
		}
	}

	fn finish_record_component(this: Self::RecordComponentResidual, v: Self::RecordComponentVisitor) -> Result<Self> {
		this.ev_member("class", "finish_record_component", "r", v.mi, String::new());
		let (inner, me) = this.split();
		Ok(me.with(ClassFile::finish_record_component(inner, v.inner)?))
	}

	fn visit_field(mut self, access: FieldAccess, name: FieldName, descriptor: FieldDescriptor)
			-> Result<ControlFlow<Self, (Self::FieldResidual, Self::FieldVisitor)>> {
		self.nf += 1;
		let i = self.nf;
		self.ev_member("class", "visit_field", "f", i, format!("{access:?} {name:?} {descriptor:?}"));
		if self.sh.declines.fields.contains(&i) {
			return Ok(ControlFlow::Break(self));
		}
		let (inner, me) = self.split();
		match inner.visit_field(access, name, descriptor)? {
			ControlFlow::Continue((class, field)) => {
				let v = me.sub(field, "f", i);
				Ok(ControlFlow::Continue((me.with(class), v)))
			},
			ControlFlow::Break(class) => Ok(ControlFlow::Break(me.with(class))),
		}
	}

	fn finish_field(this: Self::FieldResidual, v: Self::FieldVisitor) -> Result<Self> {
		this.ev_member("class", "finish_field", "f", v.mi, String::new());
		let (inner, me) = this.split();
		Ok(me.with(ClassFile::finish_field(inner, v.inner)?))
	}

	fn visit_method(mut self, access: MethodAccess, name: MethodName, descriptor: MethodDescriptor)
			-> Result<ControlFlow<Self, (Self::MethodResidual, Self::MethodVisitor)>> {
		self.nm += 1;
		let i = self.nm;
		self.ev_member("class", "visit_method", "m", i, format!("{access:?} {name:?} {descriptor:?}"));
		if self.sh.declines.methods.contains(&i) {
			return Ok(ControlFlow::Break(self));
		}
		let (inner, me) = self.split();
		match inner.visit_method(access, name, descriptor)? {
			ControlFlow::Continue((class, method)) => {
				let v = me.sub(method, "m", i);
				Ok(ControlFlow::Continue((me.with(class), v)))
			},
			ControlFlow::Break(class) => Ok(ControlFlow::Break(me.with(class))),
		}
	}

	fn finish_method(this: Self::MethodResidual, v: Self::MethodVisitor) -> Result<Self> {
		this.ev_member("class", "finish_method", "m", v.mi, String::new());
		let (inner, me) = this.split();
		Ok(me.with(ClassFile::finish_method(inner, v.inner)?))
	}
}

impl FieldVisitor for Recording<Field> {
	type AnnotationsVisitor = Vec<Annotation>;
	type AnnotationsResidual = (Self, bool);
	type TypeAnnotationsVisitor = Vec<TypeAnnotation<TargetInfoField>>;
	type TypeAnnotationsResidual = (Self, bool);
	type UnknownAttribute = Attribute;

	fn interests(&self) -> FieldInterests {
		self.sh.mask.for_member(self.mi).field
	}

	dep_syn_method!("field", FieldVisitor, Field);
	simple_event!("field", FieldVisitor, Field, visit_constant_value, constant_value: ConstantValue);
	simple_event!("field", FieldVisitor, Field, visit_signature, signature: FieldSignature);
	annotation_methods!("field", FieldVisitor, Field, TargetInfoField);
	unknown_attribute_method!("field", FieldVisitor, Field);
}

impl RecordComponentVisitor for Recording<RecordComponent> {
	type AnnotationsVisitor = Vec<Annotation>;
	type AnnotationsResidual = (Self, bool);
	type TypeAnnotationsVisitor = Vec<TypeAnnotation<TargetInfoField>>;
	type TypeAnnotationsResidual = (Self, bool);
	type UnknownAttribute = Attribute;

	fn interests(&self) -> RecordComponentInterests {
		self.sh.mask.for_member(self.mi).rc
	}

	simple_event!("rc", RecordComponentVisitor, RecordComponent, visit_signature, signature: FieldSignature);
	annotation_methods!("rc", RecordComponentVisitor, RecordComponent, TargetInfoField);
	unknown_attribute_method!("rc", RecordComponentVisitor, RecordComponent);
}

impl MethodVisitor for Recording<Method> {
	type AnnotationsVisitor = Vec<Annotation>;
	type AnnotationsResidual = (Self, bool);
	type TypeAnnotationsVisitor = Vec<TypeAnnotation<TargetInfoMethod>>;
	type TypeAnnotationsResidual = (Self, bool);
	type AnnotationDefaultVisitor = Vec<ElementValue>;
	type AnnotationDefaultResidual = Self;
	type CodeVisitor = RecCode;
	type UnknownAttribute = Attribute;

	fn interests(&self) -> MethodInterests {
		self.sh.mask.for_member(self.mi).method
	}

	dep_syn_method!("method", MethodVisitor, Method);
	simple_event!("method", MethodVisitor, Method, visit_exceptions, exceptions: Vec<ClassName>);
	simple_event!("method", MethodVisitor, Method, visit_signature, signature: MethodSignature);
	annotation_methods!("method", MethodVisitor, Method, TargetInfoMethod);
	simple_event!("method", MethodVisitor, Method, visit_parameters, method_parameters: Vec<MethodParameter>);
	unknown_attribute_method!("method", MethodVisitor, Method);

	fn visit_annotation_default(self) -> Result<(Self::AnnotationDefaultResidual, Self::AnnotationDefaultVisitor)> {
		self.ev("method", "visit_annotation_default", "", String::new());
		Ok((self, Vec::new()))
	}

	fn finish_annotation_default(this: Self::AnnotationDefaultResidual, value: Self::AnnotationDefaultVisitor) -> Result<Self> {
		this.ev("method", "finish_annotation_default", "", dbg(&value));
		let (inner, me) = this.split();
		let (res, _empty) = inner.visit_annotation_default()?;
		Ok(me.with(Method::finish_annotation_default(res, value)?))
	}

	// never called by the reader or by accept(); duke's tree builder has todo!() here
	fn visit_annotable_parameter_count(&mut self) {
		self.ev("method", "visit_annotable_parameter_count", "", String::new());
	}
	fn visit_parameter_annotation(&mut self) {
		self.ev("method", "visit_parameter_annotation", "", String::new());
	}

	fn visit_code(&mut self) -> Result<Option<Self::CodeVisitor>> {
		self.ev("method", "visit_code", "", String::new());
		if self.sh.declines.codes.contains(&self.mi) {
			return Ok(None);
		}
		Ok(self.inner.visit_code()?.map(|code| RecCode {
			inner: code, sh: self.sh.clone(), c: self.c, mi: self.mi, start: self.sh.log.borrow().len(), labels: HashMap::new(), ninsn: 0,
		}))
	}

	fn finish_code(&mut self, mut code_visitor: Self::CodeVisitor) -> Result<()> {
		code_visitor.seal();
		self.ev("method", "finish_code", "", String::new());
		self.inner.finish_code(code_visitor.inner)
	}
}

pub struct RecCode {
	pub inner: Code,
	sh: Rc<Shared>,
	c: usize,
	mi: usize,
	/// index in the log of the first event of this code
	start: usize,
	/// label id -> position (instruction ordinal, 0-based; number of instructions for the last label)
	labels: HashMap<u16, usize>,
	ninsn: usize,
}

impl RecCode {
	fn raw(&self, ev: &'static str, vis: &'static str, arg: String, frame: String) {
		self.sh.log.borrow_mut().push(Ev { lvl: "code", ev, c: self.c, mk: "m", mi: self.mi, vis, arg, frame, n: -1 });
	}
	/// Resolves the label markers of this code's events to positions and shortens the digests.
	fn seal(&mut self) {
		let mut log = self.sh.log.borrow_mut();
		for e in log[self.start..].iter_mut() {
			e.arg = shorten(resolve_labels(&e.arg, &self.labels));
			e.frame = shorten(resolve_labels(&e.frame, &self.labels));
		}
	}
}

impl CodeVisitor for RecCode {
	type TypeAnnotationsVisitor = Vec<TypeAnnotation<TargetInfoCode>>;
	type TypeAnnotationsResidual = (Self, bool);
	type UnknownAttribute = Attribute;

	fn interests(&self) -> CodeInterests {
		let f = self.sh.mask.for_member(self.mi).code;
		CodeInterests {
			stack_map_table: f.stack_map_table,
			line_number_table: f.line_number_table,
			local_variable_table: f.local_variable_table,
			local_variable_type_table: f.local_variable_type_table,
			runtime_visible_type_annotations: f.runtime_visible_type_annotations,
			runtime_invisible_type_annotations: f.runtime_invisible_type_annotations,
			unknown_attributes: f.unknown_attributes,
		}
	}

	fn visit_max_stack_and_max_locals(&mut self, max_stack: u16, max_locals: u16) -> Result<()> {
		self.raw("visit_max_stack_and_max_locals", "", format!("{max_stack} {max_locals}"), String::new());
		self.inner.visit_max_stack_and_max_locals(max_stack, max_locals)
	}

	fn visit_exception_table(&mut self, exception_table: Vec<Exception>) -> Result<()> {
		let d = exception_table.iter().map(|e| format!("{}..{}>{}:{:?}", lab(&e.start), lab(&e.end), lab(&e.handler), e.catch)).collect::<Vec<_>>().join(";");
		self.raw("visit_exception_table", "", d, String::new());
		self.inner.visit_exception_table(exception_table)
	}

	fn visit_instruction(&mut self, label: Option<Label>, frame: Option<StackMapData>, instruction: Instruction) -> Result<()> {
		if let Some(l) = &label {
			self.labels.insert(duke::verif::label_id(l), self.ninsn);
		}
		self.raw("visit_instruction", "", insn_digest(&instruction), frame.as_ref().map(frame_digest).unwrap_or_default());
		self.ninsn += 1;
		self.inner.visit_instruction(label, frame, instruction)
	}

	fn visit_last_label(&mut self, last_label: Label) -> Result<()> {
		self.labels.insert(duke::verif::label_id(&last_label), self.ninsn);
		self.raw("visit_last_label", "", String::new(), String::new());
		self.inner.visit_last_label(last_label)
	}

	fn visit_line_numbers(&mut self, line_number_table: Vec<(Label, u16)>) -> Result<()> {
		let d = line_number_table.iter().map(|(l, n)| format!("{}:{n}", lab(l))).collect::<Vec<_>>().join(";");
		self.raw("visit_line_numbers", "", d, String::new());
		self.inner.visit_line_numbers(line_number_table)
	}

	fn visit_local_variables(&mut self, local_variables: Vec<Lv>) -> Result<()> {
		// rows of LocalVariableTable carry a descriptor ("t"), rows of LocalVariableTypeTable a signature ("y"); each kind is
		// subject to its own interest flag, so the event reports them apart: vis = kinds present, arg = "t" rows, frame = "y" rows
		let d = |want_sig: bool| local_variables.iter().filter(|v| if want_sig { v.signature.is_some() } else { v.descriptor.is_some() })
			.map(|v| format!("{} {:?} {:?} {:?} {}", range_digest(&v.range), v.name, v.descriptor, v.signature, v.index.index))
			.collect::<Vec<_>>().join(";");
		let t = local_variables.iter().any(|v| v.descriptor.is_some());
		let y = local_variables.iter().any(|v| v.signature.is_some());
		let vis = match (t, y) { (true, true) => "ty", (true, false) => "t", (false, true) => "y", (false, false) => "" };
		self.raw("visit_local_variables", vis, d(false), d(true));
		self.inner.visit_local_variables(local_variables)
	}

	fn visit_type_annotations(self, visible: bool) -> Result<(Self::TypeAnnotationsResidual, Self::TypeAnnotationsVisitor)> {
		self.raw("visit_type_annotations", vis(visible), String::new(), String::new());
		Ok(((self, visible), Vec::new()))
	}

	fn finish_type_annotations((mut this, visible): Self::TypeAnnotationsResidual, annotations: Self::TypeAnnotationsVisitor) -> Result<Self> {
		let d = annotations.iter().map(|a| format!("{} {:?} {:?}", target_code_digest(&a.type_reference), duke::verif::type_path(&a.type_path), a.annotation))
			.collect::<Vec<_>>().join(";");
		this.raw("finish_type_annotations", vis(visible), format!("{} {d}", annotations.len()), String::new());
		if let Some(e) = this.sh.log.borrow_mut().last_mut() {
			e.n = annotations.len() as i64;
		}
		let (res, _empty) = this.inner.visit_type_annotations(visible)?;
		this.inner = Code::finish_type_annotations(res, annotations)?;
		Ok(this)
	}

	fn visit_unknown_attribute(&mut self, unknown_attribute: Attribute) -> Result<()> {
		self.raw("visit_unknown_attribute", "", dbg(&unknown_attribute), String::new());
		self.inner.visit_unknown_attribute(unknown_attribute)
	}
}

// ------------------------------------------------------------------------------------------------
// a SimpleClassVisitor implementation (duke's blanket impl turns it into a ClassVisitor that is only interested
// in fields and methods); fields and methods are received by the recording member visitors

pub struct SimpleRec {
	me: Recording<()>,
	pub fields: Vec<Field>,
	pub methods: Vec<Method>,
}

impl SimpleClassVisitor for SimpleRec {
	type FieldVisitor = Recording<Field>;
	type MethodVisitor = Recording<Method>;

	fn visit_field(&mut self, access: FieldAccess, name: FieldName, descriptor: FieldDescriptor) -> Result<Option<Self::FieldVisitor>> {
		self.me.nf += 1;
		let i = self.me.nf;
		self.me.ev_member("class", "visit_field", "f", i, format!("{access:?} {name:?} {descriptor:?}"));
		if self.me.sh.declines.fields.contains(&i) {
			return Ok(None);
		}
		Ok(Some(self.me.sub(Field::new(access, name, descriptor), "f", i)))
	}
	fn finish_field(&mut self, v: Self::FieldVisitor) -> Result<()> {
		self.me.ev_member("class", "finish_field", "f", v.mi, String::new());
		self.fields.push(v.inner);
		Ok(())
	}
	fn visit_method(&mut self, access: MethodAccess, name: MethodName, descriptor: MethodDescriptor) -> Result<Option<Self::MethodVisitor>> {
		self.me.nm += 1;
		let i = self.me.nm;
		self.me.ev_member("class", "visit_method", "m", i, format!("{access:?} {name:?} {descriptor:?}"));
		if self.me.sh.declines.methods.contains(&i) {
			return Ok(None);
		}
		Ok(Some(self.me.sub(Method::new(access, name, descriptor), "m", i)))
	}
	fn finish_method(&mut self, v: Self::MethodVisitor) -> Result<()> {
		self.me.ev_member("class", "finish_method", "m", v.mi, String::new());
		self.methods.push(v.inner);
		Ok(())
	}
}

/// Multi-class front of `SimpleRec`: records visit_class / finish_class, declines chosen classes.
pub struct SimpleMulti {
	me: Recording<()>,
	pub classes: Vec<(usize, usize)>,
}

impl SimpleMulti {
	pub fn new(sh: Rc<Shared>) -> Self {
		SimpleMulti { me: Recording { inner: (), sh, c: 0, mk: "", mi: 0, nf: 0, nm: 0, nr: 0 }, classes: Vec::new() }
	}
}

impl MultiClassVisitor for SimpleMulti {
	type ClassVisitor = SimpleRec;
	type ClassResidual = SimpleMulti;

	fn visit_class(mut self, version: Version, access: ClassAccess, name: ObjClassName, super_class: Option<ObjClassName>, interfaces: Vec<ObjClassName>)
			-> Result<ControlFlow<Self, (Self::ClassResidual, Self::ClassVisitor)>> {
		let c = self.me.sh.class_no.get() + 1;
		self.me.sh.class_no.set(c);
		self.me.c = c;
		self.me.ev("multi", "visit_class", "", format!("{:?} {access:?} {name:?} {super_class:?} {interfaces:?}", duke::verif::version(&version)));
		if self.me.sh.declines.classes.contains(&c) {
			return Ok(ControlFlow::Break(self));
		}
		let cv = SimpleRec { me: self.me.sub((), "", 0), fields: Vec::new(), methods: Vec::new() };
		Ok(ControlFlow::Continue((self, cv)))
	}

	fn finish_class(mut this: Self::ClassResidual, class_visitor: Self::ClassVisitor) -> Result<Self> {
		this.me.ev("multi", "finish_class", "", String::new());
		this.classes.push((class_visitor.fields.len(), class_visitor.methods.len()));
		Ok(this)
	}
}
