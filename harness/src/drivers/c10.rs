//! C10: Mappings::remove_dummy(ns), MappingsDiff::insert_dummy_and_contract_inner_names().
//!
//! ops  {"op":"remove","M":tree,"t":i(1-based)} -> {ok,v}
//!      {"op":"insert","D":diff}                 -> diff
use anyhow::{bail, Context, Result};
use rand::rngs::StdRng;
use rand::{Rng, SeedableRng};
use serde_json::{json, Value};
use quill::tree::mappings::Mappings;
use quill::tree::mappings_diff::MappingsDiff;
use crate::gen_quill::*;
use crate::proj_quill::*;
use super::res_tree;

fn rm<const N: usize>(v: &Value) -> Result<Value> {
	let m: Mappings<N, Ns> = json_to_tree(&v["M"])?;
	let t = v["t"].as_u64().context("t")? as usize;
	let ns = v["M"]["ns"][t - 1].as_str().context("ns name")?.to_owned();
	Ok(res_tree(m.remove_dummy(&ns)))
}

pub fn exec(v: &Value) -> Result<Value> {
	match v["op"].as_str().context("op")? {
		"cycle" => super::cycle::exec(v),
		"remove" => match v["M"]["ns"].as_array().map(|a| a.len()) {
			Some(2) => rm::<2>(v), Some(3) => rm::<3>(v), Some(4) => rm::<4>(v),
			n => bail!("unsupported N {n:?}"),
		},
		"insert" => {
			let d = json_to_diff(&v["D"])?;
			match d.insert_dummy_and_contract_inner_names() {
				Ok(r) => Ok(diff_to_json(&r)),
				Err(_) => Ok(json!({"ok": false})),
			}
		},
		op => bail!("C10: unknown op {op}"),
	}
}

const PH: &[(&str, &[&str])] = &[
	("c", &["C_12", "net/minecraft/unmapped/C_7", "pkg/C_1", "C", "xC_2", "real/Name", "C_"]),
	("f", &["f_1", "f_", "af_", "xf_3", "field", "f"]),
	("m", &["m_1", "m_", "<init>", "<clinit>", "am_", "method", "xm_2"]),
	("p", &["p_0", "p_", "ap_", "param", "xp_1"]),
];

fn ph_name(r: &mut StdRng, kind: &str, uniq: usize) -> String {
	let pool = PH.iter().find(|(k, _)| *k == kind).map(|(_, p)| *p).unwrap_or(&["x"]);
	let n = *pick(r, pool);
	if n.starts_with('<') || r.gen_bool(0.5) { n.to_owned() } else { format!("{n}{uniq}") }
}

/// replaces the names of namespace t (0-based) by a mix of placeholder-like and real names
fn dummify(r: &mut StdRng, n: &mut Value, t: usize, ctr: &mut usize) {
	if let Some(Value::Object(k)) = n.get_mut("kids") {
		for (_, c) in k.iter_mut() {
			*ctr += 1;
			let kind = c["kind"].as_str().unwrap_or("").to_owned();
			if r.gen_bool(0.7) {
				let nm = if r.gen_bool(0.1) { String::new() } else { ph_name(r, &kind, *ctr) };
				if t > 0 || kind == "p" { c["names"][t] = json!(nm); }
			}
			if r.gen_bool(0.6) { c["doc"] = json!([]); }
			dummify(r, c, t, ctr);
		}
	}
}

pub fn gen(seed: u64, n: usize) -> Result<Vec<Value>> {
	let mut r = StdRng::seed_from_u64(seed ^ 0xC10);
	let mut out = vec![];
	while out.len() < n {
		let nn = *pick(&mut r, &[2usize, 2, 3, 4]);
		let cfg = TreeCfg { n: nn, classes: r.gen_range(0..14), p_missing: 0.1, unicode: r.gen_bool(0.2), param_src: r.gen_bool(0.3), ..TreeCfg::default() };
		let mut m = gen_tree(&mut r, &cfg);
		let t = r.gen_range(2..=nn);
		let mut ctr = 0;
		dummify(&mut r, &mut m, t - 1, &mut ctr);
		out.push(json!({"op": "remove", "M": m, "t": t}));
		// diff side: the real diff of two related two-namespace trees, with removals and additions in it
		let cfg2 = TreeCfg { n: 2, classes: r.gen_range(0..10), p_missing: 0.0, ..TreeCfg::default() };
		let a = gen_tree(&mut r, &cfg2);
		let mut b = a.clone();
		for _ in 0..r.gen_range(1..4) { edit_tree(&mut r, &cfg2, &mut b, 1, false); }
		let (am, bm): (Mappings<2, Ns>, Mappings<2, Ns>) = (json_to_tree(&a)?, json_to_tree(&b)?);
		if let Ok(d) = MappingsDiff::diff(&am, &bm) {
			out.push(json!({"op": "insert", "D": diff_to_json(&d)}));
		}
	}
	out.truncate(n);
	Ok(out)
}
