//! C19: maven_dependency_resolver::get_maven_dependencies over an in-memory repository set;
//! Display / parse round trips of MavenCoord, DependencyScope, FoundDependency.
//!
//! ops  {"op":"resolve","U":{"poms":[Pom..],"repos":[Repo..]},"roots":[Root..]}
//!                                   -> {"ok":true,"v":[{"g","a","v","c","t","s","r"}..]} | {"ok":false,"v":[]}
//!      {"op":"coord","x":{"g","a","v","c","t"}}            -> {"ok":b,"v":components of parse(print(x)),"text":printed}
//!      {"op":"scope","x":"compile"|..}                       -> {"ok":b,"v":parse(print(x))}
//!      {"op":"found","x":{"g","a","v","c","t","s","u"}}    -> {"ok":b,"v":components of parse(print(x))}
//! Pom  {"g","a","v","pk":"jar"|"pom","par":[]|[Id],"inh":bool,"mg":[Managed..],"deps":[Dep..]}
//! Id   {"g","a","v"};  Repo {"name","url","has":[Id..]}
//! Managed {"g","a","c":[]|[x],"t":""|type,"v","s":""|scope|"import"}
//! Dep  {"g","a","c":[]|[x],"t":""|type,"v":""|version,"s":""|scope,"o":""|"true"|"false"}   ("" = element omitted)
//! Root {"g","a","v","c":[]|[x],"t":type,"s":scope}
//!
//! The driver only converts: abstract universe -> POM XML text (parsed by serde_xml_rs into the
//! crate's own MavenPom, as the crate's tests do) -> Downloader keyed by the Maven repository layout
//! URL; result -> abstract list.  It computes no expectation.
use std::collections::HashMap;
use std::future::Future;
use std::str::FromStr;
use anyhow::{Context, Result};
use serde_json::{json, Value};
use maven_dependency_resolver::{get_maven_dependencies, DependencyScope, Downloader, FoundDependency};
use maven_dependency_resolver::coord::MavenCoord;
use maven_dependency_resolver::maven_pom::MavenPom;
use maven_dependency_resolver::resolver::Resolver;

#[path = "c19_gen.rs"]
mod c19_gen;

/// In-memory repositories: URL of a .pom file -> its XML text.
struct MemRepos(HashMap<String, String>);

impl Downloader for MemRepos {
	#[allow(clippy::manual_async_fn)]
	fn get_maven_pom(&self, url: &str) -> impl Future<Output = Result<Option<MavenPom>>> + Send {
		async move { self.0.get(url).map(|xml| serde_xml_rs::from_str(xml).context("maven pom")).transpose() }
	}
}

/// All futures of the resolver are ready at once (the downloader never waits): poll in a loop.
fn block_on<F: Future>(f: F) -> F::Output {
	use std::sync::Arc;
	use std::task::{Context as Cx, Poll, Wake, Waker};
	struct Noop;
	impl Wake for Noop { fn wake(self: Arc<Self>) {} }
	let waker = Waker::from(Arc::new(Noop));
	let mut cx = Cx::from_waker(&waker);
	let mut f = std::pin::pin!(f);
	loop {
		if let Poll::Ready(x) = f.as_mut().poll(&mut cx) { return x; }
	}
}

fn s(v: &Value) -> String { v.as_str().unwrap_or("").to_owned() }
fn opt1(v: &Value) -> Option<String> { v.as_array().and_then(|a| a.first()).map(s) }
fn arr(v: &Value) -> &[Value] { v.as_array().map(|a| a.as_slice()).unwrap_or(&[]) }

fn esc(x: &str) -> String { x.replace('&', "&amp;").replace('<', "&lt;").replace('>', "&gt;") }
fn el(out: &mut String, tag: &str, val: &str) {
	out.push_str(&format!("<{tag}>{}</{tag}>", esc(val)));
}
fn el_opt(out: &mut String, tag: &str, val: &str) { if !val.is_empty() { el(out, tag, val); } }

fn dep_xml(out: &mut String, d: &Value) {
	out.push_str("<dependency>");
	el(out, "groupId", &s(&d["g"]));
	el(out, "artifactId", &s(&d["a"]));
	el_opt(out, "version", &s(&d["v"]));
	el_opt(out, "type", &s(&d["t"]));
	if let Some(c) = opt1(&d["c"]) { el(out, "classifier", &c); }
	el_opt(out, "scope", &s(&d["s"]));
	el_opt(out, "optional", &s(&d["o"]));
	out.push_str("</dependency>");
}

/// Abstract POM -> XML text.
pub fn pom_xml(p: &Value) -> String {
	let mut o = String::from("<project><modelVersion>4.0.0</modelVersion>");
	if let Some(par) = arr(&p["par"]).first() {
		o.push_str("<parent>");
		el(&mut o, "groupId", &s(&par["g"]));
		el(&mut o, "artifactId", &s(&par["a"]));
		el(&mut o, "version", &s(&par["v"]));
		o.push_str("</parent>");
	}
	let inh = p["inh"].as_bool().unwrap_or(false);
	if !inh { el(&mut o, "groupId", &s(&p["g"])); }
	el(&mut o, "artifactId", &s(&p["a"]));
	if !inh { el(&mut o, "version", &s(&p["v"])); }
	if s(&p["pk"]) != "jar" { el(&mut o, "packaging", &s(&p["pk"])); }
	if !arr(&p["mg"]).is_empty() {
		o.push_str("<dependencyManagement><dependencies>");
		for d in arr(&p["mg"]) { dep_xml(&mut o, d); }
		o.push_str("</dependencies></dependencyManagement>");
	}
	if !arr(&p["deps"]).is_empty() {
		o.push_str("<dependencies>");
		for d in arr(&p["deps"]) { dep_xml(&mut o, d); }
		o.push_str("</dependencies>");
	}
	o.push_str("</project>");
	o
}

/// Maven repository layout: where the .pom of g:a:v lives below a repository URL.
fn pom_url(repo_url: &str, g: &str, a: &str, v: &str) -> String {
	format!("{repo_url}{}{}/{a}/{v}/{a}-{v}.pom", if repo_url.ends_with('/') { "" } else { "/" }, g.replace('.', "/"))
}

/// abstract scope name <-> enum variant, written out by hand (independent of Display / FromStr under test)
fn scope_of(x: &str) -> Result<DependencyScope> {
	Ok(match x {
		"compile" => DependencyScope::Compile,
		"runtime" => DependencyScope::Runtime,
		"test" => DependencyScope::Test,
		"system" => DependencyScope::System,
		"provided" => DependencyScope::Provided,
		_ => anyhow::bail!("C19: bad scope {x:?} in record"),
	})
}
fn scope_name(x: DependencyScope) -> &'static str {
	match x {
		DependencyScope::Compile => "compile",
		DependencyScope::Runtime => "runtime",
		DependencyScope::Test => "test",
		DependencyScope::System => "system",
		DependencyScope::Provided => "provided",
	}
}

fn coord_of(x: &Value) -> MavenCoord {
	MavenCoord { group: s(&x["g"]), artifact: s(&x["a"]), version: s(&x["v"]), classifier: opt1(&x["c"]), type_: s(&x["t"]) }
}
fn coord_json(c: &MavenCoord) -> Value {
	json!({"g": c.group, "a": c.artifact, "v": c.version, "c": c.classifier.iter().collect::<Vec<_>>(), "t": c.type_})
}

fn resolve(v: &Value) -> Result<Value> {
	let u = &v["U"];
	let mut poms: HashMap<(String, String, String), String> = HashMap::new();
	for p in arr(&u["poms"]) {
		let xml = pom_xml(p);
		// the generated text must be a POM the crate's model accepts: otherwise the harness is wrong
		serde_xml_rs::from_str::<MavenPom>(&xml).with_context(|| format!("harness rendered an unreadable POM: {xml}"))?;
		poms.insert((s(&p["g"]), s(&p["a"]), s(&p["v"])), xml);
	}
	let mut files = HashMap::new();
	let mut names: Vec<(String, String)> = vec![];
	for r in arr(&u["repos"]) {
		let url = s(&r["url"]);
		for id in arr(&r["has"]) {
			let key = (s(&id["g"]), s(&id["a"]), s(&id["v"]));
			let xml = poms.get(&key).with_context(|| format!("repository serves unknown pom {key:?}"))?;
			files.insert(pom_url(&url, &key.0, &key.1, &key.2), xml.clone());
		}
		names.push((s(&r["name"]), url));
	}
	let resolvers: Vec<Resolver> = names.iter().map(|(n, u)| Resolver::new(n, u)).collect();
	let mut roots = vec![];
	for r in arr(&v["roots"]) {
		roots.push((coord_of(r), scope_of(&s(&r["s"]))?));
	}
	let dl = MemRepos(files);
	Ok(match block_on(get_maven_dependencies(&dl, &resolvers, &roots)) {
		Ok(list) => {
			let out: Vec<Value> = list.iter().map(|f| {
				let mut j = coord_json(&f.coord);
				j["s"] = json!(scope_name(f.scope));
				j["r"] = json!(f.resolver.name);
				j
			}).collect();
			json!({"ok": true, "v": out})
		},
		Err(_) => json!({"ok": false, "v": []}),
	})
}

pub fn exec(v: &Value) -> Result<Value> {
	if v["op"] == "dl" { return super::dl::exec(v); }
	let op = v["op"].as_str().context("op")?;
	Ok(match op {
		"resolve" => resolve(v)?,
		"coord" => {
			let c = coord_of(&v["x"]);
			let text = c.to_string();
			match MavenCoord::from_str(&text) {
				Ok(b) => json!({"ok": true, "v": coord_json(&b), "text": text}),
				Err(_) => json!({"ok": false, "v": [], "text": text}),
			}
		},
		"scope" => {
			let text = scope_of(&s(&v["x"]))?.to_string();
			match DependencyScope::from_str(&text) {
				Ok(b) => json!({"ok": true, "v": scope_name(b), "text": text}),
				Err(_) => json!({"ok": false, "v": [], "text": text}),
			}
		},
		"found" => {
			let x = &v["x"];
			let url = s(&x["u"]);
			let f = FoundDependency { resolver: Resolver::new("some name", &url), coord: coord_of(x), scope: scope_of(&s(&x["s"]))? };
			let text = f.to_string();
			match FoundDependency::try_from(text.as_str()) {
				Ok(b) => {
					let mut j = coord_json(&b.coord);
					j["s"] = json!(scope_name(b.scope));
					j["u"] = json!(b.resolver.maven);
					json!({"ok": true, "v": j, "text": text})
				},
				Err(_) => json!({"ok": false, "v": [], "text": text}),
			}
		},
		_ => anyhow::bail!("C19: unknown op {op}"),
	})
}

pub fn gen(seed: u64, n: usize) -> Result<Vec<Value>> { c19_gen::gen(seed, n) }
