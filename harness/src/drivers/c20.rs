//! C20: raw_class_file reads and writes class files byte-exactly.
//!
//! Abstract raw value (spec/duke/RawLayout.tla): a JSON tree mirroring the crate's public structs field by field.
//! A structure is an object of its fields; a member of a tagged union additionally has "k" = the variant
//! (JVMS spelling: UninitializedThis / Uninitialized; ChopFrame's `k` travels as "chop", BootstrapMethodsEntry's
//! `boostrap_arguments` as "bootstrap_arguments"); tables are arrays; u1/u2 are numbers; a u4 datum
//! (Integer/Float/Long/Double payload) is [high half, low half] because TLC integers are 32 bit signed.
//!
//! ops  {"op":"value","x":raw value,"lay":[[role,width]..]?,"wf":bool,"frag":k?,"before":raw value?}
//!          (frag: the read-back gets at most k bytes per call of Read::read; before: another class read and dropped right before it)
//!          build the crate's ClassFile from x, to_bytes(), write(), length(), read() of the written bytes, cross-read
//!          by cfkit::parse::parse_class and duke::read_class
//!          -> {"len":bytes written,"announced":length(),"bytes":[..],"write_same":write()==to_bytes(),
//!              "counts":[[role,width,value]..] (the written bytes cut along "lay", the cells with a role kept),
//!              "back_ok","back_equal","back_panic", "cfkit_ok","cfkit_err","duke_ok","duke_panic"}
//!      {"op":"bytes","id":"corpus:<path>" | "sample:<name>:<encoding>" | "kitchen:<encoding>"}
//!          ClassFile::read of the class, to_bytes(), compared with the input
//!          -> {"n","in_ok" (cfkit accepts the input),"in_kinds":[constant kinds],"in_attrs":[attribute names],
//!              "in_wide","in_foreign":[modelled attribute names the independent reader kept opaque],"in_cells":[[role,width,value]..] (cfkit's count/length spans of the input),
//!              "read_ok","read_panic","read_err","out_n","first_diff","announced","out_cfkit_ok","out_duke_ok",
//!              "in_duke_ok","out_cells","diff":{off,role,path,attr,in_v,out_v}|[],"has_x","x":raw value read (small classes only)|[]}
//! The driver converts and observes; every judgement is made by Trace_RawLayout / the vectors of MC_RawLayout.
use std::collections::{BTreeMap, BTreeSet, HashMap};
use std::io::Cursor;
use std::panic::{catch_unwind, AssertUnwindSafe};
use std::sync::OnceLock;
use anyhow::{anyhow, bail, Context, Result};
use rand::rngs::StdRng;
use rand::seq::SliceRandom;
use rand::{Rng, SeedableRng};
use serde_json::{json, Map, Value};
use raw_class_file as r;
use cfkit::parse::{parse_class, Span};

// ------------------------------------------------------------------------------------------------
// JSON -> raw value
static EMPTY: Vec<Value> = Vec::new();

fn num(v: &Value, k: &str) -> Result<u64> {
	v.get(k).and_then(Value::as_u64).with_context(|| format!("number field `{k}` in {}", short(v)))
}
fn short(v: &Value) -> String { let s = v.to_string(); if s.len() > 200 { format!("{}...", &s[..200]) } else { s } }
fn u8_(v: &Value, k: &str) -> Result<u8> { u8::try_from(num(v, k)?).with_context(|| format!("`{k}` does not fit u8")) }
fn u16_(v: &Value, k: &str) -> Result<u16> { u16::try_from(num(v, k)?).with_context(|| format!("`{k}` does not fit u16")) }
fn halves(v: &Value, k: &str) -> Result<u32> {
	let a = arr(v, k)?;
	if a.len() != 2 { bail!("`{k}` is not a pair of halves") }
	let (h, l) = (a[0].as_u64().context("half")?, a[1].as_u64().context("half")?);
	if h > 0xffff || l > 0xffff { bail!("half out of range") }
	Ok(((h as u32) << 16) | l as u32)
}
fn arr<'a>(v: &'a Value, k: &str) -> Result<&'a Vec<Value>> {
	match v.get(k) {
		Some(Value::Array(a)) => Ok(a),
		Some(Value::Object(m)) if m.is_empty() => Ok(&EMPTY),
		_ => bail!("table field `{k}` in {}", short(v)),
	}
}
fn kind(v: &Value) -> Result<&str> { v.get("k").and_then(Value::as_str).with_context(|| format!("variant key in {}", short(v))) }
fn table<T>(v: &Value, k: &str, f: impl Fn(&Value) -> Result<T>) -> Result<Vec<T>> { arr(v, k)?.iter().map(f).collect() }
fn u8s(v: &Value, k: &str) -> Result<Vec<u8>> {
	arr(v, k)?.iter().map(|x| x.as_u64().and_then(|n| u8::try_from(n).ok()).with_context(|| format!("byte in `{k}`"))).collect()
}
fn u16s(v: &Value, k: &str) -> Result<Vec<u16>> {
	arr(v, k)?.iter().map(|x| x.as_u64().and_then(|n| u16::try_from(n).ok()).with_context(|| format!("u2 in `{k}`"))).collect()
}

/// structures whose fields are all u2: both directions from one field list
macro_rules! plain16 {
	($from:ident, $to:ident, $t:ident { $($f:ident),* }) => {
		fn $from(v: &Value) -> Result<r::$t> { Ok(r::$t { $($f: u16_(v, stringify!($f))?),* }) }
		fn $to(x: &r::$t) -> Value { json!({ $(stringify!($f): x.$f),* }) }
	};
}
plain16!(exc_from, exc_to, ExceptionTableEntry { start_pc, end_pc, handler_pc, catch_type });
plain16!(ic_from, ic_to, InnerClassesEntry { inner_class_info_index, outer_class_info_index, inner_name_index, inner_class_access_flags });
plain16!(lnt_from, lnt_to, LineNumberTableEntry { start_pc, line_number });
plain16!(lvt_from, lvt_to, LocalVariableTableEntry { start_pc, length, name_index, descriptor_index, index });
plain16!(lvtt_from, lvtt_to, LocalVariableTypeTableEntry { start_pc, length, name_index, signature_index, index });
plain16!(mp_from, mp_to, MethodParametersEntry { name_index, access_flags });
plain16!(req_from, req_to, ModuleRequiresEntry { requires_index, requires_flags, requires_version_index });

fn cp_from(v: &Value) -> Result<r::CpInfo> {
	use r::CpInfo as C;
	Ok(match kind(v)? {
		"Utf8" => C::Utf8 { bytes: u8s(v, "bytes")? },
		"Integer" => C::Integer { bytes: halves(v, "bytes")? },
		"Float" => C::Float { bytes: halves(v, "bytes")? },
		"Long" => C::Long { high_bytes: halves(v, "high_bytes")?, low_bytes: halves(v, "low_bytes")? },
		"Double" => C::Double { high_bytes: halves(v, "high_bytes")?, low_bytes: halves(v, "low_bytes")? },
		"Class" => C::Class { name_index: u16_(v, "name_index")? },
		"String" => C::String { string_index: u16_(v, "string_index")? },
		"Fieldref" => C::Fieldref { class_index: u16_(v, "class_index")?, name_and_type_index: u16_(v, "name_and_type_index")? },
		"Methodref" => C::Methodref { class_index: u16_(v, "class_index")?, name_and_type_index: u16_(v, "name_and_type_index")? },
		"InterfaceMethodref" => C::InterfaceMethodref { class_index: u16_(v, "class_index")?, name_and_type_index: u16_(v, "name_and_type_index")? },
		"NameAndType" => C::NameAndType { name_index: u16_(v, "name_index")?, descriptor_index: u16_(v, "descriptor_index")? },
		"MethodHandle" => C::MethodHandle { reference_kind: u8_(v, "reference_kind")?, reference_index: u16_(v, "reference_index")? },
		"MethodType" => C::MethodType { descriptor_index: u16_(v, "descriptor_index")? },
		"Dynamic" => C::Dynamic { bootstrap_method_attr_index: u16_(v, "bootstrap_method_attr_index")?, name_and_type_index: u16_(v, "name_and_type_index")? },
		"InvokeDynamic" => C::InvokeDynamic { bootstrap_method_attr_index: u16_(v, "bootstrap_method_attr_index")?, name_and_type_index: u16_(v, "name_and_type_index")? },
		"Module" => C::Module { name_index: u16_(v, "name_index")? },
		"Package" => C::Package { name_index: u16_(v, "name_index")? },
		k => bail!("unknown constant kind {k}"),
	})
}
fn h(x: u32) -> Value { json!([x >> 16, x & 0xffff]) }
fn cp_to(c: &r::CpInfo) -> Value {
	use r::CpInfo as C;
	match c {
		C::Utf8 { bytes } => json!({"k": "Utf8", "bytes": bytes}),
		C::Integer { bytes } => json!({"k": "Integer", "bytes": h(*bytes)}),
		C::Float { bytes } => json!({"k": "Float", "bytes": h(*bytes)}),
		C::Long { high_bytes, low_bytes } => json!({"k": "Long", "high_bytes": h(*high_bytes), "low_bytes": h(*low_bytes)}),
		C::Double { high_bytes, low_bytes } => json!({"k": "Double", "high_bytes": h(*high_bytes), "low_bytes": h(*low_bytes)}),
		C::Class { name_index } => json!({"k": "Class", "name_index": name_index}),
		C::String { string_index } => json!({"k": "String", "string_index": string_index}),
		C::Fieldref { class_index, name_and_type_index } => json!({"k": "Fieldref", "class_index": class_index, "name_and_type_index": name_and_type_index}),
		C::Methodref { class_index, name_and_type_index } => json!({"k": "Methodref", "class_index": class_index, "name_and_type_index": name_and_type_index}),
		C::InterfaceMethodref { class_index, name_and_type_index } => json!({"k": "InterfaceMethodref", "class_index": class_index, "name_and_type_index": name_and_type_index}),
		C::NameAndType { name_index, descriptor_index } => json!({"k": "NameAndType", "name_index": name_index, "descriptor_index": descriptor_index}),
		C::MethodHandle { reference_kind, reference_index } => json!({"k": "MethodHandle", "reference_kind": reference_kind, "reference_index": reference_index}),
		C::MethodType { descriptor_index } => json!({"k": "MethodType", "descriptor_index": descriptor_index}),
		C::Dynamic { bootstrap_method_attr_index, name_and_type_index } => json!({"k": "Dynamic", "bootstrap_method_attr_index": bootstrap_method_attr_index, "name_and_type_index": name_and_type_index}),
		C::InvokeDynamic { bootstrap_method_attr_index, name_and_type_index } => json!({"k": "InvokeDynamic", "bootstrap_method_attr_index": bootstrap_method_attr_index, "name_and_type_index": name_and_type_index}),
		C::Module { name_index } => json!({"k": "Module", "name_index": name_index}),
		C::Package { name_index } => json!({"k": "Package", "name_index": name_index}),
	}
}

fn vt_from(v: &Value) -> Result<r::VerificationTypeInfo> {
	use r::VerificationTypeInfo as T;
	Ok(match kind(v)? {
		"Top" => T::Top {}, "Integer" => T::Integer {}, "Float" => T::Float {}, "Double" => T::Double {}, "Long" => T::Long {},
		"Null" => T::Null {}, "UninitializedThis" => T::UnintializedThis {},
		"Object" => T::Object { cpool_index: u16_(v, "cpool_index")? },
		"Uninitialized" => T::Unintialized { offset: u16_(v, "offset")? },
		k => bail!("unknown verification type {k}"),
	})
}
fn vt_to(t: &r::VerificationTypeInfo) -> Value {
	use r::VerificationTypeInfo as T;
	match t {
		T::Top {} => json!({"k": "Top"}), T::Integer {} => json!({"k": "Integer"}), T::Float {} => json!({"k": "Float"}),
		T::Double {} => json!({"k": "Double"}), T::Long {} => json!({"k": "Long"}), T::Null {} => json!({"k": "Null"}),
		T::UnintializedThis {} => json!({"k": "UninitializedThis"}),
		T::Object { cpool_index } => json!({"k": "Object", "cpool_index": cpool_index}),
		T::Unintialized { offset } => json!({"k": "Uninitialized", "offset": offset}),
	}
}
fn one<T>(v: &Value, k: &str, f: impl Fn(&Value) -> Result<T>) -> Result<T> { f(v.get(k).with_context(|| format!("field `{k}` in {}", short(v)))?) }

fn frame_from(v: &Value) -> Result<r::StackMapFrame> {
	use r::StackMapFrame as F;
	Ok(match kind(v)? {
		"SameFrame" => F::SameFrame { offset_delta: u8_(v, "offset_delta")? },
		"SameLocals1StackItemFrame" => F::SameLocals1StackItemFrame { offset_delta: u8_(v, "offset_delta")?, stack: one(v, "stack", vt_from)? },
		"SameLocals1StackItemFrameExtended" => F::SameLocals1StackItemFrameExtended { offset_delta: u16_(v, "offset_delta")?, stack: one(v, "stack", vt_from)? },
		"ChopFrame" => F::ChopFrame { k: u8_(v, "chop")?, offset_delta: u16_(v, "offset_delta")? },
		"SameFrameExtended" => F::SameFrameExtended { offset_delta: u16_(v, "offset_delta")? },
		"AppendFrame" => F::AppendFrame { offset_delta: u16_(v, "offset_delta")?, locals: table(v, "locals", vt_from)? },
		"FullFrame" => F::FullFrame { offset_delta: u16_(v, "offset_delta")?, locals: table(v, "locals", vt_from)?, stack: table(v, "stack", vt_from)? },
		k => bail!("unknown frame kind {k}"),
	})
}
fn list<T>(s: &[T], f: impl Fn(&T) -> Value) -> Value { Value::Array(s.iter().map(f).collect()) }
fn frame_to(f: &r::StackMapFrame) -> Value {
	use r::StackMapFrame as F;
	match f {
		F::SameFrame { offset_delta } => json!({"k": "SameFrame", "offset_delta": offset_delta}),
		F::SameLocals1StackItemFrame { offset_delta, stack } => json!({"k": "SameLocals1StackItemFrame", "offset_delta": offset_delta, "stack": vt_to(stack)}),
		F::SameLocals1StackItemFrameExtended { offset_delta, stack } => json!({"k": "SameLocals1StackItemFrameExtended", "offset_delta": offset_delta, "stack": vt_to(stack)}),
		F::ChopFrame { k, offset_delta } => json!({"k": "ChopFrame", "chop": k, "offset_delta": offset_delta}),
		F::SameFrameExtended { offset_delta } => json!({"k": "SameFrameExtended", "offset_delta": offset_delta}),
		F::AppendFrame { offset_delta, locals } => json!({"k": "AppendFrame", "offset_delta": offset_delta, "locals": list(locals, vt_to)}),
		F::FullFrame { offset_delta, locals, stack } => json!({"k": "FullFrame", "offset_delta": offset_delta, "locals": list(locals, vt_to), "stack": list(stack, vt_to)}),
	}
}

fn anno_from(v: &Value) -> Result<r::Annotation> {
	Ok(r::Annotation { type_index: u16_(v, "type_index")?, element_value_pairs: table(v, "element_value_pairs", |p| {
		Ok(r::ElementValuePairsEntry { element_name_index: u16_(p, "element_name_index")?, value: one(p, "value", ev_from)? })
	})? })
}
fn anno_to(a: &r::Annotation) -> Value {
	json!({"type_index": a.type_index, "element_value_pairs": list(&a.element_value_pairs, |p| json!({"element_name_index": p.element_name_index, "value": ev_to(&p.value)}))})
}
fn ev_from(v: &Value) -> Result<r::ElementValue> {
	use r::ElementValue as E;
	let c = || u16_(v, "const_value_index");
	Ok(match kind(v)? {
		"Byte" => E::Byte { const_value_index: c()? }, "Char" => E::Char { const_value_index: c()? }, "Double" => E::Double { const_value_index: c()? },
		"Float" => E::Float { const_value_index: c()? }, "Integer" => E::Integer { const_value_index: c()? }, "Long" => E::Long { const_value_index: c()? },
		"Short" => E::Short { const_value_index: c()? }, "Boolean" => E::Boolean { const_value_index: c()? }, "String" => E::String { const_value_index: c()? },
		"Enum" => E::Enum { type_name_index: u16_(v, "type_name_index")?, const_name_index: u16_(v, "const_name_index")? },
		"Class" => E::Class { class_info_index: u16_(v, "class_info_index")? },
		"Annotation" => E::Annotation { annotation_value: one(v, "annotation_value", anno_from)? },
		"Array" => E::Array { values: table(v, "values", ev_from)? },
		k => bail!("unknown element value kind {k}"),
	})
}
fn ev_to(e: &r::ElementValue) -> Value {
	use r::ElementValue as E;
	let c = |k: &str, i: &u16| json!({"k": k, "const_value_index": i});
	match e {
		E::Byte { const_value_index } => c("Byte", const_value_index), E::Char { const_value_index } => c("Char", const_value_index),
		E::Double { const_value_index } => c("Double", const_value_index), E::Float { const_value_index } => c("Float", const_value_index),
		E::Integer { const_value_index } => c("Integer", const_value_index), E::Long { const_value_index } => c("Long", const_value_index),
		E::Short { const_value_index } => c("Short", const_value_index), E::Boolean { const_value_index } => c("Boolean", const_value_index),
		E::String { const_value_index } => c("String", const_value_index),
		E::Enum { type_name_index, const_name_index } => json!({"k": "Enum", "type_name_index": type_name_index, "const_name_index": const_name_index}),
		E::Class { class_info_index } => json!({"k": "Class", "class_info_index": class_info_index}),
		E::Annotation { annotation_value } => json!({"k": "Annotation", "annotation_value": anno_to(annotation_value)}),
		E::Array { values } => json!({"k": "Array", "values": list(values, ev_to)}),
	}
}
fn pa_from(v: &Value) -> Result<r::ParameterAnnotationEntry> { Ok(r::ParameterAnnotationEntry { annotations: table(v, "annotations", anno_from)? }) }
fn pa_to(p: &r::ParameterAnnotationEntry) -> Value { json!({"annotations": list(&p.annotations, anno_to)}) }

fn attr_from(v: &Value) -> Result<r::AttributeInfo> {
	use r::AttributeInfo as A;
	let attribute_name_index = u16_(v, "attribute_name_index")?;
	Ok(match kind(v)? {
		"ConstantValue" => A::ConstantValue { attribute_name_index, constantvalue_index: u16_(v, "constantvalue_index")? },
		"Code" => A::Code {
			attribute_name_index, max_stack: u16_(v, "max_stack")?, max_locals: u16_(v, "max_locals")?, code: u8s(v, "code")?,
			exception_table: table(v, "exception_table", exc_from)?, attributes: table(v, "attributes", attr_from)?,
		},
		"StackMapTable" => A::StackMapTable { attribute_name_index, entries: table(v, "entries", frame_from)? },
		"Exceptions" => A::Exceptions { attribute_name_index, exception_index_table: u16s(v, "exception_index_table")? },
		"InnerClasses" => A::InnerClasses { attribute_name_index, classes: table(v, "classes", ic_from)? },
		"EnclosingMethod" => A::EnclosingMethod { attribute_name_index, class_index: u16_(v, "class_index")?, method_index: u16_(v, "method_index")? },
		"Synthetic" => A::Synthetic { attribute_name_index },
		"Signature" => A::Signature { attribute_name_index, signature_index: u16_(v, "signature_index")? },
		"SourceFile" => A::SourceFile { attribute_name_index, sourcefile_index: u16_(v, "sourcefile_index")? },
		"SourceDebugExtension" => A::SourceDebugExtension { attribute_name_index, debug_extension: u8s(v, "debug_extension")? },
		"LineNumberTable" => A::LineNumberTable { attribute_name_index, line_number_table: table(v, "line_number_table", lnt_from)? },
		"LocalVariableTable" => A::LocalVariableTable { attribute_name_index, local_variable_table: table(v, "local_variable_table", lvt_from)? },
		"LocalVariableTypeTable" => A::LocalVariableTypeTable { attribute_name_index, local_variable_type_table: table(v, "local_variable_type_table", lvtt_from)? },
		"Deprecated" => A::Deprecated { attribute_name_index },
		"RuntimeVisibleAnnotations" => A::RuntimeVisibleAnnotations { attribute_name_index, annotations: table(v, "annotations", anno_from)? },
		"RuntimeInvisibleAnnotations" => A::RuntimeInvisibleAnnotations { attribute_name_index, annotations: table(v, "annotations", anno_from)? },
		"RuntimeVisibleParameterAnnotations" => A::RuntimeVisibleParameterAnnotations { attribute_name_index, parameter_annotations: table(v, "parameter_annotations", pa_from)? },
		"RuntimeInvisibleParameterAnnotations" => A::RuntimeInvisibleParameterAnnotations { attribute_name_index, parameter_annotations: table(v, "parameter_annotations", pa_from)? },
		"AnnotationDefault" => A::AnnotationDefault { attribute_name_index, default_value: one(v, "default_value", ev_from)? },
		"BootstrapMethods" => A::BootstrapMethods { attribute_name_index, bootstrap_methods: table(v, "bootstrap_methods", |b| {
			Ok(r::BootstrapMethodsEntry { bootstrap_method_ref: u16_(b, "bootstrap_method_ref")?, boostrap_arguments: u16s(b, "bootstrap_arguments")? })
		})? },
		"MethodParameters" => A::MethodParameters { attribute_name_index, parameters: table(v, "parameters", mp_from)? },
		"Module" => A::Module {
			attribute_name_index, module_name_index: u16_(v, "module_name_index")?, module_flags: u16_(v, "module_flags")?,
			module_version_index: u16_(v, "module_version_index")?,
			requires: table(v, "requires", req_from)?,
			exports: table(v, "exports", |e| Ok(r::ModuleExportsEntry { exports_index: u16_(e, "exports_index")?, exports_flags: u16_(e, "exports_flags")?, exports_to_index: u16s(e, "exports_to_index")? }))?,
			opens: table(v, "opens", |e| Ok(r::ModuleOpensEntry { opens_index: u16_(e, "opens_index")?, opens_flags: u16_(e, "opens_flags")?, opens_to_index: u16s(e, "opens_to_index")? }))?,
			uses_index: u16s(v, "uses_index")?,
			provides: table(v, "provides", |e| Ok(r::ModuleProvidesEntry { provides_index: u16_(e, "provides_index")?, provides_with_index: u16s(e, "provides_with_index")? }))?,
		},
		"ModulePackages" => A::ModulePackages { attribute_name_index, package_index: u16s(v, "package_index")? },
		"ModuleMainClass" => A::ModuleMainClass { attribute_name_index, main_class_index: u16_(v, "main_class_index")? },
		"NestHost" => A::NestHost { attribute_name_index, host_class_index: u16_(v, "host_class_index")? },
		"NestMembers" => A::NestMembers { attribute_name_index, classes: u16s(v, "classes")? },
		"Record" => A::Record { attribute_name_index, components: table(v, "components", |c| {
			Ok(r::RecordComponentInfo { name_index: u16_(c, "name_index")?, descriptor_index: u16_(c, "descriptor_index")?, attributes: table(c, "attributes", attr_from)? })
		})? },
		"PermittedSubclasses" => A::PermittedSubclasses { attribute_name_index, classes: u16s(v, "classes")? },
		"Other" => A::Other { attribute_name_index, info: u8s(v, "info")? },
		k => bail!("unknown attribute kind {k}"),
	})
}

fn attr_to(a: &r::AttributeInfo) -> Value {
	use r::AttributeInfo as A;
	let mut v = match a {
		A::ConstantValue { constantvalue_index, .. } => json!({"k": "ConstantValue", "constantvalue_index": constantvalue_index}),
		A::Code { max_stack, max_locals, code, exception_table, attributes, .. } => json!({
			"k": "Code", "max_stack": max_stack, "max_locals": max_locals, "code": code,
			"exception_table": list(exception_table, exc_to), "attributes": list(attributes, attr_to)}),
		A::StackMapTable { entries, .. } => json!({"k": "StackMapTable", "entries": list(entries, frame_to)}),
		A::Exceptions { exception_index_table, .. } => json!({"k": "Exceptions", "exception_index_table": exception_index_table}),
		A::InnerClasses { classes, .. } => json!({"k": "InnerClasses", "classes": list(classes, ic_to)}),
		A::EnclosingMethod { class_index, method_index, .. } => json!({"k": "EnclosingMethod", "class_index": class_index, "method_index": method_index}),
		A::Synthetic { .. } => json!({"k": "Synthetic"}),
		A::Signature { signature_index, .. } => json!({"k": "Signature", "signature_index": signature_index}),
		A::SourceFile { sourcefile_index, .. } => json!({"k": "SourceFile", "sourcefile_index": sourcefile_index}),
		A::SourceDebugExtension { debug_extension, .. } => json!({"k": "SourceDebugExtension", "debug_extension": debug_extension}),
		A::LineNumberTable { line_number_table, .. } => json!({"k": "LineNumberTable", "line_number_table": list(line_number_table, lnt_to)}),
		A::LocalVariableTable { local_variable_table, .. } => json!({"k": "LocalVariableTable", "local_variable_table": list(local_variable_table, lvt_to)}),
		A::LocalVariableTypeTable { local_variable_type_table, .. } => json!({"k": "LocalVariableTypeTable", "local_variable_type_table": list(local_variable_type_table, lvtt_to)}),
		A::Deprecated { .. } => json!({"k": "Deprecated"}),
		A::RuntimeVisibleAnnotations { annotations, .. } => json!({"k": "RuntimeVisibleAnnotations", "annotations": list(annotations, anno_to)}),
		A::RuntimeInvisibleAnnotations { annotations, .. } => json!({"k": "RuntimeInvisibleAnnotations", "annotations": list(annotations, anno_to)}),
		A::RuntimeVisibleParameterAnnotations { parameter_annotations, .. } => json!({"k": "RuntimeVisibleParameterAnnotations", "parameter_annotations": list(parameter_annotations, pa_to)}),
		A::RuntimeInvisibleParameterAnnotations { parameter_annotations, .. } => json!({"k": "RuntimeInvisibleParameterAnnotations", "parameter_annotations": list(parameter_annotations, pa_to)}),
		A::AnnotationDefault { default_value, .. } => json!({"k": "AnnotationDefault", "default_value": ev_to(default_value)}),
		A::BootstrapMethods { bootstrap_methods, .. } => json!({"k": "BootstrapMethods", "bootstrap_methods": list(bootstrap_methods, |b| json!({"bootstrap_method_ref": b.bootstrap_method_ref, "bootstrap_arguments": b.boostrap_arguments}))}),
		A::MethodParameters { parameters, .. } => json!({"k": "MethodParameters", "parameters": list(parameters, mp_to)}),
		A::Module { module_name_index, module_flags, module_version_index, requires, exports, opens, uses_index, provides, .. } => json!({
			"k": "Module", "module_name_index": module_name_index, "module_flags": module_flags, "module_version_index": module_version_index,
			"requires": list(requires, req_to),
			"exports": list(exports, |e| json!({"exports_index": e.exports_index, "exports_flags": e.exports_flags, "exports_to_index": e.exports_to_index})),
			"opens": list(opens, |e| json!({"opens_index": e.opens_index, "opens_flags": e.opens_flags, "opens_to_index": e.opens_to_index})),
			"uses_index": uses_index,
			"provides": list(provides, |e| json!({"provides_index": e.provides_index, "provides_with_index": e.provides_with_index}))}),
		A::ModulePackages { package_index, .. } => json!({"k": "ModulePackages", "package_index": package_index}),
		A::ModuleMainClass { main_class_index, .. } => json!({"k": "ModuleMainClass", "main_class_index": main_class_index}),
		A::NestHost { host_class_index, .. } => json!({"k": "NestHost", "host_class_index": host_class_index}),
		A::NestMembers { classes, .. } => json!({"k": "NestMembers", "classes": classes}),
		A::Record { components, .. } => json!({"k": "Record", "components": list(components, |c| json!({"name_index": c.name_index, "descriptor_index": c.descriptor_index, "attributes": list(&c.attributes, attr_to)}))}),
		A::PermittedSubclasses { classes, .. } => json!({"k": "PermittedSubclasses", "classes": classes}),
		A::Other { info, .. } => json!({"k": "Other", "info": info}),
		// a variant this projection does not know (a change of the repository that models one more attribute must not stop the
		// harness from building): it travels as its debug text, which no value of the specification equals
		#[allow(unreachable_patterns)]
		other => json!({"k": "Unmodelled", "debug": format!("{other:?}")}),
	};
	#[allow(unreachable_patterns)]
	let idx = match a {
		A::ConstantValue { attribute_name_index, .. } | A::Code { attribute_name_index, .. } | A::StackMapTable { attribute_name_index, .. }
		| A::Exceptions { attribute_name_index, .. } | A::InnerClasses { attribute_name_index, .. } | A::EnclosingMethod { attribute_name_index, .. }
		| A::Synthetic { attribute_name_index } | A::Signature { attribute_name_index, .. } | A::SourceFile { attribute_name_index, .. }
		| A::SourceDebugExtension { attribute_name_index, .. } | A::LineNumberTable { attribute_name_index, .. }
		| A::LocalVariableTable { attribute_name_index, .. } | A::LocalVariableTypeTable { attribute_name_index, .. }
		| A::Deprecated { attribute_name_index } | A::RuntimeVisibleAnnotations { attribute_name_index, .. }
		| A::RuntimeInvisibleAnnotations { attribute_name_index, .. } | A::RuntimeVisibleParameterAnnotations { attribute_name_index, .. }
		| A::RuntimeInvisibleParameterAnnotations { attribute_name_index, .. } | A::AnnotationDefault { attribute_name_index, .. }
		| A::BootstrapMethods { attribute_name_index, .. } | A::MethodParameters { attribute_name_index, .. } | A::Module { attribute_name_index, .. }
		| A::ModulePackages { attribute_name_index, .. } | A::ModuleMainClass { attribute_name_index, .. } | A::NestHost { attribute_name_index, .. }
		| A::NestMembers { attribute_name_index, .. } | A::Record { attribute_name_index, .. } | A::PermittedSubclasses { attribute_name_index, .. }
		| A::Other { attribute_name_index, .. } => *attribute_name_index,
		_ => 0,
	};
	v.as_object_mut().expect("object").insert("attribute_name_index".into(), json!(idx));
	v
}

fn member_fields(v: &Value) -> Result<(u16, u16, u16, Vec<r::AttributeInfo>)> {
	Ok((u16_(v, "access_flags")?, u16_(v, "name_index")?, u16_(v, "descriptor_index")?, table(v, "attributes", attr_from)?))
}
pub fn class_from(v: &Value) -> Result<r::ClassFile> {
	Ok(r::ClassFile {
		minor_version: u16_(v, "minor_version")?, major_version: u16_(v, "major_version")?,
		constant_pool: table(v, "constant_pool", cp_from)?,
		access_flags: u16_(v, "access_flags")?, this_class: u16_(v, "this_class")?, super_class: u16_(v, "super_class")?,
		interfaces: u16s(v, "interfaces")?,
		fields: table(v, "fields", |f| { let (access_flags, name_index, descriptor_index, attributes) = member_fields(f)?; Ok(r::FieldInfo { access_flags, name_index, descriptor_index, attributes }) })?,
		methods: table(v, "methods", |f| { let (access_flags, name_index, descriptor_index, attributes) = member_fields(f)?; Ok(r::MethodInfo { access_flags, name_index, descriptor_index, attributes }) })?,
		attributes: table(v, "attributes", attr_from)?,
	})
}
pub fn class_to(c: &r::ClassFile) -> Value {
	json!({
		"minor_version": c.minor_version, "major_version": c.major_version, "constant_pool": list(&c.constant_pool, cp_to),
		"access_flags": c.access_flags, "this_class": c.this_class, "super_class": c.super_class, "interfaces": c.interfaces,
		"fields": list(&c.fields, |f| json!({"access_flags": f.access_flags, "name_index": f.name_index, "descriptor_index": f.descriptor_index, "attributes": list(&f.attributes, attr_to)})),
		"methods": list(&c.methods, |f| json!({"access_flags": f.access_flags, "name_index": f.name_index, "descriptor_index": f.descriptor_index, "attributes": list(&f.attributes, attr_to)})),
		"attributes": list(&c.attributes, attr_to),
	})
}

// ------------------------------------------------------------------------------------------------
// observation helpers
fn be(b: &[u8]) -> u64 { b.iter().fold(0u64, |a, x| (a << 8) | *x as u64) }

/// Cuts `bytes` along the cell widths of `lay` and keeps the cells that carry a role.
fn cut(bytes: &[u8], lay: &[Value]) -> Value {
	let mut off = 0usize;
	let mut out = Vec::new();
	for c in lay {
		let role = c.get(0).and_then(Value::as_str).unwrap_or("");
		let w = c.get(1).and_then(Value::as_u64).unwrap_or(0) as usize;
		if off + w > bytes.len() { break; }
		if !role.is_empty() { out.push(json!([role, w, be(&bytes[off..off + w])])); }
		off += w;
	}
	Value::Array(out)
}

/// cfkit's count / length spans, without those inside structures the crate keeps as bytes (instructions, type annotations).
fn count_cells(bytes: &[u8], spans: &[Span]) -> Value {
	Value::Array(spans.iter()
		.filter(|s| (s.class == "count" || s.class == "length") && s.role != "switch_npairs" && !s.path.contains("TypeAnnotations"))
		.map(|s| json!([s.role, s.len, be(&bytes[s.off..s.off + s.len])])).collect())
}

fn cross_cfkit(bytes: &[u8]) -> (bool, String) {
	match catch_unwind(AssertUnwindSafe(|| parse_class(bytes))) {
		Ok(Ok(_)) => (true, String::new()),
		Ok(Err(e)) => (false, e.to_string()),
		Err(_) => (false, "cfkit panicked".into()),
	}
}
fn cross_duke(bytes: &[u8]) -> (bool, bool) {
	match catch_unwind(AssertUnwindSafe(|| duke::read_class(&mut Cursor::new(bytes)).is_ok())) {
		Ok(ok) => (ok, false),
		Err(_) => (false, true),
	}
}

/// A reader that hands out at most `k` bytes per call (k = 0: whatever is asked for): `Read::read` may return short counts,
/// what was read may not depend on how the stream delivers its bytes.
struct Frag<'a> { inner: Cursor<&'a [u8]>, k: usize }
impl std::io::Read for Frag<'_> {
	fn read(&mut self, buf: &mut [u8]) -> std::io::Result<usize> {
		let n = if self.k == 0 { buf.len() } else { buf.len().min(self.k) };
		self.inner.read(&mut buf[..n])
	}
}
fn frag_of(v: &Value) -> usize { v.get("frag").and_then(Value::as_u64).unwrap_or(0) as usize }

fn exec_value(v: &Value) -> Result<Value> {
	let x = v.get("x").context("x")?;
	let c = class_from(x)?;
	let bytes = c.to_bytes();
	let mut w = Vec::new();
	let write_ok = c.write(&mut super::FragW::new(&mut w)).is_ok();
	let announced = c.length();
	// history: another class read (and dropped) on this thread right before - what is read may not depend on it
	if let Some(b) = v.get("before").filter(|b| b.get("constant_pool").is_some()) {
		let before = class_from(b)?.to_bytes();
		let _ = catch_unwind(AssertUnwindSafe(|| r::ClassFile::read(&mut Cursor::new(&before)).map(drop)));
	}
	let back = catch_unwind(AssertUnwindSafe(|| r::ClassFile::read(&mut Frag { inner: Cursor::new(&bytes[..]), k: frag_of(v) })));
	let (back_ok, back_equal, back_panic) = match &back {
		Ok(Ok(c2)) => (true, *c2 == c, false),
		Ok(Err(_)) => (false, false, false),
		Err(_) => (false, false, true),
	};
	let counts = match v.get("lay") { Some(Value::Array(l)) => cut(&bytes, l), _ => json!([]) };
	let (cfkit_ok, cfkit_err) = cross_cfkit(&bytes);
	let (duke_ok, duke_panic) = cross_duke(&bytes);
	Ok(json!({
		"len": bytes.len(), "announced": announced, "bytes": bytes, "write_same": write_ok && w == bytes, "counts": counts,
		"back_ok": back_ok, "back_equal": back_equal, "back_panic": back_panic,
		"cfkit_ok": cfkit_ok, "cfkit_err": cfkit_err, "duke_ok": duke_ok, "duke_panic": duke_panic,
	}))
}

// ------------------------------------------------------------------------------------------------
// class files by id
fn corpus() -> &'static HashMap<String, Vec<u8>> {
	static C: OnceLock<HashMap<String, Vec<u8>>> = OnceLock::new();
	C.get_or_init(|| cfkit::corpus::corpus_classes("thorough").into_iter().collect())
}
fn sample_facts() -> &'static HashMap<String, Value> {
	static S: OnceLock<HashMap<String, Value>> = OnceLock::new();
	S.get_or_init(|| cfkit::samples::sample_classes().into_iter().collect())
}
fn class_bytes(id: &str) -> Result<Vec<u8>> {
	let enc = |name: &str| cfkit::asm::standard_encodings().into_iter().find(|(n, _)| *n == name).map(|(_, e)| e).with_context(|| format!("encoding {name}"));
	if let Some(p) = id.strip_prefix("corpus:") {
		return corpus().get(p).cloned().with_context(|| format!("no corpus class {p}"));
	}
	if let Some(e) = id.strip_prefix("kitchen:") {
		return cfkit::asm::assemble(&cfkit::samples::kitchen_sink_facts(), &enc(e)?).map_err(|e| anyhow!("assemble: {e:?}"));
	}
	if let Some(rest) = id.strip_prefix("sample:") {
		let (name, e) = rest.rsplit_once(':').context("sample id")?;
		let f = sample_facts().get(name).with_context(|| format!("no sample {name}"))?;
		return cfkit::asm::assemble(f, &enc(e)?).map_err(|e| anyhow!("assemble: {e:?}"));
	}
	bail!("unknown class id {id}")
}

/// name of the innermost attribute a span path lies in (`method[2].attr[0]:Code.attr[1]` -> attribute 1 of the Code)
fn enclosing_attr(path: &str, attr_names: &BTreeMap<String, String>) -> String {
	let Some(p) = path.rfind("attr[") else { return String::new() };
	let close = match path[p..].find(']') { Some(c) => p + c + 1, None => return String::new() };
	attr_names.get(&path[..close]).cloned().unwrap_or_default()
}

/// names of the attributes the independent reader kept opaque (facts: "unknown": [{"name", "bytes"}..] at every level)
fn opaque_names(facts: &Value, out: &mut BTreeSet<String>) {
	match facts {
		Value::Array(a) => a.iter().for_each(|e| opaque_names(e, out)),
		Value::Object(m) => for (k, v) in m {
			if k == "unknown" {
				for u in v.as_array().unwrap_or(&EMPTY) { if let Some(n) = u.get("name").and_then(Value::as_str) { out.insert(n.to_owned()); } }
			} else {
				opaque_names(v, out);
			}
		},
		_ => {},
	}
}

const X_LIMIT: usize = 40000;

fn exec_bytes(v: &Value) -> Result<Value> {
	let id = v.get("id").and_then(Value::as_str).context("id")?;
	let input = class_bytes(id)?;
	let n = input.len();
	let mut g = Map::new();
	g.insert("n".into(), json!(n));
	// what an independent strict reader sees in the input
	let parsed = catch_unwind(AssertUnwindSafe(|| parse_class(&input))).ok().and_then(|p| p.ok());
	g.insert("in_ok".into(), json!(parsed.is_some()));
	let mut attr_names: BTreeMap<String, String> = BTreeMap::new();   // path of the attribute header -> name
	let mut in_attrs: BTreeSet<String> = BTreeSet::new();
	let mut in_kinds: BTreeSet<String> = BTreeSet::new();
	if let Some(p) = &parsed {
		let mut utf8: HashMap<u64, String> = HashMap::new();
		let mut lens: HashMap<String, u64> = HashMap::new();
		for s in &p.spans {
			if s.role == "cp_utf8_len" { lens.insert(s.path.clone(), be(&input[s.off..s.off + s.len])); }
			if s.role == "cp_utf8_bytes" {
				if let Some(i) = s.path.strip_prefix("cp[").and_then(|t| t.strip_suffix(']')).and_then(|t| t.parse::<u64>().ok()) {
					utf8.insert(i, String::from_utf8_lossy(&input[s.off..s.off + s.len]).into_owned());
				}
			}
		}
		for s in &p.spans {
			if s.role == "attr_name" {
				let name = utf8.get(&be(&input[s.off..s.off + s.len])).cloned().unwrap_or_default();
				in_attrs.insert(name.clone());
				attr_names.insert(s.path.clone(), name);
			}
		}
		for k in p.raw.get("pool").and_then(Value::as_array).unwrap_or(&EMPTY) {
			if let Some(k) = k.as_str() { if k != "-" { in_kinds.insert(k.to_owned()); } }
		}
		g.insert("in_cells".into(), count_cells(&input, &p.spans));
		let mut foreign = BTreeSet::new();
		opaque_names(&p.facts, &mut foreign);
		g.insert("in_foreign".into(), json!(foreign.into_iter().filter(|n| ATTR_KINDS.contains(&n.as_str()) && n != "Other").collect::<Vec<_>>()));
	} else {
		g.insert("in_cells".into(), json!([]));
		g.insert("in_foreign".into(), json!([]));
	}
	g.insert("in_wide".into(), json!(in_kinds.contains("Long") || in_kinds.contains("Double")));
	g.insert("in_kinds".into(), json!(in_kinds));
	g.insert("in_attrs".into(), json!(in_attrs));
	// the crate
	let read = catch_unwind(AssertUnwindSafe(|| r::ClassFile::read(&mut Frag { inner: Cursor::new(&input[..]), k: frag_of(v) })));
	let (read_ok, read_panic, read_err) = match &read {
		Ok(Ok(_)) => (true, false, String::new()),
		Ok(Err(e)) => (false, false, e.to_string()),
		Err(_) => (false, true, String::new()),
	};
	g.insert("read_ok".into(), json!(read_ok));
	g.insert("read_panic".into(), json!(read_panic));
	g.insert("read_err".into(), json!(read_err));
	let (mut out_n, mut first_diff, mut announced) = (json!(-1), json!(-1), json!(-1));
	// absent observations are false / [] (TLC's JSON reader has no null)
	let (mut out_cfkit_ok, mut out_duke_ok, mut out_cells, mut diff, mut x) = (json!(false), json!(false), json!([]), json!([]), json!([]));
	g.insert("in_duke_ok".into(), json!(cross_duke(&input).0));
	if let Ok(Ok(c)) = &read {
		let out = c.to_bytes();
		out_n = json!(out.len());
		announced = json!(c.length());
		let fd = input.iter().zip(out.iter()).position(|(a, b)| a != b).or(if out.len() != n { Some(out.len().min(n)) } else { None });
		first_diff = json!(fd.map(|o| o as i64).unwrap_or(-1));
		if out == input {
			out_cfkit_ok = json!(parsed.is_some());
			out_cells = g.get("in_cells").cloned().unwrap_or(json!([]));
			out_duke_ok = json!(cross_duke(&out).0);
		} else {
			let po = catch_unwind(AssertUnwindSafe(|| parse_class(&out))).ok().and_then(|p| p.ok());
			out_cfkit_ok = json!(po.is_some());
			out_cells = po.map(|p| count_cells(&out, &p.spans)).unwrap_or(json!([]));
			out_duke_ok = json!(cross_duke(&out).0);
		}
		if let (Some(o), Some(p)) = (fd, &parsed) {
			if let Some(s) = p.spans.iter().find(|s| s.off <= o && o < s.off + s.len) {
				let val = |b: &[u8]| if s.len <= 4 && s.off + s.len <= b.len() { json!(be(&b[s.off..s.off + s.len])) } else { json!(-1) };
				diff = json!({"off": o, "role": s.role, "path": s.path, "attr": enclosing_attr(&s.path, &attr_names), "in_v": val(&input), "out_v": val(&out)});
			} else {
				diff = json!({"off": o, "role": "beyond-the-class", "path": "", "attr": "", "in_v": -1, "out_v": -1});
			}
		}
		if n <= X_LIMIT { x = class_to(c); }
		// a value with a variant the specification's layout tables do not have is judged by the byte-level laws alone
		if x.to_string().contains("\"k\":\"Unmodelled\"") { x = json!([]); }
	}
	g.insert("out_n".into(), out_n);
	g.insert("first_diff".into(), first_diff);
	g.insert("announced".into(), announced);
	g.insert("out_cfkit_ok".into(), out_cfkit_ok);
	g.insert("out_duke_ok".into(), out_duke_ok);
	g.insert("out_cells".into(), out_cells);
	g.insert("diff".into(), diff);
	g.insert("has_x".into(), json!(x.is_object()));
	g.insert("x".into(), x);
	Ok(Value::Object(g))
}

pub fn exec(v: &Value) -> Result<Value> {
	match v.get("op").and_then(Value::as_str) {
		Some("value") => exec_value(v),
		Some("bytes") => exec_bytes(v),
		o => bail!("C20: unknown op {o:?}"),
	}
}

// ------------------------------------------------------------------------------------------------
// random raw values: every attribute kind at every level, tables of 0..6 elements, nesting up to 3, numbers over the
// whole range of their width; attributes are named through the pool by the JVMS slot rule
const ATTR_KINDS: [&str; 29] = ["ConstantValue", "Code", "StackMapTable", "Exceptions", "InnerClasses", "EnclosingMethod", "Synthetic", "Signature",
	"SourceFile", "SourceDebugExtension", "LineNumberTable", "LocalVariableTable", "LocalVariableTypeTable", "Deprecated",
	"RuntimeVisibleAnnotations", "RuntimeInvisibleAnnotations", "RuntimeVisibleParameterAnnotations", "RuntimeInvisibleParameterAnnotations",
	"AnnotationDefault", "BootstrapMethods", "MethodParameters", "Module", "ModulePackages", "ModuleMainClass", "NestHost", "NestMembers",
	"Record", "PermittedSubclasses", "Other"];
const CP_KINDS: [&str; 17] = ["Utf8", "Integer", "Float", "Long", "Double", "Class", "String", "Fieldref", "Methodref", "InterfaceMethodref",
	"NameAndType", "MethodHandle", "MethodType", "Dynamic", "InvokeDynamic", "Module", "Package"];
const OTHER_NAMES: [&str; 4] = ["RuntimeVisibleTypeAnnotations", "RuntimeInvisibleTypeAnnotations", "Xy", "code"];

struct G { rnd: StdRng, pool: Vec<Value>, names: HashMap<String, usize>, wide: bool }

impl G {
	fn u16v(&mut self) -> u16 {
		match self.rnd.gen_range(0..10) { 0 => 0, 1 => 255, 2 => 256, 3 => 65535, 4 => self.rnd.gen_range(0..8), _ => self.rnd.gen() }
	}
	fn u8v(&mut self) -> u8 { match self.rnd.gen_range(0..6) { 0 => 0, 1 => 255, _ => self.rnd.gen() } }
	fn hv(&mut self) -> Value { json!([self.u16v(), self.u16v()]) }
	fn n(&mut self, max: usize) -> usize { if self.rnd.gen_bool(0.25) { 0 } else { self.rnd.gen_range(0..=max) } }
	fn u16list(&mut self, max: usize) -> Value { let n = self.n(max); Value::Array((0..n).map(|_| json!(self.u16v())).collect()) }
	fn bytes(&mut self, max: usize) -> Value { let n = self.n(max); Value::Array((0..n).map(|_| json!(self.u8v())).collect()) }
	fn obj16(&mut self, fields: &[&str]) -> Value { Value::Object(fields.iter().map(|f| (f.to_string(), json!(self.u16v()))).collect()) }

	fn filler(&mut self) -> Value {
		let kinds: Vec<&str> = if self.wide { CP_KINDS.to_vec() } else { CP_KINDS.iter().copied().filter(|k| *k != "Long" && *k != "Double").collect() };
		let k = if self.wide && self.rnd.gen_bool(0.4) { ["Long", "Double"][self.rnd.gen_range(0..2)] } else { kinds[self.rnd.gen_range(0..kinds.len())] };
		let mut v = match k {
			"Utf8" => json!({"bytes": self.bytes(8)}),
			"Integer" | "Float" => json!({"bytes": self.hv()}),
			"Long" | "Double" => json!({"high_bytes": self.hv(), "low_bytes": self.hv()}),
			"Class" | "Module" | "Package" => self.obj16(&["name_index"]),
			"String" => self.obj16(&["string_index"]),
			"Fieldref" | "Methodref" | "InterfaceMethodref" => self.obj16(&["class_index", "name_and_type_index"]),
			"NameAndType" => self.obj16(&["name_index", "descriptor_index"]),
			"MethodHandle" => json!({"reference_kind": self.u8v(), "reference_index": self.u16v()}),
			"MethodType" => self.obj16(&["descriptor_index"]),
			_ => self.obj16(&["bootstrap_method_attr_index", "name_and_type_index"]),
		};
		v["k"] = json!(k);
		v
	}
	/// position (0-based) of the Utf8 entry with this name, added on first use (preceded by a few fillers)
	fn name_pos(&mut self, name: &str) -> usize {
		if let Some(p) = self.names.get(name) { return *p; }
		let f = self.rnd.gen_range(0..3);
		for _ in 0..f { let e = self.filler(); self.pool.push(e); }
		self.pool.push(json!({"k": "Utf8", "bytes": name.as_bytes()}));
		self.names.insert(name.to_owned(), self.pool.len() - 1);
		self.pool.len() - 1
	}
	fn vt(&mut self) -> Value {
		match self.rnd.gen_range(0..9) {
			0 => json!({"k": "Top"}), 1 => json!({"k": "Integer"}), 2 => json!({"k": "Float"}), 3 => json!({"k": "Double"}), 4 => json!({"k": "Long"}),
			5 => json!({"k": "Null"}), 6 => json!({"k": "UninitializedThis"}),
			7 => json!({"k": "Object", "cpool_index": self.u16v()}),
			_ => json!({"k": "Uninitialized", "offset": self.u16v()}),
		}
	}
	fn vts(&mut self, lo: usize, hi: usize) -> Value { let n = self.rnd.gen_range(lo..=hi); Value::Array((0..n).map(|_| self.vt()).collect()) }
	fn frame(&mut self) -> Value {
		let small = [0u8, 1, 62, 63][self.rnd.gen_range(0..4)];
		match self.rnd.gen_range(0..7) {
			0 => json!({"k": "SameFrame", "offset_delta": small}),
			1 => json!({"k": "SameLocals1StackItemFrame", "offset_delta": small, "stack": self.vt()}),
			2 => json!({"k": "SameLocals1StackItemFrameExtended", "offset_delta": self.u16v(), "stack": self.vt()}),
			3 => json!({"k": "ChopFrame", "chop": self.rnd.gen_range(1..=3), "offset_delta": self.u16v()}),
			4 => json!({"k": "SameFrameExtended", "offset_delta": self.u16v()}),
			5 => json!({"k": "AppendFrame", "offset_delta": self.u16v(), "locals": self.vts(1, 3)}),
			_ => json!({"k": "FullFrame", "offset_delta": self.u16v(), "locals": self.vts(0, 5), "stack": self.vts(0, 4)}),
		}
	}
	fn ev(&mut self, depth: usize) -> Value {
		let consts = ["Byte", "Char", "Double", "Float", "Integer", "Long", "Short", "Boolean", "String"];
		let c = self.rnd.gen_range(0..if depth >= 3 { 11 } else { 13 });
		match c {
			0..=8 => json!({"k": consts[c], "const_value_index": self.u16v()}),
			9 => json!({"k": "Enum", "type_name_index": self.u16v(), "const_name_index": self.u16v()}),
			10 => json!({"k": "Class", "class_info_index": self.u16v()}),
			11 => json!({"k": "Annotation", "annotation_value": self.anno(depth + 1)}),
			_ => { let n = self.n(4); json!({"k": "Array", "values": (0..n).map(|_| self.ev(depth + 1)).collect::<Vec<_>>()}) },
		}
	}
	fn anno(&mut self, depth: usize) -> Value {
		let n = self.n(3);
		json!({"type_index": self.u16v(), "element_value_pairs": (0..n).map(|_| json!({"element_name_index": self.u16v(), "value": self.ev(depth)})).collect::<Vec<_>>()})
	}
	fn annos(&mut self) -> Value { let n = self.n(3); Value::Array((0..n).map(|_| self.anno(1)).collect()) }
	fn rows(&mut self, max: usize, fields: &[&str]) -> Value { let n = self.n(max); Value::Array((0..n).map(|_| self.obj16(fields)).collect()) }
	fn attrs(&mut self, depth: usize, max: usize) -> Value {
		let n = if depth >= 3 { 0 } else { self.n(max) };
		Value::Array((0..n).map(|_| self.attr(depth)).collect())
	}
	/// the attribute's name position is stored under "_name" and replaced by the pool index at the end
	fn attr(&mut self, depth: usize) -> Value {
		let k = ATTR_KINDS[self.rnd.gen_range(0..ATTR_KINDS.len())];
		let name = if k == "Other" { OTHER_NAMES[self.rnd.gen_range(0..OTHER_NAMES.len())] } else { k };
		let pos = self.name_pos(name);
		let mut v = match k {
			"ConstantValue" => self.obj16(&["constantvalue_index"]),
			"Code" => json!({"max_stack": self.u16v(), "max_locals": self.u16v(), "code": self.bytes(12),
				"exception_table": self.rows(3, &["start_pc", "end_pc", "handler_pc", "catch_type"]), "attributes": self.attrs(depth + 1, 3)}),
			"StackMapTable" => { let n = self.n(6); json!({"entries": (0..n).map(|_| self.frame()).collect::<Vec<_>>()}) },
			"Exceptions" => json!({"exception_index_table": self.u16list(5)}),
			"InnerClasses" => json!({"classes": self.rows(4, &["inner_class_info_index", "outer_class_info_index", "inner_name_index", "inner_class_access_flags"])}),
			"EnclosingMethod" => self.obj16(&["class_index", "method_index"]),
			"Synthetic" | "Deprecated" => json!({}),
			"Signature" => self.obj16(&["signature_index"]),
			"SourceFile" => self.obj16(&["sourcefile_index"]),
			"SourceDebugExtension" => json!({"debug_extension": self.bytes(10)}),
			"LineNumberTable" => json!({"line_number_table": self.rows(5, &["start_pc", "line_number"])}),
			"LocalVariableTable" => json!({"local_variable_table": self.rows(4, &["start_pc", "length", "name_index", "descriptor_index", "index"])}),
			"LocalVariableTypeTable" => json!({"local_variable_type_table": self.rows(4, &["start_pc", "length", "name_index", "signature_index", "index"])}),
			"RuntimeVisibleAnnotations" | "RuntimeInvisibleAnnotations" => json!({"annotations": self.annos()}),
			"RuntimeVisibleParameterAnnotations" | "RuntimeInvisibleParameterAnnotations" => {
				let n = self.n(4);
				json!({"parameter_annotations": (0..n).map(|_| json!({"annotations": self.annos()})).collect::<Vec<_>>()})
			},
			"AnnotationDefault" => json!({"default_value": self.ev(1)}),
			"BootstrapMethods" => { let n = self.n(4); json!({"bootstrap_methods": (0..n).map(|_| json!({"bootstrap_method_ref": self.u16v(), "bootstrap_arguments": self.u16list(4)})).collect::<Vec<_>>()}) },
			"MethodParameters" => json!({"parameters": self.rows(6, &["name_index", "access_flags"])}),
			"Module" => {
				let (a, b, c) = (self.n(3), self.n(3), self.n(3));
				json!({"module_name_index": self.u16v(), "module_flags": self.u16v(), "module_version_index": self.u16v(),
					"requires": self.rows(3, &["requires_index", "requires_flags", "requires_version_index"]),
					"exports": (0..a).map(|_| json!({"exports_index": self.u16v(), "exports_flags": self.u16v(), "exports_to_index": self.u16list(3)})).collect::<Vec<_>>(),
					"opens": (0..b).map(|_| json!({"opens_index": self.u16v(), "opens_flags": self.u16v(), "opens_to_index": self.u16list(3)})).collect::<Vec<_>>(),
					"uses_index": self.u16list(3),
					"provides": (0..c).map(|_| json!({"provides_index": self.u16v(), "provides_with_index": self.u16list(3)})).collect::<Vec<_>>()})
			},
			"ModulePackages" => json!({"package_index": self.u16list(5)}),
			"ModuleMainClass" => self.obj16(&["main_class_index"]),
			"NestHost" => self.obj16(&["host_class_index"]),
			"NestMembers" | "PermittedSubclasses" => json!({"classes": self.u16list(5)}),
			"Record" => {
				let n = self.n(3);
				json!({"components": (0..n).map(|_| json!({"name_index": self.u16v(), "descriptor_index": self.u16v(), "attributes": self.attrs(depth + 1, 2)})).collect::<Vec<_>>()})
			},
			_ => json!({"info": self.bytes(12)}),
		};
		v["k"] = json!(k);
		v["_name"] = json!(pos);
		v
	}
	fn members(&mut self, max: usize) -> Value {
		let n = self.n(max);
		Value::Array((0..n).map(|_| json!({"access_flags": self.u16v(), "name_index": self.u16v(), "descriptor_index": self.u16v(), "attributes": self.attrs(1, 3)})).collect())
	}
}

/// replaces every "_name" (position in the entry list) by "attribute_name_index" (pool index, JVMS 4.4.5)
fn resolve_names(v: &mut Value, index_of: &[u64]) {
	match v {
		Value::Array(a) => a.iter_mut().for_each(|e| resolve_names(e, index_of)),
		Value::Object(m) => {
			if let Some(p) = m.remove("_name") { m.insert("attribute_name_index".into(), json!(index_of[p.as_u64().unwrap_or(0) as usize])); }
			m.values_mut().for_each(|e| resolve_names(e, index_of));
		},
		_ => {},
	}
}

fn random_value(seed: u64) -> Value {
	let mut rnd = StdRng::seed_from_u64(seed);
	let wide = rnd.gen_bool(0.25);
	let mut g = G { rnd, pool: Vec::new(), names: HashMap::new(), wide };
	let lead = g.n(3);
	for _ in 0..lead { let e = g.filler(); g.pool.push(e); }
	let fields = g.members(3);
	let methods = g.members(3);
	let attributes = g.attrs(1, 4);
	let tail = g.n(3);
	for _ in 0..tail { let e = g.filler(); g.pool.push(e); }
	let mut index_of = Vec::new();
	let mut idx = 1u64;
	for e in &g.pool {
		index_of.push(idx);
		idx += if matches!(e["k"].as_str(), Some("Long") | Some("Double")) { 2 } else { 1 };
	}
	let mut x = json!({
		"minor_version": g.u16v(), "major_version": g.u16v(), "constant_pool": g.pool.clone(), "access_flags": g.u16v(),
		"this_class": g.u16v(), "super_class": g.u16v(), "interfaces": g.u16list(4), "fields": fields, "methods": methods, "attributes": attributes,
	});
	resolve_names(&mut x, &index_of);
	x
}

/// values at the edges of the count widths: u1 counts of 255, u2 counts and lengths above 255 (both bytes used) and of
/// 65535, u4 lengths above 65535
fn boundary_values() -> Vec<Value> {
	let utf = |s: &str| json!({"k": "Utf8", "bytes": s.as_bytes()});
	let class = |pool: Vec<Value>, interfaces: Vec<u16>, methods: Vec<Value>, attributes: Vec<Value>| json!({
		"minor_version": 0, "major_version": 65, "constant_pool": pool, "access_flags": 0x21, "this_class": 2, "super_class": 0,
		"interfaces": interfaces, "fields": [], "methods": methods, "attributes": attributes});
	let method = |attrs: Vec<Value>| json!({"access_flags": 1, "name_index": 1, "descriptor_index": 1, "attributes": attrs});
	let mut out = Vec::new();
	// byte runs: Utf8 of 65535 bytes, code of 66000 bytes, debug extension of 70000 bytes; 300 interfaces; 255 parameters
	out.push(class(
		vec![utf("A"), json!({"k": "Class", "name_index": 1}), utf("SourceDebugExtension"), json!({"k": "Utf8", "bytes": vec![65u8; 65535]}),
			utf("RuntimeVisibleParameterAnnotations"), utf("Code")],
		(0..300).collect(),
		vec![method(vec![
			json!({"k": "RuntimeVisibleParameterAnnotations", "attribute_name_index": 5, "parameter_annotations": (0..255).map(|_| json!({"annotations": []})).collect::<Vec<_>>()}),
			json!({"k": "Code", "attribute_name_index": 6, "max_stack": 65535, "max_locals": 65535, "code": (0..66000u32).map(|i| (i % 251) as u8).collect::<Vec<_>>(), "exception_table": [], "attributes": []}),
		])],
		vec![json!({"k": "SourceDebugExtension", "attribute_name_index": 3, "debug_extension": (0..70000u32).map(|i| (i * 7 % 256) as u8).collect::<Vec<_>>()})],
	));
	// tables of 255 / 256 / 300 rows, Utf8 of 255 and 256 bytes
	out.push(class(
		vec![utf("A"), json!({"k": "Class", "name_index": 1}), utf("Exceptions"), utf("InnerClasses"), utf("LineNumberTable"), utf("Code"),
			json!({"k": "Utf8", "bytes": vec![97u8; 255]}), json!({"k": "Utf8", "bytes": vec![98u8; 256]}), utf("RuntimeInvisibleParameterAnnotations"),
			utf("PermittedSubclasses"), utf("BootstrapMethods")],
		vec![],
		vec![method(vec![
			json!({"k": "Exceptions", "attribute_name_index": 3, "exception_index_table": (0..256).collect::<Vec<u16>>()}),
			json!({"k": "RuntimeInvisibleParameterAnnotations", "attribute_name_index": 9, "parameter_annotations": (0..255).map(|i| json!({"annotations": if i == 254 { json!([{"type_index": 7, "element_value_pairs": []}]) } else { json!([]) }})).collect::<Vec<_>>()}),
			json!({"k": "Code", "attribute_name_index": 6, "max_stack": 0, "max_locals": 0, "code": [177],
				"exception_table": (0..257).map(|i| json!({"start_pc": i, "end_pc": 65535, "handler_pc": 256, "catch_type": 0})).collect::<Vec<_>>(),
				"attributes": [{"k": "LineNumberTable", "attribute_name_index": 5, "line_number_table": (0..300).map(|i| json!({"start_pc": i, "line_number": 65535 - i})).collect::<Vec<_>>()}]}),
		])],
		vec![json!({"k": "InnerClasses", "attribute_name_index": 4, "classes": (0..256).map(|i| json!({"inner_class_info_index": i, "outer_class_info_index": 0, "inner_name_index": 65535, "inner_class_access_flags": 0x7fff})).collect::<Vec<_>>()}),
			json!({"k": "PermittedSubclasses", "attribute_name_index": 10, "classes": (0..300).collect::<Vec<u16>>()}),
			json!({"k": "BootstrapMethods", "attribute_name_index": 11, "bootstrap_methods": (0..256).map(|i| json!({"bootstrap_method_ref": i, "bootstrap_arguments": if i == 0 { (0..256).collect::<Vec<u16>>() } else { vec![] }})).collect::<Vec<_>>()})],
	));
	// 300 constants, the last ones named; 300 fields-worth of attributes at the class
	let mut pool = vec![utf("A"), json!({"k": "Class", "name_index": 1})];
	for i in 0..300u32 { pool.push(json!({"k": "Integer", "bytes": [i, 65535 - i]})); }
	pool.push(utf("Deprecated"));
	out.push(class(pool, vec![], vec![], (0..300).map(|_| json!({"k": "Deprecated", "attribute_name_index": 303})).collect()));
	out
}

pub fn gen(seed: u64, n: usize) -> Result<Vec<Value>> {
	let thorough = n >= 1500;
	let mut rnd = StdRng::seed_from_u64(seed ^ 0xC20);
	let mut out = Vec::new();
	// class files: every hand-written sample under every standard encoding, the kitchen sink, the compiled corpus
	let encs: Vec<&'static str> = cfkit::asm::standard_encodings().into_iter().map(|(n, _)| n).collect();
	for e in &encs { out.push(json!({"op": "bytes", "id": format!("kitchen:{e}")})); }
	let mut names: Vec<String> = sample_facts().keys().cloned().collect();
	names.sort();
	for name in &names {
		for e in &encs {
			let id = format!("sample:{name}:{e}");
			if class_bytes(&id).is_ok() { out.push(json!({"op": "bytes", "id": id})); }
		}
	}
	let mut ids: Vec<String> = cfkit::corpus::corpus_classes(if thorough { "thorough" } else { "quick" }).into_iter().map(|(id, _)| id).collect();
	ids.sort();
	if !thorough {
		ids.shuffle(&mut rnd);
		ids.truncate(150);
		ids.sort();
	}
	for id in ids { out.push(json!({"op": "bytes", "id": format!("corpus:{id}")})); }
	// how the stream delivers the bytes: all at once, or at most 1 / 7 / 100 / 4096 bytes per call
	for (i, rec) in out.iter_mut().enumerate() { rec["frag"] = json!([0, 1, 7, 100, 4096][i % 5]); }
	// raw values
	for x in boundary_values() { out.push(json!({"op": "value", "wf": false, "x": x})); }
	let values = n.saturating_sub(out.len()).max(200);
	for i in 0..values {
		out.push(json!({"op": "value", "wf": false, "x": random_value(seed.wrapping_mul(1_000_003).wrapping_add(i as u64))}));
	}
	Ok(out)
}
