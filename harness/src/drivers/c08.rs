//! C08: Mappings::reorder.
//!
//! ops  {"op":"reorder","M":tree,"order":[ns..]} -> {"first":{ok,v}, "back":{ok,v}|[]}
//!      first = M.reorder(order); back = first.reorder(M's own namespace order) when first succeeded
use anyhow::{bail, Context, Result};
use rand::rngs::StdRng;
use rand::seq::SliceRandom;
use rand::{Rng, SeedableRng};
use serde_json::{json, Value};
use quill::tree::mappings::Mappings;
use crate::gen_quill::*;
use crate::proj_quill::*;
use super::res_tree;

fn run<const N: usize>(v: &Value) -> Result<Value> {
	let m: Mappings<N, Ns> = json_to_tree(&v["M"])?;
	let order: Vec<&str> = v["order"].as_array().context("order")?.iter().map(|x| x.as_str().unwrap_or("")).collect();
	let order: [&str; N] = order.try_into().map_err(|_| anyhow::anyhow!("order length"))?;
	let own: Vec<String> = v["M"]["ns"].as_array().context("ns")?.iter().map(|x| x.as_str().unwrap_or("").to_owned()).collect();
	let own: Vec<&str> = own.iter().map(|x| x.as_str()).collect();
	let own: [&str; N] = own.try_into().map_err(|_| anyhow::anyhow!("ns length"))?;
	let first = m.reorder::<Ns>(order);
	let back = match &first { Ok(f) => res_tree(f.reorder::<Ns>(own)), Err(_) => json!([]) };
	Ok(json!({"first": res_tree(first), "back": back}))
}

pub fn exec(v: &Value) -> Result<Value> {
	if v["op"] == "build" { return super::sys::exec(v); }
	match v["M"]["ns"].as_array().map(|a| a.len()) {
		Some(2) => run::<2>(v), Some(3) => run::<3>(v), Some(4) => run::<4>(v),
		n => bail!("unsupported N {n:?}"),
	}
}

pub fn gen(seed: u64, n: usize) -> Result<Vec<Value>> {
	let mut r = StdRng::seed_from_u64(seed ^ 0xC08);
	let mut out = vec![];
	while out.len() < n {
		let nn = *pick(&mut r, &[2usize, 3, 3, 4]);
		let cfg = TreeCfg { n: nn, classes: r.gen_range(0..12), p_missing: *pick(&mut r, &[0.0, 0.0, 0.05, 0.3]), unicode: r.gen_bool(0.3),
			param_src: r.gen_bool(0.5), root_doc: r.gen_bool(0.3), missing_in: if r.gen_bool(0.5) { vec![nn - 1] } else { vec![] }, ..TreeCfg::default() };
		let m = gen_tree(&mut r, &cfg);
		let mut order: Vec<Value> = m["ns"].as_array().cloned().unwrap_or_default();
		order.shuffle(&mut r);
		out.push(json!({"op": "reorder", "M": m, "order": order}));
	}
	Ok(out)
}
