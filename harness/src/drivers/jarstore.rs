//! The jar storage layer (dukebox::storage): the four forms of a jar shown through the traits Jar / OpenedJar / JarEntry.
//! Specification: spec/jar/JarStore.tla, bounded model MC_JarStore (attached to C13).
//!
//! op  {"op":"store","jar":[{"n":name,"c":content,"t":time id}..],"probes":[name..]}
//!       content  {"k":"dir"} | {"k":"res","id":text} | {"k":"cls","this","super","itfs"} | {"k":"junk"}
//!     -> {"unnamed":O,"named":O,"file":O,"parsed":O,"mem":[view..]}
//!       O = {"list":[view..],"names":[[key,name]..],"lookup":{probe:{"found":b,"e":view}},"sup":{"ok":b,"keys":[..],"map":{..}},
//!            "put":{"path":"suggested"|"own","list":[view..]}}
//!       view = {"n","k","c","t"}: kind = the variant of JarEntryEnum the code chose; content read back from the bytes it handed out
//! The input zip is written with the `zip` crate, class files are assembled by cfkit; `mem` and `put.list` are read back with
//! the `zip` crate directly (kind by name), everything else goes through the traits under test.
use std::io::{Cursor, Read, Write};
use std::path::{Path, PathBuf};
use anyhow::{anyhow, bail, Context, Result};
use indexmap::IndexMap;
use serde_json::{json, Map, Value};
use dukebox::storage::{ClassRepr, FileJar, IsClass, IsOther, Jar, JarEntry, JarEntryEnum, NamedMemJar, OpenedJar, ParsedJar, ParsedJarEntry, UnnamedMemJar};

const T1: (u16, u8, u8, u8, u8, u8) = (2021, 6, 15, 10, 20, 30);

fn st(v: &Value) -> &str { v.as_str().unwrap_or("") }

fn content_bytes(c: &Value) -> Result<Vec<u8>> {
	Ok(match st(&c["k"]) {
		"dir" => vec![],
		"res" => st(&c["id"]).as_bytes().to_vec(),
		"junk" => b"\xca\xfe\xba\xbe this is no class file".to_vec(),
		"cls" => {
			let this = st(&c["this"]);
			let sup = st(&c["super"]);
			let mut f = cfkit::samples::class([53, 0], if this == "module-info" { 0x8000 } else { 0x0021 }, this, if sup.is_empty() { None } else { Some(sup) }, vec![], vec![], json!({}));
			f["interfaces"] = c["itfs"].clone();
			cfkit::asm::assemble(&f, &cfkit::asm::Encoding::default()).map_err(|e| anyhow!("assemble {this}: {e:?}"))?
		},
		k => bail!("content kind {k}"),
	})
}

fn date_of(t: i64) -> Result<zip::DateTime> {
	Ok(if t == 1 { zip::DateTime::from_date_and_time(T1.0, T1.1, T1.2, T1.3, T1.4, T1.5).map_err(|_| anyhow!("date"))? } else { zip::DateTime::default() })
}

fn time_id(d: Option<zip::DateTime>) -> i64 {
	match d {
		None => -2,
		Some(d) => {
			let x = (d.year(), d.month(), d.day(), d.hour(), d.minute(), d.second());
			if x == T1 { 1 } else if x == (1980, 1, 1, 0, 0, 0) { 0 } else { -1 }
		},
	}
}

fn zip_timed(jar: &[Value]) -> Result<Vec<u8>> {
	let mut w = zip::ZipWriter::new(Cursor::new(Vec::new()));
	for e in jar {
		let name = st(&e["n"]);
		let o: zip::write::SimpleFileOptions = zip::write::SimpleFileOptions::default()
			.compression_method(zip::CompressionMethod::Stored).last_modified_time(date_of(e["t"].as_i64().unwrap_or(0))?);
		if name.ends_with('/') { w.add_directory(name.trim_end_matches('/'), o)?; } else { w.start_file(name, o)?; w.write_all(&content_bytes(&e["c"])?)?; }
	}
	Ok(w.finish()?.into_inner())
}

/// What the bytes of a class entry state, or "junk".
fn class_content(b: &[u8]) -> Value {
	match cfkit::parse::parse_class_facts_only(b) {
		Ok(p) => json!({"k": "cls", "this": p.facts["this"], "super": p.facts.get("super").cloned().unwrap_or(json!("")), "itfs": p.facts["interfaces"]}),
		Err(_) => json!({"k": "junk"}),
	}
}

fn res_content(b: &[u8]) -> Value { json!({"k": "res", "id": String::from_utf8_lossy(b)}) }

/// One entry as the traits show it.
fn view(e: impl JarEntry) -> Result<Value> {
	let n = e.name().to_owned();
	let t = time_id(e.attrs().last_modified);
	let (k, c) = match e.to_jar_entry_enum()? {
		JarEntryEnum::Dir => ("dir", json!({"k": "dir"})),
		JarEntryEnum::Class(c) => ("class", class_content(c.write()?.as_ref())),
		JarEntryEnum::Other(o) => ("other", res_content(o.get_data())),
	};
	Ok(json!({"n": n, "k": k, "c": c, "t": t}))
}

/// The listing of a zip, read with the `zip` crate alone.
fn raw_list(data: &[u8]) -> Result<Value> {
	let mut z = zip::ZipArchive::new(Cursor::new(data))?;
	let mut out = vec![];
	for i in 0..z.len() {
		let mut f = z.by_index(i)?;
		let n = f.name().to_owned();
		let t = time_id(f.last_modified());
		let mut b = vec![];
		f.read_to_end(&mut b)?;
		let (k, c) = if f.is_dir() { ("dir", json!({"k": "dir"})) } else if n.ends_with(".class") { ("class", class_content(&b)) } else { ("other", res_content(&b)) };
		out.push(json!({"n": n, "k": k, "c": c, "t": t}));
	}
	Ok(Value::Array(out))
}

macro_rules! observe {
	($jar:expr, $probes:expr, $suggested:expr) => {{
		let jar = $jar;
		let mut o = Map::new();
		{
			let mut opened = jar.open()?;
			let keys: Vec<usize> = opened.entry_keys().collect();
			let mut list = vec![];
			for k in &keys { list.push(view(opened.by_entry_key(*k)?)?); }
			o.insert("list".into(), Value::Array(list));
			let names: Vec<Value> = opened.names().map(|(k, n)| json!([k, n])).collect();
			o.insert("names".into(), Value::Array(names));
			let mut lookup = Map::new();
			for p in $probes {
				let r = match OpenedJar::by_name(&mut opened, p)? { Some(e) => json!({"found": true, "e": view(e)?}), None => json!({"found": false}) };
				lookup.insert(p.to_string(), r);
			}
			o.insert("lookup".into(), Value::Object(lookup));
		}
		let sup = match jar.get_super_classes_provider() {
			Ok(p) => {
				let keys: Vec<String> = p.super_classes.keys().map(|k| k.to_string()).collect();
				let map: Map<String, Value> = p.super_classes.iter().map(|(k, s)| (k.to_string(), json!(s.iter().map(|x| x.to_string()).collect::<Vec<_>>()))).collect();
				json!({"ok": true, "keys": keys, "map": map})
			},
			Err(_) => json!({"ok": false}),
		};
		o.insert("sup".into(), sup);
		let suggested: &Path = $suggested;
		let got = jar.put_to_file(suggested)?;
		let put = json!({"path": if got == suggested { "suggested" } else { "own" }, "list": raw_list(&std::fs::read(got)?)?});
		o.insert("put".into(), put);
		Value::Object(o)
	}};
}

pub fn exec(v: &Value) -> Result<Value> {
	static CTR: std::sync::atomic::AtomicUsize = std::sync::atomic::AtomicUsize::new(0);
	let n = CTR.fetch_add(1, std::sync::atomic::Ordering::Relaxed);
	let dir = PathBuf::from(format!("/dev/shm/verif-work/tmp/store-{}-{}", std::process::id(), n));
	let _ = std::fs::remove_dir_all(&dir);
	std::fs::create_dir_all(&dir)?;
	let r = run(&dir, v);
	let _ = std::fs::remove_dir_all(&dir);
	r
}

fn run(dir: &Path, v: &Value) -> Result<Value> {
	let data = zip_timed(v["jar"].as_array().context("jar")?)?;
	let probes: Vec<&str> = v["probes"].as_array().context("probes")?.iter().map(st).collect();
	let own = dir.join("own.jar");
	std::fs::write(&own, &data)?;
	let unnamed = UnnamedMemJar { data: data.clone() };
	let named = NamedMemJar { name: "n".into(), data: data.clone() };
	let file = FileJar { path: own.clone() };
	// the parsed form, built through the traits like ParsedJar::from_jar (which is crate private) does it
	let mut parsed: ParsedJar<ClassRepr, Vec<u8>> = ParsedJar { entries: IndexMap::new() };
	{
		let mut opened = unnamed.open()?;
		let keys: Vec<usize> = opened.entry_keys().collect();
		for k in keys {
			let e = opened.by_entry_key(k)?;
			let name = e.name().to_owned();
			let attr = e.attrs();
			let content = match e.to_jar_entry_enum()? {
				JarEntryEnum::Dir => JarEntryEnum::Dir,
				JarEntryEnum::Class(c) => JarEntryEnum::Class(c.into_class_repr()),
				JarEntryEnum::Other(o) => JarEntryEnum::Other(o.get_data_owned()),
			};
			parsed.entries.insert(name, ParsedJarEntry { attr, content });
		}
	}
	let mut out = Map::new();
	out.insert("unnamed".into(), observe!(&unnamed, &probes, &dir.join("s1.jar")));
	out.insert("named".into(), observe!(&named, &probes, &dir.join("s2.jar")));
	out.insert("file".into(), observe!(&file, &probes, &dir.join("s3.jar")));
	out.insert("parsed".into(), observe!(&parsed, &probes, &dir.join("s4.jar")));
	out.insert("mem".into(), raw_list(&parsed.to_mem()?.data)?);
	Ok(Value::Object(out))
}
