//! C06: Mappings::remapper_a / remapper_b.
//!
//! ops (namespaces f, t are 1-based as in the specification)
//!   {"op":"desc","kind":"f"|"m"|"r","M":tree,"f":i,"t":j,"d":s}          -> {"ok":b,"v":s}
//!   {"op":"class","M":tree,"f":i,"t":j,"c":s,"back":[]|[c]}               -> {"ans":{"ok":b,"v":s},"back":[]|[s]}
//!   {"op":"member","kind":"f"|"m","M":tree,"f":i,"t":j,"sup":{c:[s..]},"owner":s,"name":s,"desc":s,"rt":b}
//!                                                                       -> {"ans":{"ok":b,"v":[name,desc]},"back":[]|[name,desc]}
//!      back (only when asked by "rt"/"back"): the answer mapped back from t to f (inheritance remapped with JarSuperProv::remap)
use anyhow::{bail, Context, Result};
use indexmap::{IndexMap, IndexSet};
use rand::rngs::StdRng;
use rand::{Rng, SeedableRng};
use serde_json::{json, Value};
use duke::tree::class::{ClassName, ObjClassName};
use duke::tree::descriptor::ReturnDescriptor;
use duke::tree::field::{FieldDescriptor, FieldName};
use duke::tree::method::{MethodDescriptor, MethodName};
use quill::remapper::{ARemapper, BRemapper, JarSuperProv};
use quill::tree::mappings::Mappings;
use quill::tree::names::Namespace;
use crate::gen_quill::*;
use crate::proj_quill::*;

/// exact text of a name or descriptor (Display would turn an unpaired surrogate into U+FFFD)
fn ex<T: AsRef<java_string::JavaStr>>(x: &T) -> String { js_out(x.as_ref()) }
fn res_s<T: AsRef<java_string::JavaStr>>(r: Result<T>) -> Value {
	match r { Ok(x) => json!({"ok": true, "v": ex(&x)}), Err(_) => json!({"ok": false, "v": []}) }
}

fn prov(v: &Value) -> Result<JarSuperProv> {
	let mut super_classes = IndexMap::new();
	if let Some(o) = v.as_object() {
		for (k, s) in o {
			let mut set = IndexSet::new();
			for x in s.as_array().context("supers")? { set.insert(ObjClassName::try_from(js(x.as_str().context("super")?))?); }
			super_classes.insert(ObjClassName::try_from(js(k))?, set);
		}
	}
	Ok(JarSuperProv { super_classes })
}

fn run<const N: usize>(v: &Value) -> Result<Value> {
	let m: Mappings<N, Ns> = json_to_tree(&v["M"])?;
	let f = Namespace::<N>::new(v["f"].as_u64().context("f")? as usize - 1)?;
	let t = Namespace::<N>::new(v["t"].as_u64().context("t")? as usize - 1)?;
	match v["op"].as_str().context("op")? {
		"desc" => {
			let r = m.remapper_a(f, t)?;
			let d = js(v["d"].as_str().context("d")?);
			Ok(match v["kind"].as_str() {
				Some("f") => res_s(r.map_field_desc(&FieldDescriptor::try_from(d)?)),
				Some("m") => res_s(r.map_method_desc(&MethodDescriptor::try_from(d)?)),
				Some("r") => res_s(r.map_return_desc(&ReturnDescriptor::try_from(d)?)),
				k => bail!("kind {k:?}"),
			})
		},
		"class" => {
			let r = m.remapper_a(f, t)?;
			let c = ClassName::try_from(js(v["c"].as_str().context("c")?))?;
			let ans = r.map_class_any(&c);
			let mut back = json!([]);
			if v["back"].as_array().map(|a| !a.is_empty()).unwrap_or(false) {
				if let Ok(a) = &ans {
					let rb = m.remapper_a(t, f)?;
					back = match rb.map_class_any(a) { Ok(x) => json!([ex(&x)]), Err(_) => json!(["<error>"]) };
				}
			}
			Ok(json!({"ans": res_s(ans), "back": back}))
		},
		"member" => {
			let p = prov(&v["sup"])?;
			let r = m.remapper_b(f, t, &p)?;
			let owner = ObjClassName::try_from(js(v["owner"].as_str().context("owner")?))?;
			let name = js(v["name"].as_str().context("name")?);
			let desc = js(v["desc"].as_str().context("desc")?);
			let is_m = v["kind"] == "m";
			let ans: Result<(String, String)> = if is_m {
				r.map_method(&owner, &MethodName::try_from(name)?, &MethodDescriptor::try_from(desc)?).map(|x| (ex(&x.name), ex(&x.desc)))
			} else {
				r.map_field(&owner, &FieldName::try_from(name)?, &FieldDescriptor::try_from(desc)?).map(|x| (ex(&x.name), ex(&x.desc)))
			};
			let mut back = json!([]);
			if v["rt"] == json!(true) {
				if let Ok((n2, d2)) = &ans {
					let ra = m.remapper_a(f, t)?;
					let mut ps = JarSuperProv::remap(&ra, &vec![p])?;
					let p2 = ps.pop().context("remapped provider")?;
					let rb = m.remapper_b(t, f, &p2)?;
					let o2 = ra.map_class(&owner)?;
					let b: Result<(String, String)> = if is_m {
						rb.map_method(&o2, &MethodName::try_from(js(n2))?, &MethodDescriptor::try_from(js(d2))?).map(|x| (ex(&x.name), ex(&x.desc)))
					} else {
						rb.map_field(&o2, &FieldName::try_from(js(n2))?, &FieldDescriptor::try_from(js(d2))?).map(|x| (ex(&x.name), ex(&x.desc)))
					};
					back = match b { Ok((n, d)) => json!([n, d]), Err(_) => json!(["<error>", ""]) };
				}
			}
			Ok(json!({"ans": match ans { Ok((n, d)) => json!({"ok": true, "v": [n, d]}), Err(_) => json!({"ok": false, "v": []}) }, "back": back}))
		},
		op => bail!("C06: unknown op {op}"),
	}
}

pub fn exec(v: &Value) -> Result<Value> {
	match v["M"]["ns"].as_array().map(|a| a.len()) {
		Some(2) => run::<2>(v), Some(3) => run::<3>(v), Some(4) => run::<4>(v),
		n => bail!("unsupported N {n:?}"),
	}
}

/// Random mapping sets (2-4 namespaces, partial rows), random inheritance over their classes plus classes outside the
/// set, queries for declared members through sub types, undeclared members, descriptors of the set.
pub fn gen(seed: u64, n: usize) -> Result<Vec<Value>> {
	let mut r = StdRng::seed_from_u64(seed ^ 0xC06);
	let mut out = vec![];
	// long inheritance chains: the declaring super type 63 / 64 / 65 / 100 levels above the owner asked about, the classes in
	// between without an entry in the mappings (the search goes on through them), a mapped and an unmapped member
	for len in [63usize, 64, 65, 100] {
		let node = |kind: &str, a: &str, b: &str, desc: &str, kids: Value| json!({"kind": kind, "names": [a, b], "desc": desc, "idx": 0, "doc": [], "kids": kids});
		let m = json!({"ns": ["a", "b"], "doc": [], "kids": {"c deep/Top": node("c", "deep/Top", "n/Top", "", json!({
			"m m ()V": node("m", "m", "mTop", "()V", json!({})), "f f I": node("f", "f", "fTop", "I", json!({}))}))}});
		let mut sup = serde_json::Map::new();
		for i in 0..len { sup.insert(format!("deep/C{i}"), json!([if i + 1 == len { "deep/Top".to_owned() } else { format!("deep/C{}", i + 1) }])); }
		sup.insert("deep/Top".into(), json!(["java/lang/Object"]));
		let sup = Value::Object(sup);
		for (kind, name, desc) in [("m", "m", "()V"), ("f", "f", "I"), ("m", "zz", "()V")] {
			for owner in ["deep/C0", "deep/C1"] {
				out.push(json!({"op": "member", "kind": kind, "M": m, "f": 1, "t": 2, "sup": sup, "owner": owner, "name": name, "desc": desc, "desc0": desc, "rt": false}));
			}
		}
	}
	// a super type met first deep below the first branch and again as a later direct super type of the owner
	// (O -> [A, B], A -> [X], X -> [B, Y]; B and Y both name the member): depth first and level by level both answer B
	{
		let node = |kind: &str, a: &str, b: &str, desc: &str, kids: Value| json!({"kind": kind, "names": [a, b], "desc": desc, "idx": 0, "doc": [], "kids": kids});
		let cls = |n: &str, tag: &str| node("c", &format!("w/{n}"), &format!("v/{n}"), "", json!({
			"m m ()V": node("m", "m", &format!("m{tag}"), "()V", json!({})), "f f I": node("f", "f", &format!("f{tag}"), "I", json!({}))}));
		let m = json!({"ns": ["a", "b"], "doc": [], "kids": {"c w/B": cls("B", "B"), "c w/Y": cls("Y", "Y")}});
		for sup in [json!({"w/O": ["w/A", "w/B"], "w/A": ["w/X"], "w/X": ["w/B", "w/Y"]}),
				json!({"w/O": ["w/A", "w/B", "w/Y"], "w/A": ["w/X"], "w/X": ["w/Q", "w/B"], "w/Q": ["w/Y"]})] {
			for (kind, name, desc) in [("m", "m", "()V"), ("f", "f", "I")] {
				for owner in ["w/O", "w/A"] {
					out.push(json!({"op": "member", "kind": kind, "M": m, "f": 1, "t": 2, "sup": sup, "owner": owner, "name": name, "desc": desc, "desc0": desc, "rt": false}));
				}
			}
		}
	}
	while out.len() < n {
		let nn = *pick(&mut r, &[2usize, 3, 3, 4]);
		let cfg = TreeCfg { n: nn, classes: r.gen_range(1..10), p_missing: *pick(&mut r, &[0.0, 0.15, 0.4]), unicode: r.gen_bool(0.3), p_doc: 0.0, params: 0, ..TreeCfg::default() };
		let m = gen_tree(&mut r, &cfg);
		let f = r.gen_range(1..=nn);
		let mut t = r.gen_range(1..=nn);
		if t == f { t = f % nn + 1; }
		// names of the classes in the from namespace (identity fallback on the source name)
		let classes: Vec<(String, &Value)> = kids_of(&m).into_iter().map(|(_, c)| {
			let nf = c["names"][f - 1].as_str().unwrap_or("");
			(if nf.is_empty() { c["names"][0].as_str().unwrap_or("").to_owned() } else { nf.to_owned() }, c)
		}).collect();
		// acyclic inheritance: class i may extend classes with larger index and outsiders
		let mut sup = serde_json::Map::new();
		for i in 0..classes.len() {
			let mut s: Vec<String> = vec![];
			for j in i + 1..classes.len() { if r.gen_bool(0.35) { s.push(classes[j].0.clone()); } }
			if r.gen_bool(0.2) { s.push("java/lang/Object".into()); }
			if r.gen_bool(0.1) { s.insert(0, "outside/Unmapped".into()); }
			if r.gen_bool(0.5) { use rand::seq::SliceRandom; s.shuffle(&mut r); }
			s.dedup();
			let mut seen = std::collections::HashSet::new();
			s.retain(|x| seen.insert(x.clone()));
			if !s.is_empty() || r.gen_bool(0.5) { sup.insert(classes[i].0.clone(), json!(s)); }
		}
		// a class outside the set that inherits from classes of the set (never a super type itself: no cycles)
		if !classes.is_empty() && r.gen_bool(0.4) { let k = r.gen_range(0..classes.len()); sup.insert("outside/Down".into(), json!([classes[k].0.clone()])); }
		let sup = Value::Object(sup);
		// descriptor queries
		for (_, c) in &classes {
			for (_, k) in kids_of(c) {
				if out.len() >= n { break; }
				if r.gen_bool(0.3) {
					out.push(json!({"op": "desc", "kind": k["kind"], "M": m, "f": 1, "t": t.max(2).min(nn), "d": k["desc"]}));
				}
			}
		}
		for (cn, _) in &classes {
			if r.gen_bool(0.3) { out.push(json!({"op": "class", "M": m, "f": f, "t": t, "c": cn, "back": []})); }
			if r.gen_bool(0.1) { out.push(json!({"op": "class", "M": m, "f": f, "t": t, "c": format!("[[L{cn};"), "back": []})); }
		}
		// member queries: the specification supplies the descriptor in the from namespace, so queries name the member by
		// the entry (class key, member key); the trace specification translates.  Here: raw material only.
		for (ci, (_, c)) in classes.iter().enumerate() {
			for (_, k) in kids_of(c) {
				let nf = k["names"][f - 1].as_str().unwrap_or("");
				if nf.is_empty() || !r.gen_bool(0.5) { continue; }
				let owner_i = r.gen_range(0..=ci);
				let owner = if r.gen_bool(0.15) { "outside/Down".to_owned() } else { classes[owner_i].0.clone() };
				// the descriptor in the from namespace is obtained from the real remapper_a(first -> from); the trace
				// specification re-derives it from desc0 and rejects the record if it is not the translation
				let desc = translate(&m, nn, f, k["kind"] == "m", k["desc"].as_str().unwrap_or(""))?;
				out.push(json!({"op": "member", "kind": k["kind"], "M": m, "f": f, "t": t, "sup": sup, "owner": owner, "name": nf,
					"desc": desc, "desc0": k["desc"], "rt": false}));
			}
		}
	}
	out.truncate(n);
	Ok(out)
}

fn translate(m: &Value, nn: usize, f: usize, is_m: bool, d: &str) -> Result<String> {
	fn go<const N: usize>(m: &Value, f: usize, is_m: bool, d: &str) -> Result<String> {
		let mm: Mappings<N, Ns> = json_to_tree(m)?;
		let r = mm.remapper_a(Namespace::<N>::new(0)?, Namespace::<N>::new(f - 1)?)?;
		Ok(if is_m { r.map_method_desc(&MethodDescriptor::try_from(js(d))?)?.to_string() } else { r.map_field_desc(&FieldDescriptor::try_from(js(d))?)?.to_string() })
	}
	match nn { 2 => go::<2>(m, f, is_m, d), 3 => go::<3>(m, f, is_m, d), _ => go::<4>(m, f, is_m, d) }
}
