//! C02: the class writer emits a well-formed file denoting exactly the given class.
//!
//! The driver only converts: it builds / looks up an input class, lets duke read it (the property
//! quantifies over trees the reader produces), optionally renames the tree (`dukebox::remap`) or sets
//! `local_variables` by hand, calls `duke::write_class`, parses the output with the independent strict
//! parser of `cfkit` and ships what both sides *state* in abstract form.  Every judgement (well-formedness
//! of the recorded summary, alignment of the written instruction list with the tree's, "designates the
//! same instruction", range / padding / limit rules, success iff a layout exists) is made by
//! `spec/duke/Trace_ClassWrite.tla`.
//!
//! ops (input)
//!   {"op":"layout","items":[{"k":"pad","n":N,"t":[]}|{"k":"grow",..}|{"k":"if"|"goto"|"jsr","t":[i]}|{"k":"tsw"|"lsw","t":[d,a..]}]}
//!        item list of spec/duke/CodeLayout.tla, targets are 1-based item indices.  Materialised as a class
//!        whose method `m` holds: pad = N `nop`, grow = an `ldc` that has a one byte index in the input and
//!        needs `ldc_w` in duke's output (a filler method with 260 constants precedes `m`), jumps in the
//!        shortest form the input can hold.  A list the input cannot hold -> {"skipped":true}.
//!   {"op":"pool","pre":P,"puts":[C..],"pad":Q}
//!        P interfaces (2P pool entries in front of everything the method needs), then one `ldc` per
//!        constant C (facts form); the input pool is padded with Q fillers.
//!   {"op":"write","id":ID,"variant":"plain"|"renamed"|"lvt"|"linepc"}
//!        corpus / sample class by id (`cfkit::duke_diff::inputs()` naming), generated families `gen/...`.
//! got
//!   {"skipped":true,"why":..} | {"res":"err","msg":..} |
//!   {"res":"ok","parse":"ok"|"err","raw":{pool,uses,lengths,limits},"diffs":[[kind,path]..],"detail":[..],
//!    (uses: [[expected kinds, [indices..]]..]; lengths: [[declared, measured]..])
//!    "methods":[{"m","nt","no","len","T":[item..],"O":[item..],"offs":{"<out index>":offset},"tabs":[[t,d]..]}]}
//!   items  T: {"k":"r","s":start,"c":count,"h":hash} | {"k":"j","s":index,"op":mnemonic,"t":[tree target index..],"h":hash}
//!          O: the same with "off" (byte offset) and for jumps "d":[decoded target offset..],"form","len","pad"
//!   tabs   for every exception bound / table entry / frame / type annotation position present on both
//!          sides: (instruction index in the tree, byte offset the written file designates)
//!   diffs  differences between `duke_to_facts(tree)` and the facts parsed from the output, outside the
//!          instruction lists and with instruction indices masked (those are judged through T/O/tabs)
use std::collections::{BTreeMap, BTreeSet, HashMap};
use std::hash::{Hash, Hasher};
use std::io::Cursor;
use std::sync::OnceLock;
use anyhow::{anyhow, bail, Context, Result};
use rand::rngs::StdRng;
use rand::{Rng, SeedableRng};
use serde_json::{json, Map, Value};
use cfkit::asm::{assemble, AsmError, Encoding};
use cfkit::duke_diff::{diff, WRITE_KINDS};
use cfkit::parse::parse_class;
use cfkit::proj_duke::duke_to_facts;
use duke::tree::class::ClassFile;

const IF_OPS: [&str; 16] = ["ifeq", "ifne", "iflt", "ifge", "ifgt", "ifle", "if_icmpeq", "if_icmpne", "if_icmplt", "if_icmpge",
	"if_icmpgt", "if_icmple", "if_acmpeq", "if_acmpne", "ifnull", "ifnonnull"];

// ---------------------------------------------------------------------------------------------
// abstract view of an instruction list

fn hash_value(v: &Value, h: &mut impl Hasher) {
	match v {
		Value::Null => 0u8.hash(h),
		Value::Bool(b) => (1u8, b).hash(h),
		Value::Number(n) => (2u8, n.as_i64(), n.as_u64()).hash(h),
		Value::String(s) => (3u8, s).hash(h),
		Value::Array(a) => {
			(4u8, a.len()).hash(h);
			for x in a {
				hash_value(x, h);
			}
		}
		Value::Object(o) => {
			(5u8, o.len()).hash(h);
			for (k, x) in o {
				k.hash(h);
				hash_value(x, h);
			}
		}
	}
}

fn h64(v: &Value) -> u64 {
	let mut h = std::collections::hash_map::DefaultHasher::new();
	hash_value(v, &mut h);
	h.finish()
}

/// `{k: v, ..}` built by moving the values (`json!` would clone them)
fn obj<const N: usize>(kv: [(&str, Value); N]) -> Value {
	let mut m = Map::new();
	for (k, v) in kv {
		m.insert(k.to_string(), v);
	}
	Value::Object(m)
}

fn code_facts(max_stack: u16, max_locals: u16, insns: Vec<Value>, exceptions: Vec<Value>, attrs: Value) -> Value {
	obj([("max_stack", json!(max_stack)), ("max_locals", json!(max_locals)), ("insns", Value::Array(insns)),
		("exceptions", Value::Array(exceptions)), ("attrs", attrs)])
}

fn method_facts(access: u16, name: &str, desc: &str, code: Value) -> Value {
	obj([("access", json!(access)), ("name", json!(name)), ("desc", json!(desc)), ("attrs", obj([("Code", code)]))])
}

fn class_facts(major: u16, this: &str, interfaces: Vec<Value>, methods: Vec<Value>) -> Value {
	obj([("version", json!([major, 0])), ("access", json!(0x21)), ("this", json!(this)), ("super", json!("java/lang/Object")),
		("interfaces", Value::Array(interfaces)), ("fields", json!([])), ("methods", Value::Array(methods)), ("attrs", json!({}))])
}

/// (mnemonic, target indices, the instruction without its targets) of a jump or switch.
fn jump_parts(insn: &Value) -> Option<(String, Vec<i64>, Value)> {
	let op = insn.get("op")?.as_str()?;
	let is_jump = IF_OPS.contains(&op) || op == "goto" || op == "jsr";
	if !is_jump && op != "tableswitch" && op != "lookupswitch" {
		return None;
	}
	let mut rest = insn.clone();
	if is_jump {
		let t = insn.get("target")?.as_i64()?;
		rest["target"] = json!(0);
		return Some((op.to_string(), vec![t], rest));
	}
	if op == "tableswitch" {
		let mut t = vec![insn.get("default")?.as_i64()?];
		for x in insn.get("targets")?.as_array()? {
			t.push(x.as_i64()?);
		}
		rest["default"] = json!(0);
		rest["targets"] = json!(t.len() - 1);
		return Some((op.to_string(), t, rest));
	}
	if op == "lookupswitch" {
		let mut t = vec![insn.get("default")?.as_i64()?];
		let mut keys = Vec::new();
		for p in insn.get("pairs")?.as_array()? {
			keys.push(p.get(0)?.clone());
			t.push(p.get(1)?.as_i64()?);
		}
		rest["default"] = json!(0);
		rest["pairs"] = json!(keys);
		return Some((op.to_string(), t, rest));
	}
	None
}

struct OutLayout<'a> {
	offsets: &'a [i64],
	forms: &'a [Value],
	code_length: i64,
	switch_pad: &'a Map<String, Value>,
}

impl OutLayout<'_> {
	/// byte offset of the instruction with this index; the index one past the end is the code length
	fn off(&self, i: i64) -> Result<i64> {
		if i >= 0 && (i as usize) < self.offsets.len() {
			Ok(self.offsets[i as usize])
		} else if i as usize == self.offsets.len() {
			Ok(self.code_length)
		} else {
			bail!("instruction index {i} outside the parsed code")
		}
	}
}

/// Runs of other instructions (count + hash) separated by jumps / switches.
fn skeleton(insns: &[Value], out: Option<&OutLayout>, interesting: &mut BTreeSet<i64>) -> Result<Vec<Value>> {
	let mut items = Vec::new();
	let mut run: Option<(usize, usize, std::collections::hash_map::DefaultHasher)> = None;
	let flush = |run: &mut Option<(usize, usize, std::collections::hash_map::DefaultHasher)>, items: &mut Vec<Value>| -> Result<()> {
		if let Some((s, c, h)) = run.take() {
			let mut it = json!({"k": "r", "s": s, "c": c, "h": format!("{:016x}", h.finish())});
			if let Some(o) = out {
				it["off"] = json!(o.off(s as i64)?);
			}
			items.push(it);
		}
		Ok(())
	};
	for (i, insn) in insns.iter().enumerate() {
		match jump_parts(insn) {
			None => {
				let r = run.get_or_insert_with(|| (i, 0, std::collections::hash_map::DefaultHasher::new()));
				r.1 += 1;
				hash_value(insn, &mut r.2);
			}
			Some((op, targets, rest)) => {
				flush(&mut run, &mut items)?;
				let mut it = json!({"k": "j", "s": i, "op": op, "h": format!("{:016x}", h64(&rest))});
				match out {
					None => it["t"] = json!(targets),
					Some(o) => {
						let mut d = Vec::new();
						for t in &targets {
							d.push(o.off(*t)?);
							interesting.insert(*t);
						}
						it["d"] = json!(d);
						it["off"] = json!(o.off(i as i64)?);
						it["len"] = json!(o.off(i as i64 + 1)? - o.off(i as i64)?);
						it["form"] = o.forms.get(i).cloned().unwrap_or(Value::Null);
						it["pad"] = json!(o.switch_pad.get(&i.to_string()).and_then(Value::as_array).map_or(0, |a| a.len()));
						interesting.insert(i as i64);
						interesting.insert(i as i64 + 1);
					}
				}
				items.push(it);
			}
		}
	}
	flush(&mut run, &mut items)?;
	Ok(items)
}

/// Calls `f(path, value)` for every number of a Code attribute's facts that is an instruction index
/// (FACTS.md: exception table, LineNumberTable, LocalVariable(Type)Table, StackMapTable, type annotation targets).
fn visit_indices(code: &mut Value, f: &mut dyn FnMut(String, &mut Value)) {
	if let Some(rows) = code.get_mut("exceptions").and_then(Value::as_array_mut) {
		for (k, row) in rows.iter_mut().enumerate() {
			for key in ["start", "end", "handler"] {
				if let Some(v) = row.get_mut(key) {
					f(format!("exceptions/{k}/{key}"), v);
				}
			}
		}
	}
	let Some(attrs) = code.get_mut("attrs").and_then(Value::as_object_mut) else { return };
	if let Some(rows) = attrs.get_mut("LineNumberTable").and_then(Value::as_array_mut) {
		for (k, row) in rows.iter_mut().enumerate() {
			if let Some(v) = row.get_mut(0) {
				f(format!("LineNumberTable/{k}"), v);
			}
		}
	}
	for name in ["LocalVariableTable", "LocalVariableTypeTable"] {
		if let Some(rows) = attrs.get_mut(name).and_then(Value::as_array_mut) {
			for (k, row) in rows.iter_mut().enumerate() {
				for key in ["start", "end"] {
					if let Some(v) = row.get_mut(key) {
						f(format!("{name}/{k}/{key}"), v);
					}
				}
			}
		}
	}
	if let Some(frames) = attrs.get_mut("StackMapTable").and_then(Value::as_array_mut) {
		for (k, fr) in frames.iter_mut().enumerate() {
			if let Some(v) = fr.get_mut("at") {
				f(format!("StackMapTable/{k}/at"), v);
			}
			for key in ["locals", "stack"] {
				if let Some(l) = fr.get_mut(key).and_then(Value::as_array_mut) {
					for (j, vt) in l.iter_mut().enumerate() {
						if let Some(v) = vt.get_mut("uninitialized") {
							f(format!("StackMapTable/{k}/{key}/{j}"), v);
						}
					}
				}
			}
		}
	}
	for name in ["RuntimeVisibleTypeAnnotations", "RuntimeInvisibleTypeAnnotations"] {
		if let Some(annos) = attrs.get_mut(name).and_then(Value::as_array_mut) {
			for (k, a) in annos.iter_mut().enumerate() {
				let Some(t) = a.get_mut("target") else { continue };
				if let Some(v) = t.get_mut("insn") {
					f(format!("{name}/{k}/insn"), v);
				}
				if let Some(rows) = t.get_mut("table").and_then(Value::as_array_mut) {
					for (j, row) in rows.iter_mut().enumerate() {
						for key in ["start", "end"] {
							if let Some(v) = row.get_mut(key) {
								f(format!("{name}/{k}/table/{j}/{key}"), v);
							}
						}
					}
				}
			}
		}
	}
}

fn code_of(method: &mut Value) -> Option<&mut Value> {
	method.get_mut("attrs")?.get_mut("Code")
}

/// Takes the instruction lists and instruction indices out of class facts: returns per method with code
/// (method index, insns, path -> index).
fn split_code(facts: &mut Value) -> Vec<(usize, Vec<Value>, BTreeMap<String, i64>)> {
	let mut out = Vec::new();
	let Some(methods) = facts.get_mut("methods").and_then(Value::as_array_mut) else { return out };
	for (m, method) in methods.iter_mut().enumerate() {
		let Some(code) = code_of(method) else { continue };
		let insns = match code.get_mut("insns") {
			Some(i) => match std::mem::replace(i, Value::Null) {
				Value::Array(a) => a,
				_ => Vec::new(),
			},
			None => Vec::new(),
		};
		let mut idx = BTreeMap::new();
		visit_indices(code, &mut |p, v| {
			idx.insert(p, v.as_i64().unwrap_or(-1));
			*v = json!(0);
		});
		out.push((m, insns, idx));
	}
	out
}

fn raw_summary(raw: &Value) -> Value {
	// every (index, expected kinds) once, grouped by the expected kinds
	let mut groups: BTreeMap<String, (Value, BTreeSet<u64>)> = BTreeMap::new();
	for u in raw["uses"].as_array().map(|a| a.as_slice()).unwrap_or(&[]) {
		let g = groups.entry(u[1].to_string()).or_insert_with(|| (u[1].clone(), BTreeSet::new()));
		g.1.insert(u[0].as_u64().unwrap_or(u64::MAX));
	}
	let uses: Vec<Value> = groups.into_values().map(|(k, idx)| json!([k, idx.into_iter().collect::<Vec<_>>()])).collect();
	let lengths: Vec<Value> = raw["lengths"].as_array().map(|a| a.as_slice()).unwrap_or(&[]).iter().map(|l| json!([l[0], l[1]])).collect();
	json!({"pool": raw["pool"], "uses": uses, "lengths": lengths, "limits": raw["limits"]})
}

/// Writes the tree, parses the output independently and projects both sides.
fn write_and_observe(tree: &ClassFile) -> Result<Value> {
	let mut expected = duke_to_facts(tree).map_err(|e| anyhow!("projection of the tree: {e}"))?;
	let mut bytes: Vec<u8> = Vec::new();
	if let Err(e) = duke::write_class(&mut super::FragW::new(&mut bytes), tree) {
		return Ok(json!({"res": "err", "msg": format!("{e:#}").chars().take(300).collect::<String>()}));
	}
	// debugging aid: C02_DUMP=<dir> keeps the written class files
	if let Some(dir) = std::env::var_os("C02_DUMP") {
		static N: std::sync::atomic::AtomicUsize = std::sync::atomic::AtomicUsize::new(0);
		let n = N.fetch_add(1, std::sync::atomic::Ordering::SeqCst);
		std::fs::write(std::path::Path::new(&dir).join(format!("out{n}.class")), &bytes)?;
	}
	let parsed = match parse_class(&bytes) {
		Ok(p) => p,
		Err(e) => return Ok(json!({"res": "ok", "parse": "err", "msg": e.to_string(), "size": bytes.len()})),
	};
	let mut facts = parsed.facts;
	let exp_code = split_code(&mut expected);
	let out_code = split_code(&mut facts);
	let diffs = diff(&expected, &facts, WRITE_KINDS);
	let mut atoms: Vec<Value> = cfkit::duke_diff::atoms(&diffs).into_iter().map(|(p, k)| json!([k, p])).collect();
	atoms.truncate(40);
	let detail: Vec<Value> = diffs.iter().take(5).map(|d| json!([d.kind, d.path])).collect();

	let layouts: HashMap<u64, &Value> = parsed.layout.as_array().map(|a| a.as_slice()).unwrap_or(&[]).iter()
		.filter_map(|l| Some((l.get("method")?.as_u64()?, l))).collect();
	let out_by_m: HashMap<usize, &(usize, Vec<Value>, BTreeMap<String, i64>)> = out_code.iter().map(|x| (x.0, x)).collect();
	let mut methods = Vec::new();
	for (m, insns, idx) in &exp_code {
		let Some((_, oinsns, oidx)) = out_by_m.get(m) else { continue };
		let lay = layouts.get(&(*m as u64)).with_context(|| format!("no layout for method {m}"))?;
		let offsets: Vec<i64> = lay["offsets"].as_array().context("offsets")?.iter().map(|x| x.as_i64().unwrap_or(-1)).collect();
		let empty = Map::new();
		let o = OutLayout {
			offsets: &offsets,
			forms: lay["forms"].as_array().context("forms")?,
			code_length: lay["code_length"].as_i64().context("code_length")?,
			switch_pad: lay["switch_pad"].as_object().unwrap_or(&empty),
		};
		let mut interesting = BTreeSet::new();
		let t_items = skeleton(insns, None, &mut BTreeSet::new())?;
		let o_items = skeleton(oinsns, Some(&o), &mut interesting)?;
		let mut tabs = BTreeSet::new();
		for (p, t) in idx {
			if let Some(oi) = oidx.get(p) {
				tabs.insert((*t, o.off(*oi)?));
				interesting.insert(*oi);
			}
		}
		for it in &o_items {
			if let Some(s) = it["s"].as_i64() {
				interesting.insert(s);
			}
		}
		interesting.insert(oinsns.len() as i64);
		let mut offs = Map::new();
		for i in interesting {
			offs.insert(i.to_string(), json!(o.off(i)?));
		}
		methods.push(json!({"m": m, "nt": insns.len(), "no": oinsns.len(), "len": o.code_length, "T": t_items, "O": o_items,
			"offs": offs, "tabs": tabs.into_iter().map(|(t, d)| json!([t, d])).collect::<Vec<_>>()}));
	}
	Ok(json!({"res": "ok", "parse": "ok", "raw": raw_summary(&parsed.raw), "diffs": atoms, "detail": detail, "methods": methods,
		"size": bytes.len()}))
}

fn read(bytes: &[u8]) -> Result<ClassFile> {
	duke::read_class(&mut Cursor::new(bytes))
}

// ---------------------------------------------------------------------------------------------
// layout vectors

fn nop() -> Value { json!({"op": "nop"}) }

/// The class for an item list: (facts, encoding, first instruction index of every item).
fn layout_class(items: &[Value]) -> Result<(Value, Encoding)> {
	let mut starts = Vec::with_capacity(items.len() + 1);
	let mut n = 0usize;
	let mut variant = 0usize;
	for it in items {
		starts.push(n);
		let k = it["k"].as_str().context("item kind")?;
		let sz = it["n"].as_u64().unwrap_or(0) as usize;
		variant += sz;
		n += if k == "pad" { sz / 6 + sz % 6 } else { 1 };
	}
	starts.push(n);
	let target = |it: &Value, s: usize| -> Result<usize> {
		let t = it["t"].get(s).and_then(Value::as_u64).context("target")? as usize;
		starts.get(t.wrapping_sub(1)).copied().filter(|_| t >= 1 && t <= items.len()).context("target out of range")
	};
	let mut insns = Vec::with_capacity(n);
	let mut grows = Vec::new();
	for (i, it) in items.iter().enumerate() {
		match it["k"].as_str().unwrap_or("") {
			// n bytes: `wide iinc` (6 bytes in the input and in duke's output: local 300) and `nop`
			"pad" => {
				let sz = it["n"].as_u64().unwrap_or(0);
				for _ in 0..sz / 6 {
					insns.push(json!({"op": "iinc", "var": 300, "by": 1}));
				}
				for _ in 0..sz % 6 {
					insns.push(nop());
				}
			}
			"grow" => {
				grows.push(insns.len());
				insns.push(json!({"op": "ldc", "const": {"int": 1_000_000 + i}}));
			}
			// which of the sixteen conditionals: the item's n (1..16) if the model asks for one, else chosen by position
			"if" => {
				let want = it["n"].as_u64().unwrap_or(0) as usize;
				insns.push(json!({"op": IF_OPS[if (1..=16).contains(&want) { want - 1 } else { (variant + i) % 16 }], "target": target(it, 0)?}));
			},
			"goto" => insns.push(json!({"op": "goto", "target": target(it, 0)?})),
			"jsr" => insns.push(json!({"op": "jsr", "target": target(it, 0)?})),
			"tsw" => {
				let arms = it["t"].as_array().map_or(0, |a| a.len());
				let mut ts = Vec::new();
				for s in 1..arms {
					ts.push(target(it, s)?);
				}
				insns.push(json!({"op": "tableswitch", "default": target(it, 0)?, "low": -1, "targets": ts}));
			}
			"lsw" => {
				let arms = it["t"].as_array().map_or(0, |a| a.len());
				let mut ps = Vec::new();
				for s in 1..arms {
					ps.push(json!([(s as i64) * 1000 - 1500, target(it, s)?]));
				}
				insns.push(json!({"op": "lookupswitch", "default": target(it, 0)?, "pairs": ps}));
			}
			other => bail!("unknown item kind {other:?}"),
		}
	}
	// tables: one line number per item; an exception range over all but the last item, handled at a middle item
	let lines: Vec<Value> = (0..items.len()).map(|i| json!([starts[i], i + 1])).collect();
	let mut exceptions = Vec::new();
	let last = starts[items.len() - 1];
	if last > 0 {
		exceptions.push(json!({"start": 0, "end": last, "handler": starts[items.len() / 2], "catch": "java/lang/Exception"}));
	}
	if n >= 2 {
		exceptions.push(json!({"start": starts[items.len() / 2].min(n - 2), "end": n - 1, "handler": last}));
	}
	let code = code_facts(2, 301, insns, exceptions, obj([("LineNumberTable", Value::Array(lines))]));
	let mut methods = Vec::new();
	let mut enc = Encoding::default();
	if !grows.is_empty() {
		let mut fill: Vec<Value> = (0..260).map(|i| json!({"op": "ldc", "const": {"int": 70_000 + i}})).collect();
		fill.push(json!({"op": "return"}));
		methods.push(method_facts(0x9, "fill", "()V", code_facts(1, 0, fill, vec![], json!({}))));
		enc.pool_order = Some("reverse".into());
		for g in &grows {
			enc.forms.push((1, *g, "short".into()));
		}
	}
	methods.push(method_facts(0x9, "m", "()V", code));
	let facts = class_facts(52, "gen/Layout", vec![], methods);
	Ok((facts, enc))
}

fn exec_layout(v: &Value) -> Result<Value> {
	let items = v["items"].as_array().context("items")?;
	let (facts, enc) = layout_class(items)?;
	let bytes = match assemble(&facts, &enc) {
		Ok(b) => b,
		Err(AsmError::Unencodable(m)) => return Ok(json!({"skipped": true, "why": m})),
		Err(e) => bail!("layout class: {e}"),
	};
	let tree = read(&bytes).context("duke cannot read the layout class")?;
	write_and_observe(&tree)
}

// ---------------------------------------------------------------------------------------------
// pool vectors

fn pool_class(v: &Value) -> Result<(Value, Encoding)> {
	let pre = v["pre"].as_u64().unwrap_or(0) as usize;
	let puts = v["puts"].as_array().context("puts")?;
	let mut insns: Vec<Value> = puts.iter().map(|c| json!({"op": "ldc", "const": c})).collect();
	insns.push(json!({"op": "return"}));
	let m = method_facts(0x9, "m", "()V", code_facts(2, 0, insns, vec![], json!({})));
	let facts = class_facts(55, "gen/Pool", (0..pre).map(|i| json!(format!("i/I{i}"))).collect(), vec![m]);
	let mut enc = Encoding::default();
	if let Some(q) = v["pad"].as_u64() {
		enc.pool_pad = Some(q as u32);
	}
	if v["order"].as_str() == Some("reverse") {
		enc.pool_order = Some("reverse".into());
	}
	Ok((facts, enc))
}

fn exec_pool(v: &Value) -> Result<Value> {
	let (facts, enc) = pool_class(v)?;
	let bytes = match assemble(&facts, &enc) {
		Ok(b) => b,
		Err(AsmError::Unencodable(m)) => return Ok(json!({"skipped": true, "why": m})),
		Err(e) => bail!("pool class: {e}"),
	};
	let mut tree = read(&bytes).context("duke cannot read the pool class")?;
	if v["ren"].as_bool() == Some(true) {
		tree = dukebox::remap::remap_class(&Prefix, tree).context("remap")?;
	}
	let mut got = write_and_observe(&tree)?;
	// what the written file uses for the k-th put: pool index, its kind, the instruction's form
	if got["res"] == "ok" && got["parse"] == "ok" {
		let mut out: Vec<u8> = Vec::new();
		duke::write_class(&mut out, &tree).map_err(|e| anyhow!("second write failed: {e:#}"))?;
		let p = parse_class(&out).map_err(|e| anyhow!("second parse failed: {e}"))?;
		let n = v["puts"].as_array().map_or(0, |a| a.len());
		let mut idx = vec![Value::Null; n];
		for u in p.raw["uses"].as_array().map(|a| a.as_slice()).unwrap_or(&[]) {
			let w = u[2].as_str().unwrap_or("");
			if let Some(rest) = w.strip_prefix("method[0].Code.insn[") {
				if let Ok(k) = rest.trim_end_matches(']').parse::<usize>() {
					if k < n {
						idx[k] = u[0].clone();
					}
				}
			}
		}
		let forms: Vec<Value> = p.layout[0]["forms"].as_array().map(|a| a[..n.min(a.len())].to_vec()).unwrap_or_default();
		got["put_idx"] = Value::Array(idx);
		got["put_form"] = Value::Array(forms);
	}
	Ok(got)
}

// ---------------------------------------------------------------------------------------------
// write by id

fn inputs() -> &'static HashMap<String, Vec<u8>> {
	static C: OnceLock<HashMap<String, Vec<u8>>> = OnceLock::new();
	C.get_or_init(|| cfkit::duke_diff::inputs().into_iter().collect())
}

struct Prefix;
impl quill::remapper::ARemapper for Prefix {
	fn map_class_fail(&self, class: &duke::tree::class::ObjClassNameSlice) -> Result<Option<duke::tree::class::ObjClassName>> {
		let mut s = java_string::JavaString::from("renamed/");
		s.push_java_str(class.as_inner());
		Ok(Some(duke::tree::class::ObjClassName::try_from(s)?))
	}
}
impl quill::remapper::BRemapper for Prefix {
	fn map_field_fail(&self, _owner: &duke::tree::class::ObjClassNameSlice, name: &duke::tree::field::FieldNameSlice,
		desc: &duke::tree::field::FieldDescriptorSlice) -> Result<Option<duke::tree::field::FieldNameAndDesc>> {
		use quill::remapper::ARemapper;
		let mut s = java_string::JavaString::from("r_");
		s.push_java_str(name.as_inner());
		Ok(Some(duke::tree::field::FieldNameAndDesc { name: duke::tree::field::FieldName::try_from(s)?, desc: self.map_field_desc(desc)? }))
	}
	fn map_method_fail(&self, _owner: &duke::tree::class::ObjClassNameSlice, name: &duke::tree::method::MethodNameSlice,
		desc: &duke::tree::method::MethodDescriptorSlice) -> Result<Option<duke::tree::method::MethodNameAndDesc>> {
		use quill::remapper::ARemapper;
		let n = name.as_inner();
		let new = if n.starts_with('<') {
			n.to_owned()
		} else {
			let mut s = java_string::JavaString::from("r_");
			s.push_java_str(n);
			s
		};
		Ok(Some(duke::tree::method::MethodNameAndDesc { name: duke::tree::method::MethodName::try_from(new)?, desc: self.map_method_desc(desc)? }))
	}
}

/// Sets `local_variables` on every method of a read tree from LocalVariable(Type)Table rows of the reference
/// facts: the ranges are taken from `local_variable` type annotation targets with the same bounds (the only
/// public source of `LabelRange` values), which the generated family carries for that purpose.
fn set_local_variables(tree: &mut ClassFile, facts: &Value) -> Result<usize> {
	use duke::tree::type_annotation::TargetInfoCode;
	let mut set = 0;
	let fmethods = facts["methods"].as_array().context("methods")?;
	for (mi, m) in tree.methods.iter_mut().enumerate() {
		let Some(code) = m.code.as_mut() else { continue };
		let fcode = &fmethods[mi]["attrs"]["Code"];
		let mut ranges = Vec::new();
		for ta in code.runtime_invisible_type_annotations.iter().chain(code.runtime_visible_type_annotations.iter()) {
			if let TargetInfoCode::LocalVariable { table } = &ta.type_reference {
				for (r, idx) in table {
					ranges.push((r.clone(), *idx));
				}
			}
		}
		let mut fr = Vec::new();
		for name in ["RuntimeInvisibleTypeAnnotations", "RuntimeVisibleTypeAnnotations"] {
			for ta in fcode["attrs"][name].as_array().map(|a| a.as_slice()).unwrap_or(&[]) {
				if ta["target"]["kind"] == "local_variable" {
					for row in ta["target"]["table"].as_array().map(|a| a.as_slice()).unwrap_or(&[]) {
						fr.push((row["start"].as_u64(), row["end"].as_u64(), row["slot"].as_u64()));
					}
				}
			}
		}
		if fr.len() != ranges.len() {
			bail!("method {mi}: {} ranges in the tree, {} in the facts", ranges.len(), fr.len());
		}
		let mut lvs = Vec::new();
		for (name, is_sig) in [("LocalVariableTable", false), ("LocalVariableTypeTable", true)] {
			for row in fcode["attrs"][name].as_array().map(|a| a.as_slice()).unwrap_or(&[]) {
				let key = (row["start"].as_u64(), row["end"].as_u64(), row["slot"].as_u64());
				let Some(k) = fr.iter().position(|x| *x == key) else { continue };
				let lname = duke::tree::method::code::LocalVariableName::try_from(java_string::JavaString::from(row["name"].as_str().context("name")?))?;
				let text = java_string::JavaString::from(row[if is_sig { "sig" } else { "desc" }].as_str().context("desc")?);
				lvs.push(duke::tree::method::code::Lv {
					range: ranges[k].0.clone(),
					name: lname,
					descriptor: if is_sig { None } else { Some(duke::tree::field::FieldDescriptor::try_from(text.clone())?) },
					signature: if is_sig { Some(duke::tree::field::FieldSignature::try_from(text)?) } else { None },
					index: ranges[k].1,
				});
			}
		}
		if !lvs.is_empty() {
			set += lvs.len();
			code.local_variables = Some(lvs);
		}
	}
	Ok(set)
}

fn generated(id: &str) -> Result<Option<(Value, Encoding)>> {
	let Some(rest) = id.strip_prefix("gen/") else { return Ok(None) };
	let parts: Vec<&str> = rest.split('/').collect();
	let num = |i: usize| -> Result<usize> { parts.get(i).context("parameter")?.parse::<usize>().context("number") };
	Ok(Some(match parts[0] {
		// locals crossing 255: every load / store / ret / iinc family around the boundary
		"locals" => {
			let base = num(1)?;
			let mut insns = Vec::new();
			for d in 0..4usize {
				let v = base + d;
				for op in ["iload", "lload", "fload", "dload", "aload", "istore", "lstore", "fstore", "dstore", "astore"] {
					insns.push(json!({"op": op, "var": v}));
				}
				insns.push(json!({"op": "iinc", "var": v, "by": 1}));
				insns.push(json!({"op": "iinc", "var": v, "by": 128}));
				insns.push(json!({"op": "iinc", "var": v, "by": -129}));
				insns.push(json!({"op": "ret", "var": v}));
			}
			insns.push(json!({"op": "goto", "target": 0}));
			let m = cfkit::samples::method_with_code(0x9, "m", "()V", cfkit::samples::code(4, 65535, insns, vec![], json!({})));
			let facts = cfkit::samples::class([50, 0], 0x21, "gen/Locals", Some("java/lang/Object"), vec![], vec![m], json!({}));
			let enc = match parts.get(2).copied() {
				Some("wide") => Encoding { default_forms: [("load", "wide"), ("store", "wide"), ("ret", "wide"), ("iinc", "wide")].iter().map(|(a, b)| (a.to_string(), b.to_string())).collect(), ..Default::default() },
				_ => Encoding::default(),
			};
			(facts, enc)
		}
		// a class with local variable tables and matching local_variable type annotations (for variant "lvt")
		"lvt" => {
			let n = num(1)?.max(2);
			let mut insns: Vec<Value> = (0..n).map(|i| if i % 3 == 0 { json!({"op": "iload", "var": i % 5}) } else if i % 3 == 1 { json!({"op": "pop"}) } else { nop() }).collect();
			insns.push(json!({"op": "goto", "target": 0}));
			let rows: Vec<(usize, usize, usize)> = vec![(0, n, 0), (1, n / 2 + 1, 1), (n / 2, n, 300), (0, 1, 2)];
			let lvt: Vec<Value> = rows.iter().enumerate().map(|(k, (s, e, slot))| json!({"start": s, "end": e, "name": format!("v{k}"), "desc": if k % 2 == 0 { "I" } else { "Ljava/util/List;" }, "slot": slot})).collect();
			let lvtt: Vec<Value> = rows.iter().enumerate().filter(|(k, _)| k % 2 == 1).map(|(k, (s, e, slot))| json!({"start": s, "end": e, "name": format!("v{k}"), "sig": "Ljava/util/List<Ljava/lang/String;>;", "slot": slot})).collect();
			let table: Vec<Value> = rows.iter().map(|(s, e, slot)| json!({"start": s, "end": e, "slot": slot})).collect();
			let ta = json!([{"target": {"kind": "local_variable", "table": table}, "path": [], "type": "Lk/A;", "pairs": []}]);
			let mut l1 = lvt.clone();
			let mut l2 = lvtt.clone();
			cfkit::facts::canon_sort(&mut l1);
			cfkit::facts::canon_sort(&mut l2);
			let attrs = json!({"LocalVariableTable": l1, "LocalVariableTypeTable": l2, "RuntimeInvisibleTypeAnnotations": ta});
			let m = cfkit::samples::method_with_code(0x9, "m", "()V", cfkit::samples::code(2, 301, insns, vec![], attrs));
			(cfkit::samples::class([52, 0], 0x21, "gen/Lvt", Some("java/lang/Object"), vec![], vec![m], json!({})), Encoding::default())
		}
		// more than 255 constants in duke's own pool: ldc of every loadable kind on both sides of the boundary
		"ldc" => {
			let fill = num(1)?;
			let mut insns: Vec<Value> = (0..fill).map(|i| json!({"op": "ldc", "const": {"int": 100_000 + i}})).collect();
			for c in cfkit::samples::all_constants() {
				insns.push(json!({"op": "ldc", "const": c}));
			}
			insns.push(json!({"op": "return"}));
			let m = cfkit::samples::method_with_code(0x9, "m", "()V", cfkit::samples::code(2, 0, insns, vec![], json!({})));
			let enc = match parts.get(2).copied() {
				Some("pad") => Encoding { pool_pad: Some(300), ..Default::default() },
				Some("reverse") => Encoding { pool_order: Some("reverse".into()), ..Default::default() },
				Some("w") => Encoding { default_forms: [("ldc".to_string(), "w".to_string())].into_iter().collect(), ..Default::default() },
				_ => Encoding::default(),
			};
			(cfkit::samples::class([55, 0], 0x21, "gen/Ldc", Some("java/lang/Object"), vec![], vec![m], json!({})), enc)
		}
		other => bail!("unknown generated family {other:?}"),
	}))
}

fn exec_write(v: &Value) -> Result<Value> {
	let id = v["id"].as_str().context("id")?;
	let variant = v["variant"].as_str().unwrap_or("plain");
	let mut reference = None;
	let owned;
	let bytes: &[u8] = match generated(id)? {
		Some((facts, enc)) => {
			owned = assemble(&facts, &enc).map_err(|e| anyhow!("generated class {id}: {e}"))?;
			reference = Some(facts);
			&owned
		}
		None => inputs().get(id).with_context(|| format!("unknown class id {id}"))?,
	};
	// variant "linepc": the class with the start_pc of one line number moved into an instruction (JVMS 4.7.12 asks only for
	// an index into the code array; duke's reader takes it): the tree then holds a label no instruction carries
	let patched;
	let bytes: &[u8] = if variant == "linepc" {
		let spans = match parse_class(bytes) { Ok(p) => p.spans, Err(_) => return Ok(json!({"skipped": true, "why": "reference parse"})) };
		let mut found = None;
		for sp in spans.iter().filter(|sp| sp.role == "lnt_start_pc" && sp.len == 2).take(12) {      // the first dozen: a large class has thousands
			let mut b = bytes.to_vec();
			let pc = u16::from_be_bytes([b[sp.off], b[sp.off + 1]]);
			let [x, y] = (pc + 1).to_be_bytes();
			b[sp.off] = x; b[sp.off + 1] = y;
			// inside an instruction: the strict independent parser refuses the position, duke reads the class
			if parse_class(&b).is_err() && std::panic::catch_unwind(|| read(&b).is_ok()).unwrap_or(false) { found = Some(b); break; }
		}
		match found { Some(b) => { patched = b; &patched }, None => return Ok(json!({"skipped": true, "why": "no line number in front of an instruction of more than one byte"})) }
	} else { bytes };
	let mut tree = match read(bytes) {
		Ok(t) => t,
		Err(e) => return Ok(json!({"skipped": true, "why": format!("duke cannot read it: {e:#}").chars().take(200).collect::<String>()})),
	};
	match variant {
		"plain" => {}
		"linepc" => {
			// fails cleanly, or writes a well-formed file: the full observation only if something was written that parses
			let mut out: Vec<u8> = Vec::new();
			if let Err(e) = duke::write_class(&mut out, &tree) {
				return Ok(json!({"res": "err", "msg": format!("{e:#}").chars().take(300).collect::<String>()}));
			}
			if let Err(e) = parse_class(&out) {
				return Ok(json!({"res": "ok", "parse": "err", "msg": e.to_string(), "size": out.len()}));
			}
		}
		"renamed" => tree = dukebox::remap::remap_class(&Prefix, tree).context("remap")?,
		"lvt" => {
			let facts = match reference {
				Some(f) => f,
				None => parse_class(bytes).map_err(|e| anyhow!("reference parse: {e}"))?.facts,
			};
			let n = set_local_variables(&mut tree, &facts)?;
			if n == 0 {
				return Ok(json!({"skipped": true, "why": "no local variable rows with a matching range"}));
			}
		}
		other => bail!("unknown variant {other:?}"),
	}
	write_and_observe(&tree)
}

pub fn exec(v: &Value) -> Result<Value> {
	match v["op"].as_str().context("op")? {
		"layout" => exec_layout(v),
		"pool" => exec_pool(v),
		"write" => exec_write(v),
		other => bail!("C02: unknown op {other:?}"),
	}
}

// ---------------------------------------------------------------------------------------------
// generation of I2S inputs (never computes expectations)

/// A list of pads, grows and jumps whose input form fills the method up to the last few bytes: the grows
/// (2 bytes in the input, 3 in the output) decide whether the written method still fits.
fn rnd_tight(r: &mut StdRng) -> Value {
	let n = r.gen_range(3..=7usize);
	let mut items: Vec<Value> = Vec::new();
	let mut used: i64 = 0;
	let big = r.gen_range(0..n);
	for i in 0..n {
		if i == big {
			items.push(Value::Null);
			continue;
		}
		let roll = r.gen_range(0..10);
		let it = if roll < 4 {
			used += 2;
			json!({"k": "grow", "n": 3, "t": []})
		} else if roll < 7 {
			let sz = r.gen_range(1..9);
			used += sz;
			json!({"k": "pad", "n": sz, "t": []})
		} else {
			used += 3;
			// a near target, so that the input holds the jump in its short form
			let t = if i > big { r.gen_range(big + 2..=n).min(n) } else { r.gen_range(1..=big.max(1)) };
			let k = ["if", "goto", "jsr"][r.gen_range(0..3)];
			json!({"k": k, "n": 0, "t": [t]})
		};
		items.push(it);
	}
	let slack = r.gen_range(0..5);
	items[big] = json!({"k": "pad", "n": 65535 - used - slack, "t": []});
	Value::Array(items)
}

fn rnd_items(r: &mut StdRng) -> Value {
	if r.gen_range(0..5) == 0 {
		return rnd_tight(r);
	}
	let n = r.gen_range(2..=9usize);
	// budget of bytes for big pads so that most lists stay within the limit
	let mut budget: i64 = 65535 + r.gen_range(-40..12);
	let mut items = Vec::new();
	for _ in 0..n {
		let roll = r.gen_range(0..100);
		let t = |r: &mut StdRng| r.gen_range(1..=n);
		let it = if roll < 40 {
			let sz: i64 = match r.gen_range(0..10) {
				0..=3 => r.gen_range(1..6),
				4..=6 => r.gen_range(32740..32775),
				7 => r.gen_range(16000..17000),
				8 => r.gen_range(100..400),
				_ => (budget - r.gen_range(0..40)).max(1),
			};
			let sz = sz.min(budget.max(1)).max(1);
			budget -= sz;
			json!({"k": "pad", "n": sz, "t": []})
		} else if roll < 48 {
			budget -= 3;
			json!({"k": "grow", "n": 3, "t": []})
		} else if roll < 64 {
			budget -= 3;
			json!({"k": "if", "n": 0, "t": [t(r)]})
		} else if roll < 76 {
			budget -= 3;
			json!({"k": "goto", "n": 0, "t": [t(r)]})
		} else if roll < 84 {
			budget -= 3;
			json!({"k": "jsr", "n": 0, "t": [t(r)]})
		} else {
			let arms = r.gen_range(1..4);
			let ts: Vec<usize> = (0..=arms).map(|_| t(r)).collect();
			budget -= 20 + 8 * arms as i64;
			json!({"k": if roll < 92 { "tsw" } else { "lsw" }, "n": 0, "t": ts})
		};
		items.push(it);
	}
	Value::Array(items)
}

/// Random constants over a small vocabulary, so that sub-entries are shared in many ways.
fn rnd_const(r: &mut StdRng, depth: usize) -> Value {
	let names = ["a", "b", "m", "()V", "Code", "gen/Pool", "k/B", "I", "x"];
	let name = |r: &mut StdRng| names[r.gen_range(0..names.len())];
	let handle = |r: &mut StdRng| {
		let field = r.gen_bool(0.3);
		let kinds: &[&str] = if field { &["getfield", "getstatic", "putfield", "putstatic"] } else { &["invokevirtual", "invokestatic", "invokespecial", "newinvokespecial", "invokeinterface"] };
		let kind = kinds[r.gen_range(0..kinds.len())];
		let itf = kind == "invokeinterface" || ((kind == "invokestatic" || kind == "invokespecial") && r.gen_bool(0.3));
		let owner = ["k/B", "a", "gen/Pool"][r.gen_range(0..3)];
		let nm = ["b", "f", "m", "a"][r.gen_range(0..4)];
		let desc = if field { ["I", "J", "La;"][r.gen_range(0..3)] } else { ["()V", "()I", "(I)La;"][r.gen_range(0..3)] };
		json!({"kind": kind, "owner": owner, "name": nm, "desc": desc, "itf": itf})
	};
	match r.gen_range(0..if depth == 0 { 11 } else { 8 }) {
		0 => json!({"int": r.gen_range(-2..3)}),
		1 => json!({"float": r.gen_range(0..3)}),
		2 => json!({"long": r.gen_range(-1..2i64).to_string()}),
		3 => json!({"double": r.gen_range(0..3u64).to_string()}),
		4 | 5 => json!({"string": name(r)}),
		6 => {
			let c = ["a", "b", "gen/Pool", "k/B", "[I", "[La;"][r.gen_range(0..6)];
			json!({"class": c})
		}
		7 => {
			let d = ["()V", "()I", "(I)La;"][r.gen_range(0..3)];
			json!({"method_type": d})
		}
		8 => json!({"method_handle": handle(r)}),
		_ => {
			let nargs = r.gen_range(0..3);
			let args: Vec<Value> = (0..nargs).map(|_| rnd_const(r, depth + 1)).collect();
			let (bn, dn, dd) = (["b", "c"][r.gen_range(0..2)], ["x", "y", "m"][r.gen_range(0..3)], ["I", "J", "La;", "D"][r.gen_range(0..4)]);
			let bsm = json!({"kind": "invokestatic", "owner": "k/B", "name": bn, "desc": "()Ljava/lang/Object;", "itf": false});
			json!({"dynamic": {"bsm": bsm, "args": args, "name": dn, "desc": dd}})
		}
	}
}

fn rnd_pool(r: &mut StdRng) -> Value {
	let n = r.gen_range(1..=14usize);
	let puts: Vec<Value> = (0..n).map(|_| rnd_const(r, 0)).collect();
	let pre = if r.gen_bool(0.2) { r.gen_range(0..5) } else { r.gen_range(100..128) };
	// the specification's renaming model covers constants without handles
	let plain = puts.iter().all(|c| c.get("method_handle").is_none() && c.get("dynamic").is_none() && c.get("class").map_or(true, |x| !x.as_str().unwrap_or("").starts_with('[')));
	let pad = [0, 0, 7, 300][r.gen_range(0..4)];
	json!({"op": "pool", "pre": pre, "puts": puts, "ren": plain && r.gen_bool(0.4), "pad": pad, "rnd": true})
}

pub fn gen(seed: u64, n: usize) -> Result<Vec<Value>> {
	let mut r = StdRng::seed_from_u64(seed ^ 0xC02);
	let thorough = n >= 2000;
	let mut out = Vec::new();
	// 1. generated families
	for base in [0usize, 2, 252, 254, 65532] {
		for e in ["min", "wide"] {
			out.push(json!({"op": "write", "id": format!("gen/locals/{base}/{e}"), "variant": "plain"}));
		}
	}
	for fill in [0usize, 200, 236, 240, 244, 248, 252, 256, 300] {
		for e in ["min", "pad", "reverse", "w"] {
			out.push(json!({"op": "write", "id": format!("gen/ldc/{fill}/{e}"), "variant": "plain"}));
			if e == "min" {
				out.push(json!({"op": "write", "id": format!("gen/ldc/{fill}/{e}"), "variant": "renamed"}));
			}
		}
	}
	for k in [2usize, 7, 40, 300] {
		out.push(json!({"op": "write", "id": format!("gen/lvt/{k}"), "variant": "lvt"}));
		out.push(json!({"op": "write", "id": format!("gen/lvt/{k}"), "variant": "plain"}));
	}
	// 2. samples under every standard encoding (those duke can read), corpus classes (all of them in the thorough tier)
	let mut ids: Vec<&String> = inputs().keys().collect();
	ids.sort();
	let readable = |id: &String| std::panic::catch_unwind(|| read(&inputs()[id]).is_ok()).unwrap_or(true);
	let samples: Vec<&String> = ids.iter().copied().filter(|i| i.starts_with("sample/")).filter(|i| readable(i)).collect();
	let corpus: Vec<&String> = ids.iter().copied().filter(|i| !i.starts_with("sample/")).collect();
	let sample_stride = if thorough { 1 } else { 5 };
	for (k, id) in samples.iter().enumerate() {
		if k % sample_stride == (seed as usize) % sample_stride {
			out.push(json!({"op": "write", "id": id, "variant": "plain"}));
		}
		if k % (sample_stride * 3) == 1 {
			out.push(json!({"op": "write", "id": id, "variant": "renamed"}));
		}
	}
	let n_layout = if thorough { 600 } else { 50 };
	let room = n.saturating_sub(out.len() + n_layout + if thorough { 400 } else { 40 });
	let stride = (corpus.len() * 7 / 6 / room.max(1)).max(1);
	let off = if stride > 1 { r.gen_range(0..stride) } else { 0 };
	for (k, id) in corpus.iter().enumerate() {
		if k % stride == off {
			out.push(json!({"op": "write", "id": id, "variant": "plain"}));
			if k % (stride * 4) == off { out.push(json!({"op": "write", "id": id, "variant": "linepc"})); }
			if k % (stride * 6) == off {
				out.push(json!({"op": "write", "id": id, "variant": "renamed"}));
			}
		}
	}
	// 3. random item lists with big pads, random constant sequences
	for _ in 0..n_layout {
		out.push(json!({"op": "layout", "items": rnd_items(&mut r), "rnd": true}));
	}
	for _ in 0..(if thorough { 400 } else { 40 }) {
		out.push(rnd_pool(&mut r));
	}
	Ok(out)
}
