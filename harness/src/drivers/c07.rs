//! C07: dukebox::remap::remap(jar, remapper) -> ParsedJar -> to_mem() -> reopened zip.
//!
//! record  {"op":"remap","cls":label,"M":mapping tree (2 namespaces),"lib":{class:[super types..]},"jar":[entry..]}
//!   entry {"n":name,"k":"dir"} | {"n":name,"k":"other","d":text} | {"n":name,"k":"class","c":SRC}
//!   SRC   a generated class {"this","super","itfs","fields":[[name,desc]..],"methods":[[name,desc]..],"items":[ITEM..]}
//!         (the item list of spec/jar/JarRemap.tla, assembled by cfkit) | {"corpus":id} | {"sample":name}
//! got     {"ok":true,
//!          "sup": {class:[super types..]}            inheritance as the harness reads it from the input (cfkit) + lib
//!          "in":  {"entries":[[name,kind,content id]..],"classes":{entry name: OBS}}
//!          "out": {"entries":[..],"names":{name:kind},"classes":{entry name: OBS + "wf"}}
//!          "tree":{entry name:{"frames":[[class,"",""]..]}}   stack map types of the remapped tree (the writer emits none)}
//!         | {"ok":false,"v":[],"stage":..,"err":..}
//!   OBS   {"this":s,"rows":{kind:[[owner,name,desc]..]},"res":{chunk:content id}}
//!         rows = cfkit::refs::references of the class parsed by cfkit, per kind in document order ("" = column absent);
//!         res = cfkit::refs::residual cut into chunks.  The driver computes no expectation: TLC maps the rows.
use std::collections::{BTreeMap, HashMap};
use std::io::{Cursor, Read};
use std::sync::OnceLock;
use anyhow::{anyhow, bail, Context, Result};
use indexmap::{IndexMap, IndexSet};
use rand::rngs::StdRng;
use rand::seq::SliceRandom;
use rand::{Rng, SeedableRng};
use serde_json::{json, Map, Value};
use duke::tree::class::ObjClassName;
use dukebox::storage::{ClassRepr, Jar, JarEntryEnum, UnnamedMemJar};
use quill::remapper::JarSuperProv;
use quill::tree::mappings::Mappings;
use crate::jarkit::zip_entries;
use crate::proj_quill::*;

pub const KINDS: &[&str] = &[
	"this", "super", "interface", "field_decl", "method_decl", "insn_field", "insn_method", "insn_class", "ldc_class", "ldc_mtype",
	"handle", "indy_nt", "bsm_arg_class", "bsm_arg_mtype", "bsm_arg_handle", "catch", "frame_object", "anno_type", "anno_enum",
	"anno_class", "signature", "inner_class_inner", "inner_class_outer", "enclosing_method", "nest_host", "nest_member", "permitted",
	"record_component", "lvt_desc", "lvtt_sig", "exceptions", "module_uses", "module_provides", "module_provides_with", "module_main",
	"x_inner_name", "x_anno_elem",
];

// ---------------------------------------------------------------------------------------------------------------
// generated classes: item list -> class facts

fn st(v: &Value) -> &str { v.as_str().unwrap_or("") }

fn handle_of(o: &str, n: &str, d: &str) -> Value {
	let kind = if d.starts_with('(') { "invokestatic" } else { "getstatic" };
	json!({"kind": kind, "owner": o, "name": n, "desc": d, "itf": false})
}

fn dyn_value(it: &Value) -> Value {
	let b = &it["bsm"];
	let args: Vec<Value> = it["args"].as_array().into_iter().flatten().map(|a| match st(&a[0]) {
		"class" => json!({"class": a[1]}),
		"mtype" => json!({"method_type": a[3]}),
		_ => json!({"method_handle": handle_of(st(&a[1]), st(&a[2]), st(&a[3]))}),
	}).collect();
	json!({"bsm": handle_of(st(&b[0]), st(&b[1]), st(&b[2])), "args": args, "name": it["n"], "desc": it["d"]})
}

pub fn syn_class(c: &Value) -> Result<Value> {
	use cfkit::samples::{class, code, member, method_with_code, op};
	let this = st(&c["this"]);
	let is_mod = this == "module-info";
	let fields: Vec<Value> = c["fields"].as_array().into_iter().flatten().map(|f| member(0x1, st(&f[0]), st(&f[1]), json!({}))).collect();
	let mut methods: Vec<Value> = c["methods"].as_array().into_iter().flatten().map(|m| member(0x401, st(&m[0]), st(&m[1]), json!({}))).collect();
	let mut insns: Vec<Value> = vec![];
	let (mut exc, mut frames, mut lvt, mut lvtt, mut throws) = (vec![], vec![], vec![], vec![], vec![]);
	let mut attrs = Map::new();
	let (mut annos, mut inner, mut members, mut permitted, mut record) = (vec![], vec![], vec![], vec![], vec![]);
	let (mut uses, mut provides) = (vec![], vec![]);
	let mut has_module = is_mod;
	for it in c["items"].as_array().into_iter().flatten() {
		match st(&it["t"]) {
			"insn_field" => insns.push(json!({"op": "getstatic", "owner": it["o"], "name": it["n"], "desc": it["d"]})),
			"insn_method" => insns.push(json!({"op": if st(&it["o"]).starts_with('[') { "invokevirtual" } else { "invokestatic" }, "owner": it["o"], "name": it["n"], "desc": it["d"], "itf": false})),
			"insn_class" => insns.push(json!({"op": "checkcast", "class": it["c"]})),
			"ldc_string" => insns.push(json!({"op": "ldc", "const": {"string": it["c"]}})),
			"ldc_class" => insns.push(json!({"op": "ldc", "const": {"class": it["c"]}})),
			"ldc_mtype" => insns.push(json!({"op": "ldc", "const": {"method_type": it["d"]}})),
			"ldc_handle" => insns.push(json!({"op": "ldc", "const": {"method_handle": handle_of(st(&it["o"]), st(&it["n"]), st(&it["d"]))}})),
			"indy" => insns.push(json!({"op": "invokedynamic", "indy": dyn_value(it)})),
			"condy" => insns.push(json!({"op": "ldc", "const": {"dynamic": dyn_value(it)}})),
			"catch" => exc.push(json!({"start": 0, "end": 1, "handler": 0, "catch": it["c"]})),
			"frame" => frames.push(it["c"].clone()),
			"lvt" => lvt.push(it["d"].clone()),
			"lvtt" => lvtt.push(it["s"].clone()),
			"exceptions" => throws.push(it["c"].clone()),
			"anno" => {
				let pairs: Vec<Value> = it["pairs"].as_array().into_iter().flatten().map(|p| json!([p[1], match st(&p[0]) {
					"e" => json!({"e": {"type": p[2], "name": p[3]}}),
					"c" => json!({"c": p[2]}),
					_ => json!({"I": 1}),
				}])).collect();
				annos.push(json!({"type": it["ty"], "pairs": pairs}));
			},
			"sig" => { attrs.insert("Signature".into(), it["s"].clone()); },
			"inner" => {
				let mut r = json!({"inner": it["inner"], "access": 9});
				if !st(&it["outer"]).is_empty() { r["outer"] = it["outer"].clone(); }
				if !st(&it["name"]).is_empty() { r["name"] = it["name"].clone(); }
				inner.push(r);
			},
			"encl" => {
				let mut e = json!({"class": it["o"]});
				if !st(&it["n"]).is_empty() { e["method"] = json!({"name": it["n"], "desc": it["d"]}); }
				attrs.insert("EnclosingMethod".into(), e);
			},
			"nest_host" => { attrs.insert("NestHost".into(), it["c"].clone()); },
			"nest_member" => members.push(it["c"].clone()),
			"permitted" => permitted.push(it["c"].clone()),
			"record" => record.push(json!({"name": it["n"], "desc": it["d"], "attrs": {}})),
			"mod_uses" => { has_module = true; uses.push(it["c"].clone()); },
			"mod_provides" => { has_module = true; provides.push(json!({"class": it["c"], "with": it["with"]})); },
			"mod_main" => { has_module = true; attrs.insert("ModuleMainClass".into(), it["c"].clone()); },
			"none" => {},
			t => bail!("C07: unknown item {t}"),
		}
	}
	if !is_mod {
		while insns.len() < frames.len() + 1 { insns.push(op("nop")); }
		insns.push(op("return"));
		let n = insns.len();
		let mut cattrs = Map::new();
		if !frames.is_empty() {
			cattrs.insert("StackMapTable".into(), Value::Array(frames.iter().enumerate().map(|(j, c)| json!({"at": j + 1, "locals": [{"object": c}], "stack": []})).collect()));
		}
		if !lvt.is_empty() {
			cattrs.insert("LocalVariableTable".into(), Value::Array(lvt.iter().enumerate().map(|(j, d)| json!({"start": 0, "end": n, "name": format!("v{j}"), "desc": d, "slot": j})).collect()));
		}
		if !lvtt.is_empty() {
			cattrs.insert("LocalVariableTypeTable".into(), Value::Array(lvtt.iter().enumerate().map(|(j, s)| json!({"start": 0, "end": n, "name": format!("v{j}"), "sig": s, "slot": j})).collect()));
		}
		let mut car = method_with_code(0x9, "$car", "()V", code(8, 8, insns, exc, Value::Object(cattrs)));
		if !throws.is_empty() { car["attrs"]["Exceptions"] = Value::Array(throws); }
		methods.push(car);
	}
	if !annos.is_empty() { attrs.insert("RuntimeVisibleAnnotations".into(), Value::Array(annos)); }
	if !inner.is_empty() { attrs.insert("InnerClasses".into(), Value::Array(inner)); }
	if !members.is_empty() { attrs.insert("NestMembers".into(), Value::Array(members)); }
	if !permitted.is_empty() { attrs.insert("PermittedSubclasses".into(), Value::Array(permitted)); }
	if !record.is_empty() { attrs.insert("Record".into(), Value::Array(record)); }
	if has_module {
		attrs.insert("Module".into(), json!({"name": "m", "access": 0, "requires": [{"name": "java.base", "access": 0x8000}], "exports": [{"package": "p", "access": 0, "to": []}],
			"opens": [], "uses": uses, "provides": provides}));
	}
	let sup = st(&c["super"]);
	let mut f = class([61, 0], if is_mod { 0x8000 } else { 0x21 }, this, if sup.is_empty() { None } else { Some(sup) }, fields, methods, Value::Object(attrs));
	f["interfaces"] = if c["itfs"].is_array() { c["itfs"].clone() } else { json!([]) };
	Ok(f)
}

// ---------------------------------------------------------------------------------------------------------------
// input classes

fn corpus() -> &'static HashMap<String, Vec<u8>> {
	static C: OnceLock<HashMap<String, Vec<u8>>> = OnceLock::new();
	C.get_or_init(|| cfkit::corpus::corpus_classes("thorough").into_iter().collect())
}

fn samples() -> &'static HashMap<String, Value> {
	static C: OnceLock<HashMap<String, Value>> = OnceLock::new();
	C.get_or_init(|| cfkit::samples::sample_classes().into_iter().collect())
}

fn class_bytes(src: &Value) -> Result<Vec<u8>> {
	if let Some(id) = src.get("corpus").and_then(Value::as_str) {
		return corpus().get(id).cloned().with_context(|| format!("corpus class {id}"));
	}
	let facts = if let Some(n) = src.get("sample").and_then(Value::as_str) {
		samples().get(n).cloned().with_context(|| format!("sample {n}"))?
	} else { syn_class(src)? };
	cfkit::asm::assemble(&facts, &cfkit::asm::Encoding::default()).map_err(|e| anyhow!("assemble: {e:?}"))
}

// ---------------------------------------------------------------------------------------------------------------
// observation of a class file: reference rows per kind, residual chunks, structural summary

fn hash(v: &Value) -> String {
	let s = serde_json::to_string(v).unwrap_or_default();
	let mut h: u64 = 0xcbf29ce484222325;
	for b in s.bytes() { h ^= b as u64; h = h.wrapping_mul(0x100000001b3); }
	format!("{:012x}", h & 0xffff_ffff_ffff)
}

fn hash_bytes(b: &[u8]) -> String {
	let mut h: u64 = 0xcbf29ce484222325;
	for x in b { h ^= *x as u64; h = h.wrapping_mul(0x100000001b3); }
	format!("{:012x}", h & 0xffff_ffff_ffff)
}

fn col(v: &Option<Value>) -> String {
	match v { None => String::new(), Some(Value::String(s)) => s.clone(), Some(x) => cfkit::facts::s_display(x) }
}

/// What C01 decided not to be facts of a class file (spec/duke/NOTES-C01.md, ClassFacts!IsFactDifference) is removed from
/// both sides alike: BootstrapMethods entries nothing uses, attributes with an empty table (annotations at all levels,
/// StackMapTable, LineNumberTable, LocalVariable(Type)Table), access-flag bits JVMS assigns no meaning, and the bits of
/// Z B C S element values beyond the declared type.
fn normalise_nonfacts(v: &mut Value, ctx: &str) {
	const EMPTY_IS_ABSENT: &[&str] = &["RuntimeVisibleAnnotations", "RuntimeInvisibleAnnotations", "RuntimeVisibleTypeAnnotations", "RuntimeInvisibleTypeAnnotations",
		"RuntimeVisibleParameterAnnotations", "RuntimeInvisibleParameterAnnotations", "StackMapTable", "LineNumberTable", "LocalVariableTable", "LocalVariableTypeTable"];
	match v {
		Value::Object(m) => {
			m.remove("unreferenced_bootstrap");
			m.retain(|k, x| !(EMPTY_IS_ABSENT.contains(&k.as_str()) && x.as_array().map_or(false, |a| a.is_empty())));
			if let Some(a) = m.get("access").and_then(Value::as_u64) {
				let mask: u64 = match ctx {
					"" => 0xF631, "fields" => 0x50DF, "methods" => 0x1DFF, "InnerClasses" => 0x761F, "MethodParameters" => 0x9010,
					"Module" => 0x9020, "requires" => 0x9060, "exports" | "opens" => 0x9000, _ => 0xFFFF,
				};
				m.insert("access".into(), json!(a & mask));
			}
			if m.len() == 1 {
				for (t, bits) in [("Z", 0u32), ("B", 8), ("C", 16), ("S", 16)] {
					if let Some(n) = m.get(t).and_then(Value::as_i64) {
						let x = match t { "Z" => (n != 0) as i64, "B" => n as i8 as i64, "C" => n as u16 as i64, _ => n as i16 as i64 };
						let _ = bits;
						m.insert(t.into(), json!(x));
					}
				}
			}
			for (k, x) in m.iter_mut() {
				let c = if ["fields", "methods", "InnerClasses", "MethodParameters", "Module", "requires", "exports", "opens"].contains(&k.as_str()) { k.as_str() } else { ctx };
				normalise_nonfacts(x, if k == "attrs" || k == "Code" { ctx } else { c });
			}
		},
		Value::Array(a) => for x in a.iter_mut() { normalise_nonfacts(x, ctx); },
		_ => {},
	}
}

/// The order of LocalVariable(Type)Table rows is not a fact; cfkit sorts them by content, i.e. by descriptor first.
/// Here: by the columns that are no references, so that renaming cannot permute them.
fn normalise_local_tables(facts: &mut Value) {
	for m in facts["methods"].as_array_mut().into_iter().flatten() {
		let Some(a) = m.pointer_mut("/attrs/Code/attrs").and_then(Value::as_object_mut) else { continue };
		for t in ["LocalVariableTable", "LocalVariableTypeTable"] {
			if let Some(Value::Array(rows)) = a.get_mut(t) {
				rows.sort_by(|x, y| {
					let k = |r: &Value| (r["start"].as_u64(), r["end"].as_u64(), r["slot"].as_u64(), r["name"].to_string());
					k(x).cmp(&k(y))
				});
			}
		}
	}
}

/// Every annotation (an object with "type" and "pairs") below v, in document order, with the zone it stands in.
fn walk_annotations(v: &mut Value, zone: &'static str, f: &mut dyn FnMut(&mut Value, &'static str)) {
	match v {
		Value::Object(m) => {
			if m.get("type").map_or(false, |t| !t.is_object() || t.get("utf16").is_some()) && m.get("pairs").map_or(false, Value::is_array) && !m.contains_key("op") {
				let mut tmp = Value::Object(std::mem::take(m));
				f(&mut tmp, zone);
				if let Value::Object(o) = tmp { *m = o; }
			}
			for (k, x) in m.iter_mut() {
				let z = if k.ends_with("ParameterAnnotations") { "@param" } else if k == "Record" { "@record" } else { zone };
				walk_annotations(x, z, f);
			}
		},
		Value::Array(a) => for x in a.iter_mut() { walk_annotations(x, zone, f); },
		_ => {},
	}
}

fn rows_of(facts: &Value) -> Value {
	let refs = cfkit::refs::references(facts);
	let mut by: BTreeMap<&str, Vec<Value>> = KINDS.iter().map(|k| (*k, vec![])).collect();
	let mut zoned: BTreeMap<String, Vec<Value>> = BTreeMap::new();
	let by_path: HashMap<(&str, &str), &cfkit::refs::RefRow> = refs.iter().map(|r| ((r.kind, r.path.as_str()), r)).collect();
	for r in &refs {
		let (o, n, d) = (col(&r.owner), col(&r.name), col(&r.desc));
		match r.kind {
			"indy_nt" => {
				// context of the call site: owner of its bootstrap method, first static argument if a method type
				let bsm = by_path.get(&("handle", format!("{}.bsm", r.path).as_str())).map(|h| col(&h.owner)).unwrap_or_default();
				let a0 = by_path.get(&("bsm_arg_mtype", format!("{}.args[0]", r.path).as_str())).map(|h| col(&h.desc)).unwrap_or_default();
				by.get_mut("indy_nt").expect("kind").push(json!(["", n, d, bsm, a0]));
			},
			"inner_class_inner" => {
				by.get_mut("inner_class_inner").expect("kind").push(json!([o, "", ""]));
				by.get_mut("x_inner_name").expect("kind").push(json!([o, n, ""]));
			},
			k => {
				// zone of the class file the row stands in (parts that the reader / the remapper are known to lose as a whole)
				let zone = if k != "record_component" && r.path.starts_with("class.Record[") { "@record" } else if r.path.contains("ParameterAnnotations") { "@param" } else { "" };
				if zone.is_empty() { if let Some(l) = by.get_mut(k) { l.push(json!([o, n, d])); } }
				else { zoned.entry(format!("{k}{zone}")).or_default().push(json!([o, n, d])); }
			},
		}
	}
	let mut copy = facts.clone();
	walk_annotations(&mut copy, "", &mut |a, zone| {
		let ty = col(&a.get("type").cloned());
		for p in a["pairs"].as_array().into_iter().flatten() {
			let row = json!([ty, col(&p.get(0).cloned()), ""]);
			if zone.is_empty() { by.get_mut("x_anno_elem").expect("kind").push(row); } else { zoned.entry(format!("x_anno_elem{zone}")).or_default().push(row); }
		}
	});
	let mut all = json!(by);
	for (k, l) in zoned { all[k] = Value::Array(l); }
	all
}

fn chunks(res: &Value) -> Value {
	let mut out = Map::new();
	let mut put = |k: String, v: &Value| { out.insert(k, json!(hash(v))); };
	put("hdr".into(), &json!([res["version"], res["access"], res["this"], res["super"], res["interfaces"], res["fields"].as_array().map(|a| a.len()), res["methods"].as_array().map(|a| a.len())]));
	for (k, v) in res["attrs"].as_object().into_iter().flatten() {
		// a Record attribute without components still says "this is a record" (it is not an empty table that states nothing)
		put(if k == "Record" && v.as_array().map_or(false, |a| a.is_empty()) { "a/Record(empty)".to_owned() } else { format!("a/{k}") }, v);
	}
	for (i, f) in res["fields"].as_array().into_iter().flatten().enumerate() {
		put(format!("f{i}"), &json!([f["access"], f["name"], f["desc"]]));
		for (k, v) in f["attrs"].as_object().into_iter().flatten() { put(format!("f{i}/{k}"), v); }
	}
	for (i, m) in res["methods"].as_array().into_iter().flatten().enumerate() {
		put(format!("m{i}"), &json!([m["access"], m["name"], m["desc"]]));
		for (k, v) in m["attrs"].as_object().into_iter().flatten() {
			if k != "Code" { put(format!("m{i}/{k}"), v); continue; }
			put(format!("m{i}/Code"), &json!([v["max_stack"], v["max_locals"]]));
			put(format!("m{i}/Code/insns"), &v["insns"]);
			put(format!("m{i}/Code/exc"), &v["exceptions"]);
			for (ck, cv) in v["attrs"].as_object().into_iter().flatten() { put(format!("m{i}/Code/{ck}"), cv); }
		}
	}
	Value::Object(out)
}

fn raw_summary(raw: &Value) -> Value {
	// every (index, expected kinds) once, grouped by the expected kinds (as in drivers/c02.rs; judged by WellFormed.tla)
	let mut groups: BTreeMap<String, (Value, std::collections::BTreeSet<u64>)> = BTreeMap::new();
	for u in raw["uses"].as_array().map(|a| a.as_slice()).unwrap_or(&[]) {
		let g = groups.entry(u[1].to_string()).or_insert_with(|| (u[1].clone(), Default::default()));
		g.1.insert(u[0].as_u64().unwrap_or(u64::MAX));
	}
	let uses: Vec<Value> = groups.into_values().map(|(k, idx)| json!([k, idx.into_iter().collect::<Vec<_>>()])).collect();
	let lengths: Vec<Value> = raw["lengths"].as_array().map(|a| a.as_slice()).unwrap_or(&[]).iter().map(|l| json!([l[0], l[1]])).collect();
	json!({"pool": raw["pool"], "uses": uses, "lengths": lengths, "limits": raw["limits"]})
}

fn observe_facts(mut facts: Value) -> Value {
	normalise_nonfacts(&mut facts, "");
	normalise_local_tables(&mut facts);
	let mut res = cfkit::refs::residual(&facts);
	walk_annotations(&mut res, "", &mut |a, _| for p in a["pairs"].as_array_mut().into_iter().flatten() { if let Some(n) = p.get_mut(0) { *n = json!("_"); } });
	let mut sup: Vec<Value> = vec![];
	for s in facts.get("super").into_iter().chain(facts["interfaces"].as_array().into_iter().flatten()) { if !sup.contains(s) { sup.push(s.clone()); } }
	json!({"this": col(&facts.get("this").cloned()), "rows": rows_of(&facts), "res": chunks(&res), "sup": sup})
}

fn observe(bytes: &[u8], wf: bool) -> Value {
	let parsed = if wf { cfkit::parse::parse_class(bytes) } else { cfkit::parse::parse_class_facts_only(bytes) };
	match parsed {
		Ok(p) => {
			let mut o = observe_facts(p.facts);
			if wf { o["wf"] = json!({"parse": "ok", "raw": raw_summary(&p.raw)}); }
			o
		},
		Err(e) => json!({"this": "", "rows": {}, "res": {}, "sup": [], "wf": {"parse": "err", "msg": format!("{e:?}")}}),
	}
}

fn kind_of(name: &str, is_dir: bool) -> &'static str {
	if is_dir { "dir" } else if name.ends_with(".class") { "class" } else { "other" }
}

fn lib_prov(v: &Value) -> Result<JarSuperProv> {
	let mut super_classes = IndexMap::new();
	for (k, s) in v.as_object().into_iter().flatten() {
		let mut set = IndexSet::new();
		for x in s.as_array().into_iter().flatten() { set.insert(ObjClassName::try_from(js(st(x)))?); }
		super_classes.insert(ObjClassName::try_from(js(k))?, set);
	}
	Ok(JarSuperProv { super_classes })
}

fn refused(stage: &str, e: anyhow::Error, extra: Value) -> Value {
	let mut g = json!({"ok": false, "v": [], "stage": stage, "err": format!("{e:#}").chars().take(300).collect::<String>()});
	for (k, v) in extra.as_object().into_iter().flatten() { g[k] = v.clone(); }
	g
}

pub fn exec(v: &Value) -> Result<Value> {
	// ---- the input jar, and what it states (independent parser)
	let mut entries: Vec<(String, Vec<u8>)> = vec![];
	let mut in_entries = vec![];
	let mut in_classes = Map::new();
	let mut sup = Map::new();
	for (k, s) in v["lib"].as_object().into_iter().flatten() { sup.insert(k.clone(), s.clone()); }
	let mut jar_sup = Map::new();
	for e in v["jar"].as_array().context("jar")? {
		let name = st(&e["n"]).to_owned();
		match st(&e["k"]) {
			"dir" => { in_entries.push(json!([name, "dir", ""])); entries.push((name, vec![])); },
			"other" => {
				let data = st(&e["d"]).as_bytes().to_vec();
				in_entries.push(json!([name, "other", hash_bytes(&data)]));
				entries.push((name, data));
			},
			"class" => {
				let data = class_bytes(&e["c"])?;
				let mut o = observe(&data, false);
				if o.get("wf").is_some() { bail!("C07: the input class {name} is not parseable: {}", o["wf"]); }
				if let Some(s) = o.as_object_mut().and_then(|m| m.remove("sup")) { jar_sup.insert(st(&o["this"]).to_owned(), s); }
				in_entries.push(json!([name, "class", hash_bytes(&data)]));
				in_classes.insert(name.clone(), o);
				entries.push((name, data));
			},
			k => bail!("C07: entry kind {k}"),
		}
	}
	for (k, s) in jar_sup { sup.insert(k, s); }          // the jar's own classes come first in the provider list
	let input = json!({"entries": in_entries, "classes": in_classes});
	let base = json!({"sup": sup, "in": input});
	let data = zip_entries(&entries)?;

	// ---- the code under test
	let jar = UnnamedMemJar { data };
	let own = match jar.get_super_classes_provider() { Ok(p) => p, Err(e) => return Ok(refused("provider", e, base)) };
	let inheritance = vec![own, lib_prov(&v["lib"])?];
	// the mapping set has two namespaces (first -> second), or three with the jar's names in a later one ("from" / "to", 1-based)
	let n_ns = v["M"]["ns"].as_array().map(|a| a.len()).unwrap_or(2);
	let out = if n_ns == 3 {
		let m: Mappings<3, Ns> = json_to_tree(&v["M"])?;
		let from = quill::tree::names::Namespace::new(v["from"].as_u64().context("from")? as usize - 1)?;
		let to = quill::tree::names::Namespace::new(v["to"].as_u64().context("to")? as usize - 1)?;
		let remapper = match m.remapper_b(from, to, &inheritance) { Ok(r) => r, Err(e) => return Ok(refused("remapper", e, base)) };
		match dukebox::remap::remap(jar.clone(), remapper) { Ok(o) => o, Err(e) => return Ok(refused("remap", e, base)) }
	} else {
		let m: Mappings<2, Ns> = json_to_tree(&v["M"])?;
		let remapper = match m.remapper_b_first_to_second(&inheritance) { Ok(r) => r, Err(e) => return Ok(refused("remapper", e, base)) };
		match dukebox::remap::remap(jar.clone(), remapper) { Ok(o) => o, Err(e) => return Ok(refused("remap", e, base)) }
	};
	let mut tree = Map::new();
	for (name, e) in &out.entries {
		if let JarEntryEnum::Class(ClassRepr::Parsed { class }) = &e.content {
			let t = match cfkit::proj_duke::duke_to_facts(class) {
				Ok(f) => json!({"frames": rows_of(&f)["frame_object"]}),
				Err(e) => json!({"err": e.0}),
			};
			tree.insert(name.clone(), t);
		}
	}
	let mem = match out.to_mem() { Ok(m) => m, Err(e) => return Ok(refused("write", e, base)) };

	// ---- the result, reopened
	let mut z = match zip::ZipArchive::new(Cursor::new(&mem.data)) { Ok(z) => z, Err(e) => return Ok(refused("reopen", e.into(), base)) };
	let mut out_entries = vec![];
	let mut out_names = Map::new();
	let mut out_classes = Map::new();
	for i in 0..z.len() {
		let mut f = z.by_index(i)?;
		let name = f.name().to_owned();
		let mut b = vec![];
		f.read_to_end(&mut b)?;
		let kind = kind_of(&name, f.is_dir());
		out_entries.push(json!([name, kind, if kind == "dir" { String::new() } else { hash_bytes(&b) }]));
		out_names.insert(name.clone(), json!(kind));
		if kind == "class" {
			let mut o = observe(&b, true);
			if let Some(m) = o.as_object_mut() { m.remove("sup"); }
			out_classes.insert(name, o);
		}
	}
	let mut g = base;
	g["ok"] = json!(true);
	g["out"] = json!({"entries": out_entries, "names": out_names, "classes": out_classes});
	g["tree"] = Value::Object(tree);
	Ok(g)
}

// ---------------------------------------------------------------------------------------------------------------
// seeded random cases, bigger than the model's universe

struct CInfo { id: String, this: String, sups: Vec<String>, fields: Vec<(String, String)>, methods: Vec<(String, String)> }

fn corpus_index() -> &'static Vec<CInfo> {
	static C: OnceLock<Vec<CInfo>> = OnceLock::new();
	C.get_or_init(|| {
		let mut ids: Vec<&String> = corpus().keys().collect();
		ids.sort();
		let mut out = vec![];
		for id in ids {
			let Ok(p) = cfkit::parse::parse_class_facts_only(&corpus()[id]) else { continue };
			let f = &p.facts;
			let Some(this) = f["this"].as_str() else { continue };
			let mem = |k: &str| -> Option<Vec<(String, String)>> {
				f[k].as_array()?.iter().map(|m| Some((m["name"].as_str()?.to_owned(), m["desc"].as_str()?.to_owned()))).collect()
			};
			let (Some(fields), Some(methods)) = (mem("fields"), mem("methods")) else { continue };
			let sups: Vec<String> = f.get("super").into_iter().chain(f["interfaces"].as_array().into_iter().flatten()).filter_map(|s| s.as_str().map(str::to_owned)).collect();
			out.push(CInfo { id: id.clone(), this: this.to_owned(), sups, fields, methods });
		}
		out
	})
}

fn mnode(kind: &str, src: &str, dst: &str, desc: &str, kids: Map<String, Value>) -> Value {
	json!({"kind": kind, "names": [src, dst], "desc": desc, "idx": 0, "doc": [], "kids": Value::Object(kids)})
}

/// A mapping set for the given classes: `classes` = (name, fields, methods, may rename).
struct MapGen { n: usize }
impl MapGen {
	fn fresh(&mut self, p: &str) -> String { self.n += 1; format!("{p}{}", self.n) }
	fn class_target(&mut self, r: &mut StdRng, name: &str, outer_target: Option<&str>) -> String {
		let simple = name.rsplit('/').next().unwrap_or(name);
		let pkg = &name[..name.len() - simple.len()];
		if let (Some(ot), Some(pos)) = (outer_target, simple.rfind('$')) {
			if r.gen_bool(0.8) { return format!("{ot}${}", if r.gen_bool(0.5) { self.fresh("N") } else { simple[pos + 1..].to_owned() }); }
		}
		match r.gen_range(0..4) {
			0 => format!("{pkg}{}", self.fresh("R")),                       // same package
			1 => format!("moved/pkg{}/{}", r.gen_range(0..3), self.fresh("M")), // package move
			2 => self.fresh("Top"),                                        // into the default package
			_ => format!("{pkg}{}", if simple.contains('$') { format!("{}${}", self.fresh("O"), self.fresh("I")) } else { self.fresh("S") }),
		}
	}
}

fn build_mappings(r: &mut StdRng, classes: &[(String, Vec<(String, String)>, Vec<(String, String)>)], p_class: f64, p_member: f64) -> Value {
	let mut g = MapGen { n: 0 };
	let mut targets: HashMap<String, String> = HashMap::new();
	let mut kids = Map::new();
	let mut sorted: Vec<&(String, Vec<(String, String)>, Vec<(String, String)>)> = classes.iter().collect();
	sorted.sort_by_key(|c| c.0.len());          // outer classes before their inner classes
	// now and then the target names of some top level classes are source names of others (a rotation: a -> b -> c -> a, or a
	// shift whose last class gets a fresh name): asking the remapper twice then differs from asking once
	let mut perm: HashMap<String, String> = HashMap::new();
	if r.gen_bool(0.25) {
		let tops: Vec<&String> = sorted.iter().map(|c| &c.0).filter(|n| !n.contains('$') && !n.starts_with('[') && !n.starts_with("java/") && !n.starts_with("ext/") && *n != "module-info").collect();
		if tops.len() >= 2 {
			let k = r.gen_range(2..=tops.len().min(4));
			let rotate = r.gen_bool(0.5);
			for i in 0..k {
				if i + 1 < k { perm.insert(tops[i].clone(), tops[i + 1].clone()); }
				else if rotate { perm.insert(tops[i].clone(), tops[0].clone()); }
				else { perm.insert(tops[i].clone(), format!("{}Shifted", tops[i])); }
			}
		}
	}
	for (name, fields, methods) in sorted.into_iter().map(|c| (&c.0, &c.1, &c.2)) {
		if kids.contains_key(&format!("c {name}")) || name.starts_with('[') || name == "module-info" { continue; }
		let outer_t = name.rfind('$').and_then(|p| targets.get(&name[..p])).cloned();
		// java/lang/Object keeps its name (the meaning of an <init> frame depends on it); its members may be renamed
		let renamed = perm.contains_key(name) || (name != "java/lang/Object" && r.gen_bool(p_class));
		let target = if let Some(t) = perm.get(name) { t.clone() } else if renamed { g.class_target(r, name, outer_t.as_deref()) } else if r.gen_bool(0.7) { name.clone() } else { String::new() };
		if renamed { targets.insert(name.clone(), target.clone()); }
		let mut mk = Map::new();
		for (n, d) in fields { if r.gen_bool(p_member) { mk.insert(format!("f {n} {d}"), mnode("f", n, &g.fresh("f_"), d, Map::new())); } }
		for (n, d) in methods { if !n.starts_with('<') && r.gen_bool(p_member) { mk.insert(format!("m {n} {d}"), mnode("m", n, &g.fresh("m_"), d, Map::new())); } }
		if !renamed && mk.is_empty() { continue; }
		kids.insert(format!("c {name}"), mnode("c", name, &target, "", mk));
	}
	json!({"ns": ["a", "b"], "doc": [], "kids": Value::Object(kids)})
}

fn extras(r: &mut StdRng, jar: &mut Vec<Value>, first_class: Option<(String, Value)>) {
	if r.gen_bool(0.5) { jar.push(json!({"n": "META-INF/MANIFEST.MF", "k": "other", "d": "Manifest-Version: 1.0\r\n"})); }
	if r.gen_bool(0.3) { jar.insert(0, json!({"n": "META-INF/", "k": "dir"})); }
	if r.gen_bool(0.3) { jar.push(json!({"n": "corpus/", "k": "dir"})); }
	if r.gen_bool(0.3) { jar.push(json!({"n": "assets/names.txt", "k": "other", "d": "corpus/Arith corpus.Arith Lcorpus/Arith;"})); }
	if let Some((this, src)) = first_class {
		if r.gen_bool(0.08) { jar.push(json!({"n": format!("META-INF/versions/{}/{this}.class", r.gen_range(9..22)), "k": "class", "c": src})); }
		else if r.gen_bool(0.03) { jar.push(json!({"n": "odd/Place.class", "k": "class", "c": src})); }
	}
	if r.gen_bool(0.3) { jar.shuffle(r); }
}

const JDK_MEMBERS: &[(&str, &[(&str, &str)])] = &[
	("java/lang/Object", &[("toString", "()Ljava/lang/String;"), ("hashCode", "()I"), ("equals", "(Ljava/lang/Object;)Z")]),
	("java/lang/Runnable", &[("run", "()V")]),
	("java/lang/Comparable", &[("compareTo", "(Ljava/lang/Object;)I")]),
	("java/util/function/Function", &[("apply", "(Ljava/lang/Object;)Ljava/lang/Object;")]),
	("java/util/function/Supplier", &[("get", "()Ljava/lang/Object;")]),
	("java/lang/Enum", &[("name", "()Ljava/lang/String;"), ("ordinal", "()I")]),
	("java/lang/Record", &[]),
];

fn gen_corpus(r: &mut StdRng) -> Value {
	let idx = corpus_index();
	let flavours: Vec<&str> = { let mut f: Vec<&str> = idx.iter().filter_map(|c| c.id.split('/').next()).collect(); f.sort(); f.dedup(); f };
	let fl = *flavours.choose(r).expect("flavour");
	let pool: Vec<&CInfo> = idx.iter().filter(|c| c.id.starts_with(&format!("{fl}/"))).collect();
	// groups: an outer class with its nested classes
	let outer = |c: &CInfo| c.this.split('$').next().unwrap_or("").to_owned();
	let mut chosen: Vec<&CInfo> = vec![];
	for _ in 0..r.gen_range(1..=3) {
		let seed = pool.choose(r).expect("class");
		for c in pool.iter().filter(|c| outer(c) == outer(seed)) { if !chosen.iter().any(|x| x.this == c.this) && chosen.len() < 14 { chosen.push(c); } }
	}
	// super types that live in the corpus join the jar most of the time (inheritance inside the jar)
	let mut i = 0;
	while i < chosen.len() && chosen.len() < 18 {
		for s in chosen[i].sups.clone() {
			if let Some(c) = pool.iter().find(|c| c.this == s) { if r.gen_bool(0.7) && !chosen.iter().any(|x| x.this == c.this) { chosen.push(c); } }
		}
		i += 1;
	}
	if r.gen_bool(0.5) { chosen.shuffle(r); }
	let mut jar: Vec<Value> = chosen.iter().map(|c| json!({"n": format!("{}.class", c.this), "k": "class", "c": {"corpus": c.id}})).collect();
	// mapped: the jar's classes, some corpus classes outside the jar (their super types), some JDK types with members
	let mut mclasses: Vec<(String, Vec<(String, String)>, Vec<(String, String)>)> = chosen.iter().map(|c| (c.this.clone(), c.fields.clone(), c.methods.clone())).collect();
	let mut lib = Map::new();
	for c in &chosen {
		for s in &c.sups {
			if chosen.iter().any(|x| &x.this == s) || lib.contains_key(s) { continue; }
			if let Some(o) = pool.iter().find(|o| &o.this == s) {
				lib.insert(s.clone(), json!(o.sups));
				mclasses.push((o.this.clone(), o.fields.clone(), o.methods.clone()));
			} else if let Some((n, ms)) = JDK_MEMBERS.iter().find(|(n, _)| n == s) {
				lib.insert((*n).to_owned(), json!(if *n == "java/lang/Object" { vec![] } else { vec!["java/lang/Object"] }));
				mclasses.push(((*n).to_owned(), vec![], ms.iter().map(|(a, b)| ((*a).to_owned(), (*b).to_owned())).collect()));
			}
		}
	}
	if r.gen_bool(0.5) && !lib.contains_key("java/lang/Object") {
		lib.insert("java/lang/Object".into(), json!([]));
		mclasses.push(("java/lang/Object".into(), vec![], JDK_MEMBERS[0].1.iter().map(|(a, b)| ((*a).to_owned(), (*b).to_owned())).collect()));
	}
	let (pc, pm) = *[(0.0, 0.0), (0.3, 0.2), (0.7, 0.5), (1.0, 1.0), (1.0, 0.0), (0.0, 0.6)].choose(r).expect("p");
	let m = build_mappings(r, &mclasses, pc, pm);
	let first = chosen.first().map(|c| (c.this.clone(), json!({"corpus": c.id})));
	extras(r, &mut jar, first);
	json!({"op": "remap", "cls": "corpus", "M": m, "lib": Value::Object(lib), "jar": jar})
}

/// Samples that are no well-formed class files (NOTES-C01.md: empty names, duplicate attributes, version 65535.65535,
/// SourceDebugExtension that is not modified UTF-8): outside the property.
/// `local_variable_tables` has a LocalVariableTable row that starts at code_length (JVMS 4.7.13: start_pc must be an opcode index).
const NOT_WELL_FORMED: &[&str] = &["odd_strings", "duplicate_attributes", "extreme_numbers", "source_debug_extension_not_mutf8", "local_variable_tables"];

fn gen_sample(r: &mut StdRng, i: usize) -> Value {
	let mut names: Vec<&String> = samples().keys().filter(|n| !NOT_WELL_FORMED.contains(&n.as_str())).collect();
	names.sort();
	let name = names[i % names.len()];
	let f = &samples()[name];
	let this = st(&f["this"]).to_owned();
	// everything named k/.. in the sample may be renamed: collect the class names of its reference rows
	let rows = rows_of(f);
	let mut cls: Vec<String> = vec![this.clone()];
	for (_, l) in rows.as_object().into_iter().flatten() {
		for row in l.as_array().into_iter().flatten() {
			for c in row.as_array().into_iter().flatten() {
				let s = st(c);
				let mut rest = s;
				while let Some(p) = rest.find("k/") {
					let tail = &rest[p..];
					let end = tail.find(|ch: char| ch == ';' || ch == '<' || ch == '.' || ch == ')').unwrap_or(tail.len());
					let n = &tail[..end];
					if !cls.iter().any(|x| x == n) && (p == 0 || !rest[..p].ends_with(|ch: char| ch.is_alphanumeric())) { cls.push(n.to_owned()); }
					rest = &tail[end..];
				}
			}
		}
	}
	let members = |k: &str| -> Vec<(String, String)> { f[k].as_array().into_iter().flatten().filter_map(|m| Some((m["name"].as_str()?.to_owned(), m["desc"].as_str()?.to_owned()))).collect() };
	let mut mclasses: Vec<(String, Vec<(String, String)>, Vec<(String, String)>)> = vec![(this.clone(), members("fields"), members("methods"))];
	for c in cls.iter().skip(1) { mclasses.push((c.clone(), vec![], vec![])); }
	let (pc, pm) = *[(1.0, 1.0), (0.5, 0.5), (1.0, 0.0)].choose(r).expect("p");
	let m = build_mappings(r, &mclasses, pc, pm);
	let mut jar = vec![json!({"n": format!("{this}.class"), "k": "class", "c": {"sample": name}})];
	extras(r, &mut jar, None);
	json!({"op": "remap", "cls": format!("sample/{name}"), "M": m, "lib": {}, "jar": jar})
}

fn gen_items(r: &mut StdRng) -> Value {
	// generated classes: a small hierarchy (inside and outside the jar) and random items over its names
	let pk = ["a/", "a/b/", "", "zz/y/", "k\u{e4}se/gr\u{f6}\u{df}e/", "\u{20ac}/"];      // also names of more than one byte per character
	let n = r.gen_range(2..7);
	let mut names: Vec<String> = vec![];
	for i in 0..n {
		let nm = if i > 0 && r.gen_bool(0.35) { format!("{}$In{i}", names[r.gen_range(0..i)]) } else { format!("{}C{i}", pk.choose(r).expect("pk")) };
		names.push(nm);
	}
	let outside = ["ext/Base".to_owned(), "ext/Itf".to_owned(), "ext/Top".to_owned()];
	let fdescs = |r: &mut StdRng, names: &Vec<String>| -> String {
		match r.gen_range(0..5) { 0 => "I".into(), 1 => "[J".into(), 2 => format!("L{};", names.choose(r).expect("n")), 3 => format!("[[L{};", names.choose(r).expect("n")), _ => "Ljava/lang/String;".into() }
	};
	let mdescs = |r: &mut StdRng, names: &Vec<String>| -> String {
		let k = r.gen_range(0..3);
		let ps: String = (0..k).map(|_| fdescs(r, names)).collect();
		format!("({ps}){}", if r.gen_bool(0.4) { "V".to_owned() } else { fdescs(r, names) })
	};
	let mut decl: Vec<(String, Vec<(String, String)>, Vec<(String, String)>, Vec<String>)> = vec![];
	for (i, nm) in names.iter().enumerate() {
		let fields: Vec<(String, String)> = (0..r.gen_range(0..3)).map(|j| (format!("f{}", (i + j) % 4), fdescs(r, &names))).collect();
		let methods: Vec<(String, String)> = (0..r.gen_range(0..3)).map(|j| (format!("m{}", (i + j) % 4), if r.gen_bool(0.5) { "()V".to_owned() } else { mdescs(r, &names) })).collect();
		let mut sups = vec![];
		sups.push(if i + 1 < names.len() && r.gen_bool(0.6) { names[r.gen_range(i + 1..names.len())].clone() } else if r.gen_bool(0.5) { outside[0].clone() } else { "java/lang/Object".to_owned() });
		if r.gen_bool(0.3) { sups.push(outside[1].clone()); }
		if i + 1 < names.len() && r.gen_bool(0.2) { let s = names[r.gen_range(i + 1..names.len())].clone(); if !sups.contains(&s) { sups.push(s); } }
		let _ = nm;
		decl.push((nm.clone(), fields, methods, sups));
	}
	// members that exist somewhere in the hierarchy (so that references through sub types resolve by inheritance)
	let all_f: Vec<(String, String, String)> = decl.iter().flat_map(|d| d.1.iter().map(move |f| (d.0.clone(), f.0.clone(), f.1.clone()))).collect();
	let mut all_m: Vec<(String, String, String)> = decl.iter().flat_map(|d| d.2.iter().map(move |f| (d.0.clone(), f.0.clone(), f.1.clone()))).collect();
	all_m.push(("ext/Top".into(), "top".into(), "()V".into()));
	all_m.push(("ext/Itf".into(), "call".into(), "()Ljava/lang/Object;".into()));
	let any_class = |r: &mut StdRng| -> String { if r.gen_bool(0.15) { outside.choose(r).expect("o").clone() } else { names.choose(r).expect("n").clone() } };
	let mut jar = vec![];
	for (i, d) in decl.iter().enumerate() {
		let mut items = vec![];
		for _ in 0..r.gen_range(0..9) {
			let c = any_class(r);
			let arr = if r.gen_bool(0.2) { format!("[L{c};") } else { c.clone() };
			let fr = |r: &mut StdRng| -> (String, String, String) {
				if !all_f.is_empty() && r.gen_bool(0.8) { let f = all_f.choose(r).expect("f"); (if r.gen_bool(0.5) { f.0.clone() } else { names.choose(r).expect("n").clone() }, f.1.clone(), f.2.clone()) }
				else { (names.choose(r).expect("n").clone(), "nofield".into(), "I".into()) }
			};
			let mr = |r: &mut StdRng| -> (String, String, String) {
				let f = all_m.choose(r).expect("m"); (if r.gen_bool(0.5) && !f.0.starts_with("ext/") { f.0.clone() } else { names.choose(r).expect("n").clone() }, f.1.clone(), f.2.clone())
			};
			let it = match r.gen_range(0..24) {
				0 => { let f = fr(r); json!({"t": "insn_field", "o": f.0, "n": f.1, "d": f.2}) },
				1 => { let f = mr(r); json!({"t": "insn_method", "o": f.0, "n": f.1, "d": f.2}) },
				2 => json!({"t": "insn_class", "c": arr}),
				3 => json!({"t": "ldc_class", "c": arr}),
				4 => json!({"t": "ldc_mtype", "d": mdescs(r, &names)}),
				5 => { let f = if r.gen_bool(0.5) { fr(r) } else { mr(r) }; json!({"t": "ldc_handle", "o": f.0, "n": f.1, "d": f.2}) },
				6 => {
					let itf = all_m.choose(r).expect("m");
					let h = mr(r);
					json!({"t": "indy", "n": itf.1, "d": format!("()L{};", if r.gen_bool(0.6) { itf.0.clone() } else { c.clone() }), "bsm": ["java/lang/invoke/LambdaMetafactory", "metafactory", "(Ljava/lang/invoke/MethodHandles$Lookup;Ljava/lang/String;Ljava/lang/invoke/MethodType;Ljava/lang/invoke/MethodType;Ljava/lang/invoke/MethodHandle;Ljava/lang/invoke/MethodType;)Ljava/lang/invoke/CallSite;"],
						"args": [["mtype", "", "", itf.2], ["handle", h.0, h.1, h.2], ["mtype", "", "", itf.2]]})
				},
				7 => { let h = mr(r); let f = fr(r); let indy = r.gen_bool(0.5); json!({"t": if indy { "indy" } else { "condy" }, "n": "dyn", "d": if indy { mdescs(r, &names) } else { fdescs(r, &names) },
					"bsm": [h.0, h.1, h.2], "args": [["class", arr, "", ""], ["handle", f.0, f.1, f.2], ["mtype", "", "", mdescs(r, &names)]]}) },
				8 => json!({"t": "catch", "c": c}),
				9 => json!({"t": "frame", "c": arr}),
				10 => json!({"t": "lvt", "d": fdescs(r, &names)}),
				11 => json!({"t": "lvtt", "s": format!("L{c}<L{};>;", any_class(r))}),
				12 => { let f = fr(r); json!({"t": "anno", "ty": format!("L{c};"), "pairs": [["e", "en", format!("L{};", f.0), f.1], ["c", "cl", fdescs(r, &names), ""], ["i", "num", "", ""]]}) },
				13 => json!({"t": "sig", "s": format!("<T:L{c};>Ljava/lang/Object;L{}<TT;>;", any_class(r))}),
				14 => { let p = c.rfind('$'); json!({"t": "inner", "inner": c, "outer": p.map(|p| c[..p].to_owned()).unwrap_or_default(), "name": p.map(|p| c[p + 1..].to_owned()).unwrap_or_default()}) },
				15 => { let f = mr(r); if r.gen_bool(0.7) { json!({"t": "encl", "o": f.0, "n": f.1, "d": f.2}) } else { json!({"t": "encl", "o": f.0, "n": "", "d": ""}) } },
				16 => json!({"t": "nest_host", "c": c}),
				17 => json!({"t": "nest_member", "c": c}),
				18 => json!({"t": "permitted", "c": c}),
				19 => json!({"t": "exceptions", "c": c}),
				20 => { let f = d.1.first().cloned().unwrap_or(("rc".into(), "I".into())); json!({"t": "record", "n": f.0, "d": f.1}) },
				21 => if r.gen_bool(0.6) { json!({"t": "insn_method", "o": format!("[L{c};"), "n": "clone", "d": "()Ljava/lang/Object;"}) }
					else { json!({"t": "insn_method", "o": format!("[[L{c};"), "n": "equals", "d": format!("(L{};)Z", any_class(r))}) },
				22 => { let sg = match c.rfind('$') { Some(p) => format!("L{}<TT;>.{};", &c[..p], &c[p + 1..]), None => format!("L{c};") }; json!({"t": "sig", "s": sg}) },
				_ => json!({"t": "lvtt", "s": "TT;"}),
			};
			items.push(it);
		}
		let _ = i;
		jar.push(json!({"n": format!("{}.class", d.0), "k": "class", "c": {"this": d.0, "super": d.3[0], "itfs": d.3[1..].to_vec(),
			"fields": d.1.iter().map(|f| json!([f.0, f.1])).collect::<Vec<_>>(), "methods": d.2.iter().map(|f| json!([f.0, f.1])).collect::<Vec<_>>(), "items": items}}));
	}
	if r.gen_bool(0.2) {
		jar.push(json!({"n": "module-info.class", "k": "class", "c": {"this": "module-info", "super": "", "itfs": [], "fields": [], "methods": [],
			"items": [{"t": "mod_uses", "c": any_class(r)}, {"t": "mod_provides", "c": any_class(r), "with": [any_class(r)]}, {"t": "mod_main", "c": any_class(r)}]}}));
	}
	let mut mclasses: Vec<(String, Vec<(String, String)>, Vec<(String, String)>)> = decl.iter().map(|d| (d.0.clone(), d.1.clone(), d.2.clone())).collect();
	mclasses.push(("ext/Top".into(), vec![], vec![("top".into(), "()V".into())]));
	mclasses.push(("ext/Itf".into(), vec![], vec![("call".into(), "()Ljava/lang/Object;".into())]));
	mclasses.push(("ext/Base".into(), vec![], vec![]));
	let (pc, pm) = *[(0.0, 0.0), (0.4, 0.3), (0.8, 0.7), (1.0, 1.0), (0.0, 0.7)].choose(r).expect("p");
	let m = build_mappings(r, &mclasses, pc, pm);
	let first = jar.first().map(|e| (st(&e["c"]["this"]).to_owned(), e["c"].clone()));
	extras(r, &mut jar, first);
	json!({"op": "remap", "cls": "generated", "M": m, "lib": {"ext/Base": ["ext/Top", "ext/Itf"], "ext/Top": [], "ext/Itf": []}, "jar": jar})
}

/// Descriptor `d` with every class name that is a key of `k` replaced (token scanner: `L` at a type boundary up to `;`).
fn desc_with(d: &str, k: &HashMap<String, String>) -> String {
	let b: Vec<char> = d.chars().collect();
	let mut out = String::new();
	let mut i = 0;
	while i < b.len() {
		if b[i] == 'L' {
			if let Some(e) = (i + 1..b.len()).find(|&j| b[j] == ';') {
				let name: String = b[i + 1..e].iter().collect();
				out.push('L'); out.push_str(k.get(&name).unwrap_or(&name)); out.push(';');
				i = e + 1;
				continue;
			}
		}
		out.push(b[i]);
		i += 1;
	}
	out
}

/// The same renames stated over three namespaces <<k, a, b>>: classes and members keyed by fresh names of a namespace the jar is
/// not in, member descriptors written in that namespace (as quill stores them), the jar remapped from the second to the third.
/// Every class gets a name in the third namespace (its own where the two-namespace set had none).
fn via3(rec: &mut Value) {
	let Some(kids) = rec["M"]["kids"].as_object().cloned() else { return };
	let k: HashMap<String, String> = kids.values().map(|c| { let a = st(&c["names"][0]).to_owned(); (a.clone(), format!("{a}_k")) }).collect();
	let mut out = Map::new();
	for c in kids.values() {
		let a = st(&c["names"][0]);
		let b = if st(&c["names"][1]).is_empty() { a } else { st(&c["names"][1]) };
		let mut mk = Map::new();
		for m in c["kids"].as_object().into_iter().flatten().map(|(_, m)| m) {
			let kind = st(&m["kind"]);
			let (n, t, d) = (st(&m["names"][0]), st(&m["names"][1]), desc_with(st(&m["desc"]), &k));
			mk.insert(format!("{kind} {n}_k {d}"), json!({"kind": kind, "names": [format!("{n}_k"), n, t], "desc": d, "idx": 0, "doc": [], "kids": {}}));
		}
		out.insert(format!("c {}", k[a]), json!({"kind": "c", "names": [k[a], a, b], "desc": "", "idx": 0, "doc": [], "kids": Value::Object(mk)}));
	}
	rec["M"] = json!({"ns": ["k", "a", "b"], "doc": [], "kids": Value::Object(out)});
	rec["from"] = json!(2);
	rec["to"] = json!(3);
	rec["cls"] = json!(format!("via3-{}", st(&rec["cls"])));
}

pub fn gen(seed: u64, n: usize) -> Result<Vec<Value>> {
	let mut r = StdRng::seed_from_u64(seed ^ 0xC07);
	let nsamples = samples().len() - NOT_WELL_FORMED.len();
	let mut out = vec![];
	// every sample class once (each reference kind occurs among them), then corpus jars and generated jars
	for i in 0..nsamples.min(n) { out.push(gen_sample(&mut r, i)); }
	while out.len() < n {
		out.push(if r.gen_bool(0.6) { gen_corpus(&mut r) } else { gen_items(&mut r) });
	}
	// every fourth record: the mapping set over three namespaces, remapped from the second to the third
	for (i, rec) in out.iter_mut().enumerate() { if i % 4 == 3 { via3(rec); } }
	Ok(out)
}
