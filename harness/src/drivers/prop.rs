//! Propagation of a change through the version graph: src/insert_mappings.rs (pasted into the harness, see main.rs).
//! Specification: spec/graph/Propagate.tla.  Values: "" = None; an action is its tuple [a, b].
//!
//! ops  {"op":"walk","W":{n,edges:[[p,c]..],diffs:[edge diff..],root,version,barriers:[v..],level:"c"|"f",mode:"M"|"J",change:{info,doc}}}
//!         -> {"calls":[{kind,p,c,side,insert,res}.. in call order],"callset":[.. sorted by (p,c,side)],"dirty":[v..],"depth":[..]}
//!      {"op":"edge","level","mode","side","insert","change","D":edge diff} -> {"res":"same"|"edited"|"err","after":edge diff}
//!      {"op":"root","level","mode","change","M":root} -> {"res":..}
//!      {"op":"ids","str":s} -> {"cls","fld","mth"}
//!  edge diff = {"cls":[] | {"node":{"info":[a,b],"doc":[a,b]},"fld":[] | {"info","doc"}}}      (what the diff says about class K / its field F)
//!  root      = {"cls":[] | {"name":s,"doc":s,"fld":[] | {"name","doc"}}}
use std::path::PathBuf;
use anyhow::{Context, Result};
use rand::rngs::StdRng;
use rand::{Rng, SeedableRng};
use serde_json::{json, Map, Value};
use duke::tree::class::ObjClassName;
use duke::tree::field::{FieldName, FieldNameAndDesc};
use duke::tree::method::{MethodName, MethodNameAndDesc};
use quill::tree::mappings::Mappings;
use quill::tree::mappings_diff::{Action, ClassNowodeDiff, MappingsDiff};
use crate::insert_incl as im;
use crate::proj_quill::*;
use crate::version_graph::VersionGraph;
use crate::{Intermediary, Named};

const K: &str = "K";
const F: &str = "F";
const FD: &str = "I";

fn act(t: &Value, doc: bool) -> Value {
	let (a, b) = (t[0].as_str().unwrap_or(""), t[1].as_str().unwrap_or(""));
	let p = |s: &str| if doc { json!([s]) } else { json!(s) };
	match (a.is_empty(), b.is_empty()) {
		(true, true) => json!(["none"]),
		(true, false) => json!(["add", p(b)]),
		(false, true) => json!(["rem", p(a)]),
		(false, false) => json!(["edit", p(a), p(b)]),
	}
}
fn dnode(kind: &str, name: &str, desc: &str, info: Value, doc: Value, kids: Map<String, Value>) -> Value {
	json!({"key": {"kind": kind, "name": name, "desc": desc, "idx": 0}, "info": info, "doc": doc, "kids": Value::Object(kids)})
}
fn empty(v: &Value) -> bool { v.is_null() || v.as_array().map_or(false, |a| a.is_empty()) }

/// edge diff (abstract) -> diff tree in the wire form of proj_quill, optionally with the marker class of the edge
fn diff_json(d: &Value, marker: Option<(u64, u64)>) -> Value {
	let mut classes = Map::new();
	if let Some((p, c)) = marker {
		let name = format!("E{p}_{c}");
		classes.insert(format!("c {name}"), dnode("c", &name, "", json!(["add", "e"]), json!(["none"]), Map::new()));
	}
	let cls = &d["cls"];
	if !empty(cls) {
		let mut kids = Map::new();
		if !empty(&cls["fld"]) {
			kids.insert(format!("f {F} {FD}"), dnode("f", F, FD, act(&cls["fld"]["info"], false), act(&cls["fld"]["doc"], true), Map::new()));
		}
		classes.insert(format!("c {K}"), dnode("c", K, "", act(&cls["node"]["info"], false), act(&cls["node"]["doc"], true), kids));
	}
	json!({"info": ["none"], "doc": ["none"], "kids": Value::Object(classes)})
}
fn tup<T>(a: &Action<T>, f: impl Fn(&T) -> String) -> Value {
	let (x, y) = a.as_ref().to_tuple();
	json!([x.map(&f).unwrap_or_default(), y.map(&f).unwrap_or_default()])
}
/// real diff -> what it says about K / F (abstract edge diff)
fn diff_abs(d: &MappingsDiff) -> Value {
	let key: ObjClassName = js(K).try_into().expect("class name");
	match d.classes.get(&key) {
		None => json!({"cls": []}),
		Some(c) => {
			let fk = FieldNameAndDesc { desc: js(FD).try_into().expect("desc"), name: js(F).try_into().expect("field name") };
			let fld = match c.fields.get(&fk) {
				None => json!([]),
				Some(f) => json!({"info": tup(&f.info, |x| x.to_string()), "doc": tup(&f.javadoc, |x| x.0.clone())}),
			};
			json!({"cls": {"node": {"info": tup(&c.info, |x| x.to_string()), "doc": tup(&c.javadoc, |x| x.0.clone())}, "fld": fld}})
		},
	}
}
fn doc_json(s: &Value) -> Value { let s = s.as_str().unwrap_or(""); if s.is_empty() { json!([]) } else { json!([s]) } }
/// root (abstract) -> mapping tree in the wire form of proj_quill
fn root_json(m: &Value) -> Value {
	let mut classes = Map::new();
	classes.insert("c Z".into(), json!({"kind": "c", "names": ["Z", "z"], "desc": "", "idx": 0, "doc": [], "kids": {}}));
	let cls = &m["cls"];
	if !empty(cls) {
		let mut kids = Map::new();
		if !empty(&cls["fld"]) {
			kids.insert(format!("f {F} {FD}"), json!({"kind": "f", "names": [F, cls["fld"]["name"]], "desc": FD, "idx": 0, "doc": doc_json(&cls["fld"]["doc"]), "kids": {}}));
		}
		classes.insert(format!("c {K}"), json!({"kind": "c", "names": [K, cls["name"]], "desc": "", "idx": 0, "doc": doc_json(&cls["doc"]), "kids": Value::Object(kids)}));
	}
	json!({"ns": ["intermediary", "named"], "doc": [], "kids": Value::Object(classes)})
}
/// the change as the class node of a MappingsDiff: at class level the node itself, at field level a class node with the field
fn change_class(level: &str, ch: &Value) -> Result<(ObjClassName, Option<FieldNameAndDesc>, ClassNowodeDiff)> {
	let abs = if level == "c" { json!({"cls": {"node": ch, "fld": []}}) }
		else { json!({"cls": {"node": {"info": ["", ""], "doc": ["", ""]}, "fld": ch}}) };
	let d = json_to_diff(&diff_json(&abs, None))?;
	let key: ObjClassName = js(K).try_into()?;
	let c = d.classes.get(&key).context("change class")?.clone();
	let fk = if level == "c" { None } else { Some(FieldNameAndDesc { desc: js(FD).try_into()?, name: js(F).try_into()? }) };
	Ok((key, fk, c))
}

pub fn exec(v: &Value) -> Result<Value> {
	match v["op"].as_str() {
		Some("walk") => walk(v),
		Some("edge") => edge(v),
		Some("root") => root(v),
		Some("ids") => ids(v),
		o => anyhow::bail!("prop: unknown op {o:?}"),
	}
}

fn edge(v: &Value) -> Result<Value> {
	let level = v["level"].as_str().context("level")?;
	let (key, fk, ch) = change_class(level, &v["change"])?;
	let mut d = json_to_diff(&diff_json(&v["D"], None))?;
	let (side_a, insert, mode_m) = (v["side"] == "A", v["insert"].as_bool().context("insert")?, v["mode"] == "M");
	let res = match &fk {
		None => im::verif_apply_class_to_diff(&mut d, &key, &ch, side_a, insert, mode_m),
		Some(fk) => im::verif_apply_field_to_diff(&mut d, &key, fk, ch.fields.get(fk).context("field change")?, side_a, insert, mode_m),
	};
	Ok(json!({"res": res, "after": diff_abs(&d)}))
}

fn root(v: &Value) -> Result<Value> {
	let level = v["level"].as_str().context("level")?;
	let (key, fk, ch) = change_class(level, &v["change"])?;
	let mut m: Mappings<2, (Intermediary, Named)> = json_to_tree(&root_json(&v["M"]))?;
	let mode_m = v["mode"] == "M";
	let res = match &fk {
		None => im::verif_apply_class_to_root(&mut m, &key, &ch, mode_m),
		Some(fk) => im::verif_apply_field_to_root(&mut m, &key, fk, ch.fields.get(fk).context("field change")?, mode_m),
	};
	Ok(json!({"res": res}))
}

fn ids(v: &Value) -> Result<Value> {
	let s = v["str"].as_str().context("str")?;
	// the functions look at the text only; the strings of the model need not be valid names
	let (c, f, m) = unsafe {
		let c = ObjClassName::from_inner_unchecked(js(s));
		let f = FieldNameAndDesc { desc: js("I").try_into()?, name: FieldName::from_inner_unchecked(js(s)) };
		let m = MethodNameAndDesc { desc: js("()V").try_into()?, name: MethodName::from_inner_unchecked(js(s)) };
		im::verif_ids(&c, &f, &m)
	};
	Ok(json!({"cls": c, "fld": f, "mth": m}))
}

fn walk(v: &Value) -> Result<Value> {
	static CTR: std::sync::atomic::AtomicUsize = std::sync::atomic::AtomicUsize::new(0);
	let n = CTR.fetch_add(1, std::sync::atomic::Ordering::Relaxed);
	let dir = PathBuf::from(format!("/dev/shm/verif-work/tmp/pr-{}-{}", std::process::id(), n));
	let _ = std::fs::remove_dir_all(&dir);
	std::fs::create_dir_all(&dir)?;
	let r = walk_in(&dir, &v["W"]);
	let _ = std::fs::remove_dir_all(&dir);
	r
}

fn walk_in(dir: &PathBuf, w: &Value) -> Result<Value> {
	let root_tree: Mappings<2, Ns> = json_to_tree(&root_json(&w["root"]))?;
	std::fs::write(dir.join("v1.tiny"), quill::tiny_v2::write_string(&root_tree)?)?;
	let edges = w["edges"].as_array().context("edges")?;
	for (i, e) in edges.iter().enumerate() {
		let (p, c) = (e[0].as_u64().context("p")?, e[1].as_u64().context("c")?);
		let text = lines_to_text(&diff_to_lines(&diff_json(&w["diffs"][i], Some((p, c))))?)?;
		std::fs::write(dir.join(format!("v{p}#v{c}.tinydiff")), text)?;
	}
	let graph = VersionGraph::resolve(dir)?;
	let (_, version) = graph.get(&format!("v{}", w["version"].as_u64().context("version")?))?;
	let barriers: Vec<String> = w["barriers"].as_array().context("barriers")?.iter().map(|b| format!("v{}", b.as_u64().unwrap_or(0))).collect();
	let level = w["level"].as_str().context("level")?;
	let (key, fk, ch) = change_class(level, &w["change"])?;
	let (calls, dirty) = im::verif_walk(&graph, version, &barriers, w["lenient"].as_bool().unwrap_or(false), &key, fk.as_ref(), &ch, w["mode"] == "M")?;
	let mut cj: Vec<Value> = vec![];
	for c in &calls {
		cj.push(if c.root { json!({"kind": "root", "p": 0, "c": 1, "side": "", "insert": false, "res": c.res}) }
			else {
				let (p, ch) = c.edge.context("a diff without the marker of its edge")?;
				json!({"kind": "edge", "p": p, "c": ch, "side": if c.side_a { "A" } else { "B" }, "insert": c.insert, "res": c.res})
			});
	}
	let mut sorted = cj.clone();
	sorted.sort_by_key(|c| c["p"].as_u64().unwrap_or(0) * 100 + c["c"].as_u64().unwrap_or(0) * 10 + match c["side"].as_str() { Some("A") => 1, Some("B") => 2, _ => 0 });
	let dirty: Vec<u64> = { let mut d: Vec<u64> = dirty.iter().filter_map(|s| s[1..].parse().ok()).collect(); d.sort(); d };
	let n = w["n"].as_u64().context("n")? as usize;
	let mut depth = vec![0usize; n];
	for e in graph.versions() { if let Ok(i) = e.as_str()[1..].parse::<usize>() { if i >= 1 && i <= n { depth[i - 1] = e.depth(); } } }
	Ok(json!({"calls": cj, "callset": sorted, "dirty": dirty, "depth": depth}))
}

/// Random larger graphs (3..7 versions, every version with one or two parents among the earlier ones), random statements
/// of the edges about the entry, every level / mode / direction.
pub fn gen(seed: u64, n: usize) -> Result<Vec<Value>> {
	let mut r = StdRng::seed_from_u64(seed ^ 0x9209);
	let mut out = vec![];
	let vals = ["", "a", "b", "c"];
	while out.len() < n {
		let nv = r.gen_range(3..8usize);
		let mut edges: Vec<(usize, usize)> = vec![];
		for c in 2..=nv {
			let p = r.gen_range(1..c);
			edges.push((p, c));
			if c > 2 && r.gen_bool(0.35) { let q = r.gen_range(1..c); if q != p { edges.push((q, c)); } }
		}
		edges.sort();
		let level = if r.gen_bool(0.6) { "c" } else { "f" };
		let mode = if r.gen_bool(0.6) { "M" } else { "J" };
		let mut node = |r: &mut StdRng| -> Value {
			let mut t = |r: &mut StdRng| { let (a, b) = (vals[r.gen_range(0..4)], vals[r.gen_range(0..4)]); if a == b { json!(["", ""]) } else { json!([a, b]) } };
			let info = if r.gen_bool(0.6) { t(r) } else { json!(["", ""]) };
			let doc = if mode == "J" || r.gen_bool(0.2) { t(r) } else { json!(["", ""]) };
			json!({"info": info, "doc": doc})
		};
		let diffs: Vec<Value> = edges.iter().map(|_| {
			if r.gen_bool(0.35) { return json!({"cls": []}); }
			if level == "c" { json!({"cls": {"node": node(&mut r), "fld": []}}) }
			else { let f = if r.gen_bool(0.75) { node(&mut r) } else { json!([]) }; json!({"cls": {"node": {"info": ["", ""], "doc": ["", ""]}, "fld": f}}) }
		}).collect();
		let root = if r.gen_bool(0.25) { json!({"cls": []}) } else {
			let fld = if level == "f" && r.gen_bool(0.7) { json!({"name": vals[r.gen_range(1..4)], "doc": vals[r.gen_range(0..3)]}) } else { json!([]) };
			json!({"cls": {"name": if level == "c" { vals[r.gen_range(1..4)] } else { "k" }, "doc": if level == "c" { vals[r.gen_range(0..3)] } else { "" }, "fld": fld}})
		};
		let version = r.gen_range(1..=nv);
		let d = ["None", "Up", "Down", "Both"][r.gen_range(0..4)];
		let mut barriers: Vec<usize> = vec![];
		if d == "None" || d == "Down" { barriers.push(version); }
		if d == "None" || d == "Up" { barriers.extend(edges.iter().filter(|e| e.0 == version).map(|e| e.1)); }
		barriers.sort(); barriers.dedup();
		let (a, b) = match r.gen_range(0..3) { 0 => ("a", "b"), 1 => ("", "b"), _ => ("a", "") };
		let change = if mode == "M" { json!({"info": [a, b], "doc": ["", ""]}) } else { json!({"info": ["", ""], "doc": [a, b]}) };
		out.push(json!({"op": "walk", "W": {"n": nv, "edges": edges.iter().map(|e| json!([e.0, e.1])).collect::<Vec<_>>(), "diffs": diffs, "root": root,
			"version": version, "barriers": barriers, "level": level, "mode": mode, "change": change, "dir": d, "lenient": r.gen_bool(0.5)}}));
	}
	Ok(out)
}
