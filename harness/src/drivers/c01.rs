//! C01: duke::read_class against the class facts of the file (cfkit = independent JVMS parser / assembler).
//!
//! ops  {"op":"read","facts":<class facts>,"enc":<cfkit Encoding>}
//!          assemble(facts, enc) -> duke::read_class -> duke_to_facts
//!          -> {"res":{"ok":true,"v":<facts as duke states them>},"offs":[byte offset of every instruction of
//!              method 0],"len":code_length,"order":[names of the Code attribute's attributes in file order]}
//!           | {"res":{"ok":false,"v":[],"err":msg}, "offs":..,"len":..,"order":..}   duke refused the file
//!           | {"skipped":true,"why":msg}                                  the encoding cannot represent the facts
//!      {"op":"class","id":"sample/<name>"|"sample/<name>~adapted"|"corpus/<path>"|"jdk/<entry>","enc":"file"|<standard encoding>}
//!          the class bytes (corpus file as is, or facts assembled under the named encoding) are read by cfkit and by
//!          duke; got carries RAW material only:
//!          {"ok":b,"err":msg,"panic":b,"version":[major,minor],"obs":[observations on the reference facts],
//!           "ref_hash":h,"duke_hash":h,"diffs":[[gpath,kind,"int"|"",ref,got]..]   (cfkit::duke_diff::diff; values only where both are 32-bit numbers),
//!           "methods":[{"m":i,"raw":RAW,"duke":POS}..],                   one entry per method with code
//!           "cover":{"ops":[mnemonics used],"attrs":["level:name"..]}}     coverage accounting only
//!          RAW  = {"len":code_length,"offs":[..],"br":[[insn,[relative branch offsets..]]..],"exc":[[start_pc,end_pc,handler_pc]..],
//!                  "init":[vt..],"attrs":[[name,[rows..]]..]}  rows as in the file:
//!                  LineNumberTable [start_pc,line]; LocalVariable(Type)Table [start_pc,length,slot,name,desc|sig];
//!                  StackMapTable [type,k,offset_delta,[vt..],[vt..]] type in same same1 chop append full;
//!                  Runtime(In)VisibleTypeAnnotations [kind,[offset]] | [kind,[[start_pc,length,slot]..]] | [kind,[index]]
//!          POS  = {"n":instructions,"tg":[[insn,[target index..]]..],"exc":[[start,end,handler]..],"lines":[[insn,line]..],
//!                  "lvt":[[start,end,slot,name,desc]..],"lvtt":[..],"frames":[[at,[vt..],[vt..]]..],"tav":[..],"tai":[..]}
//!          vt   = ["int"] .. | ["object",name] | ["uninit",offset (RAW) | index (POS)]
//! Nothing is judged here: Trace_ClassRead runs the reader machine over RAW and compares with POS, and decides which
//! differences are differences of facts.
use std::collections::{BTreeMap, HashMap};
use std::hash::{Hash, Hasher};
use std::io::Cursor;
use std::panic::{catch_unwind, AssertUnwindSafe};
use std::sync::OnceLock;
use anyhow::{bail, Context, Result};
use serde_json::{json, Map, Value};
use cfkit::asm::{assemble, standard_encodings, AsmError, Encoding};
use cfkit::duke_diff::{self, normalise_message, READ_KINDS};
use cfkit::parse::{parse_class, parse_class_facts_only, Span};
use cfkit::proj_duke::duke_to_facts;

// ---------------------------------------------------------------------------------------------
// values from TLC

/// TLC prints an empty record like an empty sequence: `attrs: []` means `attrs: {}`.
fn normalise_facts(v: &mut Value) {
	match v {
		Value::Array(a) => a.iter_mut().for_each(normalise_facts),
		Value::Object(m) => {
			for (k, x) in m.iter_mut() {
				if k == "attrs" && x.as_array().map_or(false, |a| a.is_empty()) {
					*x = Value::Object(Map::new());
				}
				normalise_facts(x);
			}
		},
		_ => {},
	}
}

fn s_str(v: &Value) -> String {
	match v {
		Value::String(s) => s.clone(),
		other => other.to_string(),
	}
}

fn vt_wire(v: &Value) -> Value {
	match v {
		Value::String(s) => json!([s]),
		Value::Object(m) => {
			if let Some(n) = m.get("object") { json!(["object", s_str(n)]) }
			else if let Some(i) = m.get("uninitialized") { json!(["uninit", i]) }
			else { json!(["?"]) }
		},
		_ => json!(["?"]),
	}
}
fn vts_wire(v: Option<&Value>) -> Value {
	Value::Array(v.and_then(Value::as_array).map(|a| a.iter().map(vt_wire).collect()).unwrap_or_default())
}

/// `Read::read` may return short counts: every third class reaches the reader through a stream that hands out at most
/// 1 / 5 / 64 bytes per call (chosen by the length of the file), what is read may not depend on it.
pub struct Frag<'a> { inner: Cursor<&'a [u8]>, k: usize }
impl<'a> Frag<'a> {
	pub fn new(bytes: &'a [u8]) -> Frag<'a> { Frag { inner: Cursor::new(bytes), k: [0, 1, 0, 5, 0, 64][bytes.len() % 6] } }
}
impl std::io::Read for Frag<'_> {
	fn read(&mut self, buf: &mut [u8]) -> std::io::Result<usize> {
		let n = if self.k == 0 { buf.len() } else { buf.len().min(self.k) };
		self.inner.read(&mut buf[..n])
	}
}
impl std::io::Seek for Frag<'_> {
	fn seek(&mut self, pos: std::io::SeekFrom) -> std::io::Result<u64> { self.inner.seek(pos) }
}

fn read_duke(bytes: &[u8]) -> std::result::Result<std::result::Result<duke::tree::class::ClassFile, String>, String> {
	match catch_unwind(AssertUnwindSafe(|| duke::read_class(&mut Frag::new(bytes)))) {
		Ok(Ok(c)) => Ok(Ok(c)),
		Ok(Err(e)) => Ok(Err(format!("{e:#}"))),
		Err(p) => Err(p.downcast_ref::<String>().cloned().or_else(|| p.downcast_ref::<&str>().map(|s| s.to_string())).unwrap_or_default()),
	}
}

fn project(tree: &duke::tree::class::ClassFile) -> Value {
	match catch_unwind(AssertUnwindSafe(|| duke_to_facts(tree))) {
		Ok(Ok(v)) => v,
		// the tree is not a class description (label attached twice, referenced but attached nowhere, ...): data
		Ok(Err(e)) => json!({"proj_error": e.0}),
		Err(_) => json!({"proj_error": "panic in the projection"}),
	}
}

pub fn exec(v: &Value) -> Result<Value> {
	match v["op"].as_str().context("op")? {
		"read" => exec_read(v),
		"class" => exec_class(v),
		op => bail!("C01: unknown op {op}"),
	}
}

fn exec_read(v: &Value) -> Result<Value> {
	let mut facts = v["facts"].clone();
	normalise_facts(&mut facts);
	let enc: Encoding = serde_json::from_value(v["enc"].clone()).context("enc")?;
	let bytes = match assemble(&facts, &enc) {
		Ok(b) => b,
		Err(AsmError::Unencodable(m)) => return Ok(json!({"skipped": true, "why": m})),
		Err(AsmError::Invalid(m)) => bail!("C01: the specification emitted facts the assembler calls invalid: {m}"),
	};
	let parsed = parse_class(&bytes).map_err(|e| anyhow::anyhow!("C01: cfkit rejects its own output: {e}"))?;
	if parsed.facts != facts {
		bail!("C01: cfkit does not read back the facts it assembled (facts from TLC not canonical?): {:?}",
			duke_diff::diff(&facts, &parsed.facts, READ_KINDS).iter().map(|d| format!("{} {}", d.kind, d.path)).collect::<Vec<_>>());
	}
	let lay = parsed.layout.as_array().and_then(|l| l.iter().find(|e| e["method"] == json!(0))).cloned().unwrap_or(json!({"offsets": [], "code_length": 0}));
	let mut order = Vec::new();
	for s in &parsed.spans {
		if s.role == "attr_name" && s.path.starts_with("method[0].Code.attr[") {
			if let Some(name) = utf8_at(&parsed.spans, &bytes, be(&bytes, s) as usize) { order.push(Value::String(name)); }
		}
	}
	let res = match duke::read_class(&mut Frag::new(&bytes[..])) {
		Ok(tree) => json!({"ok": true, "v": project(&tree)}),
		Err(e) => json!({"ok": false, "v": [], "err": normalise_message(&format!("{e:#}"))}),
	};
	Ok(json!({"res": res, "offs": lay["offsets"], "len": lay["code_length"], "order": order}))
}

// ---------------------------------------------------------------------------------------------
// inputs by id

fn corpus() -> &'static HashMap<String, Vec<u8>> {
	static C: OnceLock<HashMap<String, Vec<u8>>> = OnceLock::new();
	C.get_or_init(|| {
		cfkit::corpus::corpus_classes("thorough").into_iter()
			.map(|(id, b)| (if id.starts_with("jdk/") { id } else { format!("corpus/{id}") }, b)).collect()
	})
}
fn samples() -> &'static BTreeMap<String, Value> {
	static S: OnceLock<BTreeMap<String, Value>> = OnceLock::new();
	S.get_or_init(|| {
		let mut m: BTreeMap<String, Value> = cfkit::samples::sample_classes().into_iter().collect();
		m.insert("kitchen_sink".into(), cfkit::samples::kitchen_sink_facts());
		m
	})
}
fn encoding(name: &str) -> Result<Encoding> {
	standard_encodings().into_iter().find(|(n, _)| *n == name).map(|(_, e)| e).with_context(|| format!("no standard encoding {name}"))
}
fn adapted(facts: &Value) -> Value {
	let mut a = facts.clone();
	duke_diff::avoid_code_end(&mut a);
	duke_diff::avoid_empty_member_names(&mut a);
	duke_diff::avoid_future_version(&mut a);
	a
}

/// The bytes of a class id under an encoding name; None = the encoding cannot represent the class.
fn class_bytes(id: &str, enc: &str) -> Result<Option<Vec<u8>>> {
	let facts = if let Some(name) = id.strip_prefix("sample/") {
		let (name, adapt) = match name.strip_suffix("~adapted") { Some(n) => (n, true), None => (name, false) };
		let f = samples().get(name).with_context(|| format!("no sample {name}"))?;
		if adapt { adapted(f) } else { f.clone() }
	} else {
		let b = corpus().get(id).with_context(|| format!("no corpus class {id}"))?;
		if enc == "file" { return Ok(Some(b.clone())); }
		parse_class_facts_only(b).map_err(|e| anyhow::anyhow!("cfkit rejects corpus class {id}: {e}"))?.facts
	};
	match assemble(&facts, &encoding(if enc == "file" { "default" } else { enc })?) {
		Ok(b) => Ok(Some(b)),
		Err(AsmError::Unencodable(_)) => Ok(None),
		Err(AsmError::Invalid(m)) => bail!("C01: facts of {id} invalid: {m}"),
	}
}

// ---------------------------------------------------------------------------------------------
// raw structure from the spans of the reference parser

fn be(bytes: &[u8], s: &Span) -> u64 {
	bytes[s.off..s.off + s.len].iter().fold(0u64, |a, b| (a << 8) | *b as u64)
}
fn signed(bytes: &[u8], s: &Span) -> i64 {
	match s.len { 2 => be(bytes, s) as u16 as i16 as i64, 4 => be(bytes, s) as u32 as i32 as i64, _ => be(bytes, s) as i64 }
}
fn utf8_at(spans: &[Span], bytes: &[u8], idx: usize) -> Option<String> {
	let path = format!("cp[{idx}]");
	let s = spans.iter().find(|s| s.path == path && s.role == "cp_utf8_bytes");
	match s {
		Some(s) => cfkit::facts::decode_mutf8(&bytes[s.off..s.off + s.len]).ok().map(|u| s_str(&cfkit::facts::s_from_units(&u))),
		// zero-length Utf8 entries produce no bytes span
		None => spans.iter().any(|s| s.path == path && s.role == "cp_utf8_len").then(String::new),
	}
}

struct PoolView { utf8: HashMap<usize, String>, class: HashMap<usize, usize> }
impl PoolView {
	fn new(spans: &[Span], bytes: &[u8]) -> PoolView {
		let mut p = PoolView { utf8: HashMap::new(), class: HashMap::new() };
		for s in spans {
			if !s.path.starts_with("cp[") { if s.path != "class" { break; } else { continue; } }
			let idx: usize = s.path[3..s.path.len() - 1].parse().unwrap_or(0);
			match s.role.as_str() {
				"cp_utf8_len" => { p.utf8.entry(idx).or_default(); },
				"cp_utf8_bytes" => {
					let v = cfkit::facts::decode_mutf8(&bytes[s.off..s.off + s.len]).map(|u| s_str(&cfkit::facts::s_from_units(&u))).unwrap_or_default();
					p.utf8.insert(idx, v);
				},
				"cp_index:Class.name" => { p.class.insert(idx, be(bytes, s) as usize); },
				_ => {},
			}
		}
		p
	}
	fn utf8(&self, i: u64) -> Value { json!(self.utf8.get(&(i as usize)).cloned().unwrap_or_else(|| format!("?cp{i}"))) }
	fn class(&self, i: u64) -> Value { self.class.get(&(i as usize)).map(|n| self.utf8(*n as u64)).unwrap_or_else(|| json!(format!("?cp{i}"))) }
}

const VT_NAMES: [&str; 7] = ["top", "int", "float", "double", "long", "null", "uninitialized_this"];

/// Token stream over the spans of one attribute body.
struct Toks<'a> { spans: &'a [Span], bytes: &'a [u8], i: usize }
impl<'a> Toks<'a> {
	fn peek(&self) -> Option<&'a Span> { self.spans.get(self.i) }
	fn next(&mut self, role: &str) -> Result<u64> {
		let s = self.spans.get(self.i).with_context(|| format!("span stream ended, wanted {role}"))?;
		if s.role != role { bail!("span stream: wanted {role}, found {} at {}", s.role, s.path); }
		self.i += 1;
		Ok(be(self.bytes, s))
	}
	fn vt(&mut self, pool: &PoolView) -> Result<Value> {
		let tag = self.next("vt_tag")?;
		Ok(match tag {
			0..=6 => json!([VT_NAMES[tag as usize]]),
			7 => json!(["object", pool.class(self.next("vt_object:cp:Class")?)]),
			_ => json!(["uninit", self.next("vt_uninit_offset")?]),
		})
	}
	fn vts(&mut self, n: u64, pool: &PoolView) -> Result<Value> {
		let mut v = Vec::new();
		for _ in 0..n { v.push(self.vt(pool)?); }
		Ok(Value::Array(v))
	}
}

fn raw_attr(name: &str, body: &[Span], bytes: &[u8], pool: &PoolView) -> Result<Vec<Value>> {
	let mut t = Toks { spans: body, bytes, i: 0 };
	let mut rows = Vec::new();
	match name {
		"LineNumberTable" => {
			for _ in 0..t.next("lnt_count")? { rows.push(json!([t.next("lnt_start_pc")?, t.next("lnt_line")?])); }
		},
		"LocalVariableTable" => {
			for _ in 0..t.next("lvt_count")? {
				let (s, l, n, d, x) = (t.next("lvt_start_pc")?, t.next("lvt_length")?, t.next("lvt_name:cp:Utf8")?, t.next("lvt_descriptor:cp:Utf8")?, t.next("lvt_index")?);
				rows.push(json!([s, l, x, pool.utf8(n), pool.utf8(d)]));
			}
		},
		"LocalVariableTypeTable" => {
			for _ in 0..t.next("lvtt_count")? {
				let (s, l, n, d, x) = (t.next("lvtt_start_pc")?, t.next("lvtt_length")?, t.next("lvtt_name:cp:Utf8")?, t.next("lvtt_signature:cp:Utf8")?, t.next("lvtt_index")?);
				rows.push(json!([s, l, x, pool.utf8(n), pool.utf8(d)]));
			}
		},
		"StackMapTable" => {
			for _ in 0..t.next("smt_count")? {
				let ft = t.next("frame_type")?;
				let e = json!([]);
				rows.push(match ft {
					0..=63 => json!(["same", 0, ft, e, e]),
					64..=127 => json!(["same1", 0, ft - 64, e, [t.vt(pool)?]]),
					247 => { let d = t.next("frame_offset_delta")?; json!(["same1", 0, d, e, [t.vt(pool)?]]) },
					248..=250 => json!(["chop", 251 - ft, t.next("frame_offset_delta")?, e, e]),
					251 => json!(["same", 0, t.next("frame_offset_delta")?, e, e]),
					252..=254 => { let d = t.next("frame_offset_delta")?; json!(["append", ft - 251, d, t.vts(ft - 251, pool)?, e]) },
					_ => {
						let d = t.next("frame_offset_delta")?;
						let nl = t.next("frame_num_locals")?;
						let l = t.vts(nl, pool)?;
						let ns = t.next("frame_num_stack")?;
						json!(["full", 0, d, l, t.vts(ns, pool)?])
					},
				});
			}
		},
		"RuntimeVisibleTypeAnnotations" | "RuntimeInvisibleTypeAnnotations" => {
			let n = t.next("ta_count")?;
			for _ in 0..n {
				let tt = t.next("ta_target_type")?;
				let kind = ta_kind(tt);
				rows.push(match tt {
					0x40 | 0x41 => {
						let mut tab = Vec::new();
						for _ in 0..t.next("ta_table_count")? { tab.push(json!([t.next("ta_start_pc")?, t.next("ta_length")?, t.next("ta_index")?])); }
						json!([kind, tab])
					},
					0x42 => json!([kind, [t.next("ta_index")?]]),
					_ => json!([kind, [t.next("ta_offset")?]]),
				});
				// the rest of the annotation (type argument index, path, type, pairs) carries no code position
				let anno = t.spans.get(t.i - 1).map(|s| anno_prefix(&s.path)).unwrap_or_default();
				while t.peek().map_or(false, |s| s.path.starts_with(&anno)) { t.i += 1; }
			}
		},
		_ => {},
	}
	Ok(rows)
}

const TA_KINDS: [(u64, &str); 10] = [(0x40, "local_variable"), (0x41, "resource_variable"), (0x42, "exception_parameter"), (0x43, "instanceof"), (0x44, "new"),
	(0x45, "constructor_reference"), (0x46, "method_reference"), (0x47, "cast"), (0x48, "constructor_invocation_type_argument"), (0x49, "method_invocation_type_argument")];
fn ta_kind(tt: u64) -> &'static str {
	match tt { 0x4a => "constructor_reference_type_argument", 0x4b => "method_reference_type_argument", _ => TA_KINDS.iter().find(|(c, _)| *c == tt).map(|(_, k)| *k).unwrap_or("?") }
}
/// `...anno[3]` prefix (with the closing bracket) of a span path inside a type annotation.
fn anno_prefix(path: &str) -> String {
	match path.rfind(".anno[") {
		Some(p) => match path[p..].find(']') { Some(q) => path[..p + q + 1].to_string(), None => path.to_string() },
		None => path.to_string(),
	}
}

/// RAW of method `m` (its first Code attribute).
fn raw_method(m: usize, lay: &Value, spans: &[Span], bytes: &[u8], pool: &PoolView, init: Value) -> Result<Value> {
	let base = format!("method[{m}].Code");
	let code: Vec<&Span> = spans.iter().filter(|s| s.path.starts_with(&base) && s.path[base.len()..].starts_with(|c| c == '.' )).collect();
	let mut br: Vec<Value> = Vec::new();
	let mut exc: Vec<Value> = Vec::new();
	let mut attrs: Vec<Value> = Vec::new();
	let mut k = 0;
	while k < code.len() {
		let s = code[k];
		let rest = &s.path[base.len() + 1..];
		if let Some(r) = rest.strip_prefix("insn[") {
			if s.class == "branch" {
				let i: u64 = r[..r.find(']').unwrap_or(0)].parse().unwrap_or(0);
				match br.last_mut() {
					Some(Value::Array(e)) if e[0] == json!(i) => { if let Value::Array(l) = &mut e[1] { l.push(json!(signed(bytes, s))); } },
					_ => br.push(json!([i, [signed(bytes, s)]])),
				}
			}
			k += 1;
		} else if rest.starts_with("exc[") {
			if s.role == "exc_start_pc" {
				exc.push(json!([be(bytes, s), be(bytes, code[k + 1]), be(bytes, code[k + 2])]));
			}
			k += 1;
		} else if rest.starts_with("attr[") {
			if s.role != "attr_name" { k += 1; continue; }
			let name = pool.utf8(be(bytes, s));
			let apath = &s.path;
			// the body spans: everything whose path starts with "<apath>:" (recognised attributes)
			let pre = format!("{apath}:");
			let mut j = k + 2;
			let from = j;
			while j < code.len() && code[j].path.starts_with(&pre) { j += 1; }
			let body: Vec<Span> = code[from..j].iter().map(|s| (*s).clone()).collect();
			let rows = raw_attr(name.as_str().unwrap_or(""), &body, bytes, pool)?;
			attrs.push(json!([name, rows]));
			k = j.max(k + 1);
		} else {
			k += 1;
		}
	}
	Ok(json!({"len": lay["code_length"], "offs": lay["offsets"], "br": br, "exc": exc, "init": init, "attrs": attrs}))
}

// ---------------------------------------------------------------------------------------------
// position structure of facts (reshaping only)

fn pos_ta(list: Option<&Value>) -> Value {
	let mut out = Vec::new();
	for a in list.and_then(Value::as_array).map(|a| a.as_slice()).unwrap_or(&[]) {
		let t = &a["target"];
		let kind = t["kind"].clone();
		out.push(if let Some(tab) = t.get("table").and_then(Value::as_array) {
			json!([kind, tab.iter().map(|r| json!([r["start"], r["end"], r["slot"]])).collect::<Vec<_>>()])
		} else if let Some(i) = t.get("insn") {
			json!([kind, [i]])
		} else {
			json!([kind, [t["index"]]])
		});
	}
	Value::Array(out)
}

fn pos_code(code: Option<&Value>) -> Value {
	let Some(c) = code.filter(|c| c.get("insns").is_some()) else {
		return json!({"n": -1, "tg": [], "exc": [], "lines": [], "lvt": [], "lvtt": [], "frames": [], "tav": [], "tai": []});
	};
	let insns = c["insns"].as_array().cloned().unwrap_or_default();
	let mut tg = Vec::new();
	for (i, x) in insns.iter().enumerate() {
		if let Some(t) = x.get("target") {
			tg.push(json!([i, [t]]));
		} else if let Some(d) = x.get("default") {
			let mut l = vec![d.clone()];
			if let Some(ts) = x.get("targets").and_then(Value::as_array) { l.extend(ts.iter().cloned()); }
			if let Some(ps) = x.get("pairs").and_then(Value::as_array) { l.extend(ps.iter().map(|p| p[1].clone())); }
			tg.push(json!([i, l]));
		}
	}
	let a = &c["attrs"];
	let rows = |key: &str, d: &str| -> Value {
		Value::Array(a.get(key).and_then(Value::as_array).map(|l| l.iter().map(|r| json!([r["start"], r["end"], r["slot"], s_str(&r["name"]), s_str(&r[d])])).collect()).unwrap_or_default())
	};
	json!({
		"n": insns.len(), "tg": tg,
		"exc": c["exceptions"].as_array().map(|l| l.iter().map(|r| json!([r["start"], r["end"], r["handler"]])).collect::<Vec<_>>()).unwrap_or_default(),
		"lines": a.get("LineNumberTable").cloned().unwrap_or(json!([])),
		"lvt": rows("LocalVariableTable", "desc"), "lvtt": rows("LocalVariableTypeTable", "sig"),
		"frames": a.get("StackMapTable").and_then(Value::as_array).map(|l| l.iter().map(|f| json!([f["at"], vts_wire(f.get("locals")), vts_wire(f.get("stack"))])).collect::<Vec<_>>()).unwrap_or_default(),
		"tav": pos_ta(a.get("RuntimeVisibleTypeAnnotations")), "tai": pos_ta(a.get("RuntimeInvisibleTypeAnnotations")),
	})
}

// ---------------------------------------------------------------------------------------------
// observations on the reference facts (the specification decides what they mean)

fn observe(v: &Value, obs: &mut Vec<String>) {
	match v {
		Value::Array(a) => a.iter().for_each(|x| observe(x, obs)),
		Value::Object(m) => {
			if m.contains_key("dup") && m.get("dup").map_or(false, Value::is_object) { obs.push("duplicate-attribute".into()); }
			if let Some(Value::Object(h)) = m.get("SourceDebugExtension") { if h.contains_key("hex") { obs.push("source-debug-extension-not-mutf8".into()); } }
			m.values().for_each(|x| observe(x, obs));
		},
		_ => {},
	}
}

/// A value the specification may calculate with: a number that fits 32 bits.
fn small_int(v: &Option<Value>) -> Option<i64> {
	match v {
		Some(Value::Number(n)) => n.as_i64().filter(|i| i.abs() < (1 << 31)),
		_ => None,
	}
}

/// Coverage accounting only: the opcodes and attribute names (with their level) a class uses.
fn cover(facts: &Value) -> Value {
	fn attrs(level: &str, a: Option<&Value>, out: &mut std::collections::BTreeSet<String>) {
		if let Some(Value::Object(m)) = a { for k in m.keys() { out.insert(format!("{level}:{k}")); } }
	}
	let mut ops = std::collections::BTreeSet::new();
	let mut at = std::collections::BTreeSet::new();
	attrs("class", facts.get("attrs"), &mut at);
	for c in facts["attrs"].get("Record").and_then(Value::as_array).map(|a| a.as_slice()).unwrap_or(&[]) { attrs("record", c.get("attrs"), &mut at); }
	for f in facts["fields"].as_array().map(|a| a.as_slice()).unwrap_or(&[]) { attrs("field", f.get("attrs"), &mut at); }
	for m in facts["methods"].as_array().map(|a| a.as_slice()).unwrap_or(&[]) {
		attrs("method", m.get("attrs"), &mut at);
		if let Some(c) = m["attrs"].get("Code") {
			attrs("code", c.get("attrs"), &mut at);
			for i in c["insns"].as_array().map(|a| a.as_slice()).unwrap_or(&[]) {
				if let Some(o) = i["op"].as_str() { if !ops.contains(o) { ops.insert(o.to_string()); } }
			}
		}
	}
	json!({"ops": ops, "attrs": at})
}

fn hash(v: &Value) -> String {
	let mut h = std::collections::hash_map::DefaultHasher::new();
	v.to_string().hash(&mut h);
	format!("{:016x}", h.finish())
}

fn exec_class(v: &Value) -> Result<Value> {
	let id = v["id"].as_str().context("id")?;
	let enc = v["enc"].as_str().context("enc")?;
	let Some(bytes) = class_bytes(id, enc)? else { return Ok(json!({"skipped": true})); };
	let parsed = parse_class(&bytes).map_err(|e| anyhow::anyhow!("C01: cfkit rejects {id}[{enc}]: {e}"))?;
	let reference = &parsed.facts;
	let mut obs = Vec::new();
	observe(reference, &mut obs);
	for key in ["fields", "methods"] {
		if reference[key].as_array().map_or(false, |l| l.iter().any(|m| m["name"] == json!(""))) { obs.push("empty-member-name".into()); }
	}
	obs.sort();
	obs.dedup();
	let dup = obs.iter().any(|o| o == "duplicate-attribute");

	let (ok, err, panic, duke_facts) = match read_duke(&bytes) {
		Ok(Ok(tree)) => (true, String::new(), false, project(&tree)),
		Ok(Err(e)) => (false, normalise_message(&e), false, Value::Null),
		Err(p) => (false, normalise_message(&p), true, Value::Null),
	};

	let proj_error = duke_facts.get("proj_error").map(s_str).unwrap_or_default();
	let ok_tree = ok && proj_error.is_empty();
	let mut diffs: Vec<Value> = Vec::new();
	if ok_tree {
		for d in duke_diff::diff(reference, &duke_facts, READ_KINDS) {
			let e = match (small_int(&d.expected), small_int(&d.got)) {
				(Some(a), Some(b)) => json!([d.gpath, d.kind, "int", a, b]),
				_ => json!([d.gpath, d.kind, "", 0, 0]),
			};
			if !diffs.contains(&e) { diffs.push(e); }
		}
	}

	let mut methods = Vec::new();
	if !dup {
		let pool = PoolView::new(&parsed.spans, &bytes);
		for lay in parsed.layout.as_array().map(|l| l.as_slice()).unwrap_or(&[]) {
			let m = lay["method"].as_u64().unwrap_or(0) as usize;
			let decl = &reference["methods"][m];
			let init = cfkit::facts::initial_locals(&reference["this"], decl["access"].as_u64().unwrap_or(0), &decl["name"], &decl["desc"]).unwrap_or_default();
			let raw = raw_method(m, lay, &parsed.spans, &bytes, &pool, Value::Array(init.iter().map(vt_wire).collect()))?;
			let duke_pos = if ok_tree { pos_code(duke_facts.get("methods").and_then(|l| l.get(m)).and_then(|x| x.get("attrs")).and_then(|a| a.get("Code"))) } else { pos_code(None) };
			methods.push(json!({"m": m, "raw": raw, "duke": duke_pos}));
		}
	}
	Ok(json!({
		"ok": ok, "err": err, "panic": panic, "version": reference["version"], "obs": obs,
		"ref_hash": hash(reference), "duke_hash": if ok { hash(&duke_facts) } else { String::new() },
		"proj_error": proj_error,
		"diffs": diffs, "methods": methods, "cover": cover(reference),
	}))
}

// ---------------------------------------------------------------------------------------------
// ids

struct Lcg(u64);
impl Lcg {
	fn next(&mut self) -> u64 { self.0 = self.0.wrapping_mul(6364136223846793005).wrapping_add(1442695040888963407); self.0 >> 33 }
}

/// All samples under all standard encodings (plus the `~adapted` variants), then corpus classes: up to 300 seeded picks
/// of compiled classes (two thirds as compiled, one third re-assembled under a standard encoding) when n is small (quick),
/// otherwise every corpus and JDK class as is plus re-assembled ones until n is reached.
pub fn gen(seed: u64, n: usize) -> Result<Vec<Value>> {
	let mut out = Vec::new();
	let encs: Vec<&'static str> = standard_encodings().into_iter().map(|(n, _)| n).collect();
	for (name, f) in samples() {
		for e in &encs { out.push(json!({"op": "class", "id": format!("sample/{name}"), "enc": e})); }
		if &adapted(f) != f {
			for e in &encs { out.push(json!({"op": "class", "id": format!("sample/{name}~adapted"), "enc": e})); }
		}
	}
	let mut ids: Vec<&String> = corpus().keys().collect();
	ids.sort();
	let mut r = Lcg(seed ^ 0xC01);
	let room = n.saturating_sub(out.len());
	if room <= 300 {
		let compiled: Vec<&&String> = ids.iter().filter(|i| i.starts_with("corpus/")).collect();
		for k in 0..room {
			let id = compiled[(r.next() as usize) % compiled.len()];
			let enc = if k % 3 == 2 { encs[1 + (r.next() as usize) % (encs.len() - 1)] } else { "file" };
			out.push(json!({"op": "class", "id": id, "enc": enc}));
		}
	} else {
		for id in &ids { out.push(json!({"op": "class", "id": id, "enc": "file"})); }
		let mut k = 0usize;
		'outer: for round in 0..encs.len() - 1 {
			for id in &ids {
				if out.len() >= n { break 'outer; }
				out.push(json!({"op": "class", "id": id, "enc": encs[1 + (k + round + (seed as usize)) % (encs.len() - 1)]}));
				k += 1;
			}
		}
	}
	out.truncate(n.max(1));
	Ok(out)
}
