//! C04: MappingsDiff::apply_to, MappingsDiff::diff, tiny_v2_diff::read_file.
//!
//! ops  {"op":"apply","T":tree,"D":diff,"ns":name?}          -> {"ok":b,"v":tree|[]}
//!      {"op":"text","T":tree,"lines":[line..]}              -> same, diff read from .tinydiff text
//!      {"op":"diff","A":tree,"B":tree}                      -> result of apply(diff(A,B), A), refusal at either step = not ok
//!      {"op":"opt","act":Act,"cur":[]|[x]}                  -> {"ok":b,"v":[]|[x]}   (quill::apply_diff_option)
use anyhow::{Context, Result};
use rand::rngs::StdRng;
use rand::{Rng, SeedableRng};
use serde_json::{json, Value};
use quill::tree::mappings::Mappings;
use quill::tree::mappings_diff::{Action, MappingsDiff};
use crate::gen_quill::*;
use crate::proj_quill::*;
use super::res_tree;

pub fn read_diff_text(text: &str) -> Result<MappingsDiff> {
	let dir = std::path::Path::new("/dev/shm/verif-work/tmp");
	std::fs::create_dir_all(dir)?;
	let p = dir.join(format!("d{}.tinydiff", std::process::id()));
	std::fs::write(&p, text)?;
	let r = quill::tiny_v2_diff::read_file(&p);
	let _ = std::fs::remove_file(&p);
	r
}

pub fn exec(v: &Value) -> Result<Value> {
	let op = v["op"].as_str().context("op")?;
	Ok(match op {
		"apply" => {
			let t: Mappings<2, Ns> = json_to_tree(&v["T"])?;
			let d = json_to_diff(&v["D"])?;
			let ns = t_ns(&v["T"]);
			res_tree(d.apply_to::<2, Ns, Ns>(t, &ns))
		},
		"text" => {
			let t: Mappings<2, Ns> = json_to_tree(&v["T"])?;
			let ns = t_ns(&v["T"]);
			let text = lines_to_text(&v["lines"])?;
			match read_diff_text(&text) {
				Ok(d) => res_tree(d.apply_to::<2, Ns, Ns>(t, &ns)),
				Err(_) => json!({"ok": false, "v": [], "stage": "read"}),
			}
		},
		"diff" => {
			let a: Mappings<2, Ns> = json_to_tree(&v["A"])?;
			// revB: B's entries inserted in the opposite order (a mapping set is a partial function, the diff does not depend on it)
			let rev = v["revB"].as_bool().unwrap_or(false);
			let b: Mappings<2, Ns> = json_to_tree_ord(&v["B"], &mut |n| if rev { Some((0..n).rev().collect()) } else { None })?;
			let ns = t_ns(&v["A"]);
			match MappingsDiff::diff(&a, &b) {
				Ok(d) => res_tree(d.apply_to::<2, Ns, Ns>(a, &ns)),
				Err(_) => json!({"ok": false, "v": []}),
			}
		},
		"opt" => {
			let act: Action<String> = match v["act"][0].as_str().context("act")? {
				"none" => Action::None,
				"add" => Action::Add(s(&v["act"][1])),
				"rem" => Action::Remove(s(&v["act"][1])),
				_ => Action::Edit(s(&v["act"][1]), s(&v["act"][2])),
			};
			let cur = v["cur"].as_array().and_then(|a| a.first()).map(s);
			match quill::apply_diff_option(&act, cur) {
				Ok(None) => json!({"ok": true, "v": []}),
				Ok(Some(x)) => json!({"ok": true, "v": [x]}),
				Err(_) => json!({"ok": false, "v": []}),
			}
		},
		_ => anyhow::bail!("C04: unknown op {op}"),
	})
}

fn s(v: &Value) -> String { v.as_str().unwrap_or("").to_owned() }
fn t_ns(tree: &Value) -> String { tree["ns"][1].as_str().unwrap_or("").to_owned() }

/// Random cases: larger pairs (A, B = edits of A) and corrupted diffs computed by the real diff().
pub fn gen(seed: u64, n: usize) -> Result<Vec<Value>> {
	let mut r = StdRng::seed_from_u64(seed ^ 0xC04);
	let mut out = vec![];
	while out.len() < n {
		let cfg = TreeCfg { classes: r.gen_range(0..12), p_missing: *pick(&mut r, &[0.0, 0.0, 0.1, 0.3]), root_doc: r.gen_bool(0.3),
			unicode: r.gen_bool(0.3), empty_doc: r.gen_bool(0.25), ..TreeCfg::default() };
		let a = gen_tree(&mut r, &cfg);
		let mut b = if r.gen_bool(0.1) { gen_tree(&mut r, &cfg) } else { a.clone() };
		let unname = r.gen_bool(0.15);
		for _ in 0..r.gen_range(0..4) { edit_tree(&mut r, &cfg, &mut b, 1, unname); }
		out.push(json!({"op": "diff", "A": a, "B": b, "revB": r.gen_bool(0.5)}));
		// the real diff, possibly corrupted, applied to A or to a drifted target
		let (am, bm): (Mappings<2, Ns>, Mappings<2, Ns>) = (json_to_tree(&a)?, json_to_tree(&b)?);
		if let Ok(d) = MappingsDiff::diff(&am, &bm) {
			let dj = diff_to_json(&d);
			let mut t = a.clone();
			if r.gen_bool(0.5) { edit_tree(&mut r, &cfg, &mut t, 1, false); }
			out.push(json!({"op": "apply", "T": t, "D": dj}));
			let mut dj2 = dj.clone();
			corrupt(&mut r, &mut dj2);
			out.push(json!({"op": "apply", "T": a, "D": dj2}));
		}
	}
	out.truncate(n);
	Ok(out)
}

fn corrupt(r: &mut StdRng, d: &mut Value) {
	fn walk(r: &mut StdRng, n: &mut Value, hit: &mut bool) {
		if !*hit && r.gen_bool(0.1) {
			let which = if r.gen_bool(0.5) { "info" } else { "doc" };
			let is_doc = which == "doc";
			let pay = |x: &str| if is_doc { json!([x]) } else { json!(x) };
			n[which] = match r.gen_range(0..4) {
				0 => json!(["none"]),
				1 => json!(["add", pay("zzz")]),
				2 => json!(["rem", pay("zzz")]),
				_ => json!(["edit", pay("zzz"), pay("yyy")]),
			};
			*hit = true;
		}
		if let Some(Value::Object(k)) = n.get_mut("kids") {
			for (_, c) in k.iter_mut() { walk(r, c, hit); }
		}
	}
	let mut hit = false;
	if let Some(Value::Object(k)) = d.get_mut("kids") {
		for (_, c) in k.iter_mut() { walk(r, c, &mut hit); }
	}
}
