//! The release build of one version, end to end: src/build.rs `build_inner` (pasted into the harness, see main.rs) on a
//! generated mappings directory, calamus mappings and jars.
//!
//! op  {"op":"build","files":[{"name","lines"}..],"version":s,"cal":tree,"main":jar,"libs":jar}
//!       -> {"ok":false} | {"ok":true,"merged":tree(3),"unmerged":tree(2)}   (both read back from the produced zip files)
use std::io::Read;
use std::path::PathBuf;
use anyhow::{Context, Result};
use serde_json::{json, Value};
use dukebox::storage::{FileJar, UnnamedMemJar};
use quill::tree::mappings::Mappings;
use crate::jarkit::jar_from_abstract;
use crate::proj_quill::*;
use crate::version_graph::VersionGraph;
use crate::{Intermediary, Official};

fn tiny_of_zip(data: &[u8]) -> Result<Vec<u8>> {
	let mut z = zip::ZipArchive::new(std::io::Cursor::new(data))?;
	let mut f = z.by_name("mappings/mappings.tiny")?;
	let mut b = vec![];
	f.read_to_end(&mut b)?;
	Ok(b)
}

pub fn exec(v: &Value) -> Result<Value> {
	static CTR: std::sync::atomic::AtomicUsize = std::sync::atomic::AtomicUsize::new(0);
	let n = CTR.fetch_add(1, std::sync::atomic::Ordering::Relaxed);
	let dir = PathBuf::from(format!("/dev/shm/verif-work/tmp/sys-{}-{}", std::process::id(), n));
	let _ = std::fs::remove_dir_all(&dir);
	std::fs::create_dir_all(dir.join("graph"))?;
	let r = run(&dir, v);
	let _ = std::fs::remove_dir_all(&dir);
	r
}

fn run(dir: &PathBuf, v: &Value) -> Result<Value> {
	for f in v["files"].as_array().context("files")? {
		std::fs::write(dir.join("graph").join(f["name"].as_str().context("name")?), lines_to_text(&f["lines"])?)?;
	}
	let lib_path = dir.join("libs.jar");
	std::fs::write(&lib_path, jar_from_abstract(&v["libs"])?)?;
	let main = UnnamedMemJar { data: jar_from_abstract(&v["main"])? };
	let cal: Mappings<2, (Official, Intermediary)> = json_to_tree(&v["cal"])?;
	let Ok(graph) = VersionGraph::resolve(dir.join("graph")) else { return Ok(json!({"ok": false, "stage": "resolve"})) };
	let Ok((_, version)) = graph.get(v["version"].as_str().context("version")?) else { return Ok(json!({"ok": false, "stage": "get"})) };
	match crate::build_incl::verif_build_inner(cal, vec![FileJar { path: lib_path }], &graph, version, None, &main) {
		Err(_) => Ok(json!({"ok": false, "stage": "build"})),
		Ok((merged, unmerged)) => {
			let m: Mappings<3, Ns> = quill::tiny_v2::read(&tiny_of_zip(&merged)?[..])?;
			let u: Mappings<2, Ns> = quill::tiny_v2::read(&tiny_of_zip(&unmerged)?[..])?;
			Ok(json!({"ok": true, "merged": tree_to_json(&m), "unmerged": tree_to_json(&u)}))
		},
	}
}
