//! C13: dukebox::merge::merge (client jar + server jar -> merged jar).
//!
//! Abstract jar   {name: entry}   ([] = empty jar); the kind of an entry follows from its name (trailing "/" = dir,
//!                ".class" = class), the record repeats it:
//!     {"kind":"dir"} | {"kind":"other","c":content} | {"kind":"class","tag":t,"itf":[name..],"fields":[M..],"methods":[M..]}
//!     M = {"k":"name:desc","v":variant}   variant selects access / code of the member (table below), tag the SourceFile
//! ops
//!   {"op":"jars","client":jar,"server":jar,"corder":[name..]?,"sorder":[name..]?}
//!       -> {"ok":true,"extra":[name..],"dups":[name..],
//!           "entries":{name of either input: {"in":b,"eqc":b,"eqs":b}},
//!           "classes":{class name in the result: {"mark":X,"itf":L,"fields":L,"methods":L,"xitf":[name..]} | {"bad":msg}}}
//!          L = {"k":[key..],"m":[mark..]} in file order; mark = "client"|"server"|"none"|"?" ("?": the annotation
//!          is there but not of the shape merge.rs documents - never guessed)
//!       |  {"ok":false,"stage":"merge"|"write","err":msg}
//!   {"op":"lists","level":"interfaces"|"fields"|"methods","a":[key..],"b":[key..],"same":b}
//!       one class K.class on both sides whose list at `level` is a / b (other levels empty); same = byte-identical
//!       class files (else the SourceFile differs, so that the member merge runs even for a = b)
//!       -> {"ok":true,"r":L,"mark":X,"xitf":[..],"eqc":b,"eqs":b} | {"ok":true,"bad":msg} | {"ok":false,..}
//! The inputs are assembled by cfkit (independent of duke), zipped with `zip`; the result is taken from
//! ParsedJar::to_mem(), its central directory is walked here, the classes are parsed by cfkit.
use std::collections::{BTreeMap, BTreeSet};
use std::io::{Cursor, Read, Write};
use anyhow::{anyhow, bail, Context, Result};
use rand::rngs::StdRng;
use rand::seq::SliceRandom;
use rand::{Rng, SeedableRng};
use serde_json::{json, Map, Value};
use dukebox::storage::UnnamedMemJar;

const ENVIRONMENT: &str = "Lnet/fabricmc/api/Environment;";
const ENV_TYPE: &str = "Lnet/fabricmc/api/EnvType;";
const ENV_ITF: &str = "Lnet/fabricmc/api/EnvironmentInterface;";
const ENV_ITFS: &str = "Lnet/fabricmc/api/EnvironmentInterfaces;";

// ---------------------------------------------------------------------------------------------
// abstract class -> class facts -> bytes

fn split_key(k: &str) -> Result<(&str, &str)> {
	k.split_once(':').with_context(|| format!("member key {k:?} is not name:desc"))
}

/// the attributes of a member that already carries `@Environment(value = EnvType.<pre>)` (an input that is itself a merged jar)
fn pre_attrs(m: &Value) -> Value {
	match m["pre"].as_str() {
		Some(side @ ("client" | "server")) => json!({"RuntimeInvisibleAnnotations": [{"type": ENVIRONMENT, "pairs": [["value", {"e": {"type": ENV_TYPE, "name": side.to_uppercase()}}]]}]}),
		_ => json!({}),
	}
}

fn field_facts(m: &Value) -> Result<Value> {
	let (name, desc) = split_key(m["k"].as_str().context("k")?)?;
	let access = [0x0002, 0x0001, 0x0004, 0x0000][(m["v"].as_u64().unwrap_or(0) % 4) as usize];
	Ok(json!({"access": access, "name": name, "desc": desc, "attrs": pre_attrs(m)}))
}

fn method_facts(m: &Value) -> Result<Value> {
	let (name, desc) = split_key(m["k"].as_str().context("k")?)?;
	if !desc.ends_with(")V") { bail!("C13 driver builds void methods only, got {desc}"); }
	let v = m["v"].as_u64().unwrap_or(0) % 4;
	let access = [0x0001, 0x0001, 0x0004, 0x0001][v as usize];
	let insns = match v {
		1 => json!([{"op": "nop"}, {"op": "return"}]),
		3 => json!([{"op": "iconst_0"}, {"op": "pop"}, {"op": "return"}]),
		_ => json!([{"op": "return"}]),
	};
	let slots = 1 + arg_slots(desc);
	let mut attrs = pre_attrs(m);
	attrs["Code"] = json!({"max_stack": 1, "max_locals": slots, "insns": insns, "exceptions": [], "attrs": {}});
	Ok(json!({"access": access, "name": name, "desc": desc, "attrs": attrs}))
}

fn arg_slots(desc: &str) -> u64 {
	let mut n = 0;
	let b = desc.as_bytes();
	let mut i = 1;
	while i < b.len() && b[i] != b')' {
		let mut arr = false;
		while b[i] == b'[' { arr = true; i += 1; }
		match b[i] {
			b'L' => { while b[i] != b';' { i += 1; } n += 1; },
			b'J' | b'D' => n += if arr { 1 } else { 2 },
			_ => n += 1,
		}
		i += 1;
	}
	n
}

fn class_bytes(entry_name: &str, c: &Value) -> Result<Vec<u8>> {
	let this = entry_name.strip_suffix(".class").context("class entry name")?;
	let mut attrs = Map::new();
	let tag = c["tag"].as_str().unwrap_or("");
	if !tag.is_empty() { attrs.insert("SourceFile".into(), json!(tag)); }
	let fields: Vec<Value> = arr(&c["fields"]).iter().map(field_facts).collect::<Result<_>>()?;
	let methods: Vec<Value> = arr(&c["methods"]).iter().map(method_facts).collect::<Result<_>>()?;
	let facts = json!({"version": [52, 0], "access": 0x21, "this": this, "super": "java/lang/Object",
		"interfaces": arr(&c["itf"]), "fields": fields, "methods": methods, "attrs": attrs});
	cfkit::asm::assemble(&facts, &cfkit::asm::Encoding::default()).map_err(|e| anyhow!("assemble {entry_name}: {e:?}"))
}

fn arr(v: &Value) -> &[Value] { v.as_array().map(|a| a.as_slice()).unwrap_or(&[]) }

// ---------------------------------------------------------------------------------------------
// abstract jar -> (bytes per name, zip)

fn entry_bytes(name: &str, e: &Value) -> Result<Vec<u8>> {
	Ok(match e["kind"].as_str().context("kind")? {
		"dir" => vec![],
		"other" => e["c"].as_str().context("c")?.as_bytes().to_vec(),
		"class" => class_bytes(name, e)?,
		k => bail!("unknown entry kind {k}"),
	})
}

fn jar_contents(jar: &Value, order: &Value) -> Result<Vec<(String, bool, Vec<u8>)>> {
	let empty = Map::new();
	let m = jar.as_object().unwrap_or(&empty);
	let mut names: Vec<String> = arr(order).iter().filter_map(|n| n.as_str()).filter(|n| m.contains_key(*n)).map(|n| n.to_owned()).collect();
	for n in m.keys() { if !names.contains(n) { names.push(n.clone()); } }
	let mut out = vec![];
	for n in names {
		let e = &m[&n];
		let is_dir = e["kind"] == "dir";
		if is_dir != n.ends_with('/') || (e["kind"] == "class") != (!is_dir && n.ends_with(".class")) {
			bail!("entry {n:?} of kind {} contradicts its name", e["kind"]);
		}
		out.push((n.clone(), is_dir, entry_bytes(&n, e)?));
	}
	Ok(out)
}

fn zip_bytes(contents: &[(String, bool, Vec<u8>)]) -> Result<Vec<u8>> {
	let mut w = zip::ZipWriter::new(Cursor::new(Vec::new()));
	let opt = zip::write::SimpleFileOptions::default()
		.compression_method(zip::CompressionMethod::Stored)
		.last_modified_time(zip::DateTime::default());
	for (name, is_dir, data) in contents {
		if *is_dir { w.add_directory(name.as_str(), opt)?; } else { w.start_file(name.as_str(), opt)?; w.write_all(data)?; }
	}
	Ok(w.finish()?.into_inner())
}

/// names of the central directory in order, duplicates included (APPNOTE 4.3.12 / 4.3.16)
fn central_directory_names(z: &[u8]) -> Result<Vec<String>> {
	let u16at = |p: usize| -> usize { u16::from_le_bytes([z[p], z[p + 1]]) as usize };
	let u32at = |p: usize| -> usize { u32::from_le_bytes([z[p], z[p + 1], z[p + 2], z[p + 3]]) as usize };
	if z.len() < 22 { bail!("zip too short"); }
	let mut p = z.len() - 22;
	while !(z[p..p + 4] == [0x50, 0x4b, 0x05, 0x06]) {
		if p == 0 { bail!("no end of central directory record"); }
		p -= 1;
	}
	let total = u16at(p + 10);
	let mut q = u32at(p + 16);
	if total == 0xffff || q == 0xffff_ffff { bail!("zip64 result not expected here"); }
	let mut names = vec![];
	for _ in 0..total {
		if q + 46 > z.len() || z[q..q + 4] != [0x50, 0x4b, 0x01, 0x02] { bail!("bad central directory header at {q}"); }
		let (n, m, k) = (u16at(q + 28), u16at(q + 30), u16at(q + 32));
		names.push(String::from_utf8_lossy(&z[q + 46..q + 46 + n]).into_owned());
		q += 46 + n + m + k;
	}
	Ok(names)
}

// ---------------------------------------------------------------------------------------------
// projection of a result class (cfkit facts) to marks

fn annotations<'a>(attrs: &'a Value) -> Vec<&'a Value> {
	let mut v = vec![];
	for key in ["RuntimeVisibleAnnotations", "RuntimeInvisibleAnnotations"] {
		v.extend(arr(&attrs[key]).iter());
		v.extend(arr(&attrs["dup"][key]).iter().flat_map(|l| arr(l).iter()));
	}
	v
}

/// {"e": {"type": EnvType, "name": CLIENT|SERVER}} -> side
fn side_of(ev: &Value) -> Option<&'static str> {
	let e = ev.get("e")?;
	if ev.as_object()?.len() != 1 || e["type"] != ENV_TYPE { return None; }
	match e["name"].as_str()? { "CLIENT" => Some("client"), "SERVER" => Some("server"), _ => None }
}

/// @Environment(value = EnvType.X) on a class / field / method
fn env_mark(attrs: &Value) -> &'static str {
	let found: Vec<&Value> = annotations(attrs).into_iter().filter(|a| a["type"] == ENVIRONMENT).collect();
	match found.as_slice() {
		[] => "none",
		[a] => {
			let pairs = arr(&a["pairs"]);
			if pairs.len() == 1 && pairs[0][0] == "value" { side_of(&pairs[0][1]).unwrap_or("?") } else { "?" }
		},
		_ => "?",
	}
}

/// every side some `@Environment` of the member names ("?" for an annotation of another shape)
fn env_sides(attrs: &Value) -> Vec<&'static str> {
	let mut v: Vec<&'static str> = annotations(attrs).into_iter().filter(|a| a["type"] == ENVIRONMENT).map(|a| {
		let pairs = arr(&a["pairs"]);
		if pairs.len() == 1 && pairs[0][0] == "value" { side_of(&pairs[0][1]).unwrap_or("?") } else { "?" }
	}).collect();
	v.sort();
	v.dedup();
	v
}

/// @EnvironmentInterface(value = EnvType.X, itf = I.class) -> (I, side); None = not of that shape
fn itf_instance(a: &Value) -> Option<(String, &'static str)> {
	if a["type"] != ENV_ITF { return None; }
	let pairs = arr(&a["pairs"]);
	if pairs.len() != 2 { return None; }
	let value = pairs.iter().find(|p| p[0] == "value")?;
	let itf = pairs.iter().find(|p| p[0] == "itf")?;
	let side = side_of(&value[1])?;
	let c = itf[1].get("c")?.as_str()?;
	if itf[1].as_object()?.len() != 1 { return None; }
	let name = c.strip_prefix('L')?.strip_suffix(';')?;
	Some((name.to_owned(), side))
}

/// every @EnvironmentInterface of the class: directly, or inside @EnvironmentInterfaces(value = {..})
fn itf_instances(attrs: &Value) -> Vec<Option<(String, &'static str)>> {
	let mut out = vec![];
	for a in annotations(attrs) {
		if a["type"] == ENV_ITF {
			out.push(itf_instance(a));
		} else if a["type"] == ENV_ITFS {
			let pairs = arr(&a["pairs"]);
			let elems = if pairs.len() == 1 && pairs[0][0] == "value" { pairs[0][1].get("[").and_then(|x| x.as_array()) } else { None };
			match elems {
				None => out.push(None),
				Some(es) => for e in es { out.push(e.get("@").and_then(itf_instance)); },
			}
		}
	}
	out
}

fn marked(keys: Vec<String>, marks: Vec<String>) -> Value { json!({"k": keys, "m": marks}) }

fn project_class(bytes: &[u8]) -> Value {
	let facts = match cfkit::parse::parse_class_facts_only(bytes) {
		Ok(p) => p.facts,
		Err(e) => return json!({"bad": e.to_string()}),
	};
	let member = |list: &Value| -> Value {
		let ms = arr(list);
		marked(ms.iter().map(|m| format!("{}:{}", sdisp(&m["name"]), sdisp(&m["desc"]))).collect(),
			ms.iter().map(|m| env_mark(&m["attrs"]).to_owned()).collect())
	};
	let inst = itf_instances(&facts["attrs"]);
	let itfs: Vec<String> = arr(&facts["interfaces"]).iter().map(sdisp).collect();
	let imarks: Vec<String> = itfs.iter().map(|i| {
		let hits: Vec<&'static str> = inst.iter().flatten().filter(|(n, _)| n == i).map(|(_, s)| *s).collect();
		match hits.as_slice() { [] => "none".to_owned(), [s] => (*s).to_owned(), _ => "?".to_owned() }
	}).collect();
	let mut xitf: Vec<String> = vec![];
	for i in &inst {
		match i {
			None => xitf.push("?".into()),
			Some((n, _)) if !itfs.contains(n) => xitf.push(n.clone()),
			_ => {},
		}
	}
	json!({"mark": env_mark(&facts["attrs"]), "itf": marked(itfs, imarks), "fields": member(&facts["fields"]),
		"methods": member(&facts["methods"]), "xitf": xitf})
}

fn sdisp(v: &Value) -> String { v.as_str().map(|s| s.to_owned()).unwrap_or_else(|| v.to_string()) }

// ---------------------------------------------------------------------------------------------

fn run_merge(v: &Value) -> Result<Value> {
	let c = jar_contents(&v["client"], &v["corder"])?;
	let s = jar_contents(&v["server"], &v["sorder"])?;
	let (cz, sz) = (zip_bytes(&c)?, zip_bytes(&s)?);
	let merged = match dukebox::merge::merge(UnnamedMemJar { data: cz }, UnnamedMemJar { data: sz }) {
		Ok(m) => m,
		Err(e) => return Ok(json!({"ok": false, "stage": "merge", "err": format!("{e:#}")})),
	};
	let out = match merged.to_mem() {
		Ok(m) => m.data,
		Err(e) => return Ok(json!({"ok": false, "stage": "write", "err": format!("{e:#}")})),
	};
	let names = central_directory_names(&out)?;
	let mut zr = zip::ZipArchive::new(Cursor::new(&out)).context("result is not a zip")?;
	let mut got: BTreeMap<String, Vec<u8>> = BTreeMap::new();
	for i in 0..zr.len() {
		let mut f = zr.by_index(i)?;
		let mut data = vec![];
		f.read_to_end(&mut data)?;
		got.insert(f.name().to_owned(), data);
	}
	let cm: BTreeMap<&str, &Vec<u8>> = c.iter().map(|(n, _, d)| (n.as_str(), d)).collect();
	let sm: BTreeMap<&str, &Vec<u8>> = s.iter().map(|(n, _, d)| (n.as_str(), d)).collect();
	let inputs: BTreeSet<&str> = cm.keys().chain(sm.keys()).copied().collect();
	let mut seen = BTreeSet::new();
	let mut dups = BTreeSet::new();
	for n in &names { if !seen.insert(n.as_str()) { dups.insert(n.clone()); } }
	let extra: Vec<&str> = seen.iter().copied().filter(|n| !inputs.contains(n)).collect();
	let mut entries = Map::new();
	for n in &inputs {
		let g = got.get(*n);
		entries.insert((*n).to_owned(), json!({
			"in": seen.contains(n),
			"eqc": g.is_some() && cm.get(n).is_some_and(|d| Some(*d) == g),
			"eqs": g.is_some() && sm.get(n).is_some_and(|d| Some(*d) == g),
		}));
	}
	let mut classes = Map::new();
	for (n, d) in &got {
		if n.ends_with(".class") { classes.insert(n.clone(), project_class(d)); }
	}
	Ok(json!({"ok": true, "extra": extra, "dups": dups, "entries": entries, "classes": classes}))
}

const K: &str = "K.class";

pub fn exec(v: &Value) -> Result<Value> {
	match v["op"].as_str().context("op")? {
		"store" => super::jarstore::exec(v),          // the jar storage layer below merge (spec/jar/JarStore.tla)
		"jars" => run_merge(v),
		"lists" => {
			let level = v["level"].as_str().context("level")?;
			let same = v["same"].as_bool().unwrap_or(false);
			let mk = |keys: &Value, tag: &str| -> Value {
				let ms: Vec<Value> = arr(keys).iter().map(|k| json!({"k": k, "v": 0})).collect();
				json!({K: {"kind": "class", "tag": tag,
					"itf": if level == "interfaces" { keys.clone() } else { json!([]) },
					"fields": if level == "fields" { json!(ms) } else { json!([]) },
					"methods": if level == "methods" { json!(ms) } else { json!([]) }}})
			};
			if !matches!(level, "interfaces" | "fields" | "methods") { bail!("level {level}"); }
			if same && v["a"] != v["b"] { bail!("same = true needs a = b"); }
			let g = run_merge(&json!({"client": mk(&v["a"], "K.java"), "server": mk(&v["b"], if same { "K.java" } else { "K2.java" })}))?;
			if g["ok"] != true { return Ok(g); }
			let cls = &g["classes"][K];
			if cls.is_null() { return Ok(json!({"ok": true, "bad": "class K missing from the result"})); }
			if !cls["bad"].is_null() { return Ok(json!({"ok": true, "bad": cls["bad"]})); }
			Ok(json!({"ok": true, "r": cls[if level == "interfaces" { "itf" } else { level }], "mark": cls["mark"], "xitf": cls["xitf"],
				"eqc": g["entries"][K]["eqc"], "eqs": g["entries"][K]["eqs"]}))
		},
		// a member (level fields / methods) that only `side` has and that already carries @Environment(pre); next to it a member
		// both sides have, so that the classes differ and are merged member by member
		"premarked" => {
			let level = v["level"].as_str().context("level")?;
			let side = v["side"].as_str().context("side")?;
			let (shared, own) = if level == "fields" { ("s:I", "o:I") } else { ("s:()V", "o:()V") };
			let mk = |with_own: bool, tag: &str| -> Value {
				let mut ms = vec![json!({"k": shared, "v": 0})];
				if with_own { ms.push(json!({"k": own, "v": 0, "pre": v["pre"]})); }
				json!({K: {"kind": "class", "tag": tag, "itf": [],
					"fields": if level == "fields" { json!(ms) } else { json!([]) }, "methods": if level == "methods" { json!(ms) } else { json!([]) }}})
			};
			let g = run_merge_raw(&json!({"client": mk(side == "client", "K.java"), "server": mk(side == "server", "K2.java")}))?;
			let Some(facts) = g else { return Ok(json!({"ok": false})) };
			let members = arr(&facts[level]);
			let Some(m) = members.iter().find(|m| format!("{}:{}", sdisp(&m["name"]), sdisp(&m["desc"])) == own) else { return Ok(json!({"ok": true, "found": false})) };
			let sides = env_sides(&m["attrs"]);
			Ok(json!({"ok": true, "found": true, "has_client": sides.contains(&"client"), "has_server": sides.contains(&"server"), "odd": sides.contains(&"?")}))
		},
		op => bail!("C13: unknown op {op}"),
	}
}

/// merge of two abstract jars holding class K: the facts of K in the result (None: the merge or the write failed)
fn run_merge_raw(v: &Value) -> Result<Option<Value>> {
	let c = jar_contents(&v["client"], &v["corder"])?;
	let s = jar_contents(&v["server"], &v["sorder"])?;
	let Ok(merged) = dukebox::merge::merge(UnnamedMemJar { data: zip_bytes(&c)? }, UnnamedMemJar { data: zip_bytes(&s)? }) else { return Ok(None) };
	let Ok(out) = merged.to_mem() else { return Ok(None) };
	let mut zr = zip::ZipArchive::new(Cursor::new(&out.data)).context("result is not a zip")?;
	let Ok(mut f) = zr.by_name(K) else { return Ok(None) };
	let mut data = vec![];
	f.read_to_end(&mut data)?;
	Ok(cfkit::parse::parse_class(&data).ok().map(|p| p.facts))
}

// ---------------------------------------------------------------------------------------------
// random inputs (never expectations)

/// two lists over a common pool: tame = every server-only key after the server's common keys
fn gen_lists(r: &mut StdRng, pool: &[String], tame: bool) -> (Vec<String>, Vec<String>) {
	let n = pool.len();
	let mode = r.gen_range(0..10);
	let mut pool: Vec<String> = pool.to_vec();
	pool.shuffle(r);
	let pc = *[0.2, 0.5, 0.8, 1.0].choose(r).unwrap_or(&0.5);
	let ps = *[0.2, 0.5, 0.8, 1.0].choose(r).unwrap_or(&0.5);
	let a: Vec<String> = pool.iter().filter(|_| r.gen_bool(pc)).cloned().collect();
	let mut b: Vec<String> = pool.iter().filter(|_| r.gen_bool(ps)).cloned().collect();
	match mode {
		0 => b = a.clone(),                                                   // identical
		1 if n > 0 => { let cut = r.gen_range(0..=a.len()); b = a[..cut].to_vec(); },       // prefix
		2 if n > 0 => { let cut = r.gen_range(0..=a.len()); b = a[cut..].to_vec(); },       // suffix
		3 => b.retain(|x| !a.contains(x)),                                    // disjoint
		4 => { b = a.clone(); b.shuffle(r); },                                // permutation
		5 | 6 => b.shuffle(r),                                                // scrambled
		_ => {},                                                              // interleaving
	}
	if tame {
		let (common, own): (Vec<String>, Vec<String>) = b.iter().cloned().partition(|x| a.contains(x));
		b = common.into_iter().chain(own).collect();
	}
	(a, b)
}

fn key_pool(r: &mut StdRng, level: &str, n: usize) -> Vec<String> {
	let mut out: Vec<String> = vec![];
	while out.len() < n {
		let i = r.gen_range(0..12);
		let k = match level {
			"interfaces" => format!("{}I{}", ["", "p/", "net/minecraft/", "java/lang/"].choose(r).unwrap_or(&""), i),
			"fields" => format!("f{}:{}", i, ["I", "J", "Ljava/lang/String;", "[I"].choose(r).unwrap_or(&"I")),
			_ => format!("{}:{}", ["<init>", "m0", "m1", "m2", "run", "\u{e9}t\u{e9}"].choose(r).unwrap_or(&"m"),
				["()V", "(I)V", "(JLjava/lang/String;)V", "([[D)V"].choose(r).unwrap_or(&"()V")),
		};
		if !out.contains(&k) { out.push(k); }
	}
	out
}

fn with_variants(r: &mut StdRng, keys: &[String], other: Option<&[Value]>, p_diff: f64) -> Vec<Value> {
	keys.iter().map(|k| {
		let shared = other.and_then(|o| o.iter().find(|m| m["k"] == k.as_str()));
		let v = match shared {
			Some(m) if !r.gen_bool(p_diff) => m["v"].as_u64().unwrap_or(0),
			_ => r.gen_range(0..4),
		};
		json!({"k": k, "v": v})
	}).collect()
}

fn gen_class_pair(r: &mut StdRng, tame: bool) -> (Value, Value) {
	let np = [r.gen_range(0..5), r.gen_range(0..7), r.gen_range(0..7)];
	let pools = [key_pool(r, "interfaces", np[0]), key_pool(r, "fields", np[1]), key_pool(r, "methods", np[2])];
	let (ia, ib) = gen_lists(r, &pools[0], tame);
	let (fa, fb) = gen_lists(r, &pools[1], tame);
	let (ma, mb) = gen_lists(r, &pools[2], tame);
	let fc = with_variants(r, &fa, None, 0.0);
	let fs = with_variants(r, &fb, Some(&fc), 0.3);
	let mc = with_variants(r, &ma, None, 0.0);
	let ms = with_variants(r, &mb, Some(&mc), 0.3);
	let tag_c = "A.java";
	let tag_s = if r.gen_bool(0.3) { "B.java" } else { "A.java" };
	(json!({"kind": "class", "tag": tag_c, "itf": ia, "fields": fc, "methods": mc}),
		json!({"kind": "class", "tag": tag_s, "itf": ib, "fields": fs, "methods": ms}))
}

const RES: &[&str] = &["pack.mcmeta", "log4j2.xml", "assets/minecraft/lang/en_us.json", "assets/\u{fc}n\u{ef}.txt", "data/x.nbt",
	"com/google/common/base/res.txt", "META-INF/MANIFEST.MF", "META-INF/MOJANGCS.SF", "META-INF/MOJANGCS.RSA", "META-INF/OTHER.DSA",
	"META-INF/OTHER.EC", "META-INF/services/java.nio.file.spi.FileSystemProvider", "META-INF/sub/nested.SF", "META-INF/notes.txt",
	"data.SF", "x.RSA", "net/minecraft/server/res.bin"];
const DIRS: &[&str] = &["net/", "net/minecraft/", "assets/", "com/", "com/google/", "META-INF/", "data/"];

fn gen_jars(r: &mut StdRng) -> Value {
	let tame = r.gen_bool(0.35);
	let mut client = Map::new();
	let mut server = Map::new();
	let ncls = r.gen_range(0..7);
	let mode = r.gen_range(0..6);          // 0: disjoint class sets, 1: identical, else overlapping
	for i in 0..ncls {
		let pkg = *["net/minecraft/", "net/minecraft/server/", "com/google/common/", "", "net/minecraftx/", "a/"].choose(r).unwrap_or(&"");
		let name = format!("{pkg}C{i}.class");
		let (c, s) = gen_class_pair(r, tame);
		let how = match mode { 0 => r.gen_range(0..2), 1 => 2, _ => r.gen_range(0..5) };
		match how {
			0 => { client.insert(name, c); },
			1 => { server.insert(name, s); },
			2 => { client.insert(name.clone(), c.clone()); server.insert(name, c); },
			_ => { client.insert(name.clone(), c); server.insert(name, s); },
		}
	}
	for _ in 0..r.gen_range(0..6) {
		let name = (*RES.choose(r).unwrap_or(&"x")).to_owned();
		let c1 = format!("content {} of {name}", r.gen_range(0..3));
		let c2 = if r.gen_bool(0.5) { c1.clone() } else { format!("other content of {name}") };
		match r.gen_range(0..4) {
			0 => { client.insert(name, json!({"kind": "other", "c": c1})); },
			1 => { server.insert(name, json!({"kind": "other", "c": c1})); },
			_ => { client.insert(name.clone(), json!({"kind": "other", "c": c1})); server.insert(name, json!({"kind": "other", "c": c2})); },
		}
	}
	for _ in 0..r.gen_range(0..3) {
		let name = (*DIRS.choose(r).unwrap_or(&"d/")).to_owned();
		match r.gen_range(0..3) {
			0 => { client.insert(name, json!({"kind": "dir"})); },
			1 => { server.insert(name, json!({"kind": "dir"})); },
			_ => { client.insert(name.clone(), json!({"kind": "dir"})); server.insert(name, json!({"kind": "dir"})); },
		}
	}
	if client.is_empty() && server.is_empty() { client.insert("pack.mcmeta".into(), json!({"kind": "other", "c": "{}"})); }
	let mut corder: Vec<String> = client.keys().cloned().collect();
	let mut sorder: Vec<String> = server.keys().cloned().collect();
	corder.shuffle(r);
	sorder.shuffle(r);
	json!({"op": "jars", "client": client, "server": server, "corder": corder, "sorder": sorder})
}

pub fn gen(seed: u64, n: usize) -> Result<Vec<Value>> {
	let mut r = StdRng::seed_from_u64(seed ^ 0xC13);
	let mut out = vec![];
	while out.len() < n {
		if r.gen_bool(0.35) {
			let level = *["interfaces", "fields", "methods"].choose(&mut r).unwrap_or(&"fields");
			let np = r.gen_range(0..9);
			let pool = key_pool(&mut r, level, np);
			let tame = r.gen_bool(0.35);
			let (a, b) = gen_lists(&mut r, &pool, tame);
			let same = a == b && r.gen_bool(0.5);
			out.push(json!({"op": "lists", "level": level, "a": a, "b": b, "same": same}));
		} else {
			out.push(gen_jars(&mut r));
		}
	}
	Ok(out)
}
