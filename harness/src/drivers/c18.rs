//! C18: descriptor parse()/write() and the checked name newtypes of duke.
//!
//! Strings travel as arrays of one-character strings (the specification looks inside them).
//! Type structure: {"dims":0..255,"base":"B".."Z"|"L","name":[chars]}  (name = [] unless base = "L");
//! optional type: [] | [T]; method: {"params":[T..],"ret":[]|[T]}.
//!
//! ops  {"op":"field"|"method"|"return","s":[c..]}
//!          checked constructor (TryFrom<&JavaStr> for &XDescriptorSlice), then parse(), then write() of the result
//!          -> {"res":{"ok":true,"v":structure},"printed":[c..],"wpanic":false}  |  {"res":{"ok":false,"v":[]}}
//!             (write() panicked: "printed":[],"wpanic":true,"wmsg":msg)
//!      {"op":"print","kind":"field"|"method"|"return","x":structure}
//!          structure built with the checked name constructors, write(), parse() of the written string
//!          -> {"printed":[c..],"reparsed":{"ok":b,"v":structure}}  |  {"built":false}
//!      {"op":"name:class|arr_class|obj_class|field|method|param|local","s":[c..]}
//!          -> {"valid":X::is_valid,"ctor":<&XSlice>::try_from(..).is_ok(),"octor":X::try_from(JavaString).is_ok()}
//!      {"op":"split","s":[c..]}   ObjClassNameSlice::split_inner_class_parent_and_name (+ the two getters)
//!          -> {"res":{"ok":true,"v":[]|[[p..],[i..]]},"parent":[]|[[p..]],"inner":[]|[[i..]]}  |  {"res":{"ok":false,"v":[]}}
//!      {"op":"join","p":[c..],"i":[c..]}   ObjClassName::from_inner_class, then split of the joined name
//!          -> {"res":{"ok":true,"v":[c..]},"split":[]|[[p..],[i..]]}  |  {"res":{"ok":false,"v":[]}}
use std::panic::{catch_unwind, AssertUnwindSafe};
use anyhow::{bail, Context, Result};
use java_string::{JavaStr, JavaString};
use rand::rngs::StdRng;
use rand::{Rng, SeedableRng};
use serde_json::{json, Value};
use duke::tree::class::{ArrClassName, ArrClassNameSlice, ClassName, ClassNameSlice, ObjClassName, ObjClassNameSlice};
use duke::tree::descriptor::{ArrayType, ParsedFieldDescriptor, ParsedMethodDescriptor, ParsedReturnDescriptor, ReturnDescriptorSlice, Type};
use duke::tree::field::{FieldDescriptorSlice, FieldName, FieldNameSlice};
use duke::tree::method::{MethodDescriptorSlice, MethodName, MethodNameSlice, ParameterName, ParameterNameSlice};
use duke::tree::method::code::{LocalVariableName, LocalVariableNameSlice};

fn join_chars(v: &Value) -> Result<JavaString> {
	let mut s = String::new();
	for c in v.as_array().map(|a| a.as_slice()).unwrap_or(&[]) {
		s.push_str(c.as_str().context("character")?);
	}
	Ok(JavaString::from(s))
}

fn chars(s: &JavaStr) -> Value {
	Value::Array(s.chars().map(|c| match c.as_char() {
		Some(ch) => Value::String(ch.to_string()),
		None => Value::String(format!("\\u{:04x}", c.as_u32())),
	}).collect())
}

fn refused() -> Value { json!({"ok": false, "v": []}) }

// ---- projection Type -> abstract structure
fn ty(dims: u8, base: &str, name: Value) -> Value { json!({"dims": dims, "base": base, "name": name}) }

fn proj_type(t: &Type) -> Value {
	match t {
		Type::B => ty(0, "B", json!([])),
		Type::C => ty(0, "C", json!([])),
		Type::D => ty(0, "D", json!([])),
		Type::F => ty(0, "F", json!([])),
		Type::I => ty(0, "I", json!([])),
		Type::J => ty(0, "J", json!([])),
		Type::S => ty(0, "S", json!([])),
		Type::Z => ty(0, "Z", json!([])),
		Type::Object(n) => ty(0, "L", chars(n.as_inner())),
		Type::Array(d, a) => match a {
			ArrayType::B => ty(*d, "B", json!([])),
			ArrayType::C => ty(*d, "C", json!([])),
			ArrayType::D => ty(*d, "D", json!([])),
			ArrayType::F => ty(*d, "F", json!([])),
			ArrayType::I => ty(*d, "I", json!([])),
			ArrayType::J => ty(*d, "J", json!([])),
			ArrayType::S => ty(*d, "S", json!([])),
			ArrayType::Z => ty(*d, "Z", json!([])),
			ArrayType::Object(n) => ty(*d, "L", chars(n.as_inner())),
		},
	}
}
fn proj_opt(t: &Option<Type>) -> Value { match t { None => json!([]), Some(t) => json!([proj_type(t)]) } }
fn proj_method(m: &ParsedMethodDescriptor) -> Value {
	json!({"params": m.parameter_descriptors.iter().map(proj_type).collect::<Vec<_>>(), "ret": proj_opt(&m.return_descriptor)})
}

// ---- abstract structure -> Type, through the checked constructors only (None: not constructible)
fn build_type(v: &Value) -> Result<Option<Type>> {
	let dims = v["dims"].as_u64().context("dims")?;
	let base = v["base"].as_str().context("base")?;
	if dims > 255 { return Ok(None); }
	let d = dims as u8;
	Ok(Some(if d == 0 {
		match base {
			"B" => Type::B, "C" => Type::C, "D" => Type::D, "F" => Type::F,
			"I" => Type::I, "J" => Type::J, "S" => Type::S, "Z" => Type::Z,
			"L" => match ObjClassName::try_from(join_chars(&v["name"])?) { Ok(n) => Type::Object(n), Err(_) => return Ok(None) },
			_ => return Ok(None),
		}
	} else {
		Type::Array(d, match base {
			"B" => ArrayType::B, "C" => ArrayType::C, "D" => ArrayType::D, "F" => ArrayType::F,
			"I" => ArrayType::I, "J" => ArrayType::J, "S" => ArrayType::S, "Z" => ArrayType::Z,
			"L" => match ClassName::try_from(join_chars(&v["name"])?) { Ok(n) => ArrayType::Object(n), Err(_) => return Ok(None) },
			_ => return Ok(None),
		})
	}))
}
fn build_opt(v: &Value) -> Result<Option<Option<Type>>> {
	match v.as_array().and_then(|a| a.first()) {
		None => Ok(Some(None)),
		Some(t) => Ok(build_type(t)?.map(Some)),
	}
}

/// the parsed value written back; a panic inside write() is kept apart from the verdict of parse()
fn parsed<F: FnOnce() -> JavaString>(v: Value, write: F) -> Value {
	match catch_unwind(AssertUnwindSafe(write)) {
		Ok(s) => json!({"res": {"ok": true, "v": v}, "printed": chars(&s), "wpanic": false}),
		Err(p) => {
			let msg = p.downcast_ref::<String>().cloned().or_else(|| p.downcast_ref::<&str>().map(|s| s.to_string())).unwrap_or_default();
			json!({"res": {"ok": true, "v": v}, "printed": [], "wpanic": true, "wmsg": msg})
		},
	}
}

fn name_op<'a, O, S: ?Sized + 'a>(s: &'a JavaString, valid: fn(&JavaStr) -> bool) -> Value
where &'a S: TryFrom<&'a JavaStr>, O: TryFrom<JavaString> {
	let ctor = <&S>::try_from(s.as_java_str()).is_ok();
	let octor = O::try_from(s.clone()).is_ok();
	json!({"valid": valid(s.as_java_str()), "ctor": ctor, "octor": octor})
}

fn opt_pair(r: Option<(&ObjClassNameSlice, &ObjClassNameSlice)>) -> Value {
	match r { None => json!([]), Some((p, i)) => json!([chars(p.as_inner()), chars(i.as_inner())]) }
}
fn opt_one(r: Option<&ObjClassNameSlice>) -> Value {
	match r { None => json!([]), Some(p) => json!([chars(p.as_inner())]) }
}

pub fn exec(v: &Value) -> Result<Value> {
	let op = v["op"].as_str().context("op")?;
	Ok(match op {
		"field" => {
			let s = join_chars(&v["s"])?;
			let Ok(d) = <&FieldDescriptorSlice>::try_from(s.as_java_str()) else { return Ok(json!({"res": refused()})) };
			match d.parse() {
				Ok(p) => parsed(proj_type(&p.0), || p.write().into_inner()),
				Err(_) => json!({"res": refused()}),
			}
		},
		"method" => {
			let s = join_chars(&v["s"])?;
			let Ok(d) = <&MethodDescriptorSlice>::try_from(s.as_java_str()) else { return Ok(json!({"res": refused()})) };
			match d.parse() {
				Ok(p) => parsed(proj_method(&p), || p.write().into_inner()),
				Err(_) => json!({"res": refused()}),
			}
		},
		"return" => {
			let s = join_chars(&v["s"])?;
			let Ok(d) = <&ReturnDescriptorSlice>::try_from(s.as_java_str()) else { return Ok(json!({"res": refused()})) };
			match d.parse() {
				Ok(p) => parsed(proj_opt(&p.0), || p.write().into_inner()),
				Err(_) => json!({"res": refused()}),
			}
		},
		"print" => {
			let x = &v["x"];
			let res = |r: Result<Value>| match r { Ok(v) => json!({"ok": true, "v": v}), Err(_) => refused() };
			match v["kind"].as_str().context("kind")? {
				"field" => {
					let Some(t) = build_type(x)? else { return Ok(json!({"built": false})) };
					let w = ParsedFieldDescriptor(t).write();
					json!({"printed": chars(w.as_inner()), "reparsed": res(w.parse().map(|p| proj_type(&p.0)))})
				},
				"return" => {
					let Some(t) = build_opt(x)? else { return Ok(json!({"built": false})) };
					let w = ParsedReturnDescriptor(t).write();
					json!({"printed": chars(w.as_inner()), "reparsed": res(w.parse().map(|p| proj_opt(&p.0)))})
				},
				"method" => {
					let mut ps = vec![];
					for p in x["params"].as_array().map(|a| a.as_slice()).unwrap_or(&[]) {
						let Some(t) = build_type(p)? else { return Ok(json!({"built": false})) };
						ps.push(t);
					}
					let Some(r) = build_opt(&x["ret"])? else { return Ok(json!({"built": false})) };
					let w = ParsedMethodDescriptor { parameter_descriptors: ps, return_descriptor: r }.write();
					json!({"printed": chars(w.as_inner()), "reparsed": res(w.parse().map(|p| proj_method(&p)))})
				},
				k => bail!("C18: unknown kind {k}"),
			}
		},
		"name:class" => name_op::<ClassName, ClassNameSlice>(&join_chars(&v["s"])?, ClassName::is_valid),
		"name:arr_class" => name_op::<ArrClassName, ArrClassNameSlice>(&join_chars(&v["s"])?, ArrClassName::is_valid),
		"name:obj_class" => name_op::<ObjClassName, ObjClassNameSlice>(&join_chars(&v["s"])?, ObjClassName::is_valid),
		"name:field" => name_op::<FieldName, FieldNameSlice>(&join_chars(&v["s"])?, FieldName::is_valid),
		"name:method" => name_op::<MethodName, MethodNameSlice>(&join_chars(&v["s"])?, MethodName::is_valid),
		"name:param" => name_op::<ParameterName, ParameterNameSlice>(&join_chars(&v["s"])?, ParameterName::is_valid),
		"name:local" => name_op::<LocalVariableName, LocalVariableNameSlice>(&join_chars(&v["s"])?, LocalVariableName::is_valid),
		"split" => {
			let s = join_chars(&v["s"])?;
			let Ok(n) = <&ObjClassNameSlice>::try_from(s.as_java_str()) else { return Ok(json!({"res": refused()})) };
			json!({"res": {"ok": true, "v": opt_pair(n.split_inner_class_parent_and_name())},
				"parent": opt_one(n.get_inner_class_parent()), "inner": opt_one(n.get_inner_class_name())})
		},
		"join" => {
			let (p, i) = (join_chars(&v["p"])?, join_chars(&v["i"])?);
			let Ok(p) = ObjClassName::try_from(p) else { return Ok(json!({"res": refused()})) };
			let Ok(i) = <&ObjClassNameSlice>::try_from(i.as_java_str()) else { return Ok(json!({"res": refused()})) };
			let j = ObjClassName::from_inner_class(p, i);
			json!({"res": {"ok": true, "v": chars(j.as_inner())}, "split": opt_pair(j.split_inner_class_parent_and_name())})
		},
		_ => bail!("C18: unknown op {op}"),
	})
}

// ------------------------------------------------------------------------------------------------
// Random inputs (no expectations): longer than the MC universe.

fn cs(s: &str) -> Value { Value::Array(s.chars().map(|c| Value::String(c.to_string())).collect()) }

const SEG_CHARS: &[char] = &['a', 'b', 'Z', 'L', 'V', 'I', '$', '_', '0', '(', ')', '<', '>', '-', 'é', 'ß', '字', '😀', ' '];
const EDIT_CHARS: &[char] = &['[', ';', 'L', 'V', 'I', 'B', 'J', 'D', '(', ')', '/', '.', '$', 'a', 'x', '<', '>', 'é', '😀'];
const PRIMS: &[char] = &['B', 'C', 'D', 'F', 'I', 'J', 'S', 'Z'];
const DIMS: &[usize] = &[0, 0, 0, 0, 1, 1, 2, 3, 7, 254, 255, 255, 256, 257, 300];

fn pick<'a, T>(r: &mut StdRng, xs: &'a [T]) -> &'a T { &xs[r.gen_range(0..xs.len())] }

fn gen_class_name(r: &mut StdRng) -> String {
	let segs = if r.gen_bool(0.1) { r.gen_range(4..12) } else { r.gen_range(1..4) };
	let mut s = String::new();
	for k in 0..segs {
		if k > 0 { s.push('/'); }
		let len = if r.gen_bool(0.1) { r.gen_range(10..40) } else { r.gen_range(1..6) };
		for _ in 0..len { s.push(*pick(r, SEG_CHARS)); }
	}
	s
}

/// a random type structure and its spelling
fn gen_type(r: &mut StdRng, dims: &[usize]) -> (Value, String) {
	let d = *pick(r, dims);
	let mut s = "[".repeat(d);
	let v = if r.gen_bool(0.5) {
		let b = *pick(r, PRIMS);
		s.push(b);
		json!({"dims": d, "base": b.to_string(), "name": []})
	} else {
		let n = gen_class_name(r);
		s.push('L'); s.push_str(&n); s.push(';');
		json!({"dims": d, "base": "L", "name": cs(&n)})
	};
	(v, s)
}

fn gen_method(r: &mut StdRng, dims: &[usize]) -> (Value, String) {
	let n = if r.gen_bool(0.1) { r.gen_range(5..12) } else { r.gen_range(0..4) };
	let mut s = String::from("(");
	let mut ps = vec![];
	for _ in 0..n {
		let small: &[usize] = &[0, 0, 0, 1, 2];
		let dd = if r.gen_bool(0.15) { dims } else { small };
		let (v, t) = gen_type(r, dd);
		ps.push(v); s.push_str(&t);
	}
	s.push(')');
	let ret = if r.gen_bool(0.4) { s.push('V'); json!([]) } else { let (v, t) = gen_type(r, dims); s.push_str(&t); json!([v]) };
	(json!({"params": ps, "ret": ret}), s)
}

fn one_edit(r: &mut StdRng, s: &str) -> String {
	let mut c: Vec<char> = s.chars().collect();
	match r.gen_range(0..5) {
		0 if !c.is_empty() => { let i = r.gen_range(0..c.len()); c.remove(i); },
		1 if !c.is_empty() => { let i = r.gen_range(0..c.len()); c[i] = *pick(r, EDIT_CHARS); },
		2 => { c.push(*pick(r, EDIT_CHARS)); },
		3 if !c.is_empty() => { let i = r.gen_range(0..c.len()); let x = c[i]; c.insert(i, x); },
		_ => { let i = r.gen_range(0..=c.len()); c.insert(i, *pick(r, EDIT_CHARS)); },
	}
	c.into_iter().collect()
}

fn gen_name(r: &mut StdRng) -> String {
	const NAME_CHARS: &[char] = &['a', 'b', '.', ';', '[', '/', '<', '>', '$', 'L', 'I', '1', '-', 'é', '字', '😀'];
	match r.gen_range(0..10) {
		0 => (*pick(r, &["<init>", "<clinit>", "<init", "init>", "<clinit>x", "<Init>", "<>", "<init>>"])).to_owned(),
		1 => { let t = gen_type(r, &[1, 1, 2, 3, 254, 255, 256, 300]).1; if r.gen_bool(0.4) { one_edit(r, &t) } else { t } },
		2 | 3 => { let t = gen_class_name(r); if r.gen_bool(0.4) { one_edit(r, &t) } else { t } },
		_ => { let len = r.gen_range(0..14); (0..len).map(|_| *pick(r, NAME_CHARS)).collect() },
	}
}

fn gen_dollar_name(r: &mut StdRng) -> String {
	const C: &[char] = &['a', 'b', '$', '$', '/', 'X', '1', 'é'];
	let len = r.gen_range(0..16);
	let s: String = (0..len).map(|_| *pick(r, C)).collect();
	if r.gen_bool(0.1) { one_edit(r, &s) } else { s }
}

pub fn gen(seed: u64, n: usize) -> Result<Vec<Value>> {
	let mut r = StdRng::seed_from_u64(seed ^ 0xC18);
	let kinds = ["field", "method", "return"];
	let name_kinds = ["class", "arr_class", "obj_class", "field", "method", "param", "local"];
	let mut out = vec![];
	while out.len() < n {
		match r.gen_range(0..20) {
			// a valid descriptor from a random structure, sometimes with one edit, read as its own kind (mostly) or another
			0..=8 => {
				let k = r.gen_range(0..3);
				let (_, mut s) = match k {
					0 => gen_type(&mut r, DIMS),
					1 => gen_method(&mut r, DIMS),
					_ => if r.gen_bool(0.2) { (json!([]), "V".to_owned()) } else { gen_type(&mut r, DIMS) },
				};
				if r.gen_bool(0.5) { s = one_edit(&mut r, &s); }
				if r.gen_bool(0.1) { s.push_str(*pick(&mut r, &["V", ")", "I", ";", "[", "()V", " "])); }   // trailing garbage
				if r.gen_bool(0.05) { s = format!("({s}){s}"); }                                                // nested parentheses
				if r.gen_bool(0.05) && s.starts_with('(') { s.remove(0); }                                      // missing parenthesis
				let op = if r.gen_bool(0.8) { kinds[k] } else { *pick(&mut r, &kinds) };
				out.push(json!({"op": op, "s": cs(&s)}));
			},
			// structures for write() and back
			9..=11 => {
				let k = r.gen_range(0..3);
				let x = match k {
					0 => gen_type(&mut r, &[0, 0, 1, 2, 3, 100, 254, 255]).0,
					1 => gen_method(&mut r, &[0, 0, 1, 2, 3, 100, 254, 255]).0,
					_ => if r.gen_bool(0.2) { json!([]) } else { json!([gen_type(&mut r, &[0, 0, 1, 2, 255]).0]) },
				};
				out.push(json!({"op": "print", "kind": kinds[k], "x": x}));
			},
			12..=15 => {
				let s = gen_name(&mut r);
				let k = *pick(&mut r, &name_kinds);
				out.push(json!({"op": format!("name:{k}"), "s": cs(&s)}));
			},
			16 | 17 => {
				let s = if r.gen_bool(0.3) { let c = gen_class_name(&mut r); format!("{}${}", c, gen_dollar_name(&mut r)) } else { gen_dollar_name(&mut r) };
				out.push(json!({"op": "split", "s": cs(&s)}));
			},
			_ => {
				let p = if r.gen_bool(0.5) { gen_class_name(&mut r) } else { gen_dollar_name(&mut r) };
				let i = if r.gen_bool(0.5) { gen_dollar_name(&mut r).replace('/', "") } else { gen_dollar_name(&mut r) };
				out.push(json!({"op": "join", "p": cs(&p), "i": cs(&i)}));
			},
		}
	}
	out.truncate(n);
	Ok(out)
}
