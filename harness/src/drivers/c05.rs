//! C05: VersionGraph::{resolve, get, apply_diffs} (module compiled in from /repo/src/version_graph.rs).
//!
//! ops  {"op":"graph","files":[{"name":s,"lines":[..] | "tree":tree | "diff":diff}..] (creation order),"lookups":[s..]}
//!        -> {"done":true,"listing":[names as read_dir returned them],"resolve":b,
//!            "get":{name:{ok,v:[split,version]}},"depth":{version:n},"apply":{version:{ok,v:tree}}}
use std::path::PathBuf;
use anyhow::{Context, Result};
use rand::rngs::StdRng;
use rand::seq::SliceRandom;
use rand::{Rng, SeedableRng};
use serde_json::{json, Map, Value};
use quill::tree::mappings::Mappings;
use quill::tree::mappings_diff::MappingsDiff;
use crate::gen_quill::*;
use crate::proj_quill::*;
use crate::version_graph::{Split, VersionGraph};
use super::res_tree;

fn file_text(f: &Value) -> Result<String> {
	if let Some(l) = f.get("lines") { return lines_to_text(l); }
	if let Some(t) = f.get("tree") { if !t.is_null() && t.get("ns").is_some() { return quill::tiny_v2::write_string(&json_to_tree::<2, Ns>(t)?); } }
	if let Some(d) = f.get("diff") { if !d.is_null() && d.get("info").is_some() { return lines_to_text(&diff_to_lines(d)?); } }
	Ok(String::new())
}

pub fn exec(v: &Value) -> Result<Value> {
	if matches!(v["op"].as_str(), Some("walk" | "edge" | "root" | "ids")) { return super::prop::exec(v); }
	static CTR: std::sync::atomic::AtomicUsize = std::sync::atomic::AtomicUsize::new(0);
	let n = CTR.fetch_add(1, std::sync::atomic::Ordering::Relaxed);
	let dir = PathBuf::from(format!("/dev/shm/verif-work/tmp/vg-{}-{}", std::process::id(), n));
	let _ = std::fs::remove_dir_all(&dir);
	std::fs::create_dir_all(&dir)?;
	for f in v["files"].as_array().context("files")? {
		std::fs::write(dir.join(f["name"].as_str().context("name")?), file_text(f)?)?;
	}
	let listing: Vec<String> = std::fs::read_dir(&dir)?.map(|e| e.map(|e| e.file_name().to_string_lossy().to_string())).collect::<std::io::Result<_>>()?;
	let r = run(&dir, v, &listing);
	let _ = std::fs::remove_dir_all(&dir);
	r
}

fn run(dir: &PathBuf, v: &Value, listing: &[String]) -> Result<Value> {
	let g = match VersionGraph::resolve(dir) {
		Ok(g) => g,
		Err(_) => return Ok(json!({"done": true, "listing": listing, "resolve": false})),
	};
	let mut get = Map::new();
	for n in v["lookups"].as_array().context("lookups")? {
		let n = n.as_str().context("lookup")?;
		get.insert(n.to_owned(), match g.get(n) {
			Ok((split, e)) => json!({"ok": true, "v": [match split { Split::None => "none", Split::First => "first", Split::Second => "second" }, e.as_str()]}),
			Err(_) => json!({"ok": false, "v": []}),
		});
	}
	let mut depth = Map::new();
	let mut apply = Map::new();
	for e in g.versions() {
		depth.insert(e.as_str().to_owned(), json!(e.depth()));
		apply.insert(e.as_str().to_owned(), res_tree(g.apply_diffs(e)));
	}
	Ok(json!({"done": true, "listing": listing, "resolve": true, "get": get, "depth": depth, "apply": apply}))
}

/// Random version trees with edit histories along the edges: every version's mapping set is an edit of its parent's,
/// the diff on the edge is the real diff of the two (contracted) sets; now and then a second parent (diamond whose
/// paths agree by construction), an unreachable version, a stale diff (does not apply), split names.
pub fn gen(seed: u64, n: usize) -> Result<Vec<Value>> {
	let mut r = StdRng::seed_from_u64(seed ^ 0xC05);
	let mut out = vec![];
	'outer: while out.len() < n {
		let cfg = TreeCfg { n: 2, classes: r.gen_range(1..8), p_missing: 0.0, unicode: r.gen_bool(0.2), ..TreeCfg::default() };
		let mut a0 = gen_tree(&mut r, &cfg);
		a0["ns"] = json!(["intermediary", "named"]);
		// simple target names for nested classes (the diffs carry contracted names)
		if let Some(Value::Object(k)) = a0.get_mut("kids") {
			for (_, c) in k.iter_mut() {
				let cur = c["names"][1].as_str().unwrap_or("").to_owned();
				if c["names"][0].as_str().unwrap_or("").contains('$') && !cur.is_empty() {
					c["names"][1] = json!(cur.rsplit('/').next().unwrap_or("x").replace('$', "_"));
				}
			}
		}
		let nv = r.gen_range(1..7usize);
		let names: Vec<String> = (0..nv).map(|i| if r.gen_bool(0.3) { format!("c{i}~s{i}") } else { format!("v{i}") }).collect();
		let mut trees: Vec<Value> = vec![a0.clone()];
		let mut files: Vec<Value> = vec![];
		let a0m: Mappings<2, Ns> = json_to_tree(&a0)?;
		let Ok(root_ext) = a0m.extend_inner_class_names("named") else { continue };
		files.push(json!({"name": format!("{}.tiny", names[0]), "tree": tree_to_json(&root_ext)}));
		for i in 1..nv {
			let p = r.gen_range(0..i);
			let mut t = trees[p].clone();
			for _ in 0..r.gen_range(0..3) { edit_tree(&mut r, &cfg, &mut t, 1, false); }
			let (pm, cm): (Mappings<2, Ns>, Mappings<2, Ns>) = (json_to_tree(&trees[p])?, json_to_tree(&t)?);
			let Ok(d) = MappingsDiff::diff(&pm, &cm) else { continue 'outer };
			if r.gen_bool(0.1) && i > 1 {
				// unreachable: the edge file is left out (the version is still named by a later child, if any)
			} else {
				files.push(json!({"name": format!("{}#{}.tinydiff", names[p], names[i]), "diff": diff_to_json(&d)}));
			}
			// a second parent with the matching diff: both paths give the same set
			if i >= 2 && r.gen_bool(0.25) {
				let q = (p + 1) % i;
				let qm: Mappings<2, Ns> = json_to_tree(&trees[q])?;
				if let Ok(d2) = MappingsDiff::diff(&qm, &cm) {
					if q != p { files.push(json!({"name": format!("{}#{}.tinydiff", names[q], names[i]), "diff": diff_to_json(&d2)})); }
				}
			}
			trees.push(t);
		}
		if r.gen_bool(0.1) && files.len() > 1 {
			// stale diff: replace one edge's diff by another edge's
			let i = r.gen_range(1..files.len());
			let j = r.gen_range(1..files.len());
			let dj = files[j]["diff"].clone();
			files[i]["diff"] = dj;
		}
		// a back edge: a cycle, reachable from the root or not, possibly entered at several places
		if nv >= 3 && r.gen_bool(0.2) {
			let from = r.gen_range(1..nv);
			let to = r.gen_range(0..from);
			let name = format!("{}#{}.tinydiff", names[from], names[to]);
			if !files.iter().any(|f| f["name"] == name.as_str()) {
				files.push(json!({"name": name, "diff": {"info": ["none"], "doc": ["none"], "kids": {}}}));
			}
		}
		if r.gen_bool(0.1) { files.push(json!({"name": "notes.txt"})); }
		files.shuffle(&mut r);
		let mut lookups: Vec<String> = names.iter().flat_map(|x| x.split('~').map(|s| s.to_owned()).collect::<Vec<_>>()).collect();
		lookups.push("unknown".into());
		lookups.push(names[0].clone());
		out.push(json!({"op": "graph", "files": files, "lookups": lookups}));
	}
	// the walk of a change through the graph (src/insert_mappings.rs, specification Propagate.tla)
	out.extend(super::prop::gen(seed, n)?);
	Ok(out)
}
