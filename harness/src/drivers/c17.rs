//! C17: partial and replaying visitors observe the same facts as a full read.
//!
//! ops (classes are named, never shipped as bytes):
//!   {"op":"mask",  "cls":C, "mask":M, "declines":D, "consumer":"rec"|"unit"|"simple"}
//!        -> {file_len, full:{ok,events,rest}, masked:{ok,events,rest,err}, skeleton}
//!   {"op":"concat","classes":[C..], "mask":M, "declines":D, "consumer":..}
//!        -> {lens:[n..], fulls:[{ok,events}..], reads:[{ok,events,pos,behind,skeleton}..]}   one stream, one read per class
//!   {"op":"accept","cls":C, "mask":M, "declines":D}
//!        -> {read:{ok,events}, replay:{ok,events,skeleton}, tree_equal, tree_diff:[path..]}
//!   {"op":"scan"}  (tooling, not part of the check) -> sizes of every catalogue class
//! C = "corpus:<id>" | "sample:<id>" | {"shape": {"cattrs":[..], "fields":[[..]..], "methods":[{"attrs":[..],"code":[..]}..], "rcs":[[..]..]}}
//! M = {"class":{flag:bool..},"field":{..},"method":{..},"code":{..},"rc":{..}} (every flag), D = {"classes","fields","methods","codes","rcs": [ordinal..]}
//!
//! The driver only runs the reads and ships the recorded event streams, stream positions and lengths. The
//! judgement (masked = Filter(full, mask, declines), position = end of this class, k-th read = k-th class,
//! replay = read up to commutation of independent events) is made by Trace_Visit.tla; for vectors of
//! MC_Visit.tla the expected event *skeleton* (events without payload digests) comes from the model.
use std::cell::RefCell;
use std::collections::{BTreeMap, HashMap};
use std::io::Cursor;
use std::rc::Rc;
use std::sync::OnceLock;
use anyhow::{anyhow, bail, Context, Result};
use rand::rngs::StdRng;
use rand::seq::SliceRandom;
use rand::{Rng, SeedableRng};
use serde_json::{json, Map, Value};
use duke::tree::class::ClassFile;

#[path = "c17_visitors.rs"]
pub mod visitors;
use visitors::*;

// ------------------------------------------------------------------------------------------------
// classes by id

fn catalogue() -> &'static BTreeMap<String, Vec<u8>> {
	static CAT: OnceLock<BTreeMap<String, Vec<u8>>> = OnceLock::new();
	CAT.get_or_init(|| {
		let mut m = BTreeMap::new();
		for (id, bytes) in cfkit::corpus::corpus_classes("thorough") {
			m.insert(format!("corpus:{id}"), bytes);
		}
		for (id, bytes) in cfkit::duke_diff::sample_inputs() {
			m.insert(format!("sample:{}", id.trim_start_matches("sample/")), bytes);
		}
		m
	})
}

thread_local! {
	static SHAPES: RefCell<HashMap<String, Rc<Vec<u8>>>> = RefCell::new(HashMap::new());
}

fn class_bytes(c: &Value) -> Result<Rc<Vec<u8>>> {
	if let Some(id) = c.as_str() {
		return catalogue().get(id).map(|b| Rc::new(b.clone())).ok_or_else(|| anyhow!("C17: unknown class id {id}"));
	}
	let shape = c.get("shape").context("C17: cls must be an id or {shape}")?;
	let key = shape.to_string();
	if let Some(b) = SHAPES.with(|s| s.borrow().get(&key).cloned()) {
		return Ok(b);
	}
	let b = Rc::new(shape_bytes(shape)?);
	SHAPES.with(|s| s.borrow_mut().insert(key, b.clone()));
	Ok(b)
}

// ------------------------------------------------------------------------------------------------
// abstract shape -> real class file (facts assembled by cfkit, attribute tables then put into the shape's order)

fn names(v: &Value) -> Result<Vec<String>> {
	match v {
		Value::Array(a) => a.iter().map(|x| x.as_str().map(str::to_owned).context("attribute kind")).collect(),
		Value::Object(o) if o.is_empty() => Ok(vec![]),
		_ => bail!("C17: list of attribute kinds expected, got {v}"),
	}
}

fn list(v: &Value) -> Vec<Value> {
	v.as_array().cloned().unwrap_or_default()
}

const ANNO: &str = "Lk/A;";

fn attr_facts(level: &str, kinds: &[String], rcs: &[Value]) -> Result<Value> {
	let mut a = Map::new();
	let mut unknown = vec![];
	let anno = || json!([{"type": ANNO, "pairs": [["v", {"I": 1}]]}]);
	for k in kinds {
		let v = match (level, k.as_str()) {
			(_, "Deprecated") | (_, "Synthetic") => json!(true),
			(_, "Signature") => json!(if level == "method" { "()V" } else { "Ljava/lang/Object;" }),
			(_, "RuntimeVisibleAnnotations") | (_, "RuntimeInvisibleAnnotations") => anno(),
			(_, "RuntimeVisibleTypeAnnotations") | (_, "RuntimeInvisibleTypeAnnotations") => {
				let target = match level {
					"class" => json!({"kind": "class_extends", "index": 65535}),
					"field" | "rc" => json!({"kind": "field"}),
					"method" => json!({"kind": "method_return"}),
					_ => json!({"kind": "new", "insn": 0}),
				};
				json!([{"target": target, "path": [], "type": ANNO, "pairs": []}])
			},
			("class", "SourceFile") => json!("S.java"),
			("class", "SourceDebugExtension") => json!("SMAP"),
			("class", "InnerClasses") => json!([{"inner": "k/S$I", "outer": "k/S", "name": "I", "access": 1}]),
			("class", "EnclosingMethod") => json!({"class": "k/O", "method": {"name": "m", "desc": "()V"}}),
			("class", "NestHost") => json!("k/O"),
			("class", "NestMembers") => json!(["k/S$I"]),
			("class", "PermittedSubclasses") => json!(["k/T"]),
			("class", "Record") => {
				let mut comps = vec![];
				for (i, rc) in rcs.iter().enumerate() {
					comps.push(json!({"name": format!("r{}", i + 1), "desc": "I", "attrs": attr_facts("rc", &names(rc)?, &[])?}));
				}
				Value::Array(comps)
			},
			("class", "BootstrapMethods") => {
				a.insert("unreferenced_bootstrap".into(), json!([{"bsm": {"kind": "invokestatic", "owner": "k/B", "name": "b", "desc": "()V", "itf": false}, "args": [{"int": 7}]}]));
				continue;
			},
			("field", "ConstantValue") => json!({"int": 1}),
			("method", "Exceptions") => json!(["java/lang/Exception"]),
			("method", "AnnotationDefault") => json!({"I": 1}),
			("method", "MethodParameters") => json!([{"name": "p", "access": 0}]),
			("method", "RuntimeVisibleParameterAnnotations") | ("method", "RuntimeInvisibleParameterAnnotations") => json!([anno()]),
			("code", "LineNumberTable") => json!([[0, 1]]),
			("code", "LocalVariableTable") => json!([{"start": 0, "end": 1, "name": "this", "desc": "Lk/S;", "slot": 0}]),
			("code", "LocalVariableTypeTable") => json!([{"start": 0, "end": 1, "name": "this", "sig": "Lk/S;", "slot": 0}]),
			("code", "StackMapTable") => json!([{"at": 0, "locals": [{"object": "k/S"}], "stack": []}]),
			(_, n) if n.starts_with('X') => {
				unknown.push(json!({"name": n, "bytes": "0102030405"}));
				continue;
			},
			(l, n) => bail!("C17: attribute kind {n} is not modelled at level {l}"),
		};
		a.insert(k.clone(), v);
	}
	if !unknown.is_empty() {
		cfkit::facts::canon_sort(&mut unknown);
		a.insert("unknown".into(), Value::Array(unknown));
	}
	Ok(Value::Object(a))
}

fn shape_facts(shape: &Value) -> Result<Value> {
	let rcs = list(&shape["rcs"]);
	let mut fields = vec![];
	for (i, f) in list(&shape["fields"]).iter().enumerate() {
		fields.push(cfkit::samples::member(0x18, &format!("f{}", i + 1), "I", attr_facts("field", &names(f)?, &[])?));
	}
	let mut methods = vec![];
	for (i, m) in list(&shape["methods"]).iter().enumerate() {
		let kinds = names(&m["attrs"])?;
		let mut attrs = attr_facts("method", &kinds.iter().filter(|k| *k != "Code").cloned().collect::<Vec<_>>(), &[])?;
		if kinds.iter().any(|k| k == "Code") {
			let nested = attr_facts("code", &names(&m["code"])?, &[])?;
			// the shape may ask for an exception range that ends where the code ends (its exclusive end is the last label)
			let exceptions = if m["excend"].as_bool().unwrap_or(false) { vec![json!({"start": 0, "end": 1, "handler": 0})] } else { vec![] };
			attrs["Code"] = cfkit::samples::code(1, 1, vec![cfkit::samples::op("return")], exceptions, nested);
		}
		methods.push(cfkit::samples::member(if attrs.get("Code").is_some() { 0x1 } else { 0x401 }, &format!("m{}", i + 1), "()V", attrs));
	}
	let attrs = attr_facts("class", &names(&shape["cattrs"])?, &rcs)?;
	Ok(cfkit::samples::class([61, 0], 0x21, "k/S", Some("java/lang/Object"), fields, methods, attrs))
}

/// One attribute table of the file: (path of the table, [(name, start, end)..] in file order).
fn attr_tables(bytes: &[u8]) -> Result<Vec<(String, Vec<(String, usize, usize)>)>> {
	let p = cfkit::parse::parse_class(bytes).map_err(|e| anyhow!("cfkit rejects the assembled shape: {e}"))?;
	let mut utf8: HashMap<usize, String> = HashMap::new();
	for s in &p.spans {
		if s.role == "cp_utf8_bytes" {
			if let Some(i) = s.path.strip_prefix("cp[").and_then(|x| x.strip_suffix(']')).and_then(|x| x.parse::<usize>().ok()) {
				utf8.insert(i, String::from_utf8_lossy(&bytes[s.off..s.off + s.len]).into_owned());
			}
		}
	}
	let mut tables: Vec<(String, Vec<(String, usize, usize)>)> = vec![];
	for s in &p.spans {
		if s.role != "attr_name" {
			continue;
		}
		let cut = s.path.rfind("attr[").context("attr path")?;
		let table = s.path[..cut].to_owned();
		let idx = u16::from_be_bytes([bytes[s.off], bytes[s.off + 1]]) as usize;
		let len = u32::from_be_bytes([bytes[s.off + 2], bytes[s.off + 3], bytes[s.off + 4], bytes[s.off + 5]]) as usize;
		let name = utf8.get(&idx).cloned().unwrap_or_default();
		match tables.iter_mut().find(|t| t.0 == table) {
			Some(t) => t.1.push((name, s.off, s.off + 6 + len)),
			None => tables.push((table, vec![(name, s.off, s.off + 6 + len)])),
		}
	}
	Ok(tables)
}

/// Puts the attributes of every table into the order the shape asks for (a byte permutation inside each table;
/// the facts are unchanged, which is checked with cfkit).
fn shape_bytes(shape: &Value) -> Result<Vec<u8>> {
	let facts = shape_facts(shape)?;
	let bytes = cfkit::asm::assemble(&facts, &cfkit::asm::Encoding::default()).map_err(|e| anyhow!("cfkit cannot assemble the shape: {e}"))?;
	let mut want: HashMap<String, Vec<String>> = HashMap::new();
	want.insert(String::new(), names(&shape["cattrs"])?);
	for (i, f) in list(&shape["fields"]).iter().enumerate() {
		want.insert(format!("field[{i}]."), names(f)?);
	}
	for (i, m) in list(&shape["methods"]).iter().enumerate() {
		want.insert(format!("method[{i}]."), names(&m["attrs"])?);
		want.insert(format!("method[{i}].Code."), names(&m["code"])?);
	}
	let tables = attr_tables(&bytes)?;
	let mut out = bytes.clone();
	// inner tables first: an outer blob is moved with its (already ordered) content
	let mut order: Vec<usize> = (0..tables.len()).collect();
	order.sort_by_key(|i| std::cmp::Reverse(tables[*i].0.len()));
	for ti in order {
		let (path, blobs) = &tables[ti];
		let wanted: Vec<String> = if let Some(w) = want.get(path) {
			w.clone()
		} else if let Some(rest) = path.strip_prefix("attr[").and_then(|r| r.split_once("]:Record.component[")) {
			let k: usize = rest.1.trim_end_matches("].").parse().context("record component index")?;
			names(&list(&shape["rcs"])[k])?
		} else {
			bail!("C17: unexpected attribute table {path}");
		};
		if wanted.len() != blobs.len() {
			bail!("C17: table {path:?} has {} attributes, the shape lists {}", blobs.len(), wanted.len());
		}
		let (lo, hi) = (blobs[0].1, blobs[blobs.len() - 1].2);
		let mut region = Vec::with_capacity(hi - lo);
		for w in &wanted {
			let b = blobs.iter().find(|b| &b.0 == w).with_context(|| format!("C17: attribute {w} not in table {path:?}"))?;
			region.extend_from_slice(&out[b.1..b.2]);
		}
		if region.len() != hi - lo {
			bail!("C17: duplicate attribute names in table {path:?}");
		}
		// the blobs of this table still sit at their original offsets in `out` (only inner tables were touched)
		out[lo..hi].copy_from_slice(&region);
	}
	let back = cfkit::parse::parse_class_facts_only(&out).map_err(|e| anyhow!("cfkit rejects the reordered shape: {e}"))?;
	if back.facts != facts {
		bail!("C17: reordering the attribute tables changed the facts");
	}
	for (path, blobs) in attr_tables(&out)? {
		if let Some(w) = want.get(&path) {
			if &blobs.iter().map(|b| b.0.clone()).collect::<Vec<_>>() != w {
				bail!("C17: table {path:?} did not end up in the requested order");
			}
		}
	}
	Ok(out)
}

// ------------------------------------------------------------------------------------------------
// running the reads

struct Run {
	ok: bool,
	err: String,
	events: Vec<Ev>,
	pos: u64,
	trees: Vec<ClassFile>,
}

fn events_json(events: &[Ev]) -> Value {
	Value::Array(events.iter().map(Ev::to_json).collect())
}

/// The events without their payload digests, as rows [lvl, ev, c, mk, mi, vis, frame]. Label definitions
/// (visit_last_label) are left out: the specification does not count them as items (Visit.tla, Items), so a
/// skeleton can be compared row by row with the model's. The same holds for a visit_local_variables call without
/// rows; of one with rows the skeleton keeps the kinds (vis), not the digests.
fn skeleton(events: &[Ev]) -> Value {
	Value::Array(events.iter().filter(|e| !(e.lvl == "code" && (e.ev == "visit_last_label" || (e.ev == "visit_local_variables" && e.vis.is_empty()))))
		.map(|e| json!([e.lvl, e.ev, e.c, e.mk, e.mi, e.vis, if e.ev == "visit_local_variables" { "" } else { e.frame.as_str() }])).collect())
}

/// `n` successive reads on one stream with a recording visitor; stops at the first failing read.
/// Returns per read (ok, error, events of that read, stream position afterwards) and the trees built.
fn read_stream(bytes: &[u8], n: usize, mask: &Mask, declines: &Declines, consumer: &str) -> Result<(Vec<Run>, Vec<ClassFile>)> {
	let sh = Shared::new(mask.clone(), declines.clone());
	let mut cur = Cursor::new(bytes);
	let mut runs = vec![];
	let mut trees = vec![];
	enum V { Rec(Recording<Vec<ClassFile>>), Unit, Simple(SimpleMulti) }
	let mut v = match consumer {
		"rec" => V::Rec(Recording::<Vec<ClassFile>>::new(sh.clone())),
		"unit" => V::Unit,
		"simple" => V::Simple(SimpleMulti::new(sh.clone())),
		c => bail!("C17: unknown consumer {c}"),
	};
	for _ in 0..n {
		let before = sh.log.borrow().len();
		let r = match v {
			V::Rec(x) => duke::read_class_multi(&mut cur, x).map(V::Rec),
			V::Unit => duke::read_class_multi(&mut cur, ()).map(|()| V::Unit),
			V::Simple(x) => duke::read_class_multi(&mut cur, x).map(V::Simple),
		};
		let events = sh.log.borrow()[before..].to_vec();
		match r {
			Ok(next) => {
				runs.push(Run { ok: true, err: String::new(), events, pos: cur.position(), trees: vec![] });
				v = next;
			},
			Err(e) => {
				runs.push(Run { ok: false, err: format!("{e:#}"), events, pos: cur.position(), trees: vec![] });
				return Ok((runs, trees));
			},
		}
	}
	if let V::Rec(x) = v {
		trees = x.inner;
	}
	Ok((runs, trees))
}

fn read_one(bytes: &[u8], mask: &Mask, declines: &Declines, consumer: &str) -> Result<Run> {
	let (mut runs, trees) = read_stream(bytes, 1, mask, declines, consumer)?;
	let mut r = runs.pop().context("one run")?;
	r.trees = trees;
	Ok(r)
}

fn err_head(e: &str) -> String {
	e.chars().take(160).collect()
}

fn consumer_of(v: &Value) -> &str {
	v.get("consumer").and_then(Value::as_str).unwrap_or("rec")
}

pub fn exec(v: &Value) -> Result<Value> {
	let op = v["op"].as_str().context("op")?;
	match op {
		"mask" => {
			let bytes = class_bytes(&v["cls"])?;
			let (mask, declines) = (Mask::from_json(&v["mask"])?, Declines::from_json(&v["declines"])?);
			let full = read_one(&bytes, &Mask::all(), &Declines::default(), "rec")?;
			let m = read_one(&bytes, &mask, &declines, consumer_of(v))?;
			let len = bytes.len() as i64;
			Ok(json!({
				"file_len": len,
				"full": {"ok": full.ok, "events": events_json(&full.events), "rest": len - full.pos as i64},
				"masked": {"ok": m.ok, "events": events_json(&m.events), "rest": len - m.pos as i64, "err": err_head(&m.err)},
				"skeleton": skeleton(&m.events),
			}))
		},
		"concat" => {
			let classes = v["classes"].as_array().context("classes")?;
			let (mask, declines) = (Mask::from_json(&v["mask"])?, Declines::from_json(&v["declines"])?);
			let mut stream = vec![];
			let mut lens = vec![];
			let mut fulls = vec![];
			for c in classes {
				let b = class_bytes(c)?;
				let full = read_one(&b, &Mask::all(), &Declines::default(), "rec")?;
				fulls.push(json!({"ok": full.ok, "events": events_json(&full.events)}));
				lens.push(b.len() as i64);
				stream.extend_from_slice(&b);
			}
			let (runs, _) = read_stream(&stream, classes.len(), &mask, &declines, consumer_of(v))?;
			let mut end = 0i64;
			let mut reads = vec![];
			for (k, r) in runs.iter().enumerate() {
				end += lens[k];
				reads.push(json!({"ok": r.ok, "events": events_json(&r.events), "pos": r.pos, "behind": end - r.pos as i64, "err": err_head(&r.err)}));
			}
			Ok(json!({"lens": lens, "fulls": fulls, "reads": reads,
				"oks": runs.iter().map(|r| r.ok).collect::<Vec<_>>(),
				"behinds": reads.iter().map(|r| r["behind"].clone()).collect::<Vec<_>>(),
				"skeletons": runs.iter().map(|r| skeleton(&r.events)).collect::<Vec<_>>()}))
		},
		"accept" => {
			let bytes = class_bytes(&v["cls"])?;
			let (mask, declines) = (Mask::from_json(&v["mask"])?, Declines::from_json(&v["declines"])?);
			// the in-memory class: duke's own full read
			let tree = match duke::read_class(&mut Cursor::new(&bytes[..])) {
				Ok(t) => t,
				Err(e) => return Ok(json!({"tree": false, "err": err_head(&format!("{e:#}"))})),
			};
			let read = read_one(&bytes, &mask, &declines, "rec")?;
			let sh = Shared::new(mask.clone(), declines.clone());
			let tree_copy = tree.clone();
			let replayed = tree.accept(Recording::<Vec<ClassFile>>::new(sh.clone()));
			let events = sh.events();
			let (rok, rerr, rtrees) = match replayed {
				Ok(x) => (true, String::new(), x.inner),
				Err(e) => (false, format!("{e:#}"), vec![]),
			};
			// the same class edited in memory: every row of the LocalVariableTypeTable folded into the entry of the LocalVariableTable
			// with the same range, name and slot (one entry with descriptor and signature: the writer puts it into both tables).
			// Replaying it delivers what replaying the unedited class delivers.
			let mut tree_m = tree_copy;
			for m in &mut tree_m.methods {
				if let Some(code) = &mut m.code {
					if let Some(lvs) = &mut code.local_variables {
						let sigs: Vec<_> = lvs.iter().filter(|l| l.descriptor.is_none() && l.signature.is_some()).cloned().collect();
						for sg in sigs {
							if let Some(t) = lvs.iter_mut().find(|l| l.descriptor.is_some() && l.signature.is_none() && l.range == sg.range && l.name == sg.name && l.index == sg.index) {
								t.signature = sg.signature.clone();
								if let Some(i) = lvs.iter().position(|l| *l == sg) { lvs.remove(i); }
							}
						}
					}
				}
			}
			let shm = Shared::new(mask.clone(), declines.clone());
			let replayed_m = tree_m.accept(Recording::<Vec<ClassFile>>::new(shm.clone()));
			let events_m = shm.events();
			let merged = json!({"ok": replayed_m.is_ok(), "skeleton": skeleton(&events_m)});
			// the class rebuilt by the replay against the class built by the read with the same visitor
			let (tree_equal, tree_diff) = compare_trees(&read.trees, &rtrees);
			Ok(json!({
				"tree": true,
				"read": {"ok": read.ok, "events": events_json(&read.events), "err": err_head(&read.err)},
				"replay": {"ok": rok, "events": events_json(&events), "err": err_head(&rerr), "skeleton": skeleton(&events)},
				"tree_equal": tree_equal, "tree_diff": tree_diff, "merged": merged,
			}))
		},
		"scan" => Ok(scan()),
		_ => bail!("C17: unknown op {op}"),
	}
}

/// Facts of the classes built by two visitors (cfkit's projection of duke's tree), and where they differ.
fn compare_trees(a: &[ClassFile], b: &[ClassFile]) -> (bool, Value) {
	let proj = |t: &[ClassFile]| -> Value {
		Value::Array(t.iter().map(|c| match cfkit::proj_duke::duke_to_facts(c) {
			Ok(f) => f,
			Err(e) => json!({"projection_error": e.0}),
		}).collect())
	};
	let (fa, fb) = (proj(a), proj(b));
	let mut paths = vec![];
	diff_paths(&fa, &fb, String::new(), &mut paths);
	(fa == fb, json!(paths))
}

fn diff_paths(a: &Value, b: &Value, path: String, out: &mut Vec<String>) {
	if out.len() >= 8 || a == b {
		return;
	}
	match (a, b) {
		(Value::Object(x), Value::Object(y)) => {
			let mut keys: Vec<&String> = x.keys().chain(y.keys()).collect();
			keys.sort();
			keys.dedup();
			for k in keys {
				match (x.get(k), y.get(k)) {
					(Some(p), Some(q)) => diff_paths(p, q, format!("{path}/{k}"), out),
					_ => out.push(format!("{path}/{k}")),
				}
			}
		},
		(Value::Array(x), Value::Array(y)) if x.len() == y.len() => {
			for (i, (p, q)) in x.iter().zip(y).enumerate() {
				diff_paths(p, q, format!("{path}/{i}"), out);
			}
		},
		_ => out.push(path),
	}
}

// ------------------------------------------------------------------------------------------------
// generation of random cases

struct Info {
	id: String,
	events: usize,
	fields: usize,
	methods: usize,
	codes: Vec<usize>,
	rcs: usize,
}

/// Every catalogue class duke can read completely, with the counts the generator needs to aim its choices.
fn infos() -> Vec<Info> {
	let mut out = vec![];
	for (id, bytes) in catalogue() {
		let Ok(r) = read_one(bytes, &Mask::all(), &Declines::default(), "rec") else { continue };
		if !r.ok {
			continue;
		}
		let count = |ev: &str| r.events.iter().filter(|e| e.ev == ev).count();
		out.push(Info {
			id: id.clone(), events: r.events.len(), fields: count("visit_field"), methods: count("visit_method"),
			codes: r.events.iter().filter(|e| e.ev == "visit_code").map(|e| e.mi).collect(), rcs: count("visit_record_component"),
		});
	}
	out
}

fn scan() -> Value {
	let mut rows = vec![];
	for i in infos() {
		rows.push(json!([i.id, i.events, i.fields, i.methods, i.codes.len(), i.rcs]));
	}
	json!({"classes": rows, "catalogue": catalogue().len()})
}

/// now and then the visitors of the members with an even ordinal report another mask (`alt`)
fn rand_mask(r: &mut StdRng) -> Value {
	let mut m = rand_mask1(r);
	if r.gen_bool(0.2) { let a = rand_mask1(r); m["alt"] = a; }
	m
}

fn rand_mask1(r: &mut StdRng) -> Value {
	let all: Vec<(&str, &str)> = LEVELS.iter().flat_map(|(l, fs)| fs.iter().map(move |f| (*l, *f))).collect();
	let set = |m: &mut Value, lf: (&str, &str), b: bool| m[lf.0][lf.1] = Value::Bool(b);
	match r.gen_range(0..10) {
		0 => mask_json(true),
		1 => { let mut m = mask_json(true); set(&mut m, *all.choose(r).unwrap(), false); m },
		2 => { let mut m = mask_json(true); for _ in 0..2 { set(&mut m, *all.choose(r).unwrap(), false); } m },
		3 => { let mut m = mask_json(false); set(&mut m, *all.choose(r).unwrap(), true); m },
		4 => {
			// one flag on, and the containers that make it reachable
			let mut m = mask_json(false);
			let lf = *all.choose(r).unwrap();
			set(&mut m, lf, true);
			match lf.0 {
				"field" => set(&mut m, ("class", "fields"), true),
				"method" => set(&mut m, ("class", "methods"), true),
				"code" => { set(&mut m, ("class", "methods"), true); set(&mut m, ("method", "code"), true); },
				"rc" => set(&mut m, ("class", "record"), true),
				_ => {},
			}
			m
		},
		5 => {
			// one whole level off / on
			let (lvl, flags) = LEVELS[r.gen_range(0..LEVELS.len())];
			let on = r.gen_bool(0.5);
			let mut m = mask_json(!on);
			for f in flags { set(&mut m, (lvl, *f), on); }
			if on { set(&mut m, ("class", "fields"), true); set(&mut m, ("class", "methods"), true); set(&mut m, ("class", "record"), true); set(&mut m, ("method", "code"), true); }
			m
		},
		_ => {
			let p = *[0.15, 0.5, 0.85].choose(r).unwrap();
			let mut m = mask_json(false);
			for lf in &all { set(&mut m, *lf, r.gen_bool(p)); }
			// the member containers mostly stay on, so that the member levels are exercised
			for lf in [("class", "fields"), ("class", "methods"), ("method", "code")] { if r.gen_bool(0.8) { set(&mut m, lf, true); } }
			m
		},
	}
}

fn subset(r: &mut StdRng, n: usize, p: f64) -> Vec<usize> {
	(1..=n).filter(|_| r.gen_bool(p)).collect()
}

fn rand_declines(r: &mut StdRng, i: &Info, classes: usize) -> Value {
	let style = r.gen_range(0..10);
	let p = match style { 0..=2 => 0.0, 3..=6 => 0.25, _ => 0.6 };
	let mut d = json!({
		"classes": subset(r, classes, if classes > 1 { 0.3 } else { 0.04 }),
		"fields": subset(r, i.fields.min(12), p), "methods": subset(r, i.methods.min(12), p),
		"codes": Vec::<usize>::new(), "rcs": subset(r, i.rcs.min(6), p.max(0.2)),
	});
	// declining a code (and nothing else of that method) is its own case
	if r.gen_bool(0.12) && !i.codes.is_empty() {
		let k = *i.codes.choose(r).unwrap();
		d["codes"] = json!([k]);
		if r.gen_bool(0.5) {
			d["fields"] = json!([]);
			d["methods"] = json!([]);
			d["classes"] = json!([]);
		}
	}
	d
}

pub fn gen(seed: u64, n: usize) -> Result<Vec<Value>> {
	let mut r = StdRng::seed_from_u64(seed ^ 0xC17);
	let all = infos();
	let small: Vec<&Info> = all.iter().filter(|i| i.events <= 260).collect();
	let medium: Vec<&Info> = all.iter().filter(|i| i.events > 260 && i.events <= 1500).collect();
	if small.is_empty() {
		bail!("C17: no readable class in the catalogue");
	}
	let pick = |r: &mut StdRng| -> &Info {
		if !medium.is_empty() && r.gen_bool(0.04) { medium.choose(r).unwrap() } else { small.choose(r).unwrap() }
	};
	let mut out = vec![];
	while out.len() < n {
		let k = r.gen_range(0..100);
		let consumer = match r.gen_range(0..10) { 0 => "unit", 1 => "simple", _ => "rec" };
		if k < 62 {
			let i = pick(&mut r);
			out.push(json!({"op": "mask", "cls": i.id, "mask": rand_mask(&mut r), "declines": rand_declines(&mut r, i, 1), "consumer": consumer}));
		} else if k < 80 {
			let cnt = r.gen_range(2..=3);
			let cs: Vec<&Info> = (0..cnt).map(|_| *small.choose(&mut r).unwrap()).collect();
			let mask = if r.gen_bool(0.4) { mask_json(true) } else { rand_mask(&mut r) };
			let d = rand_declines(&mut r, cs[0], cnt);
			out.push(json!({"op": "concat", "classes": cs.iter().map(|i| i.id.clone()).collect::<Vec<_>>(), "mask": mask, "declines": d, "consumer": consumer}));
		} else {
			let i = pick(&mut r);
			let (mask, d) = if r.gen_bool(0.45) { (mask_json(true), declines_json_none()) } else { (rand_mask(&mut r), rand_declines(&mut r, i, 1)) };
			out.push(json!({"op": "accept", "cls": i.id, "mask": mask, "declines": d}));
		}
	}
	Ok(out)
}
