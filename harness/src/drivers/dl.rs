//! Download cache (spec/system/DownloadCache.tla): the real `Downloader` of the binary crate (src/download/mod.rs, compiled
//! into the harness) run offline on a directory a former run may have left behind.
//!
//!   {"op":"dl","kind":"json"|"xml"|"vec"|"jar","special":b,"file":-1|k,"marker":b,"K":n}
//!        file = k: the cache file of the URL holds the first k of the body's n chunks; marker: "<path>__404" exists
//!   -> {"out":"ok"|"none"|"err","seen":chunks of the body the caller got (-1 unless ok)}
//! kinds: json  get_versions_manifest()                      (whole body must parse)
//!        xml   special: maven_dependency_resolver::Downloader::get_maven_pom(url), else get_maven_metadata_xml(url)
//!        vec   download_nests(version): one nest per chunk (a prefix of lines reads as fewer nests)
//!        jar   get_jar(url): the path is handed out, the body is read from it afterwards
//! The driver only lays out the directory, calls the function the binary calls and counts what came back.
use std::future::Future;
use std::path::{Path, PathBuf};
use anyhow::{bail, Context, Result};
use serde_json::{json, Value};
use crate::download::Downloader;
use crate::version_graph::VersionGraph;

/// the poll loop of c19.rs: offline, no future of the downloader ever waits
fn block_on<F: Future>(f: F) -> F::Output {
	use std::sync::Arc;
	use std::task::{Context as Cx, Poll, Wake, Waker};
	struct Noop;
	impl Wake for Noop { fn wake(self: Arc<Self>) {} }
	let waker = Waker::from(Arc::new(Noop));
	let mut cx = Cx::from_waker(&waker);
	let mut f = std::pin::pin!(f);
	loop {
		if let Poll::Ready(x) = f.as_mut().poll(&mut cx) { return x; }
	}
}

const JAR_CHUNK: usize = 64;

/// the body of a kind, cut into k chunks (text bodies are cut inside the document, so that no proper prefix is a document)
fn chunks(kind: &str, special: bool, k: usize) -> Vec<Vec<u8>> {
	let cut = |s: String| -> Vec<Vec<u8>> {
		let b = s.into_bytes();
		let step = (b.len() - 2) / k;      // the last chunk keeps at least the closing bracket / tag
		(0..k).map(|i| b[i * step..if i + 1 == k { b.len() } else { (i + 1) * step }].to_vec()).collect()
	};
	match kind {
		"json" => cut(r#"{"$schema":"s","latest":{"old_alpha":"a","classic_server":"b","alpha_server":"c","old_beta":"d","snapshot":"e","release":"f","pending":"g"},"versions":[{"id":"1.0","type":"release","url":"https://example.org/1.0.json","time":null,"releaseTime":"t","details":"https://example.org/d.json"}]}"#.to_owned()),
		"xml" if special => cut("<project><modelVersion>4.0.0</modelVersion><groupId>g</groupId><artifactId>a</artifactId><version>1</version></project>".to_owned()),
		"xml" => cut("<metadata><groupId>g</groupId><artifactId>a</artifactId><versioning><latest>1</latest><release>1</release><versions><version>1</version></versions><lastUpdated>0</lastUpdated></versioning></metadata>".to_owned()),
		"vec" => (0..k).map(|i| format!("a/C{i}\ta/Outer\t\t\tIn{i}\t8\n").into_bytes()).collect(),
		_ => (0..k).map(|i| vec![b'0' + i as u8; JAR_CHUNK]).collect(),
	}
}

fn cache_path(url: &str) -> PathBuf { Path::new("./download").join(url.strip_prefix("https://").unwrap_or(url)) }

pub fn exec(v: &Value) -> Result<Value> {
	let kind = v["kind"].as_str().context("kind")?;
	let special = v["special"].as_bool().context("special")?;
	let k = v["K"].as_u64().context("K")? as usize;
	let have = v["file"].as_i64().context("file")?;
	static CTR: std::sync::atomic::AtomicUsize = std::sync::atomic::AtomicUsize::new(0);
	let n = CTR.fetch_add(1, std::sync::atomic::Ordering::Relaxed);
	let dir = PathBuf::from(format!("/dev/shm/verif-work/tmp/dl-{}-{}", std::process::id(), n));
	let _ = std::fs::remove_dir_all(&dir);
	std::fs::create_dir_all(dir.join("mappings"))?;
	std::fs::write(dir.join("mappings/1.0.tiny"), "tiny\t2\t0\tintermediary\tnamed\n")?;
	let url = match kind {
		"json" => "https://ornithemc.net/mc-versions/version_manifest.json".to_owned(),
		"xml" => "https://repo.example.org/maven/g/a/1/a-1.pom".to_owned(),
		"vec" => "https://github.com/OrnitheMC/nests/raw/main/nests/1.0.nest".to_owned(),
		"jar" => "https://libraries.example.org/x/lib-1.jar".to_owned(),
		o => bail!("dl: unknown kind {o}"),
	};
	let body = chunks(kind, special, k);
	let old = std::env::current_dir()?;
	std::env::set_current_dir(&dir)?;
	let r = (|| -> Result<Value> {
		let p = cache_path(&url);
		std::fs::create_dir_all(p.parent().context("parent")?)?;
		if have >= 0 { std::fs::write(&p, body[..have as usize].concat())?; }
		if v["marker"].as_bool().unwrap_or(false) { std::fs::write(format!("{}__404", p.display()), "marker")?; }
		let d = Downloader::new(false, true);
		let whole = |ok: bool| if ok { json!({"out": "ok", "seen": k}) } else { json!({"out": "err", "seen": -1}) };
		Ok(match kind {
			"json" => whole(block_on(d.get_versions_manifest()).is_ok()),
			"xml" if special => match block_on(maven_dependency_resolver::Downloader::get_maven_pom(&d, &url)) {
				Ok(Some(_)) => whole(true), Ok(None) => json!({"out": "none", "seen": -1}), Err(_) => whole(false) },
			"xml" => whole(block_on(d.get_maven_metadata_xml(&url)).is_ok()),
			"vec" => {
				let g = VersionGraph::resolve(dir.join("mappings"))?;
				let (_, ver) = g.get("1.0")?;
				match block_on(d.download_nests(ver)) {
					Ok(Some(nests)) => json!({"out": "ok", "seen": nests.all.len()}), Ok(None) => json!({"out": "none", "seen": -1}), Err(_) => whole(false) }
			},
			_ => match block_on(d.get_jar(&url)) {
				Ok(jar) => { let b = std::fs::read(&jar.path)?; json!({"out": "ok", "seen": b.len() / JAR_CHUNK, "tail": b.len() % JAR_CHUNK}) },
				Err(_) => whole(false) },
		})
	})();
	std::env::set_current_dir(old)?;
	let _ = std::fs::remove_dir_all(&dir);
	r
}
