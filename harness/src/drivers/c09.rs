//! C09: Mappings::merge.
//!
//! ops  {"op":"merge","A":tree(s,a),"B":tree(s,b),"revB":bool}  -> {"ok":b,"v":tree(s,a,b)|[]}     (revB: B's entries inserted in the opposite order)
//! Entries are stored under the key their JSON key spells, so trees whose content disagrees with the key
//! (conflicting descriptor / parameter index under one key) reach the real code as such.
use anyhow::{Context, Result};
use rand::rngs::StdRng;
use rand::{Rng, SeedableRng};
use serde_json::{json, Value};
use quill::tree::mappings::Mappings;
use crate::gen_quill::*;
use crate::proj_quill::*;
use super::res_tree;

pub fn exec(v: &Value) -> Result<Value> {
	match v["op"].as_str().context("op")? {
		"merge" => {
			let a: Mappings<2, (Ns, Ns)> = json_to_tree_keyed(&v["A"])?;
			let b: Mappings<2, (Ns, Ns)> = json_to_tree_keyed_rev(&v["B"], v["revB"].as_bool().unwrap_or(false))?;
			Ok(res_tree(Mappings::<2, (Ns, Ns, Ns)>::merge(&a, &b)))
		},
		op => anyhow::bail!("C09: unknown op {op}"),
	}
}

/// Random pairs sharing the first namespace: B is derived from A (same source keys, other names), then both are
/// edited independently (removals, additions, comment edits), so that overlap is partial at every level.
pub fn gen(seed: u64, n: usize) -> Result<Vec<Value>> {
	let mut r = StdRng::seed_from_u64(seed ^ 0xC09);
	let mut out = vec![];
	while out.len() < n {
		let cfg = TreeCfg { classes: r.gen_range(0..14), p_missing: *pick(&mut r, &[0.0, 0.2, 0.5]), unicode: r.gen_bool(0.3),
			param_src: r.gen_bool(0.5), root_doc: r.gen_bool(0.3), p_doc: *pick(&mut r, &[0.0, 0.2, 0.5]), empty_doc: r.gen_bool(0.25), ..TreeCfg::default() };
		let mut a = gen_tree(&mut r, &cfg);
		let mut b = a.clone();
		let conflicts = r.gen_bool(0.3);
		rename_side(&mut r, &mut b, conflicts);
		b["ns"][1] = json!("nsb");
		if r.gen_bool(0.05) { b["ns"][0] = json!("other"); }
		for _ in 0..r.gen_range(0..3) { structural_edit(&mut r, &cfg, &mut a); }
		for _ in 0..r.gen_range(0..3) { structural_edit(&mut r, &cfg, &mut b); }
		if r.gen_bool(0.1) { b = gen_tree(&mut r, &cfg); b["ns"][1] = json!("nsb"); }
		out.push(json!({"op": "merge", "A": a, "B": b, "revB": r.gen_bool(0.5)}));
	}
	Ok(out)
}

/// gives every entry of the copy another target name; comments are dropped, kept equal or (if allowed) changed
fn rename_side(r: &mut StdRng, t: &mut Value, conflicts: bool) {
	fn walk(r: &mut StdRng, n: &mut Value, conflicts: bool) {
		if let Some(Value::Object(k)) = n.get_mut("kids") {
			for (_, c) in k.iter_mut() {
				let old = c["names"][1].as_str().unwrap_or("").to_owned();
				c["names"][1] = if r.gen_bool(0.2) { json!("") } else { json!(format!("b_{}{}", old.replace('/', "_"), r.gen_range(0..9))) };
				if c["kind"] == "c" { if let Some(s) = c["names"][1].as_str() { if !s.is_empty() { c["names"][1] = json!(format!("pb/{}", s.replace('$', "_"))); } } }
				match r.gen_range(0..10) {
					0..=4 => { c["doc"] = json!([]); },
					5 if conflicts => { c["doc"] = json!(["the other side says"]); },
					_ => {},
				}
				if conflicts && c["kind"] == "p" && r.gen_bool(0.1) { c["names"][0] = json!("otherSrc"); }
				walk(r, c, conflicts);
			}
		}
	}
	if r.gen_bool(0.5) { t["doc"] = json!([]); }
	walk(r, t, conflicts);
}

fn structural_edit(r: &mut StdRng, cfg: &TreeCfg, t: &mut Value) {
	// removals and additions only (names in the first namespace are never touched): reuse edit_tree with namespace 1
	edit_tree(r, cfg, t, 1, false);
}
