//! C15: add_specialized_methods_to_mappings / Jar::get_specialized_methods (module compiled in from
//! /repo/src/specialized_methods/mod.rs).
//!
//! ops  {"op":"bridges","main":jar}                                   -> [[bridge ref, specialized ref]..] sorted, refs = [owner,name,desc]
//!      {"op":"mappings","main":jar,"libs":jar,"cal":tree,"named":tree} -> {ok,v:tree}
use anyhow::{Context, Result};
use rand::rngs::StdRng;
use rand::{Rng, SeedableRng};
use serde_json::{json, Value};
use dukebox::storage::UnnamedMemJar;
use quill::tree::mappings::Mappings;
use crate::gen_quill::pick;
use crate::jarkit::jar_from_abstract;
use crate::proj_quill::*;
use crate::specialized_methods::{add_specialized_methods_to_mappings, GetSpecializedMethods};
use crate::{Intermediary, Named, Official};
use super::res_tree;

pub fn exec(v: &Value) -> Result<Value> {
	let main = UnnamedMemJar { data: jar_from_abstract(&v["main"])? };
	match v["op"].as_str().context("op")? {
		"bridges" => {
			let r = match main.get_specialized_methods() { Ok(r) => r, Err(_) => return Ok(json!({"ok": false})) };
			let mut out: Vec<Value> = r.bridge_to_specialized.iter().map(|(b, s)| json!([
				[b.class.to_string(), b.name.to_string(), b.desc.to_string()], [s.class.to_string(), s.name.to_string(), s.desc.to_string()]])).collect();
			out.sort_by_key(|x| x.to_string());
			Ok(Value::Array(out))
		},
		"mappings" => {
			let libs = vec![UnnamedMemJar { data: jar_from_abstract(&v["libs"])? }];
			let cal: Mappings<2, (Official, Intermediary)> = json_to_tree(&v["cal"])?;
			let named: Mappings<2, (Intermediary, Named)> = json_to_tree(&v["named"])?;
			Ok(res_tree(add_specialized_methods_to_mappings(&main, &cal, &libs, &named)))
		},
		op => anyhow::bail!("C15: unknown op {op}"),
	}
}

/// Random jars with bridge patterns: a chain of classes, each possibly with a synthetic method delegating to a method of the
/// same class; signatures from a pool of related / unrelated types; random flags; identity calamus with some renames.
pub fn gen(seed: u64, n: usize) -> Result<Vec<Value>> {
	let mut r = StdRng::seed_from_u64(seed ^ 0xC15);
	let sigs: &[(&str, &str)] = &[("(LT1;)V", "(LT0;)V"), ("(Ljava/lang/Object;)V", "(LT0;)V"), ("()LT1;", "()LT0;"), ("(LT0;)V", "(LT1;)V"), ("(I)V", "(I)V"),
		("(I)V", "(J)V"), ("(LT1;LT1;)LT1;", "(LT0;LT1;)LT0;"), ("()V", "()LT0;"), ("([LT1;)V", "([LT0;)V"), ("(LOut;)V", "(LT0;)V")];
	let flagsets: &[&[&str]] = &[&["synthetic", "bridge"], &["synthetic"], &["synthetic", "final"], &["synthetic", "static"], &["synthetic", "private"], &[], &["bridge"]];
	let mut out = vec![];
	while out.len() < n {
		let nc = r.gen_range(1..5usize);
		let mut main = serde_json::Map::new();
		let types_in_main = r.gen_bool(0.6);
		if types_in_main {
			main.insert("T0".into(), json!({"super": "T1", "itfs": [], "methods": []}));
			if r.gen_bool(0.8) { main.insert("T1".into(), json!({"super": "java/lang/Object", "itfs": [], "methods": []})); }
		}
		let mut named_classes = serde_json::Map::new();
		let mut cal_classes = serde_json::Map::new();
		for i in 0..nc {
			let cname = format!("C{i}");
			let sup = if i == 0 { "java/lang/Object".to_owned() } else { format!("C{}", i - 1) };
			let mut methods = vec![];
			let mut nkids = serde_json::Map::new();
			let mut ckids = serde_json::Map::new();
			for k in 0..r.gen_range(0..3usize) {
				let (bs, ds) = *pick(&mut r, sigs);
				let acc: Vec<&str> = pick(&mut r, flagsets).to_vec();
				let bname = format!("b{k}");
				let dname = format!("d{i}_{k}");
				let calls = match r.gen_range(0..6) { 0 => json!([]), 1 => json!([[cname, dname, ds], [cname, "zz", "()V"]]), _ => json!([[cname, dname, ds]]) };
				methods.push(json!({"name": bname, "desc": bs, "acc": acc, "code": true, "calls": calls}));
				methods.push(json!({"name": dname, "desc": ds, "acc": [], "code": true, "calls": []}));
				// the bridge is named in this class or (same name and descriptor) in C0
				if r.gen_bool(0.5) { nkids.insert(format!("m {bname} {bs}"), node("m", json!([bname, format!("named_{bname}_{i}")]), bs, 0, json!([]), Default::default())); }
				if r.gen_bool(0.3) { nkids.insert(format!("m {dname} {ds}"), node("m", json!([dname, "old"]), ds, 0, json!(["doc"]), Default::default())); }
				let _ = &mut ckids;
			}
			main.insert(cname.clone(), json!({"super": sup, "itfs": [], "methods": methods}));
			if r.gen_bool(0.85) { named_classes.insert(format!("c {cname}"), node("c", json!([cname, format!("n/{cname}")]), "", 0, json!([]), nkids)); }
			cal_classes.insert(format!("c {cname}"), node("c", json!([cname, cname]), "", 0, json!([]), ckids));
		}
		let cal = json!({"ns": ["official", "intermediary"], "doc": [], "kids": cal_classes});
		let named = json!({"ns": ["intermediary", "named"], "doc": [], "kids": named_classes});
		let main = Value::Object(main);
		out.push(json!({"op": "mappings", "main": main, "libs": {}, "cal": cal, "named": named}));
		out.push(json!({"op": "bridges", "main": main}));
	}
	out.truncate(n);
	Ok(out)
}

fn node(kind: &str, names: Value, desc: &str, idx: usize, doc: Value, kids: serde_json::Map<String, Value>) -> Value {
	json!({"kind": kind, "names": names, "desc": desc, "idx": idx, "doc": doc, "kids": Value::Object(kids)})
}
