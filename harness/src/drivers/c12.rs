//! C12: enigma_file::{write_all, write_one, read_into}, enigma_dir::{write, read}.
//!
//! Line records are {"ind": leading tabs, "text": rest of the line}.
//! ops  {"op":"rt","M":tree}     -> {"done":true,"write":"ok"|"err","stream":{"lines":[..],"back":{ok,v}},
//!                                    "dir":{"files":[{"name":s,"lines":[..]}..],"back":{ok,v}},"one":b,"same":b,"sorted":b}
//!          write_all to a stream and enigma_dir::write to a scratch directory, from several insertion orders (same),
//!          each read back by the real readers; one: write_one(file name) equals the directory file, for every file
//!      {"op":"lines","lines":[..]} -> {ok,v}   enigma_file::read_into on arbitrary line records
use std::path::{Path, PathBuf};
use anyhow::{bail, Context, Result};
use rand::rngs::StdRng;
use rand::{Rng, SeedableRng};
use serde_json::{json, Value};
use quill::tree::mappings::Mappings;
use quill::tree::names::Namespaces;
use quill::tree::NodeInfo;
use crate::gen_quill::*;
use crate::proj_quill::*;
use super::res_tree;

pub fn to_lines(text: &str) -> Vec<Value> {
	let mut out = vec![];
	let mut t = text;
	if let Some(s) = t.strip_suffix('\n') { t = s; } else if t.is_empty() { return out; }
	for l in t.split('\n') {
		let ind = l.chars().take_while(|c| *c == '\t').count();
		out.push(json!({"ind": ind, "text": &l[ind..]}));
	}
	out
}
pub fn from_lines(lines: &Value) -> Result<String> {
	let mut s = String::new();
	for l in lines.as_array().context("lines")? {
		for _ in 0..l["ind"].as_u64().context("ind")? { s.push('\t'); }
		s.push_str(l["text"].as_str().context("text")?);
		s.push('\n');
	}
	Ok(s)
}

fn ns_of(m: &Value) -> Result<Namespaces<2, Ns>> {
	let a = m["ns"].as_array().context("ns")?;
	Namespaces::try_from([a[0].as_str().unwrap_or("").to_owned(), a[1].as_str().unwrap_or("").to_owned()])
}

fn read_stream(ns: Namespaces<2, Ns>, text: &str) -> Result<Mappings<2, Ns>> {
	let mut m = Mappings::new(quill::tree::mappings::MappingInfo { namespaces: ns });
	quill::enigma_file::read_into(super::FragR::new(text.as_bytes()), &mut m)?;
	Ok(m)
}

fn walk(dir: &Path, base: &Path, out: &mut Vec<(String, String)>) -> Result<()> {
	let mut es: Vec<PathBuf> = std::fs::read_dir(dir)?.map(|e| e.map(|e| e.path())).collect::<std::io::Result<_>>()?;
	es.sort();
	for p in es {
		if p.is_dir() { walk(&p, base, out)?; } else {
			let rel = p.strip_prefix(base)?.to_string_lossy().to_string();
			out.push((rel, std::fs::read_to_string(&p)?));
		}
	}
	Ok(())
}

/// sibling entries of the same kind non-decreasing by source name (second token), files by name
fn is_sorted(lines: &[Value]) -> bool {
	// last[(indent, tag)] = last source name seen among the current siblings
	let mut last: std::collections::HashMap<(u64, String), String> = Default::default();
	let mut last_file: Option<String> = None;
	for l in lines {
		let ind = l["ind"].as_u64().unwrap_or(0);
		let text = l["text"].as_str().unwrap_or("");
		if ind == 0 && text.starts_with("# ") {
			let f = text[2..].to_owned();
			if let Some(p) = &last_file { if *p > f { return false; } }
			last_file = Some(f);
			last.clear();
			continue;
		}
		let mut it = text.split(' ');
		let tag = it.next().unwrap_or("").to_owned();
		if tag == "COMMENT" || tag == "#" { continue; }
		let mut src = it.next().unwrap_or("").to_owned();
		if tag == "ARG" { src = format!("{:0>10}", src); }
		last.retain(|(i, _), _| *i <= ind);
		if let Some(p) = last.get(&(ind, tag.clone())) { if *p > src { return false; } }
		last.insert((ind, tag), src);
	}
	true
}

fn rt(v: &Value) -> Result<Value> {
	let mj = &v["M"];
	let seed = v["seed"].as_u64().unwrap_or(1);
	let base: Mappings<2, Ns> = json_to_tree(mj)?;
	let mut text = Vec::new();
	if quill::enigma_file::write_all(&base, &mut super::FragW::new(&mut text)).is_err() {
		return Ok(json!({"done": true, "write": "err"}));
	}
	let text = String::from_utf8(text).context("utf8")?;
	let root = PathBuf::from(format!("/dev/shm/verif-work/tmp/enigma-{}", std::process::id()));
	let _ = std::fs::remove_dir_all(&root);
	let d0 = root.join("d0");
	std::fs::create_dir_all(&d0)?;
	if quill::enigma_dir::write(&base, &d0).is_err() {
		let _ = std::fs::remove_dir_all(&root);
		return Ok(json!({"done": true, "write": "err", "where": "dir"}));
	}
	let mut files = vec![];
	walk(&d0, &d0, &mut files)?;
	// insertion independence
	let mut same = true;
	let mut r = StdRng::seed_from_u64(seed);
	for i in 1..3 {
		let mut pf = perm_fn(&mut r);
		let other: Mappings<2, Ns> = json_to_tree_ord(mj, &mut pf)?;
		let mut t2 = Vec::new();
		if quill::enigma_file::write_all(&other, &mut t2).is_err() || t2 != text.as_bytes() { same = false; }
		let di = root.join(format!("d{i}"));
		std::fs::create_dir_all(&di)?;
		let mut f2 = vec![];
		if quill::enigma_dir::write(&other, &di).is_err() { same = false; } else { walk(&di, &di, &mut f2)?; if f2 != files { same = false; } }
	}
	// write_one per file
	let mut one = true;
	for (name, content) in &files {
		let key = name.strip_suffix(".mapping").unwrap_or(name);
		let mut w = Vec::new();
		if quill::enigma_file::write_one(&base, key, &mut w).is_err() || w != content.as_bytes() { one = false; }
	}
	let back_s = read_stream(ns_of(mj)?, &text);
	let back_d = quill::enigma_dir::read(&d0, ns_of(mj)?);
	let _ = std::fs::remove_dir_all(&root);
	let lines = to_lines(&text);
	let sorted = is_sorted(&lines);
	let fjson: Vec<Value> = files.iter().map(|(n, c)| json!({"name": n.strip_suffix(".mapping").unwrap_or(n), "lines": to_lines(c)})).collect();
	Ok(json!({"done": true, "write": "ok", "stream": {"lines": lines, "back": res_tree(back_s)}, "dir": {"files": fjson, "back": res_tree(back_d)},
		"one": one, "same": same, "sorted": sorted}))
}

pub fn exec(v: &Value) -> Result<Value> {
	match v["op"].as_str().context("op")? {
		"rt" => rt(v),
		"lines" => {
			let text = from_lines(&v["lines"])?;
			let ns = Namespaces::try_from(["src".to_owned(), "dst".to_owned()])?;
			Ok(res_tree(read_stream(ns, &text)))
		},
		op => bail!("C12: unknown op {op}"),
	}
}

/// makes target names of nested classes follow the nesting (the precondition of the round trip), top down
fn follow_nesting(r: &mut StdRng, m: &mut Value, p_break: f64) {
	let keys: Vec<String> = kids_of(m).into_iter().map(|(k, _)| k.clone()).collect();
	let mut srcs: Vec<String> = keys.iter().map(|k| k[2..].to_owned()).collect();
	srcs.sort_by_key(|s| s.matches('$').count());
	for src in srcs {
		let Some((parent, _)) = src.rsplit_once('$') else { continue };
		let pk = format!("c {parent}");
		let Some(p) = m["kids"].get(&pk) else { continue };
		let pd = p["names"][1].as_str().unwrap_or("");
		let pd = if pd.is_empty() { parent.to_owned() } else { pd.to_owned() };
		let c = &mut m["kids"][format!("c {src}")];
		let cur = c["names"][1].as_str().unwrap_or("").to_owned();
		if cur.is_empty() || r.gen_bool(p_break) { continue; }
		let simple = cur.rsplit(|ch| ch == '/' || ch == '$').next().unwrap_or("x").to_owned();
		c["names"][1] = json!(format!("{pd}${simple}"));
	}
}

pub fn gen(seed: u64, n: usize) -> Result<Vec<Value>> {
	let mut r = StdRng::seed_from_u64(seed ^ 0xC12);
	let mut out = vec![];
	while out.len() < n {
		let cfg = TreeCfg { n: 2, classes: r.gen_range(0..14), p_missing: *pick(&mut r, &[0.0, 0.1, 0.3]), unicode: r.gen_bool(0.3),
			param_src: r.gen_bool(0.1), p_doc: *pick(&mut r, &[0.1, 0.4]), ..TreeCfg::default() };
		let mut m = gen_tree(&mut r, &cfg);
		// parameters need a target name to be writable (most of the time)
		if let Some(Value::Object(k)) = m.get_mut("kids") {
			for (_, c) in k.iter_mut() {
				if let Some(Value::Object(mk)) = c.get_mut("kids") {
					for (_, me) in mk.iter_mut() {
						if me["kind"] == "m" && me["names"][0] == "<init>" && r.gen_bool(0.9) { me["names"][1] = json!(""); }
						if let Some(Value::Object(pk)) = me.get_mut("kids") {
							for (_, p) in pk.iter_mut() {
								if p["names"][1] == "" && r.gen_bool(0.95) { p["names"][1] = json!(format!("arg{}", p["idx"])); }
							}
						}
					}
				}
			}
		}
		let p_break = *pick(&mut r, &[0.0, 0.0, 0.0, 0.2]);
		follow_nesting(&mut r, &mut m, p_break);
		out.push(json!({"op": "rt", "M": m, "seed": r.gen::<u32>()}));
	}
	Ok(out)
}
