//! C11: Mappings::extend_inner_class_names / contract_inner_class_names; ObjClassName split / join helpers.
//!
//! ops  {"op":"extend"|"contract","M":tree,"t":i(1-based)}   -> {ok,v}
//!      {"op":"extcon","M":tree,"t":i}                        -> contract(extend(M)) ; refusal of either = not ok
//!      {"op":"split","n":s}                                  -> [] | [parent, inner]   (+ get_inner_class_name / _parent agree)
//!      {"op":"join","p":s,"i":s}                             -> {"joined":s,"split":[]|[p,i]}
use anyhow::{bail, Context, Result};
use rand::rngs::StdRng;
use rand::{Rng, SeedableRng};
use serde_json::{json, Value};
use duke::tree::class::ObjClassName;
use quill::tree::mappings::Mappings;
use crate::gen_quill::*;
use crate::proj_quill::*;
use super::res_tree;

fn run<const N: usize>(v: &Value) -> Result<Value> {
	let m: Mappings<N, Ns> = json_to_tree(&v["M"])?;
	let t = v["t"].as_u64().context("t")? as usize;
	let ns = v["M"]["ns"][t - 1].as_str().context("ns name")?.to_owned();
	Ok(match v["op"].as_str() {
		Some("extend") => res_tree(m.extend_inner_class_names(&ns)),
		Some("contract") => res_tree(m.contract_inner_class_names(&ns)),
		Some("extcon") => res_tree(m.extend_inner_class_names(&ns).and_then(|e| e.contract_inner_class_names(&ns))),
		o => bail!("op {o:?}"),
	})
}

fn split_json(n: &ObjClassName) -> Result<Value> {
	let s = n.split_inner_class_parent_and_name();
	let a = n.get_inner_class_parent();
	let b = n.get_inner_class_name();
	// the three accessors are views of the same split; disagreement is reported as a distinct value
	match (s, a, b) {
		(None, None, None) => Ok(json!([])),
		(Some((p, i)), Some(p2), Some(i2)) if p == p2 && i == i2 => Ok(json!([p.to_string(), i.to_string()])),
		_ => Ok(json!(["<accessors disagree>"])),
	}
}

pub fn exec(v: &Value) -> Result<Value> {
	match v["op"].as_str().context("op")? {
		"split" => split_json(&ObjClassName::try_from(js(v["n"].as_str().context("n")?))?),
		"join" => {
			let p = ObjClassName::try_from(js(v["p"].as_str().context("p")?))?;
			let i = ObjClassName::try_from(js(v["i"].as_str().context("i")?))?;
			let j = ObjClassName::from_inner_class(p, &i);
			Ok(json!({"joined": j.to_string(), "split": split_json(&j)?}))
		},
		_ => match v["M"]["ns"].as_array().map(|a| a.len()) {
			Some(2) => run::<2>(v), Some(3) => run::<3>(v), Some(4) => run::<4>(v),
			n => bail!("unsupported N {n:?}"),
		},
	}
}

pub fn gen(seed: u64, n: usize) -> Result<Vec<Value>> {
	let mut r = StdRng::seed_from_u64(seed ^ 0xC11);
	let mut out = vec![];
	while out.len() < n {
		let nn = *pick(&mut r, &[2usize, 3, 4]);
		let cfg = TreeCfg { n: nn, classes: r.gen_range(0..16), p_missing: *pick(&mut r, &[0.0, 0.0, 0.1, 0.3]), unicode: r.gen_bool(0.3), ..TreeCfg::default() };
		let mut m = gen_tree(&mut r, &cfg);
		let t = r.gen_range(2..=nn);
		// target names: simple names (the precondition of the inverse law) most of the time
		let simple = r.gen_bool(0.7);
		if let Some(Value::Object(k)) = m.get_mut("kids") {
			for (_, c) in k.iter_mut() {
				let cur = c["names"][t - 1].as_str().unwrap_or("").to_owned();
				if cur.is_empty() { continue; }
				let base = cur.rsplit('/').next().unwrap_or("x").replace('$', "_");
				c["names"][t - 1] = if simple || r.gen_bool(0.5) { json!(if r.gen_bool(0.3) { format!("pk/{base}") } else { base }) } else { json!(format!("Out{}${}", r.gen_range(0..3), base)) };
			}
		}
		let op = *pick(&mut r, &["extend", "extend", "contract", "extcon"]);
		out.push(json!({"op": op, "M": m, "t": t, "simple": simple}));
		if r.gen_bool(0.3) {
			let nm = format!("{}{}{}", pick(&mut r, &["", "a", "p/q", "p/"]), pick(&mut r, &["", "$", "$$", "A$B", "x"]), pick(&mut r, &["", "$1", "/c", "$In$In2", "\u{e9}"]));
			if let Ok(_) = ObjClassName::try_from(js(&nm)) { out.push(json!({"op": "split", "n": nm})); }
		}
	}
	out.truncate(n);
	Ok(out)
}
