//! The edit cycle of one version as src/main.rs composes it (commands `feather` and `propagate-mappings`, without the nests
//! steps): remove_dummy("named") -> enigma_dir::write | enigma_dir::read -> MappingsDiff::diff -> insert_dummy_and_contract_inner_names.
//! Specification: spec/system/EditCycle.tla.
//!
//! op  {"op":"cycle","S":tree(2),"W":tree(2),"edit":s}  ->  {"ok":true,"v":diff} | {"ok":false,"v":[]}   (+ "handed_out": what the
//!      real remove_dummy hands out for S equals W, for the unedited cycle)
//!      W is the working set as Enigma saved it; it is written with the real writer into a scratch directory and read back.
use std::path::PathBuf;
use anyhow::Result;
use serde_json::{json, Value};
use quill::tree::mappings::Mappings;
use quill::tree::mappings_diff::MappingsDiff;
use crate::proj_quill::*;

pub fn exec(v: &Value) -> Result<Value> {
	static CTR: std::sync::atomic::AtomicUsize = std::sync::atomic::AtomicUsize::new(0);
	let n = CTR.fetch_add(1, std::sync::atomic::Ordering::Relaxed);
	let dir = PathBuf::from(format!("/dev/shm/verif-work/tmp/cy-{}-{}", std::process::id(), n));
	let _ = std::fs::remove_dir_all(&dir);
	std::fs::create_dir_all(&dir)?;
	let r = run(&dir, v);
	let _ = std::fs::remove_dir_all(&dir);
	r
}

fn run(dir: &PathBuf, v: &Value) -> Result<Value> {
	let s: Mappings<2, Ns> = json_to_tree(&v["S"])?;
	let w: Mappings<2, Ns> = json_to_tree(&v["W"])?;
	// out (command `feather`)
	let handed_out = s.clone().remove_dummy("named").map(|m| tree_to_json(&m));
	let mut out = serde_json::Map::new();
	if v["edit"] == "none" {
		out.insert("handed_out".into(), json!(handed_out.as_ref().map(|h| h == &tree_to_json(&w)).unwrap_or(false)));
	}
	// in (command `propagate-mappings`)
	let res: Result<MappingsDiff> = (|| {
		quill::enigma_dir::write(&w, dir)?;
		let working = quill::enigma_dir::read(dir, s.info.namespaces.clone())?;
		let changes = MappingsDiff::diff(&s, &working)?;
		changes.insert_dummy_and_contract_inner_names()
	})();
	match res {
		Ok(d) => { out.insert("ok".into(), json!(true)); out.insert("v".into(), diff_to_json(&d)); },
		Err(_) => { out.insert("ok".into(), json!(false)); out.insert("v".into(), json!([])); },
	}
	Ok(Value::Object(out))
}
