//! C16: not built yet.
use anyhow::{bail, Result};
use serde_json::Value;

pub fn exec(_v: &Value) -> Result<Value> { bail!("C16: driver not built") }

pub fn gen(_seed: u64, _n: usize) -> Result<Vec<Value>> { bail!("C16: driver not built") }
