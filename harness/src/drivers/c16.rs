//! C16: parsers fail with an error, never crash.
//!
//! A fault case {"op":"fault","target":t,"seed":id,"ops":[..]} is applied to the seed's bytes and the target parser is run in a
//! child process (address space limited by `ulimit -v`, wall clock limited by the parent); the outcome is data:
//!   {"out":"ok"|"err"|"panic"|"timeout"|"crash", "where": panic location | crash hint, "write": "ok"|"err"|"panic"|"-"}
//! targets: class (duke::read_class, then write_class of what was read), tiny, tinydiff, enigma, nests, fdesc / mdesc / rdesc
//! byte ops : ["set", span index, value] (big endian into the span), ["trunc", n], ["byte", offset, value]
//! text ops : ["dropcell", line, cell] ["addcell", line] ["emptycell", line, cell] ["indent", line, delta] ["tag", line]
//!            ["dupline", line] ["delline", line] ["nonutf8", line] ["trunc", n] ["backslash", line] ["esc" | "escz", line, follower kind]
//!            ["unicell" | "unichar", line, cell]
//! char ops : ["delchar", i] ["dupchar", i] ["setchar", i, s] ["setuni", i, k]
use std::io::{BufRead, BufReader, Write};
use std::process::{Child, ChildStdin, Command, Stdio};
use std::sync::mpsc::{channel, Receiver};
use std::sync::Mutex;
use std::time::Duration;
use anyhow::{anyhow, bail, Context, Result};
use rand::rngs::StdRng;
use rand::{Rng, SeedableRng};
use serde_json::{json, Value};

pub struct Seed { pub id: String, pub target: &'static str, pub bytes: Vec<u8>, pub spans: Vec<cfkit::parse::Span>, pub grow: &'static str }

/// Grown structures (fault model: GrowSizes): kind -> target parser.
const GROW: &[(&str, &str)] = &[("condy_fanout", "class"), ("condy_uses", "class"), ("indy_plain_args", "class"), ("condy_plain_args", "class"), ("anno_array", "class"), ("anno_anno", "class"), ("ifc_args", "class"), ("ifc_baddesc", "class"), ("method_args", "class"), ("labels", "class"),
	("enigma_nest", "enigma"), ("tiny_nest", "tiny"), ("tiny_unknown_nest", "tiny"), ("tinydiff_unknown_nest", "tinydiff"), ("fdesc_dims", "fdesc"), ("mdesc_dims", "mdesc"), ("desc_args", "mdesc")];

const QUICK_SAMPLES: &[&str] = &["minimal_object", "exception_table", "switches", "frames_each_kind", "annotations_all_element_kinds", "type_annotations_code",
	"indy_condy_unreferenced_bootstrap", "inner_classes", "local_variable_tables", "record", "module_info", "invokes", "wide_locals"];

const TINY: &str = "tiny\t2\t0\tofficial\tnamed\nc\tA\tx/A\n\tc\tclass comment\\nsecond line\n\tf\tI\tf\tfield\n\t\tc\tfield comment\n\tm\t(LA;)V\tm\tmethod\n\t\tp\t1\t\targ\n\t\t\tc\tparam comment\nc\tA$B\tx/A$B\n";
const TINYDIFF: &str = "tiny\t2\t0\nc\tA\tx/A\tx/Renamed\n\tc\told comment\tnew comment\n\tf\tI\tf\tfield\t\n\tm\t(LA;)V\tm\t\tadded\n\t\tp\t1\t\targ\targ2\nc\tNew\t\tx/New\n";
const ENIGMA: &str = "CLASS A x/A\n\tCOMMENT class comment\n\tFIELD f field I\n\t\tCOMMENT field comment\n\tMETHOD m method (LA;)V\n\t\tARG 1 arg\n\t\t\tCOMMENT param comment\n\tCLASS B B\n\t\tMETHOD <init> ()V\n# trailing comment\n";
const NESTS: &str = "a\tb\tm\t()V\t1\t0x0008\nc\tb\t\t\tInner\t9\nd\tc\tn\t(I)V\t1Local\t0b101\n";
const DESCS: &[(&str, &str)] = &[("fdesc", "[[Ljava/lang/String;"), ("fdesc", "I"), ("mdesc", "(I[JLa/b;)Lc;"), ("mdesc", "()V"), ("rdesc", "V"), ("rdesc", "[La$b;")];

pub fn seeds(tier: &str) -> Result<Vec<Seed>> {
	let mut out = vec![];
	for (name, facts) in cfkit::samples::sample_classes() {
		if tier != "thorough" && !QUICK_SAMPLES.contains(&name.as_str()) { continue; }
		let Ok(bytes) = cfkit::asm::assemble(&facts, &cfkit::asm::Encoding::default()) else { continue };
		let Ok(p) = cfkit::parse::parse_class(&bytes) else { continue };
		out.push(Seed { id: format!("sample/{name}"), target: "class", bytes, spans: p.spans, grow: "" });
	}
	// two small javac classes
	let mut corpus = cfkit::corpus::corpus_classes("quick");
	corpus.sort_by_key(|(id, b)| (b.len(), id.clone()));
	for (id, bytes) in corpus.into_iter().filter(|(id, b)| b.len() > 300 && (id.contains("Lambdas") || id.contains("Switches") || id.contains("Exceptions"))).take(if tier == "thorough" { 6 } else { 2 }) {
		if let Ok(p) = cfkit::parse::parse_class(&bytes) { out.push(Seed { id: format!("corpus/{id}"), target: "class", bytes, spans: p.spans, grow: "" }); }
	}
	for (t, s) in [("tiny", TINY), ("tinydiff", TINYDIFF), ("enigma", ENIGMA), ("nests", NESTS)] {
		out.push(Seed { id: format!("text/{t}"), target: t, bytes: s.as_bytes().to_vec(), spans: vec![], grow: "" });
	}
	for (i, (t, s)) in DESCS.iter().enumerate() {
		out.push(Seed { id: format!("desc/{i}"), target: t, bytes: s.as_bytes().to_vec(), spans: vec![], grow: "" });
	}
	for (kind, target) in GROW {
		out.push(Seed { id: format!("grow/{kind}"), target, bytes: vec![], spans: vec![], grow: kind });
	}
	Ok(out)
}

fn sep(target: &str) -> char { if target == "enigma" { ' ' } else { '\t' } }
fn split_line(target: &str, l: &str) -> (usize, Vec<String>) {
	let ind = l.chars().take_while(|c| *c == '\t').count();
	(ind, l[ind..].split(sep(target)).map(|s| s.to_owned()).collect())
}

/// What TLC needs to enumerate faults: per seed the fields (offset, width, role class, the pool index of the entry a
/// constant-pool reference sits in) or the line / cell structure.
pub fn seeds_json(tier: &str) -> Result<Vec<Value>> {
	let mut out = vec![];
	for s in seeds(tier)? {
		let spans: Vec<Value> = s.spans.iter().map(|sp| {
			let own = sp.path.strip_prefix("cp[").and_then(|r| r.split(']').next()).and_then(|n| n.parse::<u32>().ok()).unwrap_or(0);
			let val: i64 = if sp.len <= 4 { s.bytes[sp.off..sp.off + sp.len].iter().fold(0i64, |a, b| (a << 8) | *b as i64) } else { 0 };
			let val = if val > i32::MAX as i64 { -1 } else { val };
			json!({"off": sp.off, "len": sp.len, "role": sp.role, "cls": sp.class, "own": own, "val": val})
		}).collect();
		let text = String::from_utf8_lossy(&s.bytes).to_string();
		let cells: Vec<usize> = if s.spans.is_empty() && !s.target.ends_with("desc") && s.grow.is_empty() { text.lines().map(|l| split_line(s.target, l).1.len()).collect() } else { vec![] };
		out.push(json!({"id": s.id, "target": s.target, "n": s.bytes.len(), "spans": spans, "cells": cells, "grow": s.grow}));
	}
	Ok(out)
}

/// characters of 2 / 3 / 4 bytes in UTF-8; what may follow a backslash (fault model: EscKinds)
const UNI: [char; 3] = ['\u{e9}', '\u{20ac}', '\u{1d11e}'];
const ESC_FOLLOW: [&str; 8] = ["\u{e9}", "\u{20ac}", "\u{1d11e}", "\\", "n", "t", "0", "u"];

pub fn apply(seed: &Seed, ops: &Value) -> Result<Vec<u8>> {
	let mut b = seed.bytes.clone();
	let textual = seed.spans.is_empty();
	for op in ops.as_array().context("ops")? {
		let name = op[0].as_str().context("op name")?;
		let n = |i: usize| op[i].as_i64().unwrap_or(0);
		match name {
			"grow" => { b = grow(op[1].as_str().context("grow kind")?, n(2).max(0) as usize)?; },
			"trunc" => { let k = (n(1).max(0) as usize).min(b.len()); b.truncate(k); },
			"byte" => { let o = n(1) as usize; if o < b.len() { b[o] = n(2) as u8; } },
			"set" => {
				let sp = seed.spans.get(n(1) as usize).context("span index")?;
				let v = n(2) as u64;
				for k in 0..sp.len.min(8) {
					let shift = 8 * (sp.len.min(8) - 1 - k);
					if sp.off + k < b.len() { b[sp.off + k] = ((v >> shift) & 0xff) as u8; }
				}
			},
			"delchar" | "dupchar" | "setchar" | "setuni" => {
				let mut cs: Vec<char> = String::from_utf8_lossy(&b).chars().collect();
				let i = (n(1).max(0) as usize).min(cs.len().saturating_sub(1));
				if !cs.is_empty() {
					match name { "delchar" => { cs.remove(i); }, "dupchar" => { let c = cs[i]; cs.insert(i, c); }, "setuni" => { cs[i] = UNI[(n(2).max(0) as usize) % 3]; }, _ => { cs[i] = op[2].as_str().and_then(|s| s.chars().next()).unwrap_or('x'); } }
				}
				b = cs.into_iter().collect::<String>().into_bytes();
			},
			_ if textual => {
				let text = String::from_utf8_lossy(&b).to_string();
				let mut lines: Vec<Vec<u8>> = text.lines().map(|l| l.as_bytes().to_vec()).collect();
				let li = (n(1).max(0) as usize).min(lines.len().saturating_sub(1));
				if !lines.is_empty() {
					let (ind, mut cells) = split_line(seed.target, &String::from_utf8_lossy(&lines[li]));
					let mut ind = ind as i64;
					let ci = (n(2).max(0) as usize).min(cells.len().saturating_sub(1));
					let mut raw: Option<Vec<u8>> = None;
					match name {
						"dropcell" => { if !cells.is_empty() { cells.remove(ci); } },
						"addcell" => cells.push("extra".into()),
						"emptycell" => { cells[ci] = String::new(); },
						"indent" => { ind = (ind + n(2)).max(0); },
						"tag" => { cells[0] = "zz".into(); },
						"dupline" => { let l = lines[li].clone(); lines.insert(li, l); },
						"delline" => { lines.remove(li); },
						"esc" | "escz" => {
							let mut l = lines[li].clone();
							l.push(b'\\');
							l.extend_from_slice(ESC_FOLLOW[(n(2).max(0) as usize) % ESC_FOLLOW.len()].as_bytes());
							if name == "escz" { l.extend_from_slice(b"z z"); }
							raw = Some(l);
						},
						"unicell" => { cells[ci] = UNI.iter().collect(); },
						"unichar" => { cells[ci] = format!("{}{}", UNI[(li + ci) % 3], cells[ci]); },
						"backslash" => { let mut l = lines[li].clone(); l.push(b'\\'); raw = Some(l); },
						"nonutf8" => { let mut l = lines[li].clone(); l.extend_from_slice(&[0xff, 0xfe, 0xc0]); raw = Some(l); },
						o => bail!("unknown text op {o}"),
					}
					if matches!(name, "dropcell" | "addcell" | "emptycell" | "indent" | "tag" | "unicell" | "unichar") {
						let s = format!("{}{}", "\t".repeat(ind as usize), cells.join(&sep(seed.target).to_string()));
						lines[li] = s.into_bytes();
					}
					if let Some(r) = raw { lines[li] = r; }
				}
				b = lines.join(&b'\n');
				b.push(b'\n');
			},
			o => bail!("unknown op {o}"),
		}
	}
	Ok(b)
}

// ---------------------------------------------------------------- grown inputs

/// Byte-level constant pool for the grown classes (nothing of cfkit or duke: the inputs must not depend on either).
struct GPool { bytes: Vec<u8>, count: u16 }
impl GPool {
	fn new() -> GPool { GPool { bytes: vec![], count: 1 } }
	fn utf8(&mut self, s: &str) -> u16 {
		self.bytes.push(1);
		self.bytes.extend_from_slice(&(s.len() as u16).to_be_bytes());
		self.bytes.extend_from_slice(s.as_bytes());
		self.count += 1;
		self.count - 1
	}
	fn class(&mut self, name: &str) -> u16 { let n = self.utf8(name); self.bytes.push(7); self.bytes.extend_from_slice(&n.to_be_bytes()); self.count += 1; self.count - 1 }
	fn nat(&mut self, name: &str, desc: &str) -> u16 {
		let (n, d) = (self.utf8(name), self.utf8(desc));
		self.bytes.push(12); self.bytes.extend_from_slice(&n.to_be_bytes()); self.bytes.extend_from_slice(&d.to_be_bytes());
		self.count += 1;
		self.count - 1
	}
	fn imethod(&mut self, class: &str, name: &str, desc: &str) -> u16 {
		let (c, nt) = (self.class(class), self.nat(name, desc));
		self.bytes.push(11); self.bytes.extend_from_slice(&c.to_be_bytes()); self.bytes.extend_from_slice(&nt.to_be_bytes());
		self.count += 1;
		self.count - 1
	}
}
fn u2(v: &mut Vec<u8>, x: u16) { v.extend_from_slice(&x.to_be_bytes()); }
fn u4(v: &mut Vec<u8>, x: u32) { v.extend_from_slice(&x.to_be_bytes()); }

/// class A { public static m<mdesc> { <code> } } with the given exception rows, Code attributes and class attributes (raw bytes with their counts)
fn gclass(mut pool: GPool, mdesc: &str, code: &[u8], exc: &[[u16; 4]], code_attrs: (u16, Vec<u8>), class_attrs: (u16, Vec<u8>)) -> Vec<u8> {
	let (this, sup, mname, md, codename) = (pool.class("A"), pool.class("java/lang/Object"), pool.utf8("m"), pool.utf8(mdesc), pool.utf8("Code"));
	let mut o = vec![];
	u4(&mut o, 0xCAFEBABE); u2(&mut o, 0); u2(&mut o, 52);
	u2(&mut o, pool.count); o.extend_from_slice(&pool.bytes);
	u2(&mut o, 0x0021); u2(&mut o, this); u2(&mut o, sup);
	u2(&mut o, 0); u2(&mut o, 0); u2(&mut o, 1);
	u2(&mut o, 0x0009); u2(&mut o, mname); u2(&mut o, md); u2(&mut o, 1);
	u2(&mut o, codename);
	u4(&mut o, (2 + 2 + 4 + code.len() + 2 + exc.len() * 8 + 2 + code_attrs.1.len()) as u32);
	u2(&mut o, 300); u2(&mut o, 300);
	u4(&mut o, code.len() as u32); o.extend_from_slice(code);
	u2(&mut o, exc.len() as u16);
	for e in exc { for x in e { u2(&mut o, *x); } }
	u2(&mut o, code_attrs.0); o.extend_from_slice(&code_attrs.1);
	u2(&mut o, class_attrs.0); o.extend_from_slice(&class_attrs.1);
	o
}

/// The grown input of the fault model: structure `kind` at size `k`.
pub fn grow(kind: &str, k: usize) -> Result<Vec<u8>> {
	Ok(match kind {
		// RuntimeVisibleAnnotations on the class: one annotation whose value is k arrays (annotations) inside each other
		"anno_array" | "anno_anno" => {
			let mut pool = GPool::new();
			let (rva, ty, name) = (pool.utf8("RuntimeVisibleAnnotations"), pool.utf8("LAnn;"), pool.utf8("value"));
			let mut a = vec![];
			u2(&mut a, 1); u2(&mut a, ty); u2(&mut a, 1); u2(&mut a, name);
			for _ in 0..k {
				if kind == "anno_array" { a.push(b'['); u2(&mut a, 1); } else { a.push(b'@'); u2(&mut a, ty); u2(&mut a, 1); u2(&mut a, name); }
			}
			a.push(b'['); u2(&mut a, 0);
			let mut attr = vec![];
			u2(&mut attr, rva); u4(&mut attr, a.len() as u32); attr.extend_from_slice(&a);
			gclass(pool, "()V", &[0xb1], &[], (0, vec![]), (1, attr))
		},
		// k dynamic constants, each naming the one before twice as bootstrap arguments: a file of 13 k + 300 bytes that
		// denotes a tree of 2^k constants
		"condy_fanout" | "condy_uses" => {
			// condy_uses: a chain of 12 (a tree of 4095 constants, just within what one constant may have) loaded k times
			let (fan, uses) = if kind == "condy_uses" { (12, k.max(1)) } else { (k, 1) };
			let k = fan;
			let mut pool = GPool::new();
			let bsm_name = pool.utf8("BootstrapMethods");
			let (c, nt) = (pool.class("B"), pool.nat("b", "()I"));
			pool.bytes.push(10); pool.bytes.extend_from_slice(&c.to_be_bytes()); pool.bytes.extend_from_slice(&nt.to_be_bytes()); pool.count += 1;
			let mref = pool.count - 1;
			pool.bytes.push(15); pool.bytes.push(6); pool.bytes.extend_from_slice(&mref.to_be_bytes()); pool.count += 1;
			let handle = pool.count - 1;
			let cnat = pool.nat("c", "I");
			let mut dynamics = vec![];
			for i in 0..k.max(1) {
				pool.bytes.push(17); pool.bytes.extend_from_slice(&(i as u16).to_be_bytes()); pool.bytes.extend_from_slice(&cnat.to_be_bytes()); pool.count += 1;
				dynamics.push(pool.count - 1);
			}
			let mut a = vec![];
			u2(&mut a, dynamics.len() as u16);
			for i in 0..dynamics.len() {
				u2(&mut a, handle);
				if i == 0 { u2(&mut a, 0); } else { u2(&mut a, 2); u2(&mut a, dynamics[i - 1]); u2(&mut a, dynamics[i - 1]); }
			}
			let mut attr = vec![];
			u2(&mut attr, bsm_name); u4(&mut attr, a.len() as u32); attr.extend_from_slice(&a);
			let [x, y] = dynamics[dynamics.len() - 1].to_be_bytes();
			let mut code = vec![];
			for _ in 0..uses { code.extend_from_slice(&[0x13, x, y, 0x57]); }        // ldc_w, pop
			code.push(0xb1);
			let mut bytes = gclass(pool, "()V", &code, &[], (0, vec![]), (1, attr));
			bytes[7] = 55;      // dynamic constants need class file version 55
			bytes
		},
		// one bootstrap method with k plain arguments (all naming one Integer constant: the attribute takes 2 k bytes) used by
		// 13 000 invokedynamic instructions (indy_plain_args) or by one dynamic constant that is loaded 16 000 times
		// (condy_plain_args): every use stores its own copy of the arguments
		"indy_plain_args" | "condy_plain_args" => {
			let indy = kind == "indy_plain_args";
			let mut pool = GPool::new();
			let bsm_name = pool.utf8("BootstrapMethods");
			let (c, nt) = (pool.class("B"), pool.nat("b", "()I"));
			pool.bytes.push(10); pool.bytes.extend_from_slice(&c.to_be_bytes()); pool.bytes.extend_from_slice(&nt.to_be_bytes()); pool.count += 1;
			let mref = pool.count - 1;
			pool.bytes.push(15); pool.bytes.push(6); pool.bytes.extend_from_slice(&mref.to_be_bytes()); pool.count += 1;
			let handle = pool.count - 1;
			pool.bytes.push(3); pool.bytes.extend_from_slice(&7u32.to_be_bytes()); pool.count += 1;
			let int = pool.count - 1;
			let site_nat = if indy { pool.nat("site", "()V") } else { pool.nat("c", "I") };
			pool.bytes.push(if indy { 18 } else { 17 }); pool.bytes.extend_from_slice(&0u16.to_be_bytes()); pool.bytes.extend_from_slice(&site_nat.to_be_bytes()); pool.count += 1;
			let [x, y] = (pool.count - 1).to_be_bytes();
			let mut a = vec![];
			u2(&mut a, 1); u2(&mut a, handle); u2(&mut a, k.min(65535) as u16);
			for _ in 0..k.min(65535) { u2(&mut a, int); }
			let mut attr = vec![];
			u2(&mut attr, bsm_name); u4(&mut attr, a.len() as u32); attr.extend_from_slice(&a);
			let mut code = vec![];
			if indy { for _ in 0..13000 { code.extend_from_slice(&[0xba, x, y, 0, 0]); } } else { for _ in 0..16000 { code.extend_from_slice(&[0x13, x, y, 0x57]); } }
			code.push(0xb1);
			let mut bytes = gclass(pool, "()V", &code, &[], (0, vec![]), (1, attr));
			bytes[7] = 55;
			bytes
		},
		// invokeinterface of a method with k long parameters (2 slots each; the count operand is a byte)
		"ifc_args" => {
			let mut pool = GPool::new();
			let m = pool.imethod("I", "x", &format!("({})V", "J".repeat(k)));
			let [a, b] = m.to_be_bytes();
			gclass(pool, "()V", &[0xb9, a, b, 1, 0, 0xb1], &[], (0, vec![]), (0, vec![]))
		},
		// the method itself declares k long parameters
		// invokeinterface of a method whose descriptor is not one (the reader does not look into it, the writer needs its argument size)
		"ifc_baddesc" => {
			const BAD: [&str; 10] = ["(", "(I", "([", "(Lfoo;", "", "V", "()", "(I)", "(\u{e9}", "((I)V"];
			let mut pool = GPool::new();
			let m = pool.imethod("I", "x", BAD[k % BAD.len()]);
			let [a, b] = m.to_be_bytes();
			gclass(pool, "()V", &[0xb9, a, b, 1, 0, 0xb1], &[], (0, vec![]), (0, vec![]))
		},
		"method_args" => gclass(GPool::new(), &format!("({})V", "J".repeat(k)), &[0xb1], &[], (0, vec![]), (0, vec![])),
		// a label at every bytecode offset of a method of maximal length
		"labels" => {
			let mut pool = GPool::new();
			let (lnt, lvt, vname, vdesc) = (pool.utf8("LineNumberTable"), pool.utf8("LocalVariableTable"), pool.utf8("v"), pool.utf8("I"));
			let mut code = vec![0u8; 65534];
			code.push(0xb1);
			let mut attrs = vec![];
			u2(&mut attrs, lnt); u4(&mut attrs, 2 + 65535 * 4); u2(&mut attrs, 65535);
			for pc in 0..65535u16 { u2(&mut attrs, pc); u2(&mut attrs, 1); }
			let mut n = 1;
			if k >= 2 { u2(&mut attrs, lvt); u4(&mut attrs, 2 + 10); u2(&mut attrs, 1); u2(&mut attrs, 0); u2(&mut attrs, 65535); u2(&mut attrs, vname); u2(&mut attrs, vdesc); u2(&mut attrs, 0); n += 1; }
			let exc: Vec<[u16; 4]> = if k >= 1 { vec![[0, 65535, 0, 0]] } else { vec![] };
			gclass(pool, "()V", &code, &exc, (n, attrs), (0, vec![]))
		},
		// CLASS lines nested line by line
		"enigma_nest" => {
			let mut s = String::new();
			for i in 0..k { for _ in 0..i { s.push('\t'); } s.push_str(if i == 0 { "CLASS A x/A\n" } else { "CLASS B B\n" }); }
			s.into_bytes()
		},
		// a Tiny v2 file whose lines step in by one tab each (comments below a class)
		// a section of an unknown kind with k lines below it, each one tab deeper than the one before
		"tiny_unknown_nest" | "tinydiff_unknown_nest" => {
			let mut s = String::from(if kind == "tiny_unknown_nest" { "tiny\t2\t0\ta\tb\nc\tA\tx/A\n" } else { "tiny\t2\t0\nc\tA\tx/A\tx/B\n" });
			s.push_str("\tzz\tunknown\n");
			for i in 0..k { for _ in 0..i + 2 { s.push('\t'); } s.push_str("zz\tdeeper\n"); }
			s.into_bytes()
		},
		"tiny_nest" => {
			let mut s = String::from("tiny\t2\t0\ta\tb\nc\tA\tx/A\n");
			for i in 0..k { for _ in 0..=i { s.push('\t'); } s.push_str("c\tcomment\n"); }
			s.into_bytes()
		},
		"fdesc_dims" => format!("{}I", "[".repeat(k)).into_bytes(),
		"mdesc_dims" => format!("({}I)V", "[".repeat(k)).into_bytes(),
		"desc_args" => format!("({})V", "J".repeat(k)).into_bytes(),
		o => bail!("unknown grow kind {o}"),
	})
}

// ---------------------------------------------------------------- child side

thread_local! { static PANIC_AT: std::cell::RefCell<String> = const { std::cell::RefCell::new(String::new()) }; }

fn guarded(f: impl FnOnce() -> bool) -> (String, String) {
	PANIC_AT.with(|p| p.borrow_mut().clear());
	match std::panic::catch_unwind(std::panic::AssertUnwindSafe(f)) {
		Ok(true) => ("ok".into(), String::new()),
		Ok(false) => ("err".into(), String::new()),
		Err(_) => ("panic".into(), PANIC_AT.with(|p| p.borrow().clone())),
	}
}

fn run_target(target: &str, bytes: &[u8]) -> Value {
	use quill::tree::NodeInfo;
	let mut write = ("-".to_owned(), String::new());
	let (out, wh) = match target {
		"class" => {
			let mut tree = None;
			let r = guarded(|| match duke::read_class(&mut std::io::Cursor::new(bytes)) { Ok(t) => { tree = Some(t); true }, Err(_) => false });
			if let Some(t) = tree { write = guarded(|| duke::write_class(&mut std::io::Cursor::new(Vec::new()), &t).is_ok()); }
			r
		},
		"tiny" => guarded(|| quill::tiny_v2::read::<2, ()>(bytes).is_ok()),
		"tinydiff" => guarded(|| {
			let p = std::path::PathBuf::from(format!("/dev/shm/verif-work/tmp/c16-{}.tinydiff", std::process::id()));
			let _ = std::fs::create_dir_all("/dev/shm/verif-work/tmp");
			let _ = std::fs::write(&p, bytes);
			let r = quill::tiny_v2_diff::read_file(&p).is_ok();
			let _ = std::fs::remove_file(&p);
			r
		}),
		"enigma" => guarded(|| {
			let ns = quill::tree::names::Namespaces::try_from(["a".to_owned(), "b".to_owned()]).expect("namespaces");
			let mut m: quill::tree::mappings::Mappings<2, ()> = quill::tree::mappings::Mappings::new(quill::tree::mappings::MappingInfo { namespaces: ns });
			quill::enigma_file::read_into(bytes, &mut m).is_ok()
		}),
		"nests" => guarded(|| dukenest::nest::Nests::<()>::read(&bytes.to_vec()).is_ok()),
		"fdesc" | "mdesc" | "rdesc" => {
			let s = java_string::JavaString::from(String::from_utf8_lossy(bytes).to_string());
			guarded(|| match target {
				"fdesc" => duke::tree::field::FieldDescriptor::try_from(s.clone()).ok().map(|d| d.parse().map(|p| { let _ = p.write(); }).is_ok()).unwrap_or(false),
				"mdesc" => duke::tree::method::MethodDescriptor::try_from(s.clone()).ok().map(|d| d.parse().map(|p| { let _ = p.write(); }).is_ok()).unwrap_or(false),
				_ => duke::tree::descriptor::ReturnDescriptor::try_from(s.clone()).ok().map(|d| d.parse().map(|p| { let _ = p.write(); }).is_ok()).unwrap_or(false),
			})
		},
		_ => ("err".into(), "unknown target".into()),
	};
	json!({"out": out, "where": wh, "write": write.0, "wwhere": write.1})
}

/// `vharness fault-child`: one case per stdin line, one outcome per stdout line.
pub fn child_main() -> Result<()> {
	std::panic::set_hook(Box::new(|info| {
		let loc = info.location().map(|l| format!("{}:{}", l.file().rsplit("/repo/").next().unwrap_or(l.file()), l.line())).unwrap_or_default();
		PANIC_AT.with(|p| *p.borrow_mut() = loc);
	}));
	let tier = std::env::var("VERIF_TIER_SEEDS").unwrap_or_else(|_| "thorough".into());
	let all = seeds(&tier)?;
	let stdin = std::io::stdin();
	let mut out = std::io::stdout();
	for line in stdin.lock().lines() {
		let line = line?;
		let v: Value = serde_json::from_str(&line)?;
		let r = match all.iter().find(|s| s.id == v["seed"].as_str().unwrap_or("")) {
			None => json!({"out": "tool", "where": "unknown seed"}),
			// the parser runs on a thread with the default stack of a Rust thread (2 MiB; the binary's tokio workers have that too),
			// not on the 8 MiB main thread: a recursion that survives there may not survive where the code is really called
			Some(seed) => match apply(seed, &v["ops"]) {
				Ok(b) => {
					let target = seed.target;
					std::thread::Builder::new().stack_size(2 << 20).spawn(move || run_target(target, &b))?.join()
						.unwrap_or_else(|_| json!({"out": "panic", "where": "thread", "write": "-"}))
				},
				Err(e) => json!({"out": "tool", "where": e.to_string()}),
			},
		};
		writeln!(out, "{}", r)?;
		out.flush()?;
	}
	Ok(())
}

// ---------------------------------------------------------------- parent side

struct Proc { child: Child, stdin: ChildStdin, rx: Receiver<String>, err_path: String }
static PROC: Mutex<Option<Proc>> = Mutex::new(None);

fn spawn() -> Result<Proc> {
	let exe = std::env::current_exe()?;
	let err_path = format!("/dev/shm/verif-work/tmp/c16-child-{}.err", std::process::id());
	let _ = std::fs::create_dir_all("/dev/shm/verif-work/tmp");
	let errf = std::fs::File::create(&err_path)?;
	let mut child = Command::new("sh").arg("-c").arg("ulimit -v 3000000; ulimit -s 8192; exec \"$0\" fault-child").arg(exe)
		.stdin(Stdio::piped()).stdout(Stdio::piped()).stderr(Stdio::from(errf)).spawn()?;
	let stdin = child.stdin.take().context("child stdin")?;
	let stdout = child.stdout.take().context("child stdout")?;
	let (tx, rx) = channel();
	std::thread::spawn(move || { for l in BufReader::new(stdout).lines().map_while(|l| l.ok()) { if tx.send(l).is_err() { break; } } });
	Ok(Proc { child, stdin, rx, err_path })
}

pub fn exec(v: &Value) -> Result<Value> {
	if v["op"] != "fault" { bail!("C16: unknown op"); }
	let mut guard = PROC.lock().map_err(|_| anyhow!("lock"))?;
	if guard.is_none() { *guard = Some(spawn()?); }
	let p = guard.as_mut().context("proc")?;
	let line = serde_json::to_string(&json!({"seed": v["seed"], "ops": v["ops"]}))?;
	let sent = writeln!(p.stdin, "{line}").and_then(|_| p.stdin.flush());
	let res = if sent.is_ok() { p.rx.recv_timeout(Duration::from_secs(10)).ok() } else { None };
	match res {
		Some(l) => {
			let r: Value = serde_json::from_str(&l)?;
			if r["out"] == "tool" { bail!("fault-child: {}", r["where"]); }
			Ok(r)
		},
		None => {
			// no answer: still running (timeout) or dead (crash: stack overflow, out of memory, abort)
			let dead = p.child.try_wait().ok().flatten();
			let _ = p.child.kill();
			let _ = p.child.wait();
			let err = std::fs::read_to_string(&p.err_path).unwrap_or_default();
			let hint = if err.contains("overflowed its stack") { "stack overflow" } else if err.contains("memory allocation") { "out of memory" } else { err.lines().last().unwrap_or("").trim() }.to_owned();
			*guard = None;
			Ok(match dead { Some(st) => json!({"out": "crash", "where": format!("{hint} ({st})"), "write": "-"}), None => json!({"out": "timeout", "where": "", "write": "-"}) })
		},
	}
}

/// Seeded random faults: byte edits at random offsets (pairs and triples), random truncations, random field values.
pub fn gen(seed: u64, n: usize) -> Result<Vec<Value>> {
	let mut r = StdRng::seed_from_u64(seed ^ 0xC16);
	let tier = std::env::var("VERIF_TIER_SEEDS").unwrap_or_else(|_| "thorough".into());
	let all: Vec<Seed> = seeds(&tier)?.into_iter().filter(|s| s.grow.is_empty()).collect();
	let mut out = vec![];
	while out.len() < n {
		let s = &all[r.gen_range(0..all.len())];
		let mut ops = vec![];
		for _ in 0..r.gen_range(1..4) {
			if !s.spans.is_empty() {
				match r.gen_range(0..3) {
					0 => ops.push(json!(["byte", r.gen_range(0..s.bytes.len()), r.gen_range(0..256)])),
					1 => { let i = r.gen_range(0..s.spans.len()); let w = s.spans[i].len.min(4) as u32; ops.push(json!(["set", i, r.gen::<u32>() as u64 & ((1u64 << (8 * w)) - 1)])); },
					_ => ops.push(json!(["trunc", r.gen_range(0..s.bytes.len())])),
				}
			} else if s.target.ends_with("desc") {
				let i = r.gen_range(0..s.bytes.len());
				match r.gen_range(0..3) { 0 => ops.push(json!(["delchar", i])), 1 => ops.push(json!(["dupchar", i])), _ => ops.push(json!(["setchar", i, *crate::gen_quill::pick(&mut r, &["[", "L", ";", "(", ")", "V", "I", "/", ".", "\u{e9}"])])) }
			} else {
				let nl = String::from_utf8_lossy(&s.bytes).lines().count().max(1);
				let l = r.gen_range(0..nl);
				ops.push(match r.gen_range(0..13) { 9 => json!(["esc", l, r.gen_range(0..8)]), 10 => json!(["escz", l, r.gen_range(0..8)]), 11 => json!(["unicell", l, r.gen_range(0..4)]), 12 => json!(["unichar", l, r.gen_range(0..4)]), 0 => json!(["dropcell", l, r.gen_range(0..4)]), 1 => json!(["addcell", l]), 2 => json!(["emptycell", l, r.gen_range(0..4)]), 3 => json!(["indent", l, 1]),
					4 => json!(["indent", l, -1]), 5 => json!(["tag", l]), 6 => json!(["dupline", l]), 7 => json!(["nonutf8", l]), _ => json!(["trunc", r.gen_range(0..s.bytes.len())]) });
			}
		}
		out.push(json!({"op": "fault", "target": s.target, "seed": s.id, "ops": ops}));
	}
	Ok(out)
}
