//! C16: parsers fail with an error, never crash.
//!
//! A fault case {"op":"fault","target":t,"seed":id,"ops":[..]} is applied to the seed's bytes and the target parser is run in a
//! child process (address space limited by `ulimit -v`, wall clock limited by the parent); the outcome is data:
//!   {"out":"ok"|"err"|"panic"|"timeout"|"crash", "where": panic location | crash hint, "write": "ok"|"err"|"panic"|"-"}
//! targets: class (duke::read_class, then write_class of what was read), tiny, tinydiff, enigma, nests, fdesc / mdesc / rdesc
//! byte ops : ["set", span index, value] (big endian into the span), ["trunc", n], ["byte", offset, value]
//! text ops : ["dropcell", line, cell] ["addcell", line] ["emptycell", line, cell] ["indent", line, delta] ["tag", line]
//!            ["dupline", line] ["delline", line] ["nonutf8", line] ["trunc", n]
//! char ops : ["delchar", i] ["dupchar", i] ["setchar", i, s]
use std::io::{BufRead, BufReader, Write};
use std::process::{Child, ChildStdin, Command, Stdio};
use std::sync::mpsc::{channel, Receiver};
use std::sync::Mutex;
use std::time::Duration;
use anyhow::{anyhow, bail, Context, Result};
use rand::rngs::StdRng;
use rand::{Rng, SeedableRng};
use serde_json::{json, Value};

pub struct Seed { pub id: String, pub target: &'static str, pub bytes: Vec<u8>, pub spans: Vec<cfkit::parse::Span> }

const QUICK_SAMPLES: &[&str] = &["minimal_object", "exception_table", "switches", "frames_each_kind", "annotations_all_element_kinds", "type_annotations_code",
	"indy_condy_unreferenced_bootstrap", "inner_classes", "local_variable_tables", "record", "module_info", "invokes", "wide_locals"];

const TINY: &str = "tiny\t2\t0\tofficial\tnamed\nc\tA\tx/A\n\tc\tclass comment\\nsecond line\n\tf\tI\tf\tfield\n\t\tc\tfield comment\n\tm\t(LA;)V\tm\tmethod\n\t\tp\t1\t\targ\n\t\t\tc\tparam comment\nc\tA$B\tx/A$B\n";
const TINYDIFF: &str = "tiny\t2\t0\nc\tA\tx/A\tx/Renamed\n\tc\told comment\tnew comment\n\tf\tI\tf\tfield\t\n\tm\t(LA;)V\tm\t\tadded\n\t\tp\t1\t\targ\targ2\nc\tNew\t\tx/New\n";
const ENIGMA: &str = "CLASS A x/A\n\tCOMMENT class comment\n\tFIELD f field I\n\t\tCOMMENT field comment\n\tMETHOD m method (LA;)V\n\t\tARG 1 arg\n\t\t\tCOMMENT param comment\n\tCLASS B B\n\t\tMETHOD <init> ()V\n# trailing comment\n";
const NESTS: &str = "a\tb\tm\t()V\t1\t0x0008\nc\tb\t\t\tInner\t9\nd\tc\tn\t(I)V\t1Local\t0b101\n";
const DESCS: &[(&str, &str)] = &[("fdesc", "[[Ljava/lang/String;"), ("fdesc", "I"), ("mdesc", "(I[JLa/b;)Lc;"), ("mdesc", "()V"), ("rdesc", "V"), ("rdesc", "[La$b;")];

pub fn seeds(tier: &str) -> Result<Vec<Seed>> {
	let mut out = vec![];
	for (name, facts) in cfkit::samples::sample_classes() {
		if tier != "thorough" && !QUICK_SAMPLES.contains(&name.as_str()) { continue; }
		let Ok(bytes) = cfkit::asm::assemble(&facts, &cfkit::asm::Encoding::default()) else { continue };
		let Ok(p) = cfkit::parse::parse_class(&bytes) else { continue };
		out.push(Seed { id: format!("sample/{name}"), target: "class", bytes, spans: p.spans });
	}
	// two small javac classes
	let mut corpus = cfkit::corpus::corpus_classes("quick");
	corpus.sort_by_key(|(id, b)| (b.len(), id.clone()));
	for (id, bytes) in corpus.into_iter().filter(|(id, b)| b.len() > 300 && (id.contains("Lambdas") || id.contains("Switches") || id.contains("Exceptions"))).take(if tier == "thorough" { 6 } else { 2 }) {
		if let Ok(p) = cfkit::parse::parse_class(&bytes) { out.push(Seed { id: format!("corpus/{id}"), target: "class", bytes, spans: p.spans }); }
	}
	for (t, s) in [("tiny", TINY), ("tinydiff", TINYDIFF), ("enigma", ENIGMA), ("nests", NESTS)] {
		out.push(Seed { id: format!("text/{t}"), target: t, bytes: s.as_bytes().to_vec(), spans: vec![] });
	}
	for (i, (t, s)) in DESCS.iter().enumerate() {
		out.push(Seed { id: format!("desc/{i}"), target: t, bytes: s.as_bytes().to_vec(), spans: vec![] });
	}
	Ok(out)
}

fn sep(target: &str) -> char { if target == "enigma" { ' ' } else { '\t' } }
fn split_line(target: &str, l: &str) -> (usize, Vec<String>) {
	let ind = l.chars().take_while(|c| *c == '\t').count();
	(ind, l[ind..].split(sep(target)).map(|s| s.to_owned()).collect())
}

/// What TLC needs to enumerate faults: per seed the fields (offset, width, role class, the pool index of the entry a
/// constant-pool reference sits in) or the line / cell structure.
pub fn seeds_json(tier: &str) -> Result<Vec<Value>> {
	let mut out = vec![];
	for s in seeds(tier)? {
		let spans: Vec<Value> = s.spans.iter().map(|sp| {
			let own = sp.path.strip_prefix("cp[").and_then(|r| r.split(']').next()).and_then(|n| n.parse::<u32>().ok()).unwrap_or(0);
			let val: i64 = if sp.len <= 4 { s.bytes[sp.off..sp.off + sp.len].iter().fold(0i64, |a, b| (a << 8) | *b as i64) } else { 0 };
			let val = if val > i32::MAX as i64 { -1 } else { val };
			json!({"off": sp.off, "len": sp.len, "role": sp.role, "cls": sp.class, "own": own, "val": val})
		}).collect();
		let text = String::from_utf8_lossy(&s.bytes).to_string();
		let cells: Vec<usize> = if s.spans.is_empty() && !s.target.ends_with("desc") { text.lines().map(|l| split_line(s.target, l).1.len()).collect() } else { vec![] };
		out.push(json!({"id": s.id, "target": s.target, "n": s.bytes.len(), "spans": spans, "cells": cells}));
	}
	Ok(out)
}

pub fn apply(seed: &Seed, ops: &Value) -> Result<Vec<u8>> {
	let mut b = seed.bytes.clone();
	let textual = seed.spans.is_empty();
	for op in ops.as_array().context("ops")? {
		let name = op[0].as_str().context("op name")?;
		let n = |i: usize| op[i].as_i64().unwrap_or(0);
		match name {
			"trunc" => { let k = (n(1).max(0) as usize).min(b.len()); b.truncate(k); },
			"byte" => { let o = n(1) as usize; if o < b.len() { b[o] = n(2) as u8; } },
			"set" => {
				let sp = seed.spans.get(n(1) as usize).context("span index")?;
				let v = n(2) as u64;
				for k in 0..sp.len.min(8) {
					let shift = 8 * (sp.len.min(8) - 1 - k);
					if sp.off + k < b.len() { b[sp.off + k] = ((v >> shift) & 0xff) as u8; }
				}
			},
			"delchar" | "dupchar" | "setchar" => {
				let mut cs: Vec<char> = String::from_utf8_lossy(&b).chars().collect();
				let i = (n(1).max(0) as usize).min(cs.len().saturating_sub(1));
				if !cs.is_empty() {
					match name { "delchar" => { cs.remove(i); }, "dupchar" => { let c = cs[i]; cs.insert(i, c); }, _ => { cs[i] = op[2].as_str().and_then(|s| s.chars().next()).unwrap_or('x'); } }
				}
				b = cs.into_iter().collect::<String>().into_bytes();
			},
			_ if textual => {
				let text = String::from_utf8_lossy(&b).to_string();
				let mut lines: Vec<Vec<u8>> = text.lines().map(|l| l.as_bytes().to_vec()).collect();
				let li = (n(1).max(0) as usize).min(lines.len().saturating_sub(1));
				if !lines.is_empty() {
					let (ind, mut cells) = split_line(seed.target, &String::from_utf8_lossy(&lines[li]));
					let mut ind = ind as i64;
					let ci = (n(2).max(0) as usize).min(cells.len().saturating_sub(1));
					let mut raw: Option<Vec<u8>> = None;
					match name {
						"dropcell" => { if !cells.is_empty() { cells.remove(ci); } },
						"addcell" => cells.push("extra".into()),
						"emptycell" => { cells[ci] = String::new(); },
						"indent" => { ind = (ind + n(2)).max(0); },
						"tag" => { cells[0] = "zz".into(); },
						"dupline" => { let l = lines[li].clone(); lines.insert(li, l); },
						"delline" => { lines.remove(li); },
						"nonutf8" => { let mut l = lines[li].clone(); l.extend_from_slice(&[0xff, 0xfe, 0xc0]); raw = Some(l); },
						o => bail!("unknown text op {o}"),
					}
					if matches!(name, "dropcell" | "addcell" | "emptycell" | "indent" | "tag") {
						let s = format!("{}{}", "\t".repeat(ind as usize), cells.join(&sep(seed.target).to_string()));
						lines[li] = s.into_bytes();
					}
					if let Some(r) = raw { lines[li] = r; }
				}
				b = lines.join(&b'\n');
				b.push(b'\n');
			},
			o => bail!("unknown op {o}"),
		}
	}
	Ok(b)
}

// ---------------------------------------------------------------- child side

thread_local! { static PANIC_AT: std::cell::RefCell<String> = const { std::cell::RefCell::new(String::new()) }; }

fn guarded(f: impl FnOnce() -> bool) -> (String, String) {
	PANIC_AT.with(|p| p.borrow_mut().clear());
	match std::panic::catch_unwind(std::panic::AssertUnwindSafe(f)) {
		Ok(true) => ("ok".into(), String::new()),
		Ok(false) => ("err".into(), String::new()),
		Err(_) => ("panic".into(), PANIC_AT.with(|p| p.borrow().clone())),
	}
}

fn run_target(target: &str, bytes: &[u8]) -> Value {
	use quill::tree::NodeInfo;
	let mut write = ("-".to_owned(), String::new());
	let (out, wh) = match target {
		"class" => {
			let mut tree = None;
			let r = guarded(|| match duke::read_class(&mut std::io::Cursor::new(bytes)) { Ok(t) => { tree = Some(t); true }, Err(_) => false });
			if let Some(t) = tree { write = guarded(|| duke::write_class(&mut std::io::Cursor::new(Vec::new()), &t).is_ok()); }
			r
		},
		"tiny" => guarded(|| quill::tiny_v2::read::<2, ()>(bytes).is_ok()),
		"tinydiff" => guarded(|| {
			let p = std::path::PathBuf::from(format!("/dev/shm/verif-work/tmp/c16-{}.tinydiff", std::process::id()));
			let _ = std::fs::create_dir_all("/dev/shm/verif-work/tmp");
			let _ = std::fs::write(&p, bytes);
			let r = quill::tiny_v2_diff::read_file(&p).is_ok();
			let _ = std::fs::remove_file(&p);
			r
		}),
		"enigma" => guarded(|| {
			let ns = quill::tree::names::Namespaces::try_from(["a".to_owned(), "b".to_owned()]).expect("namespaces");
			let mut m: quill::tree::mappings::Mappings<2, ()> = quill::tree::mappings::Mappings::new(quill::tree::mappings::MappingInfo { namespaces: ns });
			quill::enigma_file::read_into(bytes, &mut m).is_ok()
		}),
		"nests" => guarded(|| dukenest::nest::Nests::<()>::read(&bytes.to_vec()).is_ok()),
		"fdesc" | "mdesc" | "rdesc" => {
			let s = java_string::JavaString::from(String::from_utf8_lossy(bytes).to_string());
			guarded(|| match target {
				"fdesc" => duke::tree::field::FieldDescriptor::try_from(s.clone()).ok().map(|d| d.parse().map(|p| { let _ = p.write(); }).is_ok()).unwrap_or(false),
				"mdesc" => duke::tree::method::MethodDescriptor::try_from(s.clone()).ok().map(|d| d.parse().map(|p| { let _ = p.write(); }).is_ok()).unwrap_or(false),
				_ => duke::tree::descriptor::ReturnDescriptor::try_from(s.clone()).ok().map(|d| d.parse().map(|p| { let _ = p.write(); }).is_ok()).unwrap_or(false),
			})
		},
		_ => ("err".into(), "unknown target".into()),
	};
	json!({"out": out, "where": wh, "write": write.0, "wwhere": write.1})
}

/// `vharness fault-child`: one case per stdin line, one outcome per stdout line.
pub fn child_main() -> Result<()> {
	std::panic::set_hook(Box::new(|info| {
		let loc = info.location().map(|l| format!("{}:{}", l.file().rsplit("/repo/").next().unwrap_or(l.file()), l.line())).unwrap_or_default();
		PANIC_AT.with(|p| *p.borrow_mut() = loc);
	}));
	let tier = std::env::var("VERIF_TIER_SEEDS").unwrap_or_else(|_| "thorough".into());
	let all = seeds(&tier)?;
	let stdin = std::io::stdin();
	let mut out = std::io::stdout();
	for line in stdin.lock().lines() {
		let line = line?;
		let v: Value = serde_json::from_str(&line)?;
		let r = match all.iter().find(|s| s.id == v["seed"].as_str().unwrap_or("")) {
			None => json!({"out": "tool", "where": "unknown seed"}),
			Some(seed) => match apply(seed, &v["ops"]) { Ok(b) => run_target(seed.target, &b), Err(e) => json!({"out": "tool", "where": e.to_string()}) },
		};
		writeln!(out, "{}", r)?;
		out.flush()?;
	}
	Ok(())
}

// ---------------------------------------------------------------- parent side

struct Proc { child: Child, stdin: ChildStdin, rx: Receiver<String>, err_path: String }
static PROC: Mutex<Option<Proc>> = Mutex::new(None);

fn spawn() -> Result<Proc> {
	let exe = std::env::current_exe()?;
	let err_path = format!("/dev/shm/verif-work/tmp/c16-child-{}.err", std::process::id());
	let _ = std::fs::create_dir_all("/dev/shm/verif-work/tmp");
	let errf = std::fs::File::create(&err_path)?;
	let mut child = Command::new("sh").arg("-c").arg("ulimit -v 3000000; ulimit -s 8192; exec \"$0\" fault-child").arg(exe)
		.stdin(Stdio::piped()).stdout(Stdio::piped()).stderr(Stdio::from(errf)).spawn()?;
	let stdin = child.stdin.take().context("child stdin")?;
	let stdout = child.stdout.take().context("child stdout")?;
	let (tx, rx) = channel();
	std::thread::spawn(move || { for l in BufReader::new(stdout).lines().map_while(|l| l.ok()) { if tx.send(l).is_err() { break; } } });
	Ok(Proc { child, stdin, rx, err_path })
}

pub fn exec(v: &Value) -> Result<Value> {
	if v["op"] != "fault" { bail!("C16: unknown op"); }
	let mut guard = PROC.lock().map_err(|_| anyhow!("lock"))?;
	if guard.is_none() { *guard = Some(spawn()?); }
	let p = guard.as_mut().context("proc")?;
	let line = serde_json::to_string(&json!({"seed": v["seed"], "ops": v["ops"]}))?;
	let sent = writeln!(p.stdin, "{line}").and_then(|_| p.stdin.flush());
	let res = if sent.is_ok() { p.rx.recv_timeout(Duration::from_secs(10)).ok() } else { None };
	match res {
		Some(l) => {
			let r: Value = serde_json::from_str(&l)?;
			if r["out"] == "tool" { bail!("fault-child: {}", r["where"]); }
			Ok(r)
		},
		None => {
			// no answer: still running (timeout) or dead (crash: stack overflow, out of memory, abort)
			let dead = p.child.try_wait().ok().flatten();
			let _ = p.child.kill();
			let _ = p.child.wait();
			let err = std::fs::read_to_string(&p.err_path).unwrap_or_default();
			let hint = if err.contains("overflowed its stack") { "stack overflow" } else if err.contains("memory allocation") { "out of memory" } else { err.lines().last().unwrap_or("").trim() }.to_owned();
			*guard = None;
			Ok(match dead { Some(st) => json!({"out": "crash", "where": format!("{hint} ({st})"), "write": "-"}), None => json!({"out": "timeout", "where": "", "write": "-"}) })
		},
	}
}

/// Seeded random faults: byte edits at random offsets (pairs and triples), random truncations, random field values.
pub fn gen(seed: u64, n: usize) -> Result<Vec<Value>> {
	let mut r = StdRng::seed_from_u64(seed ^ 0xC16);
	let tier = std::env::var("VERIF_TIER_SEEDS").unwrap_or_else(|_| "thorough".into());
	let all = seeds(&tier)?;
	let mut out = vec![];
	while out.len() < n {
		let s = &all[r.gen_range(0..all.len())];
		let mut ops = vec![];
		for _ in 0..r.gen_range(1..4) {
			if !s.spans.is_empty() {
				match r.gen_range(0..3) {
					0 => ops.push(json!(["byte", r.gen_range(0..s.bytes.len()), r.gen_range(0..256)])),
					1 => { let i = r.gen_range(0..s.spans.len()); let w = s.spans[i].len.min(4) as u32; ops.push(json!(["set", i, r.gen::<u32>() as u64 & ((1u64 << (8 * w)) - 1)])); },
					_ => ops.push(json!(["trunc", r.gen_range(0..s.bytes.len())])),
				}
			} else if s.target.ends_with("desc") {
				let i = r.gen_range(0..s.bytes.len());
				match r.gen_range(0..3) { 0 => ops.push(json!(["delchar", i])), 1 => ops.push(json!(["dupchar", i])), _ => ops.push(json!(["setchar", i, *crate::gen_quill::pick(&mut r, &["[", "L", ";", "(", ")", "V", "I", "/", ".", "\u{e9}"])])) }
			} else {
				let nl = String::from_utf8_lossy(&s.bytes).lines().count().max(1);
				let l = r.gen_range(0..nl);
				ops.push(match r.gen_range(0..9) { 0 => json!(["dropcell", l, r.gen_range(0..4)]), 1 => json!(["addcell", l]), 2 => json!(["emptycell", l, r.gen_range(0..4)]), 3 => json!(["indent", l, 1]),
					4 => json!(["indent", l, -1]), 5 => json!(["tag", l]), 6 => json!(["dupline", l]), 7 => json!(["nonutf8", l]), _ => json!(["trunc", r.gen_range(0..s.bytes.len())]) });
			}
		}
		out.push(json!({"op": "fault", "target": s.target, "seed": s.id, "ops": ops}));
	}
	Ok(out)
}
