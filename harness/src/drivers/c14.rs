//! C14: dukenest::{nest_jar, apply_nests_to_mappings, undo_nests_to_mappings, remap_nests}, Nests::read.
//!
//! ops  {"op":"nest_jar","jar":recipe,"nests":[nest..],"via":"value"|"text","text":s,"others":{name:text}?}
//!          -> {"st":"ok","names":{name:true},"classes":{name:{rows:{key:count},rowseq:[[kind,owner,name,desc]..],ic:[[inner,outer,name,acc]..],
//!              em:[]|[class,mname,mdesc],res:id,ver:[maj,min],acc:n}},"others":{name:text},"dirs":[name..],"resIn":{name:id}} | {"st":"err"}
//!      {"op":"agree","jar":recipe,"nests":[..],"tree":tree}          -> {"st":"ok","jarNames":{..},"mapNames":{..}} | {"st":"err","where":..}
//!      {"op":"apply"|"undo"|"applyundo","tree":tree,"nests":[..]}    -> {"st":"ok","src":tree with the classes' target names blanked,"v":tree} | {"st":"err"}
//!      {"op":"remap_nests","tree":tree,"nests":[..]}                 -> {"st":"ok","nests":{cls:nest},"order":[cls..]} | {"st":"err"}
//!      {"op":"read","text":s}                                         -> {"st":"ok","nests":{cls:nest},"order":[cls..]} | {"st":"err"}
//! nest   {"cls","encl","m":[]|[name,desc],"inner","acc":n,"type":"anonymous"|"inner"|"local"}
//! recipe {class name: {"super":s,"itfs":[s..],"fields":[[name,desc]..],"methods":[[name,desc]..],"code":[[kind,owner,name,desc]..],
//!          "ic":[[inner,outer,name,acc]..],"em":[]|[class,mname,mdesc]}}; the `code` rows become instructions of a method refs()V
//!          (insn_class, insn_field, insn_method, ldc_class, ldc_mtype, catch, exceptions; an optional 5th cell picks the opcode)
//! The driver only converts values, calls the API and projects results (classes re-read with cfkit); it computes no expectation.
use std::collections::BTreeMap;
use std::hash::{Hash, Hasher};
use std::marker::PhantomData;
use anyhow::{anyhow, bail, Context, Result};
use indexmap::IndexMap;
use rand::rngs::StdRng;
use rand::{Rng, SeedableRng};
use serde_json::{json, Map, Value};
use duke::tree::class::ObjClassName;
use duke::tree::method::{MethodDescriptor, MethodName, MethodNameAndDesc};
use dukebox::storage::UnnamedMemJar;
use dukenest::nest::{Nest, NestType, Nests};
use quill::tree::mappings::Mappings;
use crate::gen_quill::pick;
use crate::jarkit::{unzip_entries, zip_entries};
use crate::proj_quill::*;

pub struct NsA;
pub struct NsB;

// ---------------------------------------------------------------------------------------------
// values -> API types

fn s<'a>(v: &'a Value, what: &str) -> Result<&'a str> { v.as_str().with_context(|| format!("{what}: string expected, got {v}")) }
fn arr(v: &Value) -> &[Value] { v.as_array().map(|a| a.as_slice()).unwrap_or(&[]) }

fn nest_from_json(v: &Value) -> Result<Nest> {
	let m = arr(&v["m"]);
	Ok(Nest {
		nest_type: match s(&v["type"], "type")? { "anonymous" => NestType::Anonymous, "inner" => NestType::Inner, "local" => NestType::Local, t => bail!("nest type {t}") },
		class_name: ObjClassName::try_from(js(s(&v["cls"], "cls")?))?,
		encl_class_name: ObjClassName::try_from(js(s(&v["encl"], "encl")?))?,
		encl_method: if m.is_empty() { None } else {
			Some(MethodNameAndDesc { name: MethodName::try_from(js(s(&m[0], "m name")?))?, desc: MethodDescriptor::try_from(js(s(&m[1], "m desc")?))? })
		},
		inner_name: ObjClassName::try_from(js(s(&v["inner"], "inner")?))?,
		inner_access: (v["acc"].as_u64().context("acc")? as u16).into(),
	})
}

/// The table as a value, or - `via` = "text" - read by the code under test from the rendered text (None: the text was refused).
fn nests_of<N>(v: &Value) -> Result<Option<Nests<N>>> {
	if v["via"] == "text" {
		return Ok(Nests::<N>::read(&s(&v["text"], "text")?.as_bytes().to_vec()).ok());
	}
	let mut all = IndexMap::new();
	for n in arr(&v["nests"]) {
		let n = nest_from_json(n)?;
		all.insert(n.class_name.clone(), n);
	}
	Ok(Some(Nests { phantom: PhantomData, all }))
}

fn nest_to_json(n: &Nest) -> Value {
	json!({
		"cls": n.class_name.to_string(), "encl": n.encl_class_name.to_string(),
		"m": match &n.encl_method { None => json!([]), Some(m) => json!([m.name.to_string(), m.desc.to_string()]) },
		"inner": n.inner_name.to_string(), "acc": u16::from(n.inner_access),
		"type": match n.nest_type { NestType::Anonymous => "anonymous", NestType::Inner => "inner", NestType::Local => "local" },
	})
}
fn nests_to_json<N>(n: &Nests<N>) -> Value {
	let mut m = Map::new();
	let mut order = vec![];
	for (k, v) in &n.all { m.insert(k.to_string(), nest_to_json(v)); order.push(json!(k.to_string())); }
	json!({"st": "ok", "nests": m, "order": order})
}

// ---------------------------------------------------------------------------------------------
// recipe -> class file (independent assembler), class file -> projection (independent parser)

fn opt(x: &Value) -> Option<&str> { x.as_str().filter(|t| !t.is_empty()) }

fn class_facts(name: &str, c: &Value) -> Result<Value> {
	let fields: Vec<Value> = arr(&c["fields"]).iter().map(|f| cfkit::samples::member(0x0001, f[0].as_str().unwrap_or("f"), f[1].as_str().unwrap_or("I"), json!({}))).collect();
	let mut methods: Vec<Value> = arr(&c["methods"]).iter().map(|m| cfkit::samples::member(0x0401, m[0].as_str().unwrap_or("m"), m[1].as_str().unwrap_or("()V"), json!({}))).collect();
	let code = arr(&c["code"]);
	if !code.is_empty() {
		let mut insns = vec![];
		let mut catches = vec![];
		let mut throws = vec![];
		for r in code {
			let (kind, owner, mname, desc) = (s(&r[0], "kind")?, r[1].as_str().unwrap_or(""), r[2].as_str().unwrap_or(""), r[3].as_str().unwrap_or(""));
			let opc = r.get(4).and_then(|x| x.as_str());
			match kind {
				"insn_class" => insns.push(json!({"op": opc.unwrap_or(if owner.starts_with('[') { "checkcast" } else { "new" }), "class": owner})),
				"insn_field" => insns.push(json!({"op": opc.unwrap_or("getstatic"), "owner": owner, "name": mname, "desc": desc})),
				"insn_method" => match opc.unwrap_or("invokestatic") {
					"invokeinterface" => insns.push(json!({"op": "invokeinterface", "owner": owner, "name": mname, "desc": desc})),
					o => insns.push(json!({"op": o, "owner": owner, "name": mname, "desc": desc, "itf": false})),
				},
				"ldc_class" => insns.push(json!({"op": "ldc", "const": {"class": owner}})),
				"ldc_mtype" => insns.push(json!({"op": "ldc", "const": {"method_type": desc}})),
				"catch" => catches.push(owner.to_owned()),
				"exceptions" => throws.push(json!(owner)),
				k => bail!("recipe: unknown code row kind {k}"),
			}
		}
		insns.push(json!({"op": "return"}));
		let last = insns.len() - 1;
		if last == 0 && !catches.is_empty() { insns.insert(0, json!({"op": "nop"})); }
		let last = insns.len() - 1;
		let exc: Vec<Value> = catches.iter().map(|c| json!({"start": 0, "end": last, "handler": last, "catch": c})).collect();
		let mut m = cfkit::samples::method_with_code(0x0009, "refs", "()V", cfkit::samples::code(16, 4, insns, exc, json!({})));
		if !throws.is_empty() { m["attrs"]["Exceptions"] = Value::Array(throws); }
		methods.push(m);
	}
	let mut attrs = Map::new();
	let ic: Vec<Value> = arr(&c["ic"]).iter().map(|r| {
		let mut o = Map::new();
		o.insert("inner".into(), r[0].clone());
		if let Some(x) = opt(&r[1]) { o.insert("outer".into(), json!(x)); }
		if let Some(x) = opt(&r[2]) { o.insert("name".into(), json!(x)); }
		o.insert("access".into(), r[3].clone());
		Value::Object(o)
	}).collect();
	if !ic.is_empty() { attrs.insert("InnerClasses".into(), Value::Array(ic)); }
	let em = arr(&c["em"]);
	if !em.is_empty() {
		let mut o = Map::new();
		o.insert("class".into(), em[0].clone());
		if let (Some(n), Some(d)) = (opt(&em[1]), opt(&em[2])) { o.insert("method".into(), json!({"name": n, "desc": d})); }
		attrs.insert("EnclosingMethod".into(), Value::Object(o));
	}
	let ver = c.get("ver").and_then(|v| v.as_u64()).unwrap_or(52) as u16;
	let mut f = cfkit::samples::class([ver, 0], 0x0421, name, opt(&c["super"]), fields, methods, Value::Object(attrs));
	f["interfaces"] = if c["itfs"].is_array() { c["itfs"].clone() } else { json!([]) };
	Ok(f)
}

fn build_jar(recipe: &Value, others: &Value, dirs: &Value) -> Result<Vec<(String, Vec<u8>)>> {
	let mut entries = vec![];
	for (name, c) in recipe.as_object().context("jar recipe")? {
		let f = class_facts(name, c)?;
		let bytes = cfkit::asm::assemble(&f, &cfkit::asm::Encoding::default()).map_err(|e| anyhow!("assemble {name}: {e:?}"))?;
		entries.push((format!("{name}.class"), bytes));
	}
	for (name, text) in others.as_object().into_iter().flatten() {
		entries.push((name.clone(), text.as_str().unwrap_or("").as_bytes().to_vec()));
	}
	for d in arr(dirs) { entries.push((d.as_str().unwrap_or("d/").to_owned(), vec![])); }
	Ok(entries)
}

fn sd(v: Option<&Value>) -> String { match v { None | Some(Value::Null) => String::new(), Some(x) => cfkit::facts::s_display(x) } }

/// What a class file states, split into reference rows (without the InnerClasses / EnclosingMethod rows), those two attributes, and an
/// identifier of everything else.
fn project_class(bytes: &[u8]) -> Result<Value> {
	let p = cfkit::parse::parse_class_facts_only(bytes).map_err(|e| anyhow!("result class does not parse: {e:?}"))?;
	let facts = p.facts;
	let mut rowseq = vec![];
	let mut bag: BTreeMap<String, u64> = BTreeMap::new();
	for r in cfkit::refs::references(&facts) {
		if matches!(r.kind, "inner_class_inner" | "inner_class_outer" | "enclosing_method") { continue; }
		let (o, n, d) = (sd(r.owner.as_ref()), sd(r.name.as_ref()), sd(r.desc.as_ref()));
		*bag.entry(format!("{} {} {} {}", r.kind, o, n, d)).or_insert(0) += 1;
		rowseq.push(json!([r.kind, o, n, d]));
	}
	let ic: Vec<Value> = arr(&facts["attrs"]["InnerClasses"]).iter().map(|r| json!([sd(r.get("inner")), sd(r.get("outer")), sd(r.get("name")), r["access"]])).collect();
	let em = match facts["attrs"].get("EnclosingMethod") {
		None => json!([]),
		Some(e) => json!([sd(e.get("class")), sd(e.get("method").and_then(|m| m.get("name"))), sd(e.get("method").and_then(|m| m.get("desc")))]),
	};
	let mut res = cfkit::refs::residual(&facts);
	if let Some(a) = res.get_mut("attrs").and_then(|a| a.as_object_mut()) { a.remove("InnerClasses"); a.remove("EnclosingMethod"); }
	let mut h = std::collections::hash_map::DefaultHasher::new();
	serde_json::to_string(&res)?.hash(&mut h);
	Ok(json!({"rows": bag, "rowseq": rowseq, "ic": ic, "em": em, "res": format!("{:016x}", h.finish()), "ver": facts["version"], "acc": facts["access"]}))
}

/// Projection of a whole jar: classes by name (entry name without ".class"; must equal the name the class states), other entries by content.
fn project_jar(entries: &[(String, Vec<u8>)]) -> Result<Value> {
	let mut classes = Map::new();
	let mut names = Map::new();
	let mut others = Map::new();
	let mut dirs = vec![];
	for (name, data) in entries {
		if let Some(cn) = name.strip_suffix(".class") {
			let p = project_class(data)?;
			let this = p["rowseq"].as_array().and_then(|r| r.iter().find(|x| x[0] == "this")).map(|x| x[1].clone()).unwrap_or(Value::Null);
			let key = if this == json!(cn) { cn.to_owned() } else { format!("{cn} (states {this})") };
			if classes.contains_key(&key) { bail!("duplicate entry {name}"); }
			names.insert(key.clone(), json!(true));
			classes.insert(key, p);
		} else if !name.ends_with('/') {
			others.insert(name.clone(), json!(String::from_utf8_lossy(data)));
		} else {
			dirs.push(json!(name));
		}
	}
	Ok(json!({"st": "ok", "names": names, "classes": classes, "others": others, "dirs": dirs}))
}

/// Ok((result entries, id of the non-reference content of every input class)) or Err(stage that refused).
type JarRun = std::result::Result<(Vec<(String, Vec<u8>)>, Value), &'static str>;
fn run_nest_jar(v: &Value) -> Result<JarRun> {
	let entries = build_jar(&v["jar"], &v["others"], &v["dirs"])?;
	let mut res_in = Map::new();
	for (name, data) in &entries {
		if let Some(cn) = name.strip_suffix(".class") { res_in.insert(cn.to_owned(), project_class(data)?["res"].clone()); }
	}
	let src = UnnamedMemJar { data: zip_entries(&entries)? };
	let Some(nests) = nests_of::<NsA>(v)? else { return Ok(Err("read")) };
	let out = match dukenest::nest_jar(true, &src, nests) { Ok(o) => o, Err(_) => return Ok(Err("nest_jar")) };
	let mem = match out.to_mem() { Ok(m) => m, Err(_) => return Ok(Err("write")) };
	Ok(Ok((unzip_entries(&mem.data)?, Value::Object(res_in))))
}

fn src_view(t: &Value) -> Value {
	let mut t = t.clone();
	if let Some(k) = t.get_mut("kids").and_then(|k| k.as_object_mut()) {
		for c in k.values_mut() {
			let first = c["names"][0].clone();
			c["names"] = json!([first, ""]);
		}
	}
	t
}
fn res_map(r: Result<Mappings<2, (NsA, NsB)>>) -> Value {
	match r { Ok(m) => { let t = tree_to_json(&m); json!({"st": "ok", "src": src_view(&t), "v": t}) }, Err(_) => json!({"st": "err"}) }
}

pub fn exec(v: &Value) -> Result<Value> {
	match s(&v["op"], "op")? {
		"nest_jar" => Ok(match run_nest_jar(v)? {
			Ok((e, res_in)) => { let mut p = project_jar(&e)?; p["resIn"] = res_in; p },
			Err(w) => json!({"st": "err", "where": w}),
		}),
		"agree" => {
			let jar = match run_nest_jar(v)? { Ok((e, _)) => project_jar(&e)?, Err(w) => return Ok(json!({"st": "err", "where": w})) };
			let tree: Mappings<2, (NsA, NsB)> = json_to_tree(&v["tree"])?;
			let Some(nests) = nests_of::<NsA>(v)? else { return Ok(json!({"st": "err", "where": "read"})) };
			let m = match dukenest::apply_nests_to_mappings(tree, &nests) { Ok(m) => m, Err(_) => return Ok(json!({"st": "err", "where": "apply"})) };
			let mut names = Map::new();
			for k in m.classes.keys() { names.insert(k.to_string(), json!(true)); }
			Ok(json!({"st": "ok", "jarNames": jar["names"], "mapNames": names, "others": jar["others"]}))
		},
		op @ ("apply" | "undo" | "applyundo") => {
			let tree: Mappings<2, (NsA, NsB)> = json_to_tree(&v["tree"])?;
			let Some(nests) = nests_of::<NsA>(v)? else { return Ok(json!({"st": "err", "where": "read"})) };
			Ok(res_map(match op {
				"apply" => dukenest::apply_nests_to_mappings(tree, &nests),
				"undo" => dukenest::undo_nests_to_mappings(tree, &nests),
				_ => dukenest::apply_nests_to_mappings(tree, &nests).and_then(|m| dukenest::undo_nests_to_mappings(m, &nests)),
			}))
		},
		"remap_nests" => {
			let tree: Mappings<2, (NsA, NsB)> = json_to_tree(&v["tree"])?;
			let Some(nests) = nests_of::<NsA>(v)? else { return Ok(json!({"st": "err", "where": "read"})) };
			Ok(match dukenest::remap_nests(&nests, &tree) { Ok(n) => nests_to_json(&n), Err(_) => json!({"st": "err"}) })
		},
		"read" => Ok(match Nests::<NsA>::read(&s(&v["text"], "text")?.as_bytes().to_vec()) { Ok(n) => nests_to_json(&n), Err(_) => json!({"st": "err"}) }),
		op => bail!("C14: unknown op {op}"),
	}
}

// ---------------------------------------------------------------------------------------------
// random inputs (never expectations)

fn render(nests: &[Value]) -> String {
	let mut t = String::new();
	for n in nests {
		let m = arr(&n["m"]);
		t.push_str(&format!("{}\t{}\t{}\t{}\t{}\t{}\n", n["cls"].as_str().unwrap_or(""), n["encl"].as_str().unwrap_or(""),
			m.first().and_then(|x| x.as_str()).unwrap_or(""), m.get(1).and_then(|x| x.as_str()).unwrap_or(""), n["inner"].as_str().unwrap_or(""), n["acc"]));
	}
	t
}

fn nest_type_of(inner: &str) -> &'static str {
	// the three kinds of the file format, needed to hand a *value* to the API (the text path lets the code decide)
	if inner.bytes().all(|b| b.is_ascii_digit()) { "anonymous" } else if inner.as_bytes()[0].is_ascii_digit() { "local" } else { "inner" }
}

struct World { classes: Vec<String>, absent: Vec<String>, missing: Vec<String> }

fn gen_world(r: &mut StdRng) -> World {
	let pk = *pick(r, &["net/minecraft/unmapped", "a", "com/example/deep/pkg", "x/y"]);
	let style = r.gen_range(0..3);
	let name = |i: usize| match style { 0 => format!("{pk}/C_{}", 1000 + i * 37), 1 => format!("{pk}/Cls{i}"), _ => format!("{}{}", ["a/A", "b/B", "C"][i % 3], i) };
	let nc = r.gen_range(3..10usize);
	World {
		classes: (0..nc).map(name).collect(),
		absent: (0..3).map(|i| format!("{pk}/Gone{i}")).collect(),
		missing: (0..2).map(|i| format!("{pk}/Missing{i}")).collect(),
	}
}

fn gen_desc(r: &mut StdRng, pool: &[String], method: bool) -> String {
	let ty = |r: &mut StdRng| -> String {
		let dims = if r.gen_bool(0.25) { r.gen_range(1..3) } else { 0 };
		let base = if r.gen_bool(0.3) { pick(r, &["I", "J", "Z", "D", "Ljava/lang/String;"]).to_string() } else { format!("L{};", pick(r, pool)) };
		format!("{}{}", "[".repeat(dims), base)
	};
	if !method { return ty(r); }
	let n = r.gen_range(0..4);
	let ps: String = (0..n).map(|_| ty(r)).collect();
	let ret = if r.gen_bool(0.3) { "V".to_owned() } else { ty(r) };
	format!("({ps}){ret}")
}

fn gen_recipe(r: &mut StdRng, w: &World) -> Value {
	let mut pool: Vec<String> = w.classes.clone();
	pool.extend(w.absent.iter().cloned());
	pool.extend(w.missing.iter().cloned());
	let mut jar = Map::new();
	for (i, c) in w.classes.iter().enumerate() {
		let sup = if i > 0 && r.gen_bool(0.4) { w.classes[r.gen_range(0..i)].clone() } else { "java/lang/Object".to_owned() };
		let itfs: Vec<String> = (0..r.gen_range(0..3)).map(|_| pick(r, &pool).clone()).collect();
		let fields: Vec<Value> = (0..r.gen_range(0..4)).map(|k| json!([format!("f{k}"), gen_desc(r, &pool, false)])).collect();
		let mut methods: Vec<Value> = (0..r.gen_range(0..4)).map(|k| json!([format!("m{k}"), gen_desc(r, &pool, true)])).collect();
		methods.push(json!(["encl", "()V"]));
		if r.gen_bool(0.5) { methods.push(json!(["encl2", gen_desc(r, &pool, true)])); }
		let mut code = vec![];
		for _ in 0..r.gen_range(0..9) {
			let o = pick(r, &pool).clone();
			code.push(match r.gen_range(0..8) {
				0 => json!(["insn_class", o, "", "", pick(r, &["new", "checkcast", "instanceof", "anewarray"])]),
				1 => json!(["insn_class", format!("[L{o};"), "", "", pick(r, &["checkcast", "instanceof", "anewarray"])]),
				2 => json!(["insn_field", o, "fld", gen_desc(r, &pool, false), pick(r, &["getstatic", "putstatic", "getfield", "putfield"])]),
				3 => json!(["insn_method", o, "call", gen_desc(r, &pool, true), pick(r, &["invokestatic", "invokevirtual", "invokespecial", "invokeinterface"])]),
				4 => json!(["ldc_class", o, "", ""]),
				5 => json!(["ldc_mtype", "", "", gen_desc(r, &pool, true)]),
				6 => json!(["catch", o, "", ""]),
				_ => json!(["exceptions", o, "", ""]),
			});
		}
		let ic: Vec<Value> = if r.gen_bool(0.2) { vec![json!([pick(r, &pool), if r.gen_bool(0.5) { pick(r, &pool).clone() } else { String::new() }, if r.gen_bool(0.5) { "Old" } else { "" }, r.gen_range(0..32)])] } else { vec![] };
		let em = if r.gen_bool(0.1) { json!([pick(r, &pool), "encl", "()V"]) } else { json!([]) };
		jar.insert(c.clone(), json!({"super": sup, "itfs": itfs, "fields": fields, "methods": methods, "code": code, "ic": ic, "em": em,
			"ver": *pick(r, &[49u16, 50, 52, 55, 61])}));
	}
	Value::Object(jar)
}

/// A table over the world: chains (the enclosing class of a nest may be the class of another nest), missing enclosing classes, classes not in
/// the jar, the three kinds with enclosing methods present / absent / not given, custom and derived inner names. `plain` keeps listed classes
/// that are absent from the jar from being enclosing classes.
fn gen_nests(r: &mut StdRng, w: &World, recipe: &Value, plain: bool, only_applicable: bool) -> Vec<Value> {
	let mut order: Vec<usize> = (0..w.classes.len()).collect();
	for i in (1..order.len()).rev() { order.swap(i, r.gen_range(0..=i)); }
	let k = r.gen_range(1..=order.len().min(8));
	let mut nests = vec![];
	let mut used_inner: Vec<String> = vec![];
	for (j, &ci) in order.iter().take(k).enumerate() {
		let absent = !only_applicable && r.gen_bool(0.12);
		let cls = if absent { w.absent[j % w.absent.len()].clone() } else { w.classes[ci].clone() };
		if nests.iter().any(|n: &Value| n["cls"] == json!(cls)) { continue; }
		// enclosing class: a class not yet nested in this table "after" this one (acyclic: only classes later in `order`), a missing class,
		// or (not plain) a listed absent class
		let later: Vec<&usize> = order.iter().skip(j + 1).collect();
		let encl = match r.gen_range(0..10) {
			0 => w.missing[r.gen_range(0..w.missing.len())].clone(),
			1 if !plain => w.absent[(j + 1) % w.absent.len()].clone(),
			_ if !later.is_empty() => w.classes[**pick(r, &later)].clone(),
			_ => w.missing[0].clone(),
		};
		if encl == cls { continue; }
		let encl_methods: Vec<(String, String)> = arr(&recipe[&encl]["methods"]).iter().map(|m| (m[0].as_str().unwrap_or("").to_owned(), m[1].as_str().unwrap_or("").to_owned())).collect();
		let simple = cls.rsplit('/').next().unwrap_or(&cls).to_owned();
		let mut kind = r.gen_range(0..3);
		if only_applicable && kind == 2 && encl_methods.is_empty() { kind = 0; }
		let wrong = !only_applicable && r.gen_bool(0.2);       // violate the rule of the kind
		let present_m = || -> Option<Value> { encl_methods.first().map(|(n, d)| json!([n, d])) };
		// a method the enclosing class does not declare: a foreign name, or a declared name with another descriptor
		let absent_m = match encl_methods.first() { Some((n, _)) if r.gen_bool(0.5) => json!([n, "(Ljava/lang/Void;)J"]), _ => json!(["nope", "(I)V"]) };
		let (inner, m) = match kind {
			0 => {      // inner: derived or custom name; no method, or one the enclosing class does not declare
				let inner = if r.gen_bool(0.5) { simple.clone() } else { format!("In{j}") };
				let m = if wrong { present_m().unwrap_or(json!([])) } else if r.gen_bool(0.3) { absent_m.clone() } else { json!([]) };
				(inner, m)
			},
			1 => {      // anonymous
				let inner = if wrong { pick(r, &["0", "00"]).to_string() } else { format!("{}{}", if r.gen_bool(0.2) { "0" } else { "" }, j + 1) };
				let m = match r.gen_range(0..3) { 0 => json!([]), 1 => present_m().unwrap_or(json!([])), _ => absent_m.clone() };
				(inner, m)
			},
			_ => {      // local
				let inner = format!("{}{}", j + 1, if r.gen_bool(0.5) { simple.clone() } else { format!("Loc{j}") });
				let m = if wrong { if r.gen_bool(0.5) { json!([]) } else { absent_m.clone() } } else { present_m().unwrap_or(absent_m.clone()) };
				(inner, m)
			},
		};
		let key = format!("{encl}${inner}");
		if used_inner.contains(&key) { continue; }
		used_inner.push(key);
		nests.push(json!({"cls": cls, "encl": encl, "m": m, "inner": inner, "acc": *pick(r, &[0u16, 1, 2, 8, 9, 10, 0x4018, 0x1000, 0x0608]), "type": nest_type_of(&inner)}));
	}
	if r.gen_bool(0.5) { nests.reverse(); }
	nests
}

/// Mappings over the world: most classes named (plain, Calamus style C_<n>, already nested A__B), some without target name, some absent;
/// members whose descriptors mention classes of the world.
fn gen_tree(r: &mut StdRng, names: &[String], pool: &[String], all_named: bool, recipe: Option<&Value>) -> Value {
	let mut kids = Map::new();
	for (i, c) in names.iter().enumerate() {
		if !all_named && r.gen_bool(0.15) { continue; }
		let simple = c.rsplit('/').next().unwrap_or(c);
		let tgt = if !all_named && r.gen_bool(0.08) { String::new() } else {
			match r.gen_range(0..10) { 0 => format!("named/C_{}", 100 + i), 1 => format!("named/Outer{}__{}N", i % 2, simple), _ => format!("named/{simple}N") }
		};
		let mut mk = Map::new();
		for k in 0..r.gen_range(0..3) {
			let d = gen_desc(r, pool, false);
			let n = format!("f{k}");
			mk.insert(format!("f {n} {d}"), node("f", json!([n, if r.gen_bool(0.7) { format!("field{k}") } else { String::new() }]), &d, 0, json!([]), Map::new()));
		}
		let declared: Vec<(String, String)> = recipe.map(|rc| arr(&rc[c]["methods"]).iter().map(|m| (m[0].as_str().unwrap_or("").to_owned(), m[1].as_str().unwrap_or("").to_owned())).collect()).unwrap_or_default();
		for k in 0..r.gen_range(0..3) {
			let (n, d) = if !declared.is_empty() && r.gen_bool(0.6) { pick(r, &declared).clone() } else { (format!("m{k}"), gen_desc(r, pool, true)) };
			let mut pk = Map::new();
			if r.gen_bool(0.3) { pk.insert("p 1".into(), node("p", json!(["", "arg"]), "", 1, json!([]), Map::new())); }
			mk.insert(format!("m {n} {d}"), node("m", json!([n, if r.gen_bool(0.7) { format!("method{k}") } else { String::new() }]), &d, 0, if r.gen_bool(0.2) { json!(["doc"]) } else { json!([]) }, pk));
		}
		kids.insert(format!("c {c}"), node("c", json!([c, tgt]), "", 0, json!([]), mk));
	}
	json!({"ns": ["a", "b"], "doc": [], "kids": kids})
}

fn node(kind: &str, names: Value, desc: &str, idx: usize, doc: Value, kids: Map<String, Value>) -> Value {
	json!({"kind": kind, "names": names, "desc": desc, "idx": idx, "doc": doc, "kids": Value::Object(kids)})
}

/// The input jar as the independent parser sees it (rows in their order): part of the *input* of a recorded case.
fn project_input(recipe: &Value) -> Result<Value> {
	let entries = build_jar(recipe, &Value::Null, &Value::Null)?;
	let mut m = Map::new();
	for (name, data) in &entries {
		let mut p = project_class(data)?;
		let o = p.as_object_mut().unwrap();
		let seq = o.remove("rowseq").unwrap();
		o.insert("rows".into(), seq);
		m.insert(name.trim_end_matches(".class").to_owned(), p);
	}
	Ok(Value::Object(m))
}

pub fn gen(seed: u64, n: usize) -> Result<Vec<Value>> {
	let mut r = StdRng::seed_from_u64(seed ^ 0xC14);
	let mut out = vec![];
	while out.len() < n {
		let w = gen_world(&mut r);
		let recipe = gen_recipe(&mut r, &w);
		let mut pool = w.classes.clone();
		pool.extend(w.absent.iter().cloned());
		let via = if r.gen_bool(0.5) { "text" } else { "value" };
		match r.gen_range(0..10) {
			0..=3 => {
				let plain = r.gen_bool(0.9);
				let nests = gen_nests(&mut r, &w, &recipe, plain, false);
				let others = if r.gen_bool(0.5) { json!({"META-INF/MANIFEST.MF": "Manifest-Version: 1.0\n", "assets/x.txt": "p/A"}) } else { json!({}) };
				let dirs = if r.gen_bool(0.4) { json!(["assets/", "META-INF/"]) } else { json!([]) };
				out.push(json!({"op": "nest_jar", "jar": recipe, "jin": project_input(&recipe)?, "others": others, "dirs": dirs, "via": via, "text": render(&nests), "nests": nests}));
			},
			4 => {
				let nests = gen_nests(&mut r, &w, &recipe, true, true);
				let mut names = w.classes.clone();
				for nst in &nests { let e = nst["encl"].as_str().unwrap_or("").to_owned(); if !names.contains(&e) { names.push(e); } }
				let tree = gen_tree(&mut r, &names, &pool, true, Some(&recipe));
				out.push(json!({"op": "agree", "jar": recipe, "jin": project_input(&recipe)?, "tree": tree, "via": via, "text": render(&nests), "nests": nests}));
			},
			5..=7 => {
				let nests = gen_nests(&mut r, &w, &recipe, true, false);
				let named = r.gen_bool(0.6);
				let tree = gen_tree(&mut r, &w.classes, &pool, named, Some(&recipe));
				let op = *pick(&mut r, &["apply", "applyundo", "applyundo"]);
				out.push(json!({"op": op, "tree": tree, "via": via, "text": render(&nests), "nests": nests}));
			},
			8 => {
				let nests = gen_nests(&mut r, &w, &recipe, true, false);
				let named = r.gen_bool(0.5);
				let tree = gen_tree(&mut r, &w.classes, &pool, named, Some(&recipe));
				out.push(json!({"op": "remap_nests", "tree": tree, "via": via, "text": render(&nests), "nests": nests}));
			},
			_ => {
				let nests = gen_nests(&mut r, &w, &recipe, true, false);
				let mut text = render(&nests);
				match r.gen_range(0..6) {
					0 => text = text.replace('\n', "\r\n"),
					1 => { text.pop(); },
					2 => text.push_str("x\ty\n"),
					3 => text = text.replacen('\t', "\t\t", 1),
					_ => {},
				}
				out.push(json!({"op": "read", "text": text}));
			},
		}
	}
	Ok(out)
}
