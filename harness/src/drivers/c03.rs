//! C03: tiny_v2::{read, write_vec}.
//!
//! ops  {"op":"rt","M":tree}                 -> {"same":b,"fixed":b,"read":{ok,v},"nlines":n,"lines":[..]}
//!          written from several insertion orders (same), read back (read), rewritten (fixed)
//!      {"op":"lines","n":N,"lines":[..]}     -> {"ok":b,"v":tree}   the real reader on arbitrary line records
use anyhow::{bail, Context, Result};
use rand::rngs::StdRng;
use rand::{Rng, SeedableRng};
use serde_json::{json, Value};
use quill::tree::mappings::Mappings;
use crate::gen_quill::*;
use crate::proj_quill::*;
use super::res_tree;

fn rt<const N: usize>(m: &Value, seed: u64) -> Result<Value> {
	let base: Mappings<N, Ns> = json_to_tree(m)?;
	let text = quill::tiny_v2::write_vec(&base);
	let text = match text { Ok(t) => t, Err(_) => return Ok(json!({"write": "err"})) };
	let mut same = true;
	let mut r = StdRng::seed_from_u64(seed);
	for _ in 0..3 {
		let mut pf = perm_fn(&mut r);
		let other: Mappings<N, Ns> = json_to_tree_ord(m, &mut pf)?;
		match quill::tiny_v2::write_vec(&other) { Ok(t) => if t != text { same = false; }, Err(_) => same = false }
	}
	// the same text through a writer that takes a few bytes per call, and read from a reader that hands out a few per call
	let mut slow = Vec::new();
	if quill::tiny_v2::write(&base, &mut super::FragW::new(&mut slow)).is_err() || slow != text { same = false; }
	let s = String::from_utf8(text.clone()).context("utf8")?;
	struct FragR<'a>(&'a [u8], usize);
	impl std::io::Read for FragR<'_> {
		fn read(&mut self, buf: &mut [u8]) -> std::io::Result<usize> {
			let n = buf.len().min(self.0.len()).min(if self.1 == 0 { usize::MAX } else { self.1 });
			buf[..n].copy_from_slice(&self.0[..n]);
			self.0 = &self.0[n..];
			Ok(n)
		}
	}
	let back = quill::tiny_v2::read::<N, Ns>(FragR(&text[..], [0, 1, 5, 64][text.len() % 4]));
	let fixed = match &back { Ok(b) => quill::tiny_v2::write_vec(b).map(|t| t == text).unwrap_or(false), Err(_) => false };
	let lines = text_to_lines(&s);
	Ok(json!({"same": same, "fixed": fixed, "read": res_tree(back), "nlines": lines.as_array().map(|a| a.len()).unwrap_or(0), "lines": lines}))
}

fn rd<const N: usize>(lines: &Value) -> Result<Value> {
	let text = lines_to_text(lines)?;
	Ok(res_tree(quill::tiny_v2::read::<N, Ns>(text.as_bytes())))
}

pub fn exec(v: &Value) -> Result<Value> {
	match v["op"].as_str().context("op")? {
		"rt" => {
			let seed = v["seed"].as_u64().unwrap_or(1);
			match v["M"]["ns"].as_array().map(|a| a.len()) {
				Some(2) => rt::<2>(&v["M"], seed), Some(3) => rt::<3>(&v["M"], seed), Some(4) => rt::<4>(&v["M"], seed),
				n => bail!("unsupported N {n:?}"),
			}
		},
		"lines" => match v["n"].as_u64() {
			Some(2) => rd::<2>(&v["lines"]), Some(3) => rd::<3>(&v["lines"]), Some(4) => rd::<4>(&v["lines"]),
			n => bail!("unsupported N {n:?}"),
		},
		op => bail!("C03: unknown op {op}"),
	}
}

pub fn gen(seed: u64, n: usize) -> Result<Vec<Value>> {
	let mut r = StdRng::seed_from_u64(seed ^ 0xC03);
	let mut out = vec![];
	while out.len() < n {
		let nn = *pick(&mut r, &[2usize, 2, 3, 4]);
		let cfg = TreeCfg { n: nn, classes: r.gen_range(0..14), p_missing: *pick(&mut r, &[0.0, 0.2, 0.5]), unicode: r.gen_bool(0.5),
			param_src: r.gen_bool(0.5), root_doc: r.gen_bool(0.2), ..TreeCfg::default() };
		let m = gen_tree(&mut r, &cfg);
		out.push(json!({"op": "rt", "M": m, "seed": r.gen::<u32>()}));
		// the lines the spec's writer shape would produce are not known here; instead take the real text of a
		// smaller tree and damage it: the real reader is then compared with the specification's reader
		let cfg2 = TreeCfg { classes: r.gen_range(1..4), ..cfg.clone() };
		let m2 = gen_tree(&mut r, &cfg2);
		if let Some(mut lines) = real_lines(&m2, nn) {
			let len = lines.len();
			if len > 1 {
				let j = r.gen_range(1..len);
				match r.gen_range(0..7) {
					0 => { let l = lines[j].clone(); lines.insert(j, l); },
					1 => { let i = lines[j]["ind"].as_u64().unwrap_or(0); lines[j]["ind"] = json!(i + 1); },
					2 => { let i = lines[j]["ind"].as_u64().unwrap_or(0); lines[j]["ind"] = json!(i.saturating_sub(1)); },
					3 => { if let Some(c) = lines[j]["cells"].as_array_mut() { c.pop(); } },
					4 => { if let Some(c) = lines[j]["cells"].as_array_mut() { c.push(json!("extra")); } },
					5 => { lines[j]["tag"] = json!("x"); },
					_ => { let k = r.gen_range(1..len); lines.swap(j, k); },
				}
			}
			out.push(json!({"op": "lines", "n": nn, "lines": lines}));
		}
	}
	out.truncate(n);
	Ok(out)
}

fn real_lines(m: &Value, n: usize) -> Option<Vec<Value>> {
	let t = match n {
		2 => quill::tiny_v2::write_string(&json_to_tree::<2, Ns>(m).ok()?).ok()?,
		3 => quill::tiny_v2::write_string(&json_to_tree::<3, Ns>(m).ok()?).ok()?,
		_ => quill::tiny_v2::write_string(&json_to_tree::<4, Ns>(m).ok()?).ok()?,
	};
	text_to_lines(&t).as_array().cloned()
}
