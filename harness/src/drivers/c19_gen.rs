//! C19: seeded random POM universes inside the supported subset (inputs only, no expectations).
//!
//! Up to 12 artifacts (1-2 versions each) in up to 6 layers (dependencies go to deeper layers only, so
//! the universe is acyclic and no path is longer than 5 edges), up to 2 chained parent POMs and 2 BOMs,
//! own managed entries declared before imports, no dependency re-declared by a child of its declarer,
//! an omitted version only where the declaring POM's own effective management has an entry for the key,
//! 3 repositories each serving a random subset (a few POMs in none).  Plus Display/parse round trips.
use std::collections::{BTreeSet, HashMap};
use anyhow::Result;
use rand::rngs::StdRng;
use rand::{Rng, SeedableRng};
use serde_json::{json, Value};

type Key = (String, String, Vec<String>, String);

fn pick<'a, T>(r: &mut StdRng, xs: &'a [T]) -> &'a T { &xs[r.gen_range(0..xs.len())] }

struct Pom { g: String, a: String, v: String, pk: &'static str, par: Option<usize>, inh: bool, mg: Vec<Value>, deps: Vec<Value>, layer: usize }

fn key_of(d: &Value) -> Key {
	let t = d["t"].as_str().unwrap_or("");
	(d["g"].as_str().unwrap_or("").to_owned(), d["a"].as_str().unwrap_or("").to_owned(),
		d["c"].as_array().map(|a| a.iter().map(|x| x.as_str().unwrap_or("").to_owned()).collect()).unwrap_or_default(),
		if t.is_empty() { "jar".to_owned() } else { t.to_owned() })
}

/// keys for which the effective management of pom i has some entry (which one wins is the specification's business)
fn managed_keys(poms: &[Pom], i: usize, out: &mut BTreeSet<Key>) {
	for e in &poms[i].mg {
		if e["s"] == "import" {
			if let Some(b) = poms.iter().position(|p| p.g == e["g"] && p.a == e["a"] && p.v == e["v"]) { managed_keys(poms, b, out); }
		} else {
			out.insert(key_of(e));
		}
	}
	if let Some(p) = poms[i].par { managed_keys(poms, p, out); }
}

fn inherited_dep_keys(poms: &[Pom], i: usize, out: &mut BTreeSet<Key>) {
	let mut cur = poms[i].par;
	while let Some(p) = cur {
		for d in &poms[p].deps { out.insert(key_of(d)); }
		cur = poms[p].par;
	}
}

fn scope(r: &mut StdRng) -> &'static str { *pick(r, &["compile", "provided", "runtime", "test"]) }

fn universe(r: &mut StdRng) -> Value {
	let n_art = r.gen_range(3..=12usize);
	let layers = r.gen_range(2..=6usize).min(n_art);
	let groups = ["org.g", "h"];
	let vers = ["1.0", "2.0"];
	let mut poms: Vec<Pom> = vec![];
	// parents and BOMs first (so that indices of ancestors are smaller)
	let n_par = r.gen_range(0..=2);
	for k in 0..n_par {
		let par = if k > 0 && r.gen_bool(0.6) { Some(k - 1) } else { None };
		poms.push(Pom { g: "org.g".into(), a: format!("par{k}"), v: "1.0".into(), pk: "pom", par, inh: par.is_some() && r.gen_bool(0.5), mg: vec![], deps: vec![], layer: 0 });
	}
	let n_bom = r.gen_range(0..=2);
	let bom0 = poms.len();
	for k in 0..n_bom {
		let par = if n_par > 0 && r.gen_bool(0.2) { Some(r.gen_range(0..n_par)) } else { None };
		poms.push(Pom { g: "org.g".into(), a: format!("bom{k}"), v: "1.0".into(), pk: "pom", par, inh: false, mg: vec![], deps: vec![], layer: 0 });
	}
	// artifacts
	let jar0 = poms.len();
	let mut arts: Vec<(String, String, usize, Vec<String>)> = vec![]; // group, name, layer, versions
	for k in 0..n_art {
		// spread over the layers in order, so that every layer is populated
		let layer = (k * layers / n_art).min(layers - 1);
		let nv = if r.gen_bool(0.5) { 2 } else { 1 };
		arts.push((pick(r, &groups).to_string(), format!("a{k}"), layer, vers[..nv].iter().map(|s| s.to_string()).collect()));
	}
	for (g, a, layer, vs) in &arts {
		for v in vs {
			let par = if n_par > 0 && r.gen_bool(0.3) { Some(r.gen_range(0..n_par)) } else { None };
			let inh = par.is_some() && g == "org.g" && v == "1.0" && r.gen_bool(0.5);
			poms.push(Pom { g: g.clone(), a: a.clone(), v: v.clone(), pk: "jar", par, inh, mg: vec![], deps: vec![], layer: *layer });
		}
	}
	let variant = |r: &mut StdRng| -> (Vec<String>, &'static str) {
		let c = if r.gen_bool(0.12) { vec!["cl".to_string()] } else { vec![] };
		let t = *pick(r, &["", "", "", "", "jar", "war"]);
		(c, t)
	};
	// management: own entries (any artifact deeper than the POM's layer; parents / BOMs: any), then imports
	for i in 0..poms.len() {
		let n_mg = if poms[i].pk == "pom" { r.gen_range(0..=4) } else { *pick(r, &[0, 0, 0, 1, 2]) };
		let mut keys = BTreeSet::new();
		for _ in 0..n_mg {
			let (g, a, layer, vs) = pick(r, &arts).clone();
			if poms[i].pk == "jar" && layer <= poms[i].layer { continue; }
			let (c, t) = variant(r);
			let e = json!({"g": g, "a": a, "c": c, "t": t, "v": pick(r, &vs), "s": if r.gen_bool(0.3) { scope(r) } else { "" }});
			if keys.insert(key_of(&e)) { poms[i].mg.push(e); }
		}
		// imports: BOMs import earlier BOMs only, and an ancestor of a BOM imports nothing (acyclic)
		let mut bom_ancestor = false;
		for b in bom0..bom0 + n_bom {
			let mut cur = poms[b].par;
			while let Some(p) = cur { if p == i { bom_ancestor = true; } cur = poms[p].par; }
		}
		for b in bom0..bom0 + n_bom {
			let may = if i >= jar0 { true } else if i < bom0 { !bom_ancestor } else { b < i };
			if may && r.gen_bool(if i >= jar0 { 0.25 } else { 0.3 }) {
				let e = json!({"g": poms[b].g, "a": poms[b].a, "c": [], "t": "pom", "v": poms[b].v, "s": "import"});
				poms[i].mg.push(e);
			}
		}
	}
	// dependencies: parents first (children must not re-declare them)
	for i in (0..n_par).chain(jar0..poms.len()) {
		let n_dep = if poms[i].pk == "pom" { *pick(r, &[0, 0, 1, 2]) } else { *pick(r, &[0, 1, 2, 2, 3, 3, 3]) };
		let mut taken = BTreeSet::new();
		inherited_dep_keys(&poms, i, &mut taken);
		let mut managed = BTreeSet::new();
		managed_keys(&poms, i, &mut managed);
		// jars depend on deeper layers; parents on the deepest layer only, so that every child is above it
		let own_layer = poms[i].layer;
		let is_jar = poms[i].pk == "jar";
		let cands: Vec<_> = arts.iter().filter(|x| if is_jar { x.2 > own_layer } else { x.2 + 1 >= layers }).cloned().collect();
		if cands.is_empty() { continue; }
		for _ in 0..n_dep {
			let (mut g, mut a, _layer, mut vs) = pick(r, &cands).clone();
			let (mut c, mut t) = variant(r);
			// often depend on something the POM's management knows, so that omitted versions are common
			let known: Vec<&Key> = managed.iter().filter(|k| cands.iter().any(|x| x.0 == k.0 && x.1 == k.1)).collect();
			if !known.is_empty() && r.gen_bool(0.45) {
				let k = *pick(r, &known);
				let x = cands.iter().find(|x| x.0 == k.0 && x.1 == k.1).unwrap();
				(g, a, vs) = (x.0.clone(), x.1.clone(), x.3.clone());
				c = k.2.clone();
				t = if k.3 == "jar" { "" } else { "war" };
			}
			let mut d = json!({"g": g, "a": a, "c": c, "t": t, "v": pick(r, &vs),
				"s": if r.gen_bool(0.4) { *pick(r, &["compile", "runtime", "runtime", "provided", "test"]) } else { "" },
				"o": *pick(r, &["", "", "", "", "", "true", "false"])});
			let k = key_of(&d);
			if taken.iter().any(|x| x.0 == k.0 && x.1 == k.1) { continue; }
			if managed.contains(&k) && r.gen_bool(0.7) { d["v"] = json!(""); }
			taken.insert(k);
			poms[i].deps.push(d);
		}
	}
	// children of a parent with dependencies must lie above the deepest layer: drop the parent otherwise
	for i in jar0..poms.len() {
		let mut cur = poms[i].par;
		let mut bad = false;
		while let Some(p) = cur { if !poms[p].deps.is_empty() && poms[i].layer + 1 >= layers { bad = true; } cur = poms[p].par; }
		if bad { poms[i].par = None; poms[i].inh = false; }
	}
	// now and then a child manages (again) what an ancestor depends on: the child's entry is the one that counts
	for i in 0..poms.len() {
		let mut cur = poms[i].par;
		let mut extra = vec![];
		while let Some(p) = cur {
			for d in &poms[p].deps {
				if r.gen_bool(0.3) {
					let vs = &arts.iter().find(|x| d["g"] == x.0.as_str() && d["a"] == x.1.as_str()).unwrap().3;
					extra.push(json!({"g": d["g"], "a": d["a"], "c": d["c"], "t": d["t"], "v": pick(r, vs),
						"s": if r.gen_bool(0.3) { scope(r) } else { "" }}));
				}
			}
			cur = poms[p].par;
		}
		for e in extra {
			if !poms[i].mg.iter().any(|m| m["s"] != "import" && key_of(m) == key_of(&e)) { poms[i].mg.insert(0, e); }
		}
	}
	// an omitted version must still be managed after the edits above
	for i in 0..poms.len() {
		let mut managed = BTreeSet::new();
		managed_keys(&poms, i, &mut managed);
		let vs: HashMap<(String, String), String> = arts.iter().map(|(g, a, _, vs)| ((g.clone(), a.clone()), vs[0].clone())).collect();
		for d in poms[i].deps.iter_mut() {
			if d["v"] == "" && !managed.contains(&key_of(d)) {
				d["v"] = json!(vs[&(d["g"].as_str().unwrap().to_owned(), d["a"].as_str().unwrap().to_owned())]);
			}
		}
	}
	// repositories
	let n_repo = 3;
	let mut has: Vec<Vec<Value>> = vec![vec![]; n_repo];
	let lossy = r.gen_bool(0.15);
	for p in &poms {
		let id = json!({"g": p.g, "a": p.a, "v": p.v});
		if lossy && r.gen_bool(0.08) { continue; }
		let first = r.gen_range(0..n_repo);
		for (k, h) in has.iter_mut().enumerate() {
			if k == first || r.gen_bool(0.2) { h.push(id.clone()); }
		}
	}
	let urls = ["mem://one", "mem://two/", "https://repo.example.org/maven2"];
	let repos: Vec<Value> = (0..n_repo).map(|k| json!({"name": format!("repo{k}"), "url": urls[k], "has": has[k]})).collect();
	// roots: artifacts of the first two layers
	let top: Vec<&Pom> = poms[jar0..].iter().filter(|p| p.layer <= 1 && (p.layer == 0 || r.gen_bool(0.3))).collect();
	let mut roots = vec![];
	for _ in 0..r.gen_range(1..=4) {
		let p = pick(r, &top);
		let (c, t) = variant(r);
		let s = *pick(r, &["compile", "compile", "compile", "runtime", "provided", "test"]);
		roots.push(json!({"g": p.g, "a": p.a, "v": p.v, "c": c, "t": if t.is_empty() { "jar" } else { t }, "s": s}));
	}
	let pj: Vec<Value> = poms.iter().map(|p| json!({"g": p.g, "a": p.a, "v": p.v, "pk": p.pk,
		"par": p.par.map(|q| vec![json!({"g": poms[q].g, "a": poms[q].a, "v": poms[q].v})]).unwrap_or_default(),
		"inh": p.inh, "mg": p.mg, "deps": p.deps})).collect();
	json!({"op": "resolve", "U": {"poms": pj, "repos": repos}, "roots": roots})
}

/// number of nodes of the uncut expansion (every declared and inherited dependency followed), capped
fn tree_size(rec: &Value) -> usize {
	let poms = rec["U"]["poms"].as_array().unwrap();
	let find = |g: &Value, a: &Value, v: &Value| poms.iter().position(|p| &p["g"] == g && &p["a"] == a && &p["v"] == v);
	fn size(poms: &[Value], find: &dyn Fn(&Value, &Value, &Value) -> Option<usize>, i: usize, memo: &mut HashMap<usize, usize>) -> usize {
		if let Some(&s) = memo.get(&i) { return s; }
		let mut n = 1usize;
		let mut cur = Some(i);
		while let Some(c) = cur {
			for d in poms[c]["deps"].as_array().unwrap() {
				// an omitted version may become any version of the artifact
				let cands: Vec<usize> = if d["v"] == "" {
					(0..poms.len()).filter(|&k| poms[k]["g"] == d["g"] && poms[k]["a"] == d["a"]).collect()
				} else { find(&d["g"], &d["a"], &d["v"]).into_iter().collect() };
				n += cands.into_iter().map(|k| size(poms, find, k, memo)).max().unwrap_or(1);
			}
			cur = poms[c]["par"].as_array().and_then(|a| a.first()).and_then(|p| find(&p["g"], &p["a"], &p["v"]));
		}
		let n = n.min(100_000);
		memo.insert(i, n);
		n
	}
	let mut memo = HashMap::new();
	rec["roots"].as_array().unwrap().iter().map(|r| find(&r["g"], &r["a"], &r["v"]).map(|i| size(poms, &find, i, &mut memo)).unwrap_or(1)).sum()
}

fn word(r: &mut StdRng) -> String {
	let alpha: Vec<char> = "abcdefghijklmnopqrstuvwxyzABC0123456789.-_".chars().collect();
	(0..r.gen_range(1..=10)).map(|_| *pick(r, &alpha)).collect()
}

fn round_trip(r: &mut StdRng) -> Value {
	let c: Vec<String> = if r.gen_bool(0.4) { vec![word(r)] } else { vec![] };
	let x = json!({"g": word(r), "a": word(r), "v": word(r), "c": c, "t": if r.gen_bool(0.5) { "jar".to_string() } else { word(r) }});
	match r.gen_range(0..3) {
		0 => json!({"op": "coord", "x": x}),
		1 => json!({"op": "scope", "x": *pick(r, &["compile", "provided", "runtime", "test", "system"])}),
		_ => {
			let mut y = x;
			y["s"] = json!(*pick(r, &["compile", "provided", "runtime", "test", "system"]));
			y["u"] = json!(format!("{}://{}/{}", pick(r, &["https", "file", "mem"]), word(r), if r.gen_bool(0.5) { "maven/" } else { "" }));
			json!({"op": "found", "x": y})
		},
	}
}

pub fn gen(seed: u64, n: usize) -> Result<Vec<Value>> {
	let mut r = StdRng::seed_from_u64(seed ^ 0xC19);
	let mut out = vec![];
	while out.len() < n {
		if r.gen_bool(0.1) { out.push(round_trip(&mut r)); continue; }
		let u = universe(&mut r);
		if tree_size(&u) <= 150 { out.push(u); }
	}
	Ok(out)
}
