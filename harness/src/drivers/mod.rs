//! One driver module per property; each exposes exec (run one operation record through the real code)
//! and gen (seeded random operation records).
use anyhow::{bail, Result};
use serde_json::Value;

pub mod sys;
pub mod prop;
pub mod cycle;
pub mod jarstore;
pub mod dl;
pub mod c01;
pub mod c02;
pub mod c03;
pub mod c04;
pub mod c05;
pub mod c06;
pub mod c07;
pub mod c08;
pub mod c09;
pub mod c10;
pub mod c11;
pub mod c12;
pub mod c13;
pub mod c14;
pub mod c15;
pub mod c16;
pub mod c17;
pub mod c18;
pub mod c19;
pub mod c20;

/// A writer that takes at most k bytes per call of `Write::write` (k = 0: everything): `write` may accept less than it is given,
/// what ends up in the file may not depend on it.  k cycles through 0, 1, 7, 64 from one writer to the next.
pub struct FragW<'a> { out: &'a mut Vec<u8>, k: usize }
impl<'a> FragW<'a> {
	pub fn new(out: &'a mut Vec<u8>) -> FragW<'a> {
		static N: std::sync::atomic::AtomicUsize = std::sync::atomic::AtomicUsize::new(0);
		FragW { out, k: [0, 1, 7, 64][N.fetch_add(1, std::sync::atomic::Ordering::Relaxed) % 4] }
	}
}
impl std::io::Write for FragW<'_> {
	fn write(&mut self, buf: &[u8]) -> std::io::Result<usize> {
		let n = if self.k == 0 { buf.len() } else { buf.len().min(self.k) };
		self.out.extend_from_slice(&buf[..n]);
		Ok(n)
	}
	fn flush(&mut self) -> std::io::Result<()> { Ok(()) }
}

/// A reader that hands out at most k bytes per call of `Read::read` (k by the length of the input: 0 = all, 1, 5, 64).
pub struct FragR<'a>(&'a [u8], usize);
impl<'a> FragR<'a> {
	pub fn new(b: &'a [u8]) -> FragR<'a> { FragR(b, [0, 1, 5, 64][b.len() % 4]) }
}
impl std::io::Read for FragR<'_> {
	fn read(&mut self, buf: &mut [u8]) -> std::io::Result<usize> {
		let n = buf.len().min(self.0.len()).min(if self.1 == 0 { usize::MAX } else { self.1 });
		buf[..n].copy_from_slice(&self.0[..n]);
		self.0 = &self.0[n..];
		Ok(n)
	}
}

pub fn exec(prop: &str, v: &Value) -> Result<Value> {
	crate::proj_quill::REV.with(|r| r.set(v.get("rev").and_then(Value::as_bool).unwrap_or(false) || std::env::var_os("VERIF_REV").is_some()));
	match prop {
		"C01" => c01::exec(v),
		"C02" => c02::exec(v),
		"C03" => c03::exec(v),
		"C04" => c04::exec(v),
		"C05" => c05::exec(v),
		"C06" => c06::exec(v),
		"C07" => c07::exec(v),
		"C08" => c08::exec(v),
		"C09" => c09::exec(v),
		"C10" => c10::exec(v),
		"C11" => c11::exec(v),
		"C12" => c12::exec(v),
		"C13" => c13::exec(v),
		"C14" => c14::exec(v),
		"C15" => c15::exec(v),
		"C16" => c16::exec(v),
		"C17" => c17::exec(v),
		"C18" => c18::exec(v),
		"C19" => c19::exec(v),
		"C20" => c20::exec(v),
		_ => bail!("unknown property {prop}"),
	}
}

pub fn gen(prop: &str, seed: u64, n: usize) -> Result<Vec<Value>> {
	let mut out = gen1(prop, seed, n)?;
	// every second recorded case of the operations on mapping sets builds its sets with the entries inserted in the opposite order
	if matches!(prop, "C06" | "C08" | "C10" | "C11" | "C12") {
		for (i, rec) in out.iter_mut().enumerate() { if i % 2 == 1 { rec["rev"] = Value::Bool(true); } }
	}
	Ok(out)
}

fn gen1(prop: &str, seed: u64, n: usize) -> Result<Vec<Value>> {
	match prop {
		"C01" => c01::gen(seed, n),
		"C02" => c02::gen(seed, n),
		"C03" => c03::gen(seed, n),
		"C04" => c04::gen(seed, n),
		"C05" => c05::gen(seed, n),
		"C06" => c06::gen(seed, n),
		"C07" => c07::gen(seed, n),
		"C08" => c08::gen(seed, n),
		"C09" => c09::gen(seed, n),
		"C10" => c10::gen(seed, n),
		"C11" => c11::gen(seed, n),
		"C12" => c12::gen(seed, n),
		"C13" => c13::gen(seed, n),
		"C14" => c14::gen(seed, n),
		"C15" => c15::gen(seed, n),
		"C16" => c16::gen(seed, n),
		"C17" => c17::gen(seed, n),
		"C18" => c18::gen(seed, n),
		"C19" => c19::gen(seed, n),
		"C20" => c20::gen(seed, n),
		_ => bail!("unknown property {prop}"),
	}
}

pub fn res_tree<const N: usize, X>(r: anyhow::Result<quill::tree::mappings::Mappings<N, X>>) -> Value {
	match r {
		Ok(m) => serde_json::json!({"ok": true, "v": crate::proj_quill::tree_to_json(&m)}),
		Err(_) => serde_json::json!({"ok": false, "v": []}),
	}
}
