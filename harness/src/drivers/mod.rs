use anyhow::{bail, Result};
use serde_json::Value;

pub mod c03;
pub mod c04;

pub fn exec(prop: &str, v: &Value) -> Result<Value> {
	match prop {
		"C03" => c03::exec(v),
		"C04" => c04::exec(v),
		_ => bail!("unknown property {prop}"),
	}
}

pub fn gen(prop: &str, seed: u64, n: usize) -> Result<Vec<Value>> {
	match prop {
		"C03" => c03::gen(seed, n),
		"C04" => c04::gen(seed, n),
		_ => bail!("unknown property {prop}"),
	}
}

pub fn res_tree<const N: usize, X>(r: anyhow::Result<quill::tree::mappings::Mappings<N, X>>) -> Value {
	match r {
		Ok(m) => serde_json::json!({"ok": true, "v": crate::proj_quill::tree_to_json(&m)}),
		Err(_) => serde_json::json!({"ok": false, "v": []}),
	}
}
