//! Seeded random generators of abstract mapping trees (JSON form of spec/quill/MappingTree.tla).
//! They work on the abstract form only and never call the code under test.
use rand::rngs::StdRng;
use rand::seq::SliceRandom;
use rand::Rng;
use serde_json::{json, Map, Value};

#[derive(Clone)]
pub struct TreeCfg {
	pub n: usize,
	pub classes: usize,
	pub fields: usize,
	pub methods: usize,
	pub params: usize,
	pub p_missing: f64,
	pub p_doc: f64,
	pub unicode: bool,
	pub inner: bool,
	pub packages: bool,
	pub multiline: bool,
	pub param_src: bool,
	pub root_doc: bool,
	/// some comments are the empty string (a value of a mapping set that a .tinydiff cannot spell; C04 only)
	pub empty_doc: bool,
	/// namespaces (0-based, > 0) in which names may be missing; empty = all non-source
	pub missing_in: Vec<usize>,
}

impl Default for TreeCfg {
	fn default() -> Self {
		TreeCfg { n: 2, classes: 6, fields: 3, methods: 3, params: 2, p_missing: 0.15, p_doc: 0.3, unicode: false, inner: true,
			packages: true, multiline: true, param_src: false, root_doc: false, empty_doc: false, missing_in: vec![] }
	}
}

const FDESCS: &[&str] = &["I", "J", "Z", "Ljava/lang/String;", "[I", "LK0;", "[[LK1;", "Lp/q/K2;", "[D", "LK0$In;"];
const MDESCS: &[&str] = &["()V", "(I)V", "(LK0;I)LK1;", "([J)Ljava/lang/Object;", "(Lp/q/K2;[[LK1;)Z", "(IJ)D", "()LK0$In;"];
const UNI: &[&str] = &["\u{dc}n\u{ef}", "\u{540d}", "a\u{10400}b", "\u{3b1}\u{3b2}"];
const DOCS: &[&str] = &["a comment", "two\nlines", "  leading spaces", "with # hash", "blank\n\nline inside", "tab-free \\ backslash x", "\u{e9}\u{e8} unicode",
	"ends with a line break\n", "\nstarts with one", "\n", "blank lines at the end\n\n",
	// a backslash in front of letters other than n (the format escapes line breaks only)
	// spaces beyond ASCII inside a comment (no-break space, ideographic space, line separator, next line): characters like any other
	"10\u{a0}km\u{3000}wide\u{2028}and\u{85}more",
	"C:\\temp\\report.txt matches \\r?$", "\\0 \\u00e9 \\\\ \\"];

pub fn pick<'a, T>(r: &mut StdRng, xs: &'a [T]) -> &'a T { xs.choose(r).expect("non-empty") }

fn simple_name(r: &mut StdRng, cfg: &TreeCfg, prefix: &str) -> String {
	if cfg.unicode && r.gen_bool(0.2) { format!("{}{}", prefix, pick(r, UNI)) } else { format!("{}{}", prefix, r.gen_range(0..40)) }
}

pub fn class_src_names(r: &mut StdRng, cfg: &TreeCfg) -> Vec<String> {
	let mut out: Vec<String> = vec![];
	for i in 0..cfg.classes {
		let base = if cfg.packages && r.gen_bool(0.3) { format!("p/q/K{i}") } else if cfg.packages && r.gen_bool(0.1) { format!("a/b/c/d/K{i}") } else { format!("K{i}") };
		if cfg.inner && !out.is_empty() && r.gen_bool(0.35) {
			let parent = pick(r, &out).clone();
			let inner = if r.gen_bool(0.2) { format!("{}", r.gen_range(1..4)) } else { format!("In{i}") };
			let name = format!("{parent}${inner}");
			if !out.contains(&name) { out.push(name); continue; }
		}
		out.push(base);
	}
	out
}

fn names(r: &mut StdRng, cfg: &TreeCfg, src: &str, prefix: &str) -> Value {
	let mut v = vec![json!(src)];
	for i in 1..cfg.n {
		let may_miss = cfg.missing_in.is_empty() || cfg.missing_in.contains(&i);
		if may_miss && r.gen_bool(cfg.p_missing) { v.push(json!("")); } else { v.push(json!(simple_name(r, cfg, &format!("{prefix}{i}_")))); }
	}
	Value::Array(v)
}

fn doc(r: &mut StdRng, cfg: &TreeCfg) -> Value {
	if cfg.empty_doc && r.gen_bool(0.1) { return json!([""]); }
	if r.gen_bool(cfg.p_doc) {
		let mut d = pick(r, DOCS).to_string();
		if !cfg.multiline { d = d.replace('\n', " "); }
		json!([d])
	} else { json!([]) }
}

pub fn node(kind: &str, names: Value, desc: &str, idx: usize, doc: Value, kids: Map<String, Value>) -> Value {
	json!({"kind": kind, "names": names, "desc": desc, "idx": idx, "doc": doc, "kids": Value::Object(kids)})
}

pub fn gen_param(r: &mut StdRng, cfg: &TreeCfg, idx: usize) -> Value {
	let src = if cfg.param_src && r.gen_bool(0.5) { format!("ps{idx}") } else { String::new() };
	let mut nm = names(r, cfg, &src, "p");
	if src.is_empty() && cfg.n == 2 && nm[1] == json!("") && r.gen_bool(0.8) { nm[1] = json!(format!("p1_{idx}")); }
	node("p", nm, "", idx, doc(r, cfg), Map::new())
}

pub fn gen_class(r: &mut StdRng, cfg: &TreeCfg, src: &str) -> Value {
	let mut kids = Map::new();
	for _ in 0..r.gen_range(0..=cfg.fields) {
		let s = simple_name(r, cfg, "f");
		let d = *pick(r, FDESCS);
		kids.insert(format!("f {s} {d}"), node("f", names(r, cfg, &s, "fn"), d, 0, doc(r, cfg), Map::new()));
	}
	for _ in 0..r.gen_range(0..=cfg.methods) {
		let s = if r.gen_bool(0.1) { "<init>".to_string() } else { simple_name(r, cfg, "m") };
		let d = *pick(r, MDESCS);
		let mut pk = Map::new();
		for _ in 0..r.gen_range(0..=cfg.params) {
			let idx = r.gen_range(0..6usize);
			pk.insert(format!("p {idx}"), gen_param(r, cfg, idx));
		}
		kids.insert(format!("m {s} {d}"), node("m", names(r, cfg, &s, "mn"), d, 0, doc(r, cfg), pk));
	}
	let last = src.rsplit('/').next().unwrap_or(src).replace('$', "_");
	node("c", names(r, cfg, src, &format!("pkg/N{last}_")), "", 0, doc(r, cfg), kids)
}

pub fn gen_tree(r: &mut StdRng, cfg: &TreeCfg) -> Value {
	let ns: Vec<String> = (0..cfg.n).map(|i| format!("ns{i}")).collect();
	let mut ck = Map::new();
	for src in class_src_names(r, cfg) {
		ck.insert(format!("c {src}"), gen_class(r, cfg, &src));
	}
	json!({"ns": ns, "doc": if cfg.root_doc { doc(r, cfg) } else { json!([]) }, "kids": Value::Object(ck)})
}

/// One random edit step in namespace `t` (0-based): rename / unname / name / comment edit / removal / addition.
pub fn edit_tree(r: &mut StdRng, cfg: &TreeCfg, tree: &mut Value, t: usize, allow_unname: bool) {
	fn walk(r: &mut StdRng, cfg: &TreeCfg, kids: &mut Map<String, Value>, t: usize, parent: &str, p: f64, allow_unname: bool) {
		let keys: Vec<String> = kids.keys().cloned().collect();
		for k in keys {
			if r.gen_bool(p) {
				match r.gen_range(0..6) {
					0 => { kids.remove(&k); continue; },
					1 => { let n = &mut kids[&k]["names"][t]; *n = json!(format!("ren{}", r.gen_range(0..50))); },
					2 => { if allow_unname { kids[&k]["names"][t] = json!(""); } },
					3 => { kids[&k]["doc"] = json!([format!("edited {}", r.gen_range(0..9))]); },
					4 => { kids[&k]["doc"] = json!([]); },
					_ => {},
				}
			}
			let kind = kids[&k]["kind"].as_str().unwrap_or("").to_owned();
			if let Some(Value::Object(sub)) = kids.get_mut(&k).and_then(|n| n.get_mut("kids")) {
				walk(r, cfg, sub, t, &kind, p, allow_unname);
			}
		}
		// additions
		if r.gen_bool(p) {
			match parent {
				"r" => { let src = format!("New{}", r.gen_range(0..20)); kids.entry(format!("c {src}")).or_insert_with(|| gen_class(r, cfg, &src)); },
				"c" => {
					let s = format!("nf{}", r.gen_range(0..20));
					let d = *pick(r, FDESCS);
					let nm = names(r, cfg, &s, "fn");
					let dc = doc(r, cfg);
					kids.entry(format!("f {s} {d}")).or_insert_with(|| node("f", nm, d, 0, dc, Map::new()));
				},
				"m" => { let idx = r.gen_range(6..9usize); let pn = gen_param(r, cfg, idx); kids.entry(format!("p {idx}")).or_insert(pn); },
				_ => {},
			}
		}
	}
	if let Some(Value::Object(k)) = tree.get_mut("kids") { walk(r, cfg, k, t, "r", 0.25, allow_unname); }
	if cfg.root_doc && r.gen_bool(0.2) { tree["doc"] = json!(["root edited"]); }
}

/// Returns a random permutation for `json_to_tree_ord`.
pub fn perm_fn(r: &mut StdRng) -> impl FnMut(usize) -> Option<Vec<usize>> + '_ {
	move |n| { let mut p: Vec<usize> = (0..n).collect(); p.shuffle(r); Some(p) }
}
