//! Projection between quill's mapping trees and the abstract uniform tree of spec/quill/MappingTree.tla.
//!
//! Root  {"ns":[..N..], "doc":[]|[text], "kids":{key: Node}}
//! Node  {"kind":"c"|"f"|"m"|"p", "names":[..N.. ("" = absent)], "desc":s, "idx":i, "doc":[]|[text], "kids":{key: Node}}
//! keys  "c <src>" | "f <src> <desc>" | "m <src> <desc>" | "p <idx>"
//! Diff  {"info":Act, "doc":Act, "kids":{key: DNode}}; DNode adds "key":{"kind","name","desc","idx"}
//! Act   ["none"] | ["add",b] | ["rem",a] | ["edit",a,b]; doc payloads are [text]
use anyhow::{anyhow, bail, Context, Result};
use indexmap::IndexMap;
use java_string::JavaString;
use serde_json::{json, Map, Value};
use duke::tree::class::ObjClassName;
use duke::tree::field::{FieldDescriptor, FieldName, FieldNameAndDesc};
use duke::tree::method::{MethodDescriptor, MethodName, MethodNameAndDesc, ParameterName};
use quill::tree::mappings::*;
use quill::tree::mappings_diff::*;
use quill::tree::names::{Names, Namespaces};
use quill::tree::NodeInfo;

pub struct Ns;

/// Abstract text -> JavaString.  JSON (and TLA+) strings cannot hold an unpaired surrogate, a Java string can: a character of
/// U+E000..U+E7FF (private use) of the abstract text stands for the unpaired surrogate U+D800 + (c - U+E000); `js_out` is the inverse.
pub fn js(s: &str) -> JavaString {
	if !s.chars().any(|c| ('\u{e000}'..='\u{e7ff}').contains(&c)) { return JavaString::from(s.to_owned()); }
	let mut out = JavaString::new();
	for c in s.chars() {
		if ('\u{e000}'..='\u{e7ff}').contains(&c) { out.push_java(java_string::JavaCodePoint::from_u32(0xD800 + (c as u32 - 0xE000)).expect("surrogate")); } else { out.push(c); }
	}
	out
}
/// JavaString -> abstract text, exact (Display would turn every unpaired surrogate into U+FFFD).
pub fn js_out(s: &java_string::JavaStr) -> String {
	s.chars().map(|cp| cp.as_char().unwrap_or_else(|| char::from_u32(0xE000 + (cp.as_u32() - 0xD800)).expect("private use"))).collect()
}

fn doc_to_json(d: &Option<JavadocMapping>) -> Value {
	match d { None => json!([]), Some(j) => json!([j.0]) }
}
fn doc_from_json(v: &Value) -> Result<Option<JavadocMapping>> {
	let a = v.as_array().context("doc must be array")?;
	Ok(match a.len() { 0 => None, 1 => Some(JavadocMapping(a[0].as_str().context("doc text")?.to_owned())), _ => bail!("doc too long") })
}

fn names_to_json<const N: usize, T: AsRef<java_string::JavaStr>>(n: &Names<N, T>) -> Value {
	let arr: &[Option<T>; N] = n.into();
	Value::Array(arr.iter().map(|x| match x { None => json!(""), Some(x) => json!(js_out(x.as_ref())) }).collect())
}
fn names_from_json<const N: usize, T>(v: &Value) -> Result<Names<N, T>>
where T: TryFrom<JavaString, Error = anyhow::Error> + std::fmt::Debug + AsRef<java_string::JavaStr> {
	let a = v.as_array().context("names must be array")?;
	if a.len() != N { bail!("names length {} != {N}", a.len()); }
	let mut out: Vec<Option<T>> = Vec::new();
	for x in a {
		let s = x.as_str().context("name str")?;
		out.push(if s.is_empty() { None } else { Some(T::try_from(js(s))?) });
	}
	let arr: [Option<T>; N] = out.try_into().map_err(|_| anyhow!("len"))?;
	Names::try_from(arr)
}

pub fn kids_of(v: &Value) -> Vec<(&String, &Value)> {
	match v.get("kids") { Some(Value::Object(m)) => m.iter().collect(), _ => vec![] }
}

fn node(kind: &str, names: Value, desc: &str, idx: usize, doc: Value, kids: Map<String, Value>) -> Value {
	json!({"kind": kind, "names": names, "desc": desc, "idx": idx, "doc": doc, "kids": Value::Object(kids)})
}

pub fn tree_to_json<const N: usize, X>(m: &Mappings<N, X>) -> Value {
	let nsarr: &[String; N] = (&m.info.namespaces).into();
	let mut ckids = Map::new();
	for (ck, c) in &m.classes {
		let mut kids = Map::new();
		for (fk, f) in &c.fields {
			kids.insert(format!("f {} {}", fk.name, fk.desc.as_inner().as_str().unwrap_or("?")),
				node("f", names_to_json(&f.info.names), f.info.desc.as_inner().as_str().unwrap_or("?"), 0, doc_to_json(&f.javadoc), Map::new()));
		}
		for (mk, me) in &c.methods {
			let mut pk = Map::new();
			for (k, p) in &me.parameters {
				pk.insert(format!("p {}", k.index), node("p", names_to_json(&p.info.names), "", p.info.index, doc_to_json(&p.javadoc), Map::new()));
			}
			kids.insert(format!("m {} {}", mk.name, mk.desc.as_inner().as_str().unwrap_or("?")),
				node("m", names_to_json(&me.info.names), me.info.desc.as_inner().as_str().unwrap_or("?"), 0, doc_to_json(&me.javadoc), pk));
		}
		ckids.insert(format!("c {}", ck), node("c", names_to_json(&c.info.names), "", 0, doc_to_json(&c.javadoc), kids));
	}
	json!({"ns": nsarr.to_vec(), "doc": doc_to_json(&m.javadoc), "kids": Value::Object(ckids)})
}

/// Order of insertion = order of keys in the JSON object (serde_json is built with preserve_order
/// off, so it is sorted); `order` optionally permutes insertion order at every level (seeded).
pub fn json_to_tree<const N: usize, X>(v: &Value) -> Result<Mappings<N, X>> {
	json_to_tree_ord(v, &mut |_n| None)
}

pub fn json_to_tree_ord<const N: usize, X>(v: &Value, perm: &mut dyn FnMut(usize) -> Option<Vec<usize>>) -> Result<Mappings<N, X>> {
	json_to_tree_full(v, perm, false)
}

/// As `json_to_tree`, but every entry is stored under the key its JSON key string spells ("f <name> <desc>",
/// "m <name> <desc>", "p <idx>", "c <name>") even where the entry's own content disagrees with it
/// (the IndexMap fields of quill's tree are public, so such values can be built by any caller).
pub fn json_to_tree_keyed<const N: usize, X>(v: &Value) -> Result<Mappings<N, X>> {
	json_to_tree_full(v, &mut |_n| None, true)
}

/// As `json_to_tree_keyed`, the entries of every level inserted in the opposite order when `rev` is set.
pub fn json_to_tree_keyed_rev<const N: usize, X>(v: &Value, rev: bool) -> Result<Mappings<N, X>> {
	json_to_tree_full(v, &mut |n| if rev { Some((0..n).rev().collect()) } else { None }, true)
}

fn key_parts(k: &str) -> Vec<&str> { k.split(' ').collect() }

fn json_to_tree_full<const N: usize, X>(v: &Value, perm: &mut dyn FnMut(usize) -> Option<Vec<usize>>, keyed: bool) -> Result<Mappings<N, X>> {
	let ns: Vec<String> = v["ns"].as_array().context("ns")?.iter().map(|x| x.as_str().unwrap_or("").to_owned()).collect();
	let ns: [String; N] = ns.try_into().map_err(|_| anyhow!("ns len"))?;
	let mut m: Mappings<N, X> = Mappings::new(MappingInfo { namespaces: Namespaces::try_from(ns)? });
	m.javadoc = doc_from_json(&v["doc"])?;
	for (ckey, c) in permuted(kids_of(v), perm) {
		let mut cn: ClassNowodeMapping<N> = ClassNowodeMapping::new(ClassMapping { names: names_from_json::<N, ObjClassName>(&c["names"])? });
		cn.javadoc = doc_from_json(&c["doc"])?;
		for (kkey, k) in permuted(kids_of(c), perm) {
			let kp = key_parts(kkey);
			match k["kind"].as_str() {
				Some("f") => {
					let desc: FieldDescriptor = js(k["desc"].as_str().context("desc")?).try_into()?;
					let mut f: FieldNowodeMapping<N> = FieldNowodeMapping::new(FieldMapping { desc, names: names_from_json::<N, FieldName>(&k["names"])? });
					f.javadoc = doc_from_json(&k["doc"])?;
					let key = if keyed { FieldNameAndDesc { desc: js(kp.get(2).context("key desc")?).try_into()?, name: js(kp.get(1).context("key name")?).try_into()? } }
						else { FieldNameAndDesc { desc: f.info.desc.clone(), name: first(&f.info.names)? } };
					if cn.fields.insert(key, f).is_some() { bail!("dup field key"); }
				},
				Some("m") => {
					let desc: MethodDescriptor = js(k["desc"].as_str().context("desc")?).try_into()?;
					let mut me: MethodNowodeMapping<N> = MethodNowodeMapping::new(MethodMapping { desc, names: names_from_json::<N, MethodName>(&k["names"])? });
					me.javadoc = doc_from_json(&k["doc"])?;
					for (pkey, p) in permuted(kids_of(k), perm) {
						let index = p["idx"].as_u64().context("idx")? as usize;
						let kindex = if keyed { key_parts(pkey).get(1).context("key idx")?.parse::<usize>()? } else { index };
						let mut pn: ParameterNowodeMapping<N> = ParameterNowodeMapping::new(ParameterMapping { index, names: names_from_json::<N, ParameterName>(&p["names"])? });
						pn.javadoc = doc_from_json(&p["doc"])?;
						if me.parameters.insert(ParameterKey { index: kindex }, pn).is_some() { bail!("dup param key"); }
					}
					let key = if keyed { MethodNameAndDesc { desc: js(kp.get(2).context("key desc")?).try_into()?, name: js(kp.get(1).context("key name")?).try_into()? } }
						else { MethodNameAndDesc { desc: me.info.desc.clone(), name: first(&me.info.names)? } };
					if cn.methods.insert(key, me).is_some() { bail!("dup method key"); }
				},
				other => bail!("bad kid kind {other:?}"),
			}
		}
		let key = if keyed { js(key_parts(ckey).get(1).context("key name")?).try_into()? } else { first(&cn.info.names)? };
		if m.classes.insert(key, cn).is_some() { bail!("dup class key"); }
	}
	Ok(m)
}

thread_local! {
	/// Set by `drivers::exec` from the record's "rev": every mapping set of the record is built with the entries of each level
	/// inserted in the opposite order (quill keeps them in IndexMaps; what an operation answers may not depend on that order).
	pub static REV: std::cell::Cell<bool> = const { std::cell::Cell::new(false) };
}

fn permuted<'a>(mut v: Vec<(&'a String, &'a Value)>, perm: &mut dyn FnMut(usize) -> Option<Vec<usize>>) -> Vec<(&'a String, &'a Value)> {
	if let Some(p) = perm(v.len()).or_else(|| if REV.with(|r| r.get()) { Some((0..v.len()).rev().collect()) } else { None }) {
		let old = std::mem::take(&mut v);
		v = p.into_iter().map(|i| old[i]).collect();
	}
	v
}

fn first<const N: usize, T: Clone>(n: &Names<N, T>) -> Result<T> {
	let arr: &[Option<T>; N] = n.into();
	arr[0].clone().context("no first name")
}

// ---------------------------------------------------------------- diffs

fn act_to_json<T>(a: &Action<T>, f: impl Fn(&T) -> Value) -> Value {
	match a {
		Action::None => json!(["none"]),
		Action::Add(b) => json!(["add", f(b)]),
		Action::Remove(a) => json!(["rem", f(a)]),
		Action::Edit(a, b) => json!(["edit", f(a), f(b)]),
	}
}
fn act_from_json<T>(v: &Value, f: impl Fn(&Value) -> Result<T>) -> Result<Action<T>> {
	let a = v.as_array().context("action must be array")?;
	Ok(match (a[0].as_str(), a.len()) {
		(Some("none"), 1) => Action::None,
		(Some("add"), 2) => Action::Add(f(&a[1])?),
		(Some("rem"), 2) => Action::Remove(f(&a[1])?),
		(Some("edit"), 3) => Action::Edit(f(&a[1])?, f(&a[2])?),
		_ => bail!("bad action {v}"),
	})
}
fn docv(d: &JavadocMapping) -> Value { json!([d.0]) }
fn docf(v: &Value) -> Result<JavadocMapping> { Ok(JavadocMapping(v[0].as_str().context("doc payload")?.to_owned())) }
fn strf<T: TryFrom<JavaString, Error = anyhow::Error>>(v: &Value) -> Result<T> { T::try_from(js(v.as_str().context("name payload")?)) }

fn dnode(kind: &str, name: &str, desc: &str, idx: usize, info: Value, doc: Value, kids: Map<String, Value>) -> Value {
	json!({"key": {"kind": kind, "name": name, "desc": desc, "idx": idx}, "info": info, "doc": doc, "kids": Value::Object(kids)})
}

pub fn diff_to_json(d: &MappingsDiff) -> Value {
	let mut ck = Map::new();
	for (k, c) in &d.classes {
		let mut kids = Map::new();
		for (fk, f) in &c.fields {
			let ds = fk.desc.as_inner().as_str().unwrap_or("?").to_owned();
			kids.insert(format!("f {} {}", fk.name, ds), dnode("f", &fk.name.to_string(), &ds, 0,
				act_to_json(&f.info, |x| json!(x.to_string())), act_to_json(&f.javadoc, docv), Map::new()));
		}
		for (mk, m) in &c.methods {
			let ds = mk.desc.as_inner().as_str().unwrap_or("?").to_owned();
			let mut pk = Map::new();
			for (k, p) in &m.parameters {
				pk.insert(format!("p {}", k.index), dnode("p", "", "", k.index,
					act_to_json(&p.info, |x| json!(x.to_string())), act_to_json(&p.javadoc, docv), Map::new()));
			}
			kids.insert(format!("m {} {}", mk.name, ds), dnode("m", &mk.name.to_string(), &ds, 0,
				act_to_json(&m.info, |x| json!(x.to_string())), act_to_json(&m.javadoc, docv), pk));
		}
		ck.insert(format!("c {}", k), dnode("c", &k.to_string(), "", 0,
			act_to_json(&c.info, |x| json!(x.to_string())), act_to_json(&c.javadoc, docv), kids));
	}
	json!({"info": act_to_json(&d.info, |x| json!(x)), "doc": act_to_json(&d.javadoc, docv), "kids": Value::Object(ck)})
}

pub fn json_to_diff(v: &Value) -> Result<MappingsDiff> {
	let mut d = MappingsDiff::new(act_from_json(&v["info"], |x| Ok(x.as_str().context("ns name")?.to_owned()))?);
	d.javadoc = act_from_json(&v["doc"], docf)?;
	for (_, c) in kids_of(v) {
		let key: ObjClassName = strf(&c["key"]["name"])?;
		let mut cd = ClassNowodeDiff::new(act_from_json(&c["info"], strf::<ObjClassName>)?);
		cd.javadoc = act_from_json(&c["doc"], docf)?;
		for (_, k) in kids_of(c) {
			match k["key"]["kind"].as_str() {
				Some("f") => {
					let mut f = FieldNowodeDiff::new(act_from_json(&k["info"], strf::<FieldName>)?);
					f.javadoc = act_from_json(&k["doc"], docf)?;
					cd.fields.insert(FieldNameAndDesc { desc: strf(&k["key"]["desc"])?, name: strf(&k["key"]["name"])? }, f);
				},
				Some("m") => {
					let mut m = MethodNowodeDiff::new(act_from_json(&k["info"], strf::<MethodName>)?);
					m.javadoc = act_from_json(&k["doc"], docf)?;
					for (_, p) in kids_of(k) {
						let mut pd = ParameterNowodeDiff::new(act_from_json(&p["info"], strf::<ParameterName>)?);
						pd.javadoc = act_from_json(&p["doc"], docf)?;
						m.parameters.insert(ParameterKey { index: p["key"]["idx"].as_u64().context("idx")? as usize }, pd);
					}
					cd.methods.insert(MethodNameAndDesc { desc: strf(&k["key"]["desc"])?, name: strf(&k["key"]["name"])? }, m);
				},
				o => bail!("bad diff kid {o:?}"),
			}
		}
		d.classes.insert(key, cd);
	}
	Ok(d)
}

/// Abstract line records -> text (the trusted "line joiner"): {"ind":i,"tag":s,"cells":[s..]}
pub fn lines_to_text(lines: &Value) -> Result<String> {
	let mut out = String::new();
	for l in lines.as_array().context("lines")? {
		for _ in 0..l["ind"].as_u64().context("ind")? { out.push('\t'); }
		out.push_str(l["tag"].as_str().context("tag")?);
		for c in l["cells"].as_array().context("cells")? {
			out.push('\t');
			out.push_str(&c.as_str().context("cell")?.replace('\n', "\\n"));
		}
		out.push('\n');
	}
	Ok(out)
}

/// text -> abstract line records (the trusted "line splitter"); inverse of `lines_to_text`.
pub fn text_to_lines(text: &str) -> Value {
	let mut out = vec![];
	for l in text.split('\n') {
		if l.is_empty() { continue; }
		let ind = l.chars().take_while(|c| *c == '\t').count();
		let mut cells: Vec<&str> = l[ind..].split('\t').collect();
		let tag = cells.remove(0);
		let cells: Vec<String> = cells.into_iter().map(|c| c.replace("\\n", "\n")).collect();
		out.push(json!({"ind": ind, "tag": tag, "cells": cells}));
	}
	Value::Array(out)
}

pub type IM<K, V> = IndexMap<K, V>;

/// Abstract diff -> line records of the .tinydiff text (mirror of DiffLines in spec/quill/DiffApply.tla);
/// only diffs without a namespace or top-level comment action have a textual form.
pub fn diff_to_lines(d: &Value) -> Result<Value> {
	fn cells(act: &Value, is_doc: bool) -> Result<(String, String)> {
		let a = act.as_array().context("action")?;
		let p = |v: &Value| -> String { if is_doc { v[0].as_str().unwrap_or("").to_owned() } else { v.as_str().unwrap_or("").to_owned() } };
		Ok(match a[0].as_str() {
			Some("none") => (String::new(), String::new()),
			Some("add") => (String::new(), p(&a[1])),
			Some("rem") => (p(&a[1]), String::new()),
			Some("edit") => (p(&a[1]), p(&a[2])),
			o => bail!("bad action {o:?}"),
		})
	}
	fn node(n: &Value, ind: usize, out: &mut Vec<Value>) -> Result<()> {
		let k = &n["key"];
		let (a, b) = cells(&n["info"], false)?;
		let kind = k["kind"].as_str().context("kind")?;
		let head: Vec<String> = match kind {
			"c" => vec![k["name"].as_str().unwrap_or("").to_owned(), a, b],
			"f" | "m" => vec![k["desc"].as_str().unwrap_or("").to_owned(), k["name"].as_str().unwrap_or("").to_owned(), a, b],
			_ => vec![k["idx"].to_string(), String::new(), a, b],
		};
		out.push(json!({"ind": ind, "tag": kind, "cells": head}));
		if n["doc"][0] != "none" {
			let (a, b) = cells(&n["doc"], true)?;
			out.push(json!({"ind": ind + 1, "tag": "c", "cells": [a, b]}));
		}
		for (_, c) in kids_of(n) { node(c, ind + 1, out)?; }
		Ok(())
	}
	if d["info"][0] != "none" || d["doc"][0] != "none" { bail!("diff has no textual form"); }
	let mut out = vec![json!({"ind": 0, "tag": "tiny", "cells": ["2", "0"]})];
	for (_, c) in kids_of(d) { node(c, 0, &mut out)?; }
	Ok(Value::Array(out))
}
