//! vharness: binds the TLA+ specifications to the real code.
//!
//!   vharness exec <prop> <in.ndjson> <out.ndjson>
//!       every input line is an operation record (from TLC: a vector; from `gen`: a random case);
//!       the operation is run through the real API and the line is written back with "got" added.
//!   vharness gen <prop> <seed> <n> <out.ndjson>
//!       writes n seeded random operation records (no "got") for the property.
//! A panic inside the code under test is data: got = {"panic": msg}.
mod proj_quill;
mod gen_quill;
mod jarkit;
mod drivers;

// The binary crate of /repo exposes no library: its version graph and bridge-method modules are compiled into the
// harness from /repo's working tree, with the few crate-level items they refer to supplied here.
pub struct Official;
pub struct Intermediary;
pub struct Named;
/// The downloader of the binary crate (src/download/mod.rs with its sub modules), compiled in from /repo's working tree:
/// src/build.rs and src/version_graph.rs refer to its types, drivers/dl.rs runs it offline against the download cache.
#[allow(dead_code, deprecated, unused)]
#[path = "/repo/src/download/mod.rs"]
pub mod download;
#[allow(dead_code, deprecated, unused)]
#[path = "/repo/src/version_graph.rs"]
mod version_graph;
#[allow(dead_code, deprecated, unused)]
#[path = "/repo/src/specialized_methods/mod.rs"]
mod specialized_methods;
/// src/build.rs pasted into a module of the harness, so that the private `build_inner` can be called.
#[allow(dead_code, deprecated, unused)]
mod build_incl {
	include!("/repo/src/build.rs");
	pub(crate) fn verif_build_inner(
		calamus_v2: Mappings<2, (Official, Intermediary)>, libraries: Vec<FileJar>, version_graph: &VersionGraph, version: VersionEntry<'_>,
		nests: Option<Nests<Official>>, main_jar: &impl Jar,
	) -> Result<(Vec<u8>, Vec<u8>)> {
		let r = build_inner("0+build.verif".to_owned(), calamus_v2, libraries, version_graph, version, nests, main_jar)?;
		Ok((r.merged_feather.data, r.unmerged_feather.data))
	}
}

/// src/main.rs of the binary crate declares this next to its command line; src/insert_mappings.rs refers to it.
#[allow(dead_code)]
#[derive(Debug, Default, Copy, Clone)]
pub enum PropagationDirection { None, #[default] Both, Up, Down }
/// src/insert_mappings.rs pasted into a module of the harness, so that its private functions (propagate_change, the node
/// level functions, get_id_*) can be driven; the wrappers below only convert values, install recording closures and call them.
#[allow(dead_code, deprecated, unused)]
mod insert_incl {
	include!("/repo/src/insert_mappings.rs");
	include!("insert_wrappers.rs");
}

use std::io::{BufRead, BufReader, BufWriter, Write};
use std::panic::{catch_unwind, AssertUnwindSafe};
use serde_json::{json, Value};

fn main() {
	std::panic::set_hook(Box::new(|_| {}));
	let args: Vec<String> = std::env::args().collect();
	let r = match args.get(1).map(|s| s.as_str()) {
		Some("exec") => exec(&args[2], &args[3], &args[4]),
		Some("gen") => gen(&args[2], args[3].parse().expect("seed"), args[4].parse().expect("n"), &args[5]),
		// the seeds of the fault model (field / line structure) for TLC, and the sandboxed child running the parsers
		Some("seeds") => seeds(&args[2], &args[3]),
		Some("fault-child") => drivers::c16::child_main(),
		_ => { eprintln!("usage: vharness exec|gen ..."); std::process::exit(2) },
	};
	if let Err(e) = r { eprintln!("vharness: tool error: {e:#}"); std::process::exit(2); }
}

fn exec(prop: &str, inp: &str, out: &str) -> anyhow::Result<()> {
	let f = BufReader::new(std::fs::File::open(inp)?);
	let mut w = BufWriter::new(std::fs::File::create(out)?);
	for line in f.lines() {
		let line = line?;
		if line.trim().is_empty() { continue; }
		let mut v: Value = serde_json::from_str(&line)?;
		let got = match catch_unwind(AssertUnwindSafe(|| drivers::exec(prop, &v))) {
			Ok(Ok(g)) => g,
			Ok(Err(e)) => anyhow::bail!("harness failure on {line}: {e:#}"),
			Err(p) => {
				let msg = p.downcast_ref::<String>().cloned().or_else(|| p.downcast_ref::<&str>().map(|s| s.to_string())).unwrap_or_default();
				json!({"panic": msg})
			},
		};
		v.as_object_mut().expect("record").insert("got".into(), got);
		serde_json::to_writer(&mut w, &v)?;
		w.write_all(b"\n")?;
	}
	w.flush()?;
	Ok(())
}

fn seeds(tier: &str, out: &str) -> anyhow::Result<()> {
	let mut w = BufWriter::new(std::fs::File::create(out)?);
	for v in drivers::c16::seeds_json(tier)? {
		serde_json::to_writer(&mut w, &v)?;
		w.write_all(b"\n")?;
	}
	w.flush()?;
	Ok(())
}

fn gen(prop: &str, seed: u64, n: usize, out: &str) -> anyhow::Result<()> {
	let mut w = BufWriter::new(std::fs::File::create(out)?);
	for v in drivers::gen(prop, seed, n)? {
		serde_json::to_writer(&mut w, &v)?;
		w.write_all(b"\n")?;
	}
	w.flush()?;
	Ok(())
}
