// Included into `mod insert_incl` behind /repo/src/insert_mappings.rs (see main.rs): wrappers that give the drivers access to
// the private functions of that file.  They convert values, install recording closures and call the real functions; the
// closure bodies are the two or three lines the closures inside `insert_mappings` consist of.

pub(crate) fn verif_res(r: &Result<Changed>) -> &'static str {
	match r { Ok(Changed::Same) => "same", Ok(Changed::Edited) => "edited", Err(_) => "err" }
}
fn verif_side(side_a: bool) -> DiffSide { if side_a { DiffSide::A } else { DiffSide::B } }
fn verif_mode(mode_m: bool) -> Mode { if mode_m { Mode::Mappings } else { Mode::Javadocs } }

/// class level `apply_to_diffs`
pub(crate) fn verif_apply_class_to_diff(diff: &mut MappingsDiff, class_key: &ObjClassName, change_class: &ClassNowodeDiff, side_a: bool, insert: bool, mode_m: bool) -> &'static str {
	let (side, mode) = (verif_side(side_a), verif_mode(mode_m));
	let r = diff.classes
		.get_mut_or_default_if(class_key, insert)
		.map_or(Ok(Changed::Same), |diff_class| apply_change_diffs(diff_class, change_class, side, insert, mode));
	verif_res(&r)
}
/// field level `apply_to_diffs`
pub(crate) fn verif_apply_field_to_diff(diff: &mut MappingsDiff, class_key: &ObjClassName, field_key: &FieldNameAndDesc, change_field: &FieldNowodeDiff, side_a: bool, insert: bool, mode_m: bool) -> &'static str {
	let (side, mode) = (verif_side(side_a), verif_mode(mode_m));
	let r = diff.classes
		.entry(class_key.clone()).or_default()
		.fields
		.get_mut_or_default_if(field_key, insert)
		.map_or(Ok(Changed::Same), |diff_field| apply_change_diffs(diff_field, change_field, side, insert, mode));
	verif_res(&r)
}
/// class level `apply_to_mappings`
pub(crate) fn verif_apply_class_to_root(mappings: &mut Mappings<2, (Intermediary, Named)>, class_key: &ObjClassName, change_class: &ClassNowodeDiff, mode_m: bool) -> &'static str {
	verif_res(&apply_change_mappings(class_key, change_class, &mut mappings.classes, verif_mode(mode_m)))
}
/// field level `apply_to_mappings`
pub(crate) fn verif_apply_field_to_root(mappings: &mut Mappings<2, (Intermediary, Named)>, class_key: &ObjClassName, field_key: &FieldNameAndDesc, change_field: &FieldNowodeDiff, mode_m: bool) -> &'static str {
	let mappings_class = mappings.classes
		.entry(class_key.clone()).or_insert_with_key(create_dummy_mapping);
	verif_res(&apply_change_mappings(field_key, change_field, &mut mappings_class.fields, verif_mode(mode_m)))
}

pub(crate) fn verif_ids(class_key: &ObjClassName, field_key: &FieldNameAndDesc, method_key: &MethodNameAndDesc) -> (String, String, String) {
	(get_id_class(class_key).to_string(), get_id_field(field_key).to_string(), get_id_method(method_key).to_string())
}

/// One call the walk made on a closure: the root mapping set, or the diff of an edge (identified by the marker class
/// `E<p>_<c>` every edge file of the drivers carries).
pub(crate) struct VerifCall { pub root: bool, pub edge: Option<(usize, usize)>, pub side_a: bool, pub insert: bool, pub res: &'static str }

fn verif_edge_of(diff: &MappingsDiff) -> Option<(usize, usize)> {
	diff.classes.keys().find_map(|k| {
		let s = k.as_inner().as_str().ok()?;
		let (p, c) = s.strip_prefix('E')?.split_once('_')?;
		Some((p.parse().ok()?, c.parse().ok()?))
	})
}

/// `propagate_change` for one entry (class `class_key`, or its field `field_key`) and one mode, with closures that do what
/// the closures of `insert_mappings` do and record each call.  Returns the calls in order and the versions marked dirty.
pub(crate) fn verif_walk(
	graph: &VersionGraph, version: VersionEntry<'_>, barrier_names: &[String], lenient: bool,
	class_key: &ObjClassName, field_key: Option<&FieldNameAndDesc>, change_class: &ClassNowodeDiff, mode_m: bool,
) -> Result<(Vec<VerifCall>, Vec<String>)> {
	let barriers: IndexSet<VersionEntry<'_>> = graph.versions().filter(|v| barrier_names.iter().any(|b| b == v.as_str())).collect();
	let mut dirty = HashSet::new();
	let log = std::cell::RefCell::new(Vec::new());
	match field_key {
		None => propagate_change(lenient, &mut dirty, &barriers, graph, version, mode_m, !mode_m,
			|mappings, mode| {
				let r = apply_change_mappings(class_key, change_class, &mut mappings.classes, mode);
				log.borrow_mut().push(VerifCall { root: true, edge: None, side_a: false, insert: false, res: verif_res(&r) });
				r
			},
			|diff, insert, side, mode| {
				let r = diff.classes
					.get_mut_or_default_if(class_key, insert)
					.map_or(Ok(Changed::Same), |diff_class| apply_change_diffs(diff_class, change_class, side, insert, mode));
				log.borrow_mut().push(VerifCall { root: false, edge: verif_edge_of(diff), side_a: side == DiffSide::A, insert, res: verif_res(&r) });
				r
			},
			|_diff, _side, _dir, _version, _mode| Ok(()),
		)?,
		Some(field_key) => {
			let change_field = change_class.fields.get(field_key).context("change has no such field")?;
			propagate_change(lenient, &mut dirty, &barriers, graph, version, mode_m, !mode_m,
				|mappings, mode| {
					let mappings_class = mappings.classes
						.entry(class_key.clone()).or_insert_with_key(create_dummy_mapping);
					let r = apply_change_mappings(field_key, change_field, &mut mappings_class.fields, mode);
					log.borrow_mut().push(VerifCall { root: true, edge: None, side_a: false, insert: false, res: verif_res(&r) });
					r
				},
				|diff, insert, side, mode| {
					let r = diff.classes
						.entry(class_key.clone()).or_default()
						.fields
						.get_mut_or_default_if(field_key, insert)
						.map_or(Ok(Changed::Same), |diff_field| apply_change_diffs(diff_field, change_field, side, insert, mode));
					log.borrow_mut().push(VerifCall { root: false, edge: verif_edge_of(diff), side_a: side == DiffSide::A, insert, res: verif_res(&r) });
					r
				},
				|_diff, _side, _dir, _version, _mode| Ok(()),
			)?
		},
	}
	let mut d: Vec<String> = dirty.iter().map(|v| v.as_str().to_owned()).collect();
	d.sort();
	Ok((log.into_inner(), d))
}
