//! Building jars of generated classes in memory (for the jar-level properties) and reading result jars back.
//! Classes are assembled by the independent assembler `cfkit::asm` from class facts; nothing here uses the code under test.
use std::io::{Cursor, Read, Write};
use anyhow::{anyhow, Context, Result};
use serde_json::{json, Value};

pub fn zip_entries(entries: &[(String, Vec<u8>)]) -> Result<Vec<u8>> {
	let mut w = zip::ZipWriter::new(Cursor::new(Vec::new()));
	for (name, data) in entries {
		let o: zip::write::SimpleFileOptions = zip::write::SimpleFileOptions::default().compression_method(zip::CompressionMethod::Stored);
		if name.ends_with('/') { w.add_directory(name.trim_end_matches('/'), o)?; } else { w.start_file(name.as_str(), o)?; w.write_all(data)?; }
	}
	Ok(w.finish()?.into_inner())
}

pub fn unzip_entries(data: &[u8]) -> Result<Vec<(String, Vec<u8>)>> {
	let mut z = zip::ZipArchive::new(Cursor::new(data))?;
	let mut out = vec![];
	for i in 0..z.len() {
		let mut f = z.by_index(i)?;
		let mut b = vec![];
		f.read_to_end(&mut b)?;
		out.push((f.name().to_owned(), b));
	}
	Ok(out)
}

fn acc_bits(acc: &Value, extra: u16) -> u16 {
	let mut a = extra;
	let mut vis = false;
	for f in acc.as_array().into_iter().flatten() {
		a |= match f.as_str().unwrap_or("") {
			"public" => { vis = true; 0x0001 }, "private" => { vis = true; 0x0002 }, "protected" => { vis = true; 0x0004 },
			"static" => 0x0008, "final" => 0x0010, "bridge" => 0x0040, "abstract" => 0x0400, "synthetic" => 0x1000, _ => 0,
		};
	}
	if !vis { a |= 0x0001; }
	a
}

/// Abstract method {"name","desc","acc":[flags],"code":bool,"calls":[[owner,name,desc]..]} -> method facts.
/// The body invokes each callee once (invokeinterface for owners listed in `itfs`, invokevirtual otherwise) and returns.
pub fn method_facts(m: &Value, itfs: &[String]) -> Value {
	let has_code = m["code"].as_bool().unwrap_or(false);
	let access = acc_bits(&m["acc"], if has_code { 0 } else { 0x0400 });
	let name = m["name"].as_str().unwrap_or("m");
	let desc = m["desc"].as_str().unwrap_or("()V");
	if !has_code { return cfkit::samples::member(access, name, desc, json!({})); }
	let mut insns = vec![];
	let mut calls: Vec<&Value> = m["calls"].as_array().into_iter().flatten().collect();
	calls.sort_by_key(|c| c.to_string());
	for c in calls {
		let owner = c[0].as_str().unwrap_or("");
		if c[1].as_str() == Some("<init>") {
			insns.push(json!({"op": "invokespecial", "owner": owner, "name": c[1], "desc": c[2], "itf": false}));
		} else if itfs.iter().any(|i| i == owner) || owner.starts_with("java/util/List") {
			insns.push(json!({"op": "invokeinterface", "owner": owner, "name": c[1], "desc": c[2]}));
		} else {
			insns.push(json!({"op": "invokevirtual", "owner": owner, "name": c[1], "desc": c[2], "itf": false}));
		}
	}
	insns.push(json!({"op": "return"}));
	cfkit::samples::method_with_code(access, name, desc, cfkit::samples::code(8, 8, insns, vec![], json!({})))
}

/// Abstract jar {class name: {"super":s,"itfs":[..],"methods":[..]}} -> zip bytes (one entry `<name>.class` per class).
pub fn jar_from_abstract(j: &Value) -> Result<Vec<u8>> {
	let mut entries = vec![];
	let Some(o) = j.as_object() else { return zip_entries(&entries) };
	let all_itfs: Vec<String> = o.values().flat_map(|c| c["itfs"].as_array().into_iter().flatten().map(|x| x.as_str().unwrap_or("").to_owned())).collect();
	for (name, c) in o {
		let sup = c["super"].as_str().unwrap_or("");
		let methods: Vec<Value> = c["methods"].as_array().into_iter().flatten().map(|m| method_facts(m, &all_itfs)).collect();
		let is_itf = all_itfs.iter().any(|i| i == name);
		let mut f = cfkit::samples::class([52, 0], if is_itf { 0x0601 } else { 0x0421 }, name, if sup.is_empty() { None } else { Some(sup) }, vec![], methods, json!({}));
		f["interfaces"] = c["itfs"].clone();
		if f["interfaces"].is_null() { f["interfaces"] = json!([]); }
		let bytes = cfkit::asm::assemble(&f, &cfkit::asm::Encoding::default()).map_err(|e| anyhow!("assemble {name}: {e:?}"))?;
		entries.push((format!("{name}.class"), bytes));
	}
	zip_entries(&entries).context("zip")
}
