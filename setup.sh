#!/bin/sh
# Builds the harness from files on disk only (offline) and parses every TLA+ module.
set -e
cd "$(dirname "$0")"
export CARGO_NET_OFFLINE=true
(cd harness && cargo build --offline --quiet 2>&1 | grep -v '^warning' | grep -E '^error' -A8 || true)
test -x harness/target/debug/vharness
for d in spec/*/; do
  for f in "$d"*.tla; do
    java -cp /opt/veriftools/tla/tla2tools.jar:spec/common:spec/quill:"$d" tla2sany.SANY "$f" >/dev/null 2>&1 || { echo "SANY failed on $f"; exit 1; }
  done
done
echo setup ok
