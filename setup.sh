#!/bin/sh
# Builds the harness from files on disk only (offline) and parses every TLA+ module.
set -e
cd "$(dirname "$0")"
export CARGO_NET_OFFLINE=true
(cd harness && cargo build --offline --quiet 2>&1 | grep -v '^warning' | grep -E '^error' -A8 || true)
test -x harness/target/debug/vharness
CP=/opt/veriftools/tla/tla2tools.jar
V="$(pwd)"
for d in spec/*/; do CP="$CP:$V/$d"; done
for f in spec/*/*.tla; do
  [ -e "$f" ] || continue
  (cd "$(dirname "$f")" && java -cp "$CP" tla2sany.SANY "$(basename "$f")" >/dev/null 2>&1) || { echo "SANY failed on $f"; exit 1; }
done
echo setup ok
