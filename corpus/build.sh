#!/usr/bin/env bash
# Reproduces /verif/corpus/classes (and, on request, /verif/corpus/jdk-sample.zip).
#
#   build.sh               regenerate generated sources, compile all variants, prune  -> classes/
#   build.sh jdk-sample    pick ~400 diverse classes from the JDK runtime image       -> jdk-sample.zip
#   build.sh all           both
#   build.sh stats         print attribute / opcode coverage of classes/ and jdk-sample.zip
#
# Layout of classes/:   <release>[-g]/<package dirs>/*.class          release in 8 11 17; -g = "-g -parameters", plain = "-g:none"
#                       <release>[-g]/mod/corpus.mod/...              named module (release 11 and 17 only)
#                       <release>[-g]/mod/corpus.openmod/...          open module
#                       <release>[-g]/mod/corpus.mod.jar/module-info.class    the same descriptor after `jar --main-class --module-version`
#                       <release>[-g]/mod/corpus.mod.jmod/module-info.class   ... after `jmod create --target-platform ...`
# Sources:  src/common (valid for --release 8), src/r11 (needs >= 11), src/r17 (needs 17), src/mod9, src/mod9open (modules).
set -euo pipefail

HERE=$(cd "$(dirname "${BASH_SOURCE[0]}")" && pwd)
JAVA_HOME_DIR=$(cd "$(dirname "$(readlink -f "$(command -v javac)")")/.." && pwd)
export LC_ALL=C TZ=UTC
unset JAVA_TOOL_OPTIONS _JAVA_OPTIONS JDK_JAVAC_OPTIONS CLASSPATH || true

MAX_CLASSES_BYTES=5500000      # du -sb classes/ must stay below this
MAX_ZIP_BYTES=3000000
SAMPLE_CLASSES=400

SCRATCH=$(mktemp -d /dev/shm/corpus-scratch-XXXXXX 2>/dev/null || mktemp -d)
trap 'rm -rf "$SCRATCH"' EXIT

JAVAC_COMMON=(-Xlint:none -proc:none -encoding UTF-8 -XDsuppressNotes)

log() { printf '== %s\n' "$*" >&2; }

gen_sources() {
    log "generating src/common/corpus/gen"
    (cd "$SCRATCH" && java "$HERE/gen/Gen.java" "$HERE/src/common/corpus/gen")
}

# sources_for <release>  -> sorted list of source files on stdout
sources_for() {
    local roots=(common)
    [ "$1" -ge 11 ] && roots+=(r11)
    [ "$1" -ge 17 ] && roots+=(r17)
    local r
    for r in "${roots[@]}"; do find "$HERE/src/$r" -name '*.java'; done | sort
}

# debug_flags <variant-suffix>   ("-g" or "")
debug_flags() {
    if [ "$1" = "-g" ]; then echo "-g -parameters"; else echo "-g:none"; fi
}

# compile_variant <release> <suffix>
compile_variant() {
    local rel=$1 sfx=$2 out="$SCRATCH/classes/$1$2" args="$SCRATCH/args-$1$2"
    mkdir -p "$out"
    sources_for "$rel" > "$args"
    # cwd = scratch so that javac's crash/argument dumps never land in the source tree
    (cd "$SCRATCH" && javac --release "$rel" $(debug_flags "$sfx") "${JAVAC_COMMON[@]}" -d "$out" @"$args")
    if [ "$rel" -ge 11 ]; then compile_modules "$rel" "$sfx"; fi
}

# compile_modules <release> <suffix>
compile_modules() {
    local rel=$1 sfx=$2 out="$SCRATCH/classes/$1$2/mod" tmp="$SCRATCH/modtmp-$1$2"
    mkdir -p "$out/corpus.mod" "$out/corpus.openmod" "$out/corpus.mod.jar" "$out/corpus.mod.jmod" "$tmp"
    (cd "$SCRATCH" && javac --release "$rel" $(debug_flags "$sfx") "${JAVAC_COMMON[@]}" -d "$out/corpus.mod" \
        $(find "$HERE/src/mod9" -name '*.java' | sort))
    (cd "$SCRATCH" && javac --release "$rel" $(debug_flags "$sfx") "${JAVAC_COMMON[@]}" -d "$out/corpus.openmod" \
        $(find "$HERE/src/mod9open" -name '*.java' | sort))
    # The jar and jmod tools rewrite module-info.class: ModuleMainClass, ModulePackages, module version, ModuleTarget.
    jar --create --file "$tmp/m.jar" --main-class corpus.mod.api.Api --module-version 1.2.3-corpus -C "$out/corpus.mod" .
    (cd "$tmp" && unzip -q -o m.jar module-info.class && mv module-info.class "$out/corpus.mod.jar/module-info.class")
    jmod create --class-path "$out/corpus.mod" --main-class corpus.mod.api.Api --module-version 4.5 \
        --target-platform linux-amd64 "$tmp/m.jmod"
    (cd "$tmp" && jmod extract --dir x m.jmod && mv x/classes/module-info.class "$out/corpus.mod.jmod/module-info.class")
    rm -rf "$tmp"
}

# Drop the biggest generated classes from the less interesting variants, in this fixed order, until classes/ fits.
PRUNE_ORDER=(
    11/corpus/gen/Near64K.class 11-g/corpus/gen/Near64K.class 8/corpus/gen/Near64K.class
    11/corpus/gen/HugeMethod.class 11-g/corpus/gen/HugeMethod.class 8/corpus/gen/HugeMethod.class
    11/corpus/gen/BigMethod.class 11-g/corpus/gen/BigMethod.class 8/corpus/gen/BigMethod.class
    17/corpus/gen/Near64K.class 8-g/corpus/gen/Near64K.class
)
prune() {
    local root="$SCRATCH/classes" f size
    for f in "${PRUNE_ORDER[@]}"; do
        size=$(du -sb "$root" | cut -f1)
        [ "$size" -le "$MAX_CLASSES_BYTES" ] && break
        log "prune: $size bytes > $MAX_CLASSES_BYTES, dropping $f"
        rm -f "$root/$f"
    done
    size=$(du -sb "$root" | cut -f1)
    if [ "$size" -gt "$MAX_CLASSES_BYTES" ]; then echo "classes/ still too big: $size" >&2; exit 1; fi
    log "classes/: $size bytes"
}

build_classes() {
    gen_sources
    rm -rf "$SCRATCH/classes"
    local pids=() v rel sfx p
    for rel in 8 11 17; do
        for sfx in "-g" ""; do
            log "javac --release $rel $(debug_flags "$sfx") -> classes/$rel$sfx"
            compile_variant "$rel" "$sfx" &
            pids+=($!)
        done
    done
    for p in "${pids[@]}"; do wait "$p"; done
    prune
    find "$SCRATCH/classes" -type d -exec chmod 755 {} +
    find "$SCRATCH/classes" -type f -exec chmod 644 {} +
    rm -rf "$HERE/classes"
    cp -r "$SCRATCH/classes" "$HERE/classes"
    for v in 8-g 8 11-g 11 17-g 17; do
        log "classes/$v: $(find "$HERE/classes/$v" -name '*.class' | wc -l) class files"
    done
}

jdk_sample() {
    log "extracting $JAVA_HOME_DIR/lib/modules"
    jimage extract --dir "$SCRATCH/jdk" "$JAVA_HOME_DIR/lib/modules"
    log "picking $SAMPLE_CLASSES classes"
    (cd "$SCRATCH" && java "$HERE/gen/Pick.java" "$SCRATCH/jdk" "$SCRATCH/sample.list" "$SAMPLE_CLASSES" "$MAX_ZIP_BYTES")
    # fixed mode + mtime, sorted entry order, no extra fields: byte-for-byte reproducible zip
    (cd "$SCRATCH/jdk" && xargs -a "$SCRATCH/sample.list" chmod 644 \
        && xargs -a "$SCRATCH/sample.list" touch -d '2020-01-01T00:00:00Z' \
        && zip -X -9 -q "$SCRATCH/jdk-sample.zip" -@ < "$SCRATCH/sample.list")
    local size
    size=$(stat -c %s "$SCRATCH/jdk-sample.zip")
    if [ "$size" -gt "$MAX_ZIP_BYTES" ]; then echo "jdk-sample.zip too big: $size" >&2; exit 1; fi
    cp "$SCRATCH/jdk-sample.zip" "$HERE/jdk-sample.zip"
    chmod 644 "$HERE/jdk-sample.zip"
    log "jdk-sample.zip: $size bytes, $(wc -l < "$SCRATCH/sample.list") entries"
}

stats() {
    local inputs=()
    [ -d "$HERE/classes" ] && inputs+=("$HERE/classes")
    [ -f "$HERE/jdk-sample.zip" ] && inputs+=("$HERE/jdk-sample.zip")
    (cd "$SCRATCH" && java "$HERE/gen/Pick.java" --stats "${inputs[@]}")
}

case "${1:-classes}" in
    classes)    build_classes ;;
    jdk-sample) jdk_sample ;;
    all)        build_classes; jdk_sample ;;
    stats)      stats ;;
    *) echo "usage: $0 [classes|jdk-sample|all|stats]" >&2; exit 2 ;;
esac
