package corpus.r11;

/** Nest-based access control (JEP 181): no synthetic accessors, NestHost / NestMembers attributes. */
public class NestMates {
    private int secret = 1;
    private static long ssecret = 2;
    private NestMates() { }
    private int priv() { return secret; }
    private static long spriv() { return ssecret; }

    public static class A {
        private int a;
        private A() { }
        int go(NestMates n, B b) { return n.secret + n.priv() + (int) ssecret + (int) spriv() + b.b + b.privB() + new NestMates().secret; }
    }

    public class B {
        private int b = secret;
        private int privB() { return b + priv(); }
        class C {
            private int c = b + secret;
            int deep(A a) { return a.a + c + privB() + new A().a; }
            Runnable lambda() { return () -> { secret++; b++; c++; }; }
            Object anon() { return new Object() { int v = secret + b + c; }; }
        }
    }

    interface I { private int p() { return 1; } default int d(NestMates n) { return p() + n.secret; } }
    enum E { X { @Override int f() { return hidden; } }; private static int hidden = 3; int f() { return 0; } }

    public static int entry() {
        NestMates n = new NestMates();
        A a = new A();
        B b = n.new B();
        B.C c = b.new C();
        return a.go(n, b) + c.deep(a) + b.b + c.c + a.a;
    }
}
