package corpus.r11;

import java.util.function.IntSupplier;

/** Private interface methods (instance and static), Java 9+. */
public interface PrivateIface {
    int base();

    private int helper(int x) { return x + base(); }                 // invokeinterface / invokespecial on private interface method
    private static int shelper(int x) { return x * 2; }
    private <T extends Comparable<T>> T generic(T a, T b) { return a.compareTo(b) > 0 ? a : b; }

    default int viaDefault(int x) { return helper(x) + shelper(x) + generic(x, 3); }
    static int viaStatic(int x) { return shelper(x) + 1; }
    default IntSupplier viaLambda() { return () -> helper(1) + shelper(2); }
    default Object viaAnon() { return new Object() { int v = helper(3); }; }

    class Impl implements PrivateIface {
        @Override public int base() { return 1; }
        private int own() { return 5; }
        int callOwn(Impl other) { return other.own() + own(); }       // invokevirtual on private method (nestmates, 11+)
    }
}
