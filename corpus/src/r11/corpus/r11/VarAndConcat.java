package corpus.r11;

import corpus.Annos.Both;
import java.util.ArrayList;
import java.util.HashMap;
import java.util.List;
import java.util.Map;
import java.util.Optional;
import java.util.function.BiFunction;
import java.util.function.Function;

/** var (10), var in lambda parameters (11), indy string concat, Java 9+ library calls. */
public class VarAndConcat {
    public static String vars(List<String> in) {
        var list = new ArrayList<Map<String, List<Integer>>>();             // LocalVariableTypeTable with inferred types
        var map = new HashMap<String, List<Integer>>();
        list.add(map);
        var total = 0L;
        var ratio = 1.5;
        var ch = 'c';
        for (var s : in) total += s.length();
        for (var i = 0; i < 3; i++) ratio *= i;
        var anon = new Object() { int hidden = 42; String tag = "t"; };     // non-denotable type
        var arr = new int[][] { { 1 }, { 2, 3 } };
        @Both var annotated = "a";
        BiFunction<Integer, Integer, Integer> add = (var a, var b) -> a + b;
        Function<String, String> f = (@Both var s) -> s + "!";
        try (var r = new java.io.StringReader("x")) {
            total += r.read();
        } catch (java.io.IOException e) {
            total = -1;
        }
        return "total=" + total + ", ratio=" + ratio + ", ch=" + ch + ", hidden=" + anon.hidden + anon.tag + arr.length + annotated + add.apply(1, 2) + f.apply("q") + list;
    }

    public static String concatShapes(int i, long l, float f, double d, char c, boolean z, byte b, short s, Object o, String str) {
        String r = "" + i;
        r += l;
        r = r + f + d;
        r = c + r + z;
        r = "lit\u0001eral" + b + "\u0002" + s + o + str + null;
        return r + List.of(1, 2, 3) + Map.of("k", "v") + Optional.ofNullable(o).or(() -> Optional.of("x")).orElseThrow();
    }

    private String name = "n";
    private static int counter;
    public String privateAccessFromLambda() {
        Function<Integer, String> fn = x -> name + x + counter++;
        return fn.apply(1);
    }

    interface Diamond<T> { T get(); }
    public static Diamond<List<String>> anonymousDiamond() {
        return new Diamond<>() { @Override public List<String> get() { return List.of(); } };   // diamond with anonymous class (9+)
    }

    @SafeVarargs private <T> List<T> privateSafeVarargs(T... ts) { return List.of(ts); }          // @SafeVarargs on private instance method (9+)

    public static int effectivelyFinalTwr(java.io.StringReader in) throws java.io.IOException {
        try (in) { return in.read(); }                                                           // try-with-resources on existing variable (9+)
    }
}
