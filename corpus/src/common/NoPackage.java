/** A class in the unnamed package. */
public class NoPackage {
    public static void main(String[] args) { System.out.println("Hello, " + (args.length > 0 ? args[0] : "world")); }
}
