package corpus;

import java.io.ByteArrayInputStream;
import java.io.Closeable;
import java.io.IOException;
import java.io.InputStream;

/** Exception tables of all shapes. */
public class Exceptions_ {
    static class Res implements AutoCloseable {
        final String name;
        Res(String name) { this.name = name; }
        @Override public void close() throws IOException { if (name == null) throw new IOException("close"); }
    }

    static class MyEx extends Exception {
        private static final long serialVersionUID = 1L;
        MyEx(String m, Throwable cause) { super(m, cause); }
    }

    public static int simple(String s) {
        try {
            return Integer.parseInt(s);
        } catch (NumberFormatException e) {
            return -1;
        }
    }

    public static int multiple(Object o) throws MyEx {
        try {
            return o.hashCode() / ((String) o).length();
        } catch (NullPointerException e) {
            return 1;
        } catch (ClassCastException | ArithmeticException e) {
            throw new MyEx("multi", e);
        } catch (RuntimeException e) {
            throw e;
        } catch (Throwable t) {
            return 4;
        }
    }

    public static int withFinally(int[] a) {
        int r = 0;
        try {
            r = a[0];
        } finally {
            r++;
        }
        return r;
    }

    public static int catchFinally(int[] a) {
        try {
            return a[1];
        } catch (ArrayIndexOutOfBoundsException e) {
            return -1;
        } finally {
            a = null;
            System.gc();
        }
    }

    @SuppressWarnings("finally")
    public static int finallyOverrides() {
        for (int i = 0; ; i++) {
            try {
                if (i == 3) return i;
                if (i == 2) continue;
                if (i == 5) break;
                throw new IllegalStateException();
            } catch (IllegalStateException e) {
                continue;
            } finally {
                if (i > 10) return 99;
            }
        }
        return 0;
    }

    public static String nested(String s) {
        try {
            try {
                try {
                    return s.trim();
                } catch (NullPointerException e) {
                    throw new IllegalArgumentException(e);
                } finally {
                    s = "inner";
                }
            } catch (IllegalArgumentException e) {
                try {
                    return e.getMessage();
                } finally {
                    s = "handler";
                }
            } finally {
                try {
                    s.length();
                } catch (Exception ignored) {
                }
            }
        } catch (Error | RuntimeException e) {
            return null;
        }
    }

    public static int twr() throws IOException {
        try (InputStream in = new ByteArrayInputStream(new byte[] { 1, 2, 3 })) {
            return in.read();
        }
    }

    public static String twrMulti(String a) throws Exception {
        try (Res r1 = new Res(a); Res r2 = new Res("two"); Closeable c = () -> { }) {
            return r1.name + r2.name + c;
        } catch (IOException e) {
            return "io";
        } finally {
            a = null;
        }
    }

    public static void twrNullAndNested() throws Exception {
        try (Res r = null) {
            try (Res inner = new Res("i")) {
                inner.close();
            }
        }
    }

    public static <X extends Throwable> void sneaky(Throwable t) throws X {
        @SuppressWarnings("unchecked") X x = (X) t;
        throw x;
    }

    public static void rethrow(Runnable r) throws IOException, InterruptedException {
        try {
            r.run();
            if (r == null) throw new IOException();
            if (r.hashCode() == 0) throw new InterruptedException();
        } catch (final Exception e) {
            throw e; // precise rethrow
        }
    }

    public static int catchInLoop(int[] data) {
        int sum = 0;
        for (int i = 0; i <= data.length; i++) {
            try {
                sum += data[i];
            } catch (ArrayIndexOutOfBoundsException e) {
                sum = -sum;
                break;
            }
        }
        return sum;
    }

    public void declared() throws IOException, MyEx, IllegalStateException { }
}
