package corpus;

import java.lang.annotation.Documented;
import java.lang.annotation.ElementType;
import java.lang.annotation.Inherited;
import java.lang.annotation.Repeatable;
import java.lang.annotation.Retention;
import java.lang.annotation.RetentionPolicy;
import java.lang.annotation.Target;
import java.util.Map;

/** Annotation types used all over the corpus (nested so InnerClasses shows up at every use site). */
public final class Annos {
    private Annos() { }

    /** Nested annotation value. */
    @Retention(RetentionPolicy.RUNTIME)
    public @interface Nested {
        int value();
        String name() default "";
    }

    /** Every element kind, each with a default (AnnotationDefault of every kind), RUNTIME retention. */
    @Documented
    @Inherited
    @Retention(RetentionPolicy.RUNTIME)
    @Target({ ElementType.TYPE, ElementType.FIELD, ElementType.METHOD, ElementType.PARAMETER, ElementType.CONSTRUCTOR,
              ElementType.LOCAL_VARIABLE, ElementType.ANNOTATION_TYPE, ElementType.PACKAGE })
    public @interface AllKinds {
        boolean z() default true;
        byte b() default (byte) -1;
        char c() default 'c';
        short s() default (short) 2;
        int i() default 3;
        long j() default 4L;
        float f() default 5.5f;
        double d() default 6.6;
        String str() default "dflt";
        RetentionPolicy e() default RetentionPolicy.CLASS;
        Class<?> cls() default void.class;
        Nested n() default @Nested(1);
        boolean[] za() default { true, false };
        byte[] ba() default { 1, 2, -128 };
        char[] ca() default { 'a', '\0', '￿', '\ud800' };
        short[] sa() default { };
        int[] ia() default { 1, 2, 3, Integer.MIN_VALUE };
        long[] ja() default { Long.MIN_VALUE, Long.MAX_VALUE };
        float[] fa() default { Float.NaN, -0.0f, Float.MIN_VALUE };
        double[] da() default { -0.0, Double.POSITIVE_INFINITY };
        String[] stra() default { "a", "\0", "\ud800", "😀", "" };
        ElementType[] ea() default { ElementType.TYPE, ElementType.FIELD };
        Class<?>[] clsa() default { int[].class, void.class, String.class, Map.Entry.class, int.class, String[][].class };
        Nested[] na() default { @Nested(1), @Nested(value = 2, name = "two") };
    }

    /** Same element kinds without defaults, CLASS retention (RuntimeInvisibleAnnotations). */
    @Retention(RetentionPolicy.CLASS)
    public @interface AllKindsClass {
        boolean z();
        byte b();
        char c();
        short s();
        int i();
        long j();
        float f();
        double d();
        String str();
        RetentionPolicy e();
        Class<?> cls();
        Nested n();
        boolean[] za();
        byte[] ba();
        char[] ca();
        short[] sa();
        int[] ia();
        long[] ja();
        float[] fa();
        double[] da();
        String[] stra();
        ElementType[] ea();
        Class<?>[] clsa();
        Nested[] na();
    }

    /** SOURCE retention: must never reach a class file. */
    @Retention(RetentionPolicy.SOURCE)
    public @interface Src { String value() default ""; }

    /** Default retention (CLASS), marker. */
    public @interface Marker { }

    @Retention(RetentionPolicy.RUNTIME)
    public @interface RtMarker { }

    @Retention(RetentionPolicy.RUNTIME)
    @Repeatable(Reps.class)
    public @interface Rep { String value(); }

    @Retention(RetentionPolicy.RUNTIME)
    public @interface Reps { Rep[] value(); }

    /** Parameter annotations, visible and invisible. */
    @Retention(RetentionPolicy.RUNTIME)
    @Target(ElementType.PARAMETER)
    public @interface P { String value() default ""; }

    @Retention(RetentionPolicy.CLASS)
    @Target(ElementType.PARAMETER)
    public @interface PI { int value() default 0; }

    /** Type annotations, RUNTIME retention. */
    @Retention(RetentionPolicy.RUNTIME)
    @Target({ ElementType.TYPE_USE, ElementType.TYPE_PARAMETER })
    public @interface TA { }

    @Retention(RetentionPolicy.RUNTIME)
    @Target({ ElementType.TYPE_USE, ElementType.TYPE_PARAMETER })
    public @interface TB { int value() default 0; }

    @Retention(RetentionPolicy.RUNTIME)
    @Target(ElementType.TYPE_USE)
    public @interface TC { String[] value() default { }; }

    /** Type annotation, CLASS retention (RuntimeInvisibleTypeAnnotations). */
    @Retention(RetentionPolicy.CLASS)
    @Target({ ElementType.TYPE_USE, ElementType.TYPE_PARAMETER })
    public @interface TI { }

    /** TYPE_PARAMETER only. */
    @Retention(RetentionPolicy.RUNTIME)
    @Target(ElementType.TYPE_PARAMETER)
    public @interface TP { }

    /** Both a declaration annotation and a type annotation: produces both attribute kinds at once. */
    @Retention(RetentionPolicy.RUNTIME)
    @Target({ ElementType.TYPE_USE, ElementType.FIELD, ElementType.METHOD, ElementType.PARAMETER, ElementType.LOCAL_VARIABLE,
              ElementType.CONSTRUCTOR, ElementType.TYPE })
    public @interface Both { String value() default "both"; }
}
