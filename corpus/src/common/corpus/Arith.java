package corpus;

/** Every arithmetic / shift / logic / conversion / comparison opcode. */
public class Arith {
    public static int intOps(int a, int b) {
        int r = a + b;
        r = r - b;
        r = r * a;
        r = r / (b | 1);
        r = r % (b | 1);
        r = -r;
        r = r << a;
        r = r >> b;
        r = r >>> 3;
        r = r & a;
        r = r | b;
        r = r ^ a;
        r = ~r;
        r++;
        r--;
        ++r;
        --r;
        r += 5;
        r -= 127;
        r += 128;       // iinc with value out of byte range -> wide iinc or iadd
        r += -129;
        r += 1000;
        r *= 3;
        r /= 7;
        r %= 11;
        r <<= 2;
        r >>= 1;
        r >>>= 1;
        r &= 0xff;
        r |= 0x100;
        r ^= 0x55;
        return r;
    }

    public static long longOps(long a, long b, int s) {
        long r = a + b;
        r = r - b;
        r = r * a;
        r = r / (b | 1L);
        r = r % (b | 1L);
        r = -r;
        r = r << s;
        r = r >> s;
        r = r >>> s;
        r = r & a;
        r = r | b;
        r = r ^ a;
        r = ~r;
        r++;
        r--;
        r += 1000L;
        r <<= 3;
        r >>= 2L;
        r >>>= 1;
        return r;
    }

    public static float floatOps(float a, float b) {
        float r = a + b;
        r = r - b;
        r = r * a;
        r = r / b;
        r = r % b;
        r = -r;
        r++;
        r--;
        r += 2.5f;
        return r;
    }

    public static double doubleOps(double a, double b) {
        double r = a + b;
        r = r - b;
        r = r * a;
        r = r / b;
        r = r % b;
        r = -r;
        r++;
        r--;
        r += 2.5;
        return r;
    }

    public static strictfp double strictOps(double a, float b) {
        double r = a * b + a / b - (a % b);
        float f = b * b / 3f;
        return r + f;
    }

    public static double conversions(int i, long l, float f, double d) {
        long i2l = i;
        float i2f = i;
        double i2d = i;
        int l2i = (int) l;
        float l2f = l;
        double l2d = l;
        int f2i = (int) f;
        long f2l = (long) f;
        double f2d = f;
        int d2i = (int) d;
        long d2l = (long) d;
        float d2f = (float) d;
        byte i2b = (byte) i;
        char i2c = (char) i;
        short i2s = (short) i;
        byte l2b = (byte) l;
        char d2c = (char) d;
        short f2s = (short) f;
        return i2l + i2f + i2d + l2i + l2f + l2d + f2i + f2l + f2d + d2i + d2l + d2f + i2b + i2c + i2s + l2b + d2c + f2s;
    }

    public static int compares(int a, int b, long l, long m, float f, float g, double d, double e, Object o, Object p) {
        int n = 0;
        if (a == b) n++;
        if (a != b) n++;
        if (a < b) n++;
        if (a <= b) n++;
        if (a > b) n++;
        if (a >= b) n++;
        if (a == 0) n++;
        if (a != 0) n++;
        if (a < 0) n++;
        if (a <= 0) n++;
        if (a > 0) n++;
        if (a >= 0) n++;
        if (l == m) n++;
        if (l != m) n++;
        if (l < m) n++;
        if (l <= m) n++;
        if (l > m) n++;
        if (l >= m) n++;
        if (f == g) n++;
        if (f != g) n++;
        if (f < g) n++;      // fcmpg
        if (f <= g) n++;
        if (f > g) n++;      // fcmpl
        if (f >= g) n++;
        if (d == e) n++;
        if (d != e) n++;
        if (d < e) n++;      // dcmpg
        if (d <= e) n++;
        if (d > e) n++;      // dcmpl
        if (d >= e) n++;
        if (o == p) n++;
        if (o != p) n++;
        if (o == null) n++;
        if (o != null) n++;
        boolean bb = a < b && l > m || !(f >= g) ^ (d != e);
        n += bb ? 1 : 0;
        n += (a > b) ? a : (l < m) ? b : 7;
        return n;
    }

    public static int stackOps(int[] arr, long[] larr, Arith self) {
        int i = 0;
        arr[i++] += 3;              // dup2
        larr[i] = larr[i]++ + 1;    // dup2_x2 family
        int x = arr[0] = arr[1] = 5; // dup_x2
        self.fi = self.fj = x;       // dup_x1
        self.fl = self.fm = 9L;      // dup2_x1
        long y = larr[0] = larr[1] = 7L; // dup2_x2
        self.fi++;
        self.fl--;
        Arith.si++;
        Arith.sl += 2;
        new Arith();                 // new, dup, invokespecial, pop
        self.longOpsVirtual(1L);     // pop2
        return x + (int) y;
    }

    int fi, fj;
    long fl, fm;
    static int si;
    static long sl;

    long longOpsVirtual(long v) { return v; }

    public static byte byteOps(byte a, byte b) { a += b; a++; a <<= 1; return (byte) (a * b); }
    public static short shortOps(short a, short b) { a += b; a--; a >>= 1; return (short) (a - b); }
    public static char charOps(char a, char b) { a += b; a++; a >>>= 1; return (char) (a ^ b); }
    public static boolean boolOps(boolean a, boolean b) { a &= b; a |= b; a ^= b; return !a; }
}
