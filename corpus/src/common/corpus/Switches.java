package corpus;

import java.util.concurrent.TimeUnit;

/** tableswitch, lookupswitch, string switch, enum switch. */
public class Switches {
    public enum Color { RED, GREEN, BLUE, ALPHA }

    public static int table(int x) {
        switch (x) {
            case 0: return 10;
            case 1: return 11;
            case 2: return 12;
            case 3: x += 1; // fall through
            case 4: return 14 + x;
            case 6: return 16;
            default: return -1;
        }
    }

    public static int tableNegative(int x) {
        switch (x) {
            case -3: return 1;
            case -2: return 2;
            case -1: return 3;
            case 0: return 4;
            case 1: return 5;
        }
        return 0;
    }

    public static int lookup(int x) {
        switch (x) {
            case Integer.MIN_VALUE: return 1;
            case -1000: return 2;
            case 0: return 3;
            case 1000: return 4;
            case 1000000: return 5;
            case Integer.MAX_VALUE: return 6;
            default: return 0;
        }
    }

    public static int lookupNoDefault(int x) {
        int r = 0;
        switch (x) {
            case 10: r = 1; break;
            case 10000: r = 2; break;
        }
        return r;
    }

    public static int emptyAndSingle(int x) {
        switch (x) { }
        switch (x) { default: x++; }
        switch (x) { case 5: x--; }
        return x;
    }

    public static int chars(char c) {
        switch (c) {
            case 'a': case 'e': case 'i': case 'o': case 'u': return 1;
            case '€': return 2;
            case '￿': return 3;
            default: return 0;
        }
    }

    public static int bytes(byte b, short s) {
        int r = 0;
        switch (b) { case -128: r = 1; break; case 127: r = 2; break; }
        switch (s) { case 1: case 2: case 3: r += 3; break; default: r += 4; }
        return r;
    }

    public static int strings(String s) {
        switch (s) {
            case "alpha": return 1;
            case "beta": return 2;
            case "Aa": return 3;   // hash collision with "BB"
            case "BB": return 4;
            case "": return 5;
            case "\0": return 6;
            case "😀": return 7;
            default: return 0;
        }
    }

    public static int enums(Color c) {
        switch (c) {
            case RED: return 1;
            case GREEN: return 2;
            case BLUE: return 3;
            default: return 0;
        }
    }

    public static String foreignEnum(TimeUnit u) {
        switch (u) {
            case NANOSECONDS: return "ns";
            case MICROSECONDS: return "us";
            case SECONDS: return "s";
            case DAYS: return "d";
        }
        return "?";
    }

    public static int boxed(Integer i, Character c) {
        switch (i) { case 1: return 1; case 2: return 2; }
        switch (c) { case 'x': return 3; }
        return 0;
    }

    public static int nested(int a, int b) {
        outer:
        switch (a) {
            case 0:
                switch (b) {
                    case 0: break outer;
                    case 100: return 1;
                    default: break;
                }
                return 2;
            case 1:
                for (int i = 0; i < b; i++) {
                    switch (i) {
                        case 3: continue;
                        case 5: break outer;
                    }
                }
                return 3;
        }
        return 4;
    }
}
