package corpus;

import java.util.EnumMap;
import java.util.EnumSet;
import java.util.function.IntBinaryOperator;
import java.util.function.Supplier;

/** Enum with constant bodies, abstract methods, constructors, interfaces; switches over enums. */
public enum Enums implements Supplier<String>, IntBinaryOperator {
    PLUS("+") {
        @Override public int applyAsInt(int a, int b) { return a + b; }
    },
    MINUS("-") {
        @Override public int applyAsInt(int a, int b) { return a - b; }
        @Override boolean commutative() { return false; }
    },
    TIMES("*", 2) {
        private final int extra = 1;
        @Override public int applyAsInt(int a, int b) { return a * b * extra; }
    },
    @Deprecated DIV("/", 2) {
        @Override public int applyAsInt(int a, int b) { return a / b; }
        @Override boolean commutative() { return false; }
    };

    private final String sym;
    private final int prec;
    static int count;
    public static final Enums DEFAULT = PLUS;

    Enums(String sym) { this(sym, 1); }
    private Enums(String sym, int prec) { this.sym = sym; this.prec = prec; }

    boolean commutative() { return true; }
    @Override public String get() { return sym; }
    public abstract int applyAsInt(int a, int b);

    public enum Simple { ONE, TWO, THREE }
    public enum Empty { }
    public enum WithIface implements Runnable { A, B; @Override public void run() { } }
    public enum Planet {
        MERCURY(3.303e+23, 2.4397e6), EARTH(5.976e+24, 6.37814e6);
        final double mass, radius;
        Planet(double mass, double radius) { this.mass = mass; this.radius = radius; }
        double gravity() { return 6.67300E-11 * mass / (radius * radius); }
    }

    public static int switchOwn(Enums e) {
        switch (e) {
            case PLUS: return 1;
            case MINUS: return 2;
            case TIMES: return 3;
            case DIV: return 4;
        }
        return 0;
    }

    public static int switchNested(Simple s, Planet p) {
        int r = 0;
        switch (s) { case ONE: r = 1; break; case THREE: r = 3; break; default: r = -1; }
        switch (p) { case EARTH: r += 10; }
        return r;
    }

    public static Object collections() {
        EnumMap<Simple, Enums> m = new EnumMap<>(Simple.class);
        m.put(Simple.ONE, PLUS);
        EnumSet<Enums> s = EnumSet.of(PLUS, MINUS);
        s.addAll(EnumSet.allOf(Enums.class));
        return new Object[] { m, s, Enums.values(), Enums.valueOf("PLUS"), Simple.valueOf("TWO").ordinal(), PLUS.name(), TIMES.getDeclaringClass(), PLUS.compareTo(MINUS) };
    }
}
