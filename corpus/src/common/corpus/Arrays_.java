package corpus;

import java.io.Serializable;
import java.util.List;

/** Arrays of every element type, multi-dimensional arrays, instanceof and checkcast. */
public class Arrays_ {
    public static double primitives(int n) {
        boolean[] z = new boolean[n];
        byte[] b = new byte[n];
        char[] c = new char[n];
        short[] s = new short[n];
        int[] i = new int[n];
        long[] j = new long[n];
        float[] f = new float[n];
        double[] d = new double[n];
        z[0] = true;
        b[0] = 1;
        c[0] = 'c';
        s[0] = 2;
        i[0] = 3;
        j[0] = 4L;
        f[0] = 5f;
        d[0] = 6d;
        return (z[0] ? 1 : 0) + b[0] + c[0] + s[0] + i[0] + j[0] + f[0] + d[0]
            + z.length + b.length + c.length + s.length + i.length + j.length + f.length + d.length;
    }

    public static Object initialisers() {
        boolean[] z = { true, false };
        byte[] b = { 1, -1, 127 };
        char[] c = { 'x', 'ሴ' };
        short[] s = { 1000, -1000 };
        int[] i = { 1, 2, 3, 100000 };
        long[] j = { 1L, 1L << 40 };
        float[] f = { 1f, 2.5f };
        double[] d = { 1d, 2.5e100 };
        String[] str = { "a", "b", null };
        Object[] o = { z, b, c, s, i, j, f, d, str };
        return o;
    }

    public static Object multi(int n) {
        int[][] a2 = new int[n][n];                // multianewarray dim 2
        long[][][] a3 = new long[n][2][3];         // multianewarray dim 3
        double[][][][] a4 = new double[1][2][3][4];
        String[][] s2 = new String[n][];           // anewarray of array type
        Object[][][] partial = new Object[n][n][]; // multianewarray 2 of 3-dim type
        byte[][] jag = { { 1 }, { 2, 3 }, {} };
        char[][][] c3 = new char[2][][];
        a2[0][0] = 1;
        a3[0][1][2] = 2L;
        a4[0][1][2][3] = 3d;
        s2[0] = new String[] { "x" };
        partial[0][0] = new Object[0];
        return new Object[] { a2, a3, a4, s2, partial, jag, c3 };
    }

    public static int typeTests(Object o) {
        int n = 0;
        if (o instanceof String) n += ((String) o).length();
        if (o instanceof int[]) n += ((int[]) o).length;
        if (o instanceof Object[]) n += ((Object[]) o).length;
        if (o instanceof String[][]) n += ((String[][]) o)[0].length;
        if (o instanceof List) n += ((List<?>) o).size();
        if (o instanceof Comparable) n += 1;
        if (o instanceof Serializable) n += 2;
        if (o instanceof Arrays_) n += 3;
        if (o instanceof long[][][]) n += 4;
        Number num = (Number) (o instanceof Number ? o : Integer.valueOf(0));
        CharSequence cs = (CharSequence & Comparable<String>) "abc";
        return n + num.intValue() + cs.length();
    }

    public static Object clones(int[] a, String[][] b) {
        int[] c = a.clone();
        String[][] d = b.clone();
        return new Object[] { c, d, a.getClass(), b.length };
    }

    public static void arrayStores(Object[] arr, Object v, int[][] grid) {
        arr[0] = v;
        arr[1] = arr[0];
        grid[1] = grid[0];
        grid[0][0] = grid[1][1]++;
        grid[0][1] += 5;
    }
}
