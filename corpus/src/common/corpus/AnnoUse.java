package corpus;

import corpus.Annos.AllKinds;
import corpus.Annos.AllKindsClass;
import corpus.Annos.Marker;
import corpus.Annos.Nested;
import corpus.Annos.P;
import corpus.Annos.PI;
import corpus.Annos.Rep;
import corpus.Annos.Reps;
import corpus.Annos.RtMarker;
import corpus.Annos.Src;
import java.lang.annotation.ElementType;
import java.lang.annotation.RetentionPolicy;
import java.util.List;
import java.util.Map;

/** Declaration annotations with every element kind on every kind of declaration. */
@AllKinds(
    z = false, b = (byte) 0x7f, c = 'ሴ', s = (short) -32768, i = 0xCAFEBABE, j = 0x123456789abcdefL,
    f = 1.0e-40f, d = Double.MIN_VALUE, str = "class \0 é € 😀 \ud800", e = RetentionPolicy.RUNTIME,
    cls = int[].class, n = @Nested(value = 7, name = "seven"),
    za = { }, ba = { 0 }, ca = { 'x' }, sa = { 1, 2, 3 }, ia = { }, ja = { 0L }, fa = { 1f, 2f }, da = { 1d },
    stra = { }, ea = { }, clsa = { void.class }, na = { })
@AllKindsClass(
    z = true, b = (byte) -128, c = '\0', s = (short) 32767, i = -1, j = -1L, f = Float.NEGATIVE_INFINITY, d = Double.NaN,
    str = "", e = RetentionPolicy.SOURCE, cls = Map.Entry.class, n = @Nested(0),
    za = { true }, ba = { -1, 1 }, ca = { '￿' }, sa = { }, ia = { 1, 2 }, ja = { 1L, 2L }, fa = { }, da = { 0.0, -0.0 },
    stra = { "x", "y" }, ea = { ElementType.METHOD, ElementType.TYPE_USE }, clsa = { Object.class, List[].class, long[][].class },
    na = { @Nested(1), @Nested(2), @Nested(value = 3, name = "\u0000") })
@Marker
@RtMarker
@Src("gone")
@Rep("one") @Rep("two") @Rep("three")
@TopAnno
@SuppressWarnings({ "unchecked", "rawtypes" })
public class AnnoUse {
    @AllKinds @Marker
    public int defaultsOnly;

    @AllKinds(str = "field", cls = String.class) @Deprecated
    public static final String CONST = "c";

    @Reps({ @Rep("explicit1"), @Rep("explicit2") })
    @AllKindsClass(
        z = false, b = 0, c = 'f', s = 0, i = 0, j = 0, f = 0, d = 0, str = "f", e = RetentionPolicy.CLASS, cls = void.class, n = @Nested(9),
        za = { }, ba = { }, ca = { }, sa = { }, ia = { }, ja = { }, fa = { }, da = { }, stra = { }, ea = { }, clsa = { }, na = { })
    protected volatile Object invisibleOnField;

    @Rep("single")
    transient long single;

    @AllKinds(i = 1) @RtMarker
    public AnnoUse() { }

    @Marker
    public AnnoUse(@P("ctor-p") int a, @PI(5) String b) { }

    @AllKinds(na = { @Nested(10), @Nested(11) }, ea = { ElementType.PACKAGE }) @TopAnno(value = "m", level = TopAnno.Level.LOW, numbers = { }, priority = 1)
    public void method() { }

    /** All parameters annotated, visible + invisible. */
    public void allParams(@P("a") @PI(1) int a, @P @PI long b, @P("c") @AllKinds(str = "param") Object c) { }

    /** Only some parameters annotated: entries with num_annotations == 0. */
    public static int someParams(int plain, @P("second") String s, double plain2, @PI(3) Object o, long[] plain3) { return plain; }

    /** Only invisible parameter annotations. */
    public void invisibleOnly(@PI int a, int b) { }

    /** Only visible, last parameter only. */
    public void lastOnly(int a, int b, @P("last") int c) { }

    /** SOURCE-retention parameter annotation only: no attribute at all. */
    public void sourceOnly(@Src int a) { }

    @Deprecated @Override
    public String toString() {
        @AllKinds(str = "local") @Marker int local = 1; // not emitted
        return "AnnoUse" + local;
    }

    @FunctionalInterface
    @Marker
    public interface Fn { @RtMarker void call(@P("x") int x); }

    @AllKinds(str = "anno-on-anno")
    public @interface Meta { @Marker int value() default 1; }

    @Meta(2)
    public enum E { @Marker @RtMarker A, @Meta B, C; @Rep("f") int f; }
}
