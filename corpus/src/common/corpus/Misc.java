package corpus;

import java.io.Serializable;

/** Modifier/flag coverage and odd class shapes. */
public abstract class Misc implements Serializable, Comparable<Misc> {
    public static final long serialVersionUID = 42L;
    public int pub; protected int prot; int pkg; private int priv;
    public static int spub; protected static int sprot; static int spkg; private static int spriv;
    public final int fin = spkg; public transient int trans; public volatile int vol; public static final transient int ST = 1;
    private static transient volatile int[] NOPE = null == null ? null : null;

    static { spub = 1; }
    static { sprot = 2; }
    { pub = 1; }
    { prot = 2; }

    protected Misc() { }
    public abstract void abs();
    protected abstract int absProt(int x) throws Exception;
    public final void fin() { }
    public static final synchronized strictfp void everything() { }
    public native void nat();
    private native static int pnat(int x);
    public synchronized void sync() { }
    public strictfp float strict(float a) { return a * 2; }
    public void varargs(int... a) { }
    @Override public int compareTo(Misc o) { return 0; }           // bridge: ACC_BRIDGE | ACC_SYNTHETIC | ACC_VOLATILE bit
    public static void main(String[] args) { System.out.println(spriv + NOPE.length); }

    public static class Empty { }
    public interface EmptyIface { }
    public interface ConstOnly { int A = 1; String B = "b"; long C = 3L; double D = 4.0; float E = 5f; char F = 'f'; boolean G = true; byte H = 8; short I = 9; }
    public static final class Utility { private Utility() { throw new AssertionError(); } public static void m() { } }
    static class LongNames_$with$dollars_and_a_rather_long_simple_name_to_stretch_the_utf8_entry_0123456789 { int ünïcödé_名前_𝒳; int $field$; int __; void $method$() { } static int ünï() { return 1; } }
    public static class ManyCtors {
        ManyCtors() { } ManyCtors(int a) { } ManyCtors(long a) { } ManyCtors(float a) { } ManyCtors(double a) { } ManyCtors(Object a) { }
        ManyCtors(int[] a) { } ManyCtors(Object[]... a) { } ManyCtors(byte a, short b, char c, boolean d) { }
    }
    /** 255 argument slots: the maximum. */
    public static long maxArgs(
        long a0, long a1, long a2, long a3, long a4, long a5, long a6, long a7, long a8, long a9, long a10, long a11, long a12, long a13, long a14, long a15,
        long a16, long a17, long a18, long a19, long a20, long a21, long a22, long a23, long a24, long a25, long a26, long a27, long a28, long a29, long a30, long a31,
        long a32, long a33, long a34, long a35, long a36, long a37, long a38, long a39, long a40, long a41, long a42, long a43, long a44, long a45, long a46, long a47,
        long a48, long a49, long a50, long a51, long a52, long a53, long a54, long a55, long a56, long a57, long a58, long a59, long a60, long a61, long a62, long a63,
        long a64, long a65, long a66, long a67, long a68, long a69, long a70, long a71, long a72, long a73, long a74, long a75, long a76, long a77, long a78, long a79,
        long a80, long a81, long a82, long a83, long a84, long a85, long a86, long a87, long a88, long a89, long a90, long a91, long a92, long a93, long a94, long a95,
        long a96, long a97, long a98, long a99, long a100, long a101, long a102, long a103, long a104, long a105, long a106, long a107, long a108, long a109, long a110, long a111,
        long a112, long a113, long a114, long a115, long a116, long a117, long a118, long a119, long a120, long a121, long a122, long a123, long a124, long a125, long a126,
        int last) {
        return a0 + a126 + last + maxArgs(a0, a1, a2, a3, a4, a5, a6, a7, a8, a9, a10, a11, a12, a13, a14, a15, a16, a17, a18, a19, a20, a21, a22, a23, a24, a25, a26, a27, a28, a29, a30, a31,
            a32, a33, a34, a35, a36, a37, a38, a39, a40, a41, a42, a43, a44, a45, a46, a47, a48, a49, a50, a51, a52, a53, a54, a55, a56, a57, a58, a59, a60, a61, a62, a63,
            a64, a65, a66, a67, a68, a69, a70, a71, a72, a73, a74, a75, a76, a77, a78, a79, a80, a81, a82, a83, a84, a85, a86, a87, a88, a89, a90, a91, a92, a93, a94, a95,
            a96, a97, a98, a99, a100, a101, a102, a103, a104, a105, a106, a107, a108, a109, a110, a111, a112, a113, a114, a115, a116, a117, a118, a119, a120, a121, a122, a123, a124, a125, a126, last);
    }
}
