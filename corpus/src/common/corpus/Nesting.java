package corpus;

import java.util.Iterator;
import java.util.function.IntSupplier;

/** InnerClasses / EnclosingMethod / NestHost / NestMembers in all shapes; synthetic accessors on release 8. */
public class Nesting {
    private int secret = 1;
    private static int ssecret = 2;
    private int secretM(int x) { return x + secret; }
    private static long ssecretM() { return ssecret; }
    private Nesting(int s, Object marker) { secret = s; }
    public Nesting() { this(0, null); }

    static Object fromClinit;
    static {
        // anonymous + local class in <clinit>: EnclosingMethod with method_index 0
        fromClinit = new Object() { @Override public String toString() { return "clinit-anon" + ssecret; } };
        class LocalInClinit { int v = ssecret; }
        ssecret += new LocalInClinit().v;
    }

    Object fromInit;
    {
        // anonymous class in instance initializer
        fromInit = new Runnable() { @Override public void run() { secret++; } };
    }

    final Object fromFieldInit = new Comparable<Nesting>() { @Override public int compareTo(Nesting o) { return secret - o.secret; } };
    static final Object FROM_STATIC_FIELD_INIT = new Cloneable() { };

    public Nesting(String viaCtor) {
        // anonymous class in a constructor: EnclosingMethod -> <init>
        this();
        class LocalInCtor { String s = viaCtor; }
        fromInit = new Object() { String x = viaCtor + new LocalInCtor().s; };
    }

    public static class StaticNested {
        private int x;
        int peek(Nesting n) { return n.secret + n.secretM(1) + (int) ssecretM() + new Nesting(5, null).secret; }
        public static class Deep { public static class Deeper { private static int d = 1; } int get() { return Deeper.d; } }
    }

    public class Inner {
        private int v = secret;
        public Inner() { }
        Inner(int v) { this.v = v; }
        public class Deeper {
            int v2 = v;
            int sum() { return secret + Inner.this.v + v2 + Nesting.this.secretM(v2); }
            class Deepest { int all() { return secret + v + v2; } }
        }
        Deeper deeper() { return new Deeper(); }
    }

    private class PrivInner { private PrivInner() { } private int p = 1; }
    protected static class ProtNested { }
    static final class FinalNested { }
    abstract static class AbstractNested { abstract void m(); }
    static strictfp class StrictNested { double m(double a) { return a * 2; } }
    interface NestedIface { class InIface { } enum InIfaceEnum { X } interface Deeper { } }
    private interface PrivIface { }
    enum NestedEnum { A, B { @Override int f() { return 2; } }; int f() { return 1; } }
    @interface NestedAnno { }

    public int usePrivates() { return new PrivInner().p + new Inner(3).v + new StaticNested().x; }

    public Iterator<Integer> localAndAnon(final int from, final long to, String label) {
        final int[] box = { from };
        class Counter implements Iterator<Integer> {            // local class capturing locals + this
            int cur = from;
            @Override public boolean hasNext() { return cur < to; }
            @Override public Integer next() { box[0]++; return cur++ + secret + label.length(); }
            @Override public void remove() { throw new UnsupportedOperationException(label); }
        }
        class NoCapture { }
        new NoCapture();
        Iterator<Integer> anon = new Iterator<Integer>() {       // anonymous capturing a local class instance
            final Counter c = new Counter();
            @Override public boolean hasNext() { return c.hasNext(); }
            @Override public Integer next() { return c.next() + from; }
            @Override public void remove() { }
        };
        return anon;
    }

    public static Runnable staticLocal(int a) {
        class StaticLocal implements Runnable {                   // local class in static method: no outer this
            @Override public void run() { ssecret += a; }
        }
        return new StaticLocal();
    }

    public Object anonWithCtorArgs(int a, String b) {
        return new Inner(a) {                                     // anonymous subclass of inner class, ctor args + captured
            @Override public String toString() { return b + a + secret; }
        };
    }

    public Object anonInAnon() {
        return new Object() {
            Object inner = new Object() {
                Object innermost = new Object() { int z = secret; };
            };
        };
    }

    public IntSupplier lambdaInInner() {
        return new Inner().new Deeper() { IntSupplier s = () -> sum() + secret; }.s;
    }

    public static int localInLambda() {
        IntSupplier s = () -> { class InLambda { int v = ssecret; } return new InLambda().v; };
        return s.getAsInt();
    }

    public Object localEnumLike() {
        class L1 { class L2 { class L3 { int v = secret; } } }
        return new L1().new L2().new L3();
    }
}
