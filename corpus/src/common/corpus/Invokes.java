package corpus;

import corpus.pkg.InPkg;
import java.util.ArrayList;
import java.util.List;
import corpus.InvokeTypes.Base;
import corpus.InvokeTypes.Iface;
import corpus.InvokeTypes.Iface2;
import corpus.InvokeTypes.Sub;

/** Every invoke kind and field access kind. */
public class Invokes extends InvokeTypes.Base implements InvokeTypes.Iface, InvokeTypes.Iface2, Cloneable {
    private int priv;
    private static int spriv;
    byte fb; short fs; char fc; boolean fz; float ff; double fd; long fl; Object fo; int[] fa;
    static byte sb; static short ss; static char sc; static boolean sz; static float sf; static double sd; static long sl; static Object so; static int[][] sa;

    public Invokes() { super(); }
    public Invokes(int x) { super(x); priv = x; }
    private Invokes(String s, long l, double d) { this(s.length() + (int) l + (int) d); }

    @Override Object abs() { return this; }
    @Override public int abstractM(int x) { return x + 1; }
    @Override public int defaultM(int x) { return Iface.super.defaultM(x) + Iface2.super.defaultM(x); }
    @Override protected int virt(int x) { return super.virt(x) + super.pf + (int) Base.ps; }
    @Override public String toString() { return super.toString() + priv; }
    @Override protected Object clone() throws CloneNotSupportedException { return super.clone(); }

    private int privM(int x) { return x ^ priv; }
    private static long privStatic(long a, long b) { return a * b; }
    static void noArgs() { }
    double manyArgs(byte a, short b, char c, boolean d, int e, long f, float g, double h, Object i, int[] j, String[][] k, long l) { return a + b + c + e + f + g + h + l; }
    static int varargs(String fmt, Object... args) { return args.length; }
    static int primVarargs(int... xs) { return xs.length; }

    public int callAll(Iface i, Base b, Sub sub, List<String> list, Object o) throws Exception {
        int r = 0;
        r += i.abstractM(1);                       // invokeinterface
        r += i.defaultM(2);
        r += (int) i.wide(1L, 2.0, o, 1, 2, 3);    // invokeinterface with count 6+
        r += Iface.staticM(3);                     // invokestatic InterfaceMethodref
        r += b.virt(4);                            // invokevirtual
        r += b.fin();
        r += Base.stat();                          // invokestatic
        r += privM(5);                             // invokespecial (8) / invokevirtual (11+)
        r += (int) privStatic(6L, 7L);
        r += this.virt(8);
        r += super.virt(9);                        // invokespecial super
        r += sub.toString().length();              // invokeinterface of Object method redeclared
        r += i.hashCode();                         // invokevirtual Object.hashCode on interface type
        r += list.size() + list.get(0).length();
        r += o.hashCode() + o.toString().length() + (o.equals(b) ? 1 : 0);
        r += new int[3].clone().length;            // invokevirtual on array class
        r += ((Invokes) clone()).priv;
        r += new Invokes("s", 1L, 2.0).priv;       // private ctor
        r += (int) manyArgs((byte) 1, (short) 2, 'c', true, 4, 5L, 6f, 7d, o, null, null, 8L);
        r += varargs("f") + varargs("f", 1) + varargs("f", 1, "2", 3.0) + varargs("f", (Object[]) null) + primVarargs() + primVarargs(1, 2);
        r += new ArrayList<String>().size();
        r += Integer.valueOf(3) + Long.valueOf(4L).intValue();  // boxing / unboxing calls
        r += String.valueOf(r).length() + Math.max(r, 0);
        noArgs();
        return r;
    }

    public double fieldsAll(Invokes other) {
        fb = 1; fs = 2; fc = 'c'; fz = true; ff = 3f; fd = 4d; fl = 5L; fo = this; fa = new int[1];
        sb = 1; ss = 2; sc = 'c'; sz = true; sf = 3f; sd = 4d; sl = 5L; so = this; sa = new int[1][];
        other.priv = priv; other.pf = pf; Base.ps = ps + 1; spriv++; vol = 1;
        other.fl += 2; other.fd *= 2; other.fb++; other.fc += 1; Invokes.sl <<= 1; sd /= 2; other.fa[0]++;
        return fb + fs + fc + (fz ? 1 : 0) + ff + fd + fl + fo.hashCode() + fa.length
             + sb + ss + sc + (sz ? 1 : 0) + sf + sd + sl + so.hashCode() + sa.length + Iface.CONST + Iface.OBJ.hashCode() + vol;
    }

    /** Protected access across packages: synthetic accessors / nestmate access from inner classes and lambdas. */
    public static class CrossPkg extends InPkg {
        public int go() {
            Runnable r = new Runnable() { public void run() { prot++; protMethod(1); sprot = "x"; } };
            r.run();
            java.util.function.IntSupplier s = () -> protMethod(2) + prot;
            return s.getAsInt() + new ProtNested() { }.v;
        }
    }
}
