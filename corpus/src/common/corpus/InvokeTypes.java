package corpus;

/** Receiver types for {@link Invokes}. */
public final class InvokeTypes {
    private InvokeTypes() { }

    public interface Iface {
        int CONST = 42;                     // implicit public static final
        Object OBJ = new Object();          // interface <clinit>
        int abstractM(int x);
        default int defaultM(int x) { return abstractM(x) + staticM(x) + CONST; }
        static int staticM(int x) { return x * 2; }
        default long wide(long a, double b, Object c, int... rest) { return a + (long) b + rest.length; }
    }

    public interface Iface2 {
        default int defaultM(int x) { return -x; }
        default String name() { return "Iface2"; }
    }

    public interface Sub extends Iface, Iface2 {
        @Override default int defaultM(int x) { return Iface.super.defaultM(x) - Iface2.super.defaultM(x); }
        @Override String toString();
    }

    public abstract static class Base {
        protected int pf;
        protected static long ps = 5L;
        public volatile double vol;
        Base() { this(1); }
        Base(int x) { pf = x; }
        protected int virt(int x) { return x; }
        abstract Object abs();
        public static int stat() { return 3; }
        @Override public String toString() { return "Base" + super.toString(); }
        final int fin() { return 0; }
        native int nat(int x);
        static native void snat(long a, double b, Object[] c);
        protected synchronized native Object syncNat();
    }
}
