package corpus.pkg;

/** Package-private members, protected access across packages. */
public class InPkg {
    protected int prot = 1;
    int pkgPrivate = 2;
    protected static String sprot = "sp";
    protected InPkg() { }
    protected int protMethod(int x) { return x + prot; }
    static int pkgStatic() { return 5; }
    protected static class ProtNested { protected ProtNested() { } public int v = 3; }
}
