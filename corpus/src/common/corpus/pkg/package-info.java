/** Annotated package: package-info.class is an ACC_INTERFACE|ACC_ABSTRACT|ACC_SYNTHETIC class. */
@corpus.Annos.AllKinds(str = "package", i = 99)
@corpus.Annos.Marker
@Deprecated
package corpus.pkg;
