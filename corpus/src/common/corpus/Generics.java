package corpus;

import java.io.IOException;
import java.io.Serializable;
import java.util.AbstractList;
import java.util.ArrayList;
import java.util.Collection;
import java.util.List;
import java.util.Map;
import java.util.RandomAccess;
import java.util.concurrent.Callable;
import java.util.function.Function;
import java.util.function.Supplier;

/** Signature attributes on classes, fields, methods; bridges; LocalVariableTypeTable. */
public class Generics<T extends Comparable<? super T> & Serializable, U, V extends U>
        extends AbstractList<T>
        implements Comparable<Generics<T, U, V>>, Supplier<Map<String, ? extends List<? super U>>> {

    T t;
    U[] uarr;
    V[][] varr2;
    List<? extends Number> wildExt;
    List<? super Integer> wildSup;
    List<?> wildUnb;
    Map<String, List<int[]>> map;
    List<?>[] unbArr;
    Map.Entry<T, ? extends U> entry;
    Generics<T, U, V>.Inner<String> inner;
    Generics<T, U, V>.Inner<String>.Deeper<Integer, long[]> deeper;
    Function<? super T, ? extends Map<U, V[]>> fn;
    static Class<? extends Enum<?>> enumClass;
    int plain;                         // no Signature
    List rawList;                      // raw: no Signature

    public class Inner<W> {
        W w;
        T outerT;
        public class Deeper<X, Y> { X x; Y y; W w2; T t2; Map<X, Map<Y, Map<W, T>>> all; }
        <X extends W> X m(X x, W w, T t) { return x; }
    }

    public static class StaticInner<A extends Number & Comparable<A>> { A a; <B extends A> B m(B b) { return b; } }

    public interface GenIface<K, R extends Collection<K>> { R collect(K k); <E extends Throwable> void may() throws E; }

    public Generics() { }
    public <X> Generics(X x, T t, List<? extends X> xs) { this.t = t; }

    public static <A, B extends A, C extends List<? extends B> & RandomAccess> C bounded(A a, B b, C c) { return c; }
    public <E extends Exception> void thrower(Class<E> c) throws E, IOException { }
    public static <E extends Enum<E> & Supplier<String>> E enumBound(Class<E> c, String n) { return Enum.valueOf(c, n); }
    @SafeVarargs public static <X> List<X> listOf(X... xs) { return new ArrayList<X>(java.util.Arrays.asList(xs)); }
    public <X extends T> X recursive(X x, List<? super X> sink) { sink.add(x); return x; }
    public T[] arrays(T[] a, U[][] b, List<V>[] c, int[] d) { return a; }
    public void noGenerics(int a, String b) { }
    public static <A> A intersectionCast(Object o) { @SuppressWarnings("unchecked") A a = (A) (Comparable<A> & Serializable) o; return a; }

    @Override public T get(int index) { return t; }                             // bridge: get(I)Ljava/lang/Object; covariant
    @Override public int size() { return 1; }
    @Override public int compareTo(Generics<T, U, V> o) { return t.compareTo(o.t); }   // bridge compareTo(Object)
    @Override public Map<String, ? extends List<? super U>> get() { return null; }       // bridge get()Object
    @Override public Generics<T, U, V> clone() { return this; }                          // covariant return

    public static abstract class Shape<S extends Shape<S>> implements Callable<S> { abstract S self(); @Override public S call() { return self(); } }
    public static class Circle extends Shape<Circle> { @Override Circle self() { return this; } }

    public static double locals(List<? extends Number> in, Map<String, List<Integer>> m) {
        // LocalVariableTypeTable entries
        List<Double> out = new ArrayList<>();
        for (Number n : in) out.add(n.doubleValue());
        Map.Entry<String, List<Integer>> first = m.entrySet().iterator().next();
        Supplier<List<? extends CharSequence>> sup = () -> new ArrayList<String>();
        Function<List<Integer>, Integer> f = l -> l.size();
        int plain = f.apply(first.getValue()) + sup.get().size();
        double sum = plain;
        for (Double d : out) sum += d;
        return sum;
    }
}
