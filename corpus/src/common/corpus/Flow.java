package corpus;

import java.util.Iterator;
import java.util.List;

/** Loops, labels, synchronized blocks and methods, conditional expressions. */
public class Flow {
    private final Object lock = new Object();
    private int counter;
    private static int scounter;

    public synchronized int syncMethod() { return ++counter; }

    public static synchronized int staticSync() { return ++scounter; }

    public int syncBlock(int d) {
        synchronized (lock) {
            counter += d;
            if (counter < 0) return -1;
        }
        synchronized (this) {
            synchronized (Flow.class) {
                return counter + scounter;
            }
        }
    }

    public int syncWithTry(int[] a) {
        synchronized (a) {
            try {
                return a[0];
            } catch (RuntimeException e) {
                synchronized (lock) { counter--; }
                return 0;
            } finally {
                counter++;
            }
        }
    }

    public static int loops(int n, List<String> list, String[] arr, long[] longs) {
        int sum = 0;
        for (int i = 0; i < n; i++) sum += i;
        for (int i = n, j = 0; i > j; i--, j++) sum -= i * j;
        int k = 0;
        while (k < n) { sum += k; k += 2; }
        do { sum ^= k; k--; } while (k > 0);
        for (String s : list) sum += s.length();
        for (String s : arr) sum += s.length();
        for (long l : longs) sum += (int) l;
        for (Iterator<String> it = list.iterator(); it.hasNext(); ) sum += it.next().hashCode();
        for (;;) { if (sum != 0) break; sum++; }
        while (true) { if (++sum > 0) break; }
        do { } while (false);
        return sum;
    }

    public static int labels(int[][] grid) {
        int found = 0;
        outer:
        for (int i = 0; i < grid.length; i++) {
            inner:
            for (int j = 0; j < grid[i].length; j++) {
                if (grid[i][j] < 0) continue outer;
                if (grid[i][j] == 0) continue inner;
                if (grid[i][j] == 42) { found = i * 100 + j; break outer; }
                if (grid[i][j] == 43) break inner;
                int w = 0;
                deep:
                while (true) {
                    do {
                        if (++w > 5) break deep;
                        if (w == 2) continue deep;
                    } while (w < 10);
                }
            }
        }
        block: {
            if (found > 0) break block;
            found = -1;
        }
        return found;
    }

    public static int ternaries(int a, int b, Object o) {
        int m = a > b ? a : b;
        long l = a == b ? 1L : o == null ? 2L : 3;
        String s = o != null ? o.toString() : a < 0 ? "neg" : "pos";
        boolean z = a > 0 && b > 0 ? o == null || a == b : !(a < b);
        Object x = z ? (Object) m : (Object) s;
        Number num = z ? Integer.valueOf(1) : Double.valueOf(2);
        return (int) (m + l + s.length() + (z ? 1 : 0) + x.hashCode() + num.intValue());
    }

    public static void assertions(int x) {
        assert x > 0;
        assert x < 100 : "too big: " + x;
    }

    public static int returns(int k) {
        if (k == 0) return 0;
        else if (k == 1) return 1;
        return returns(k - 1) + returns(k - 2);
    }

    public static long lret() { return 1L; }
    public static float fret() { return 1f; }
    public static double dret() { return 1d; }
    public static Object aret() { return null; }
    public static void vret() { }
    public static void thrower() { throw new UnsupportedOperationException(); }
}
