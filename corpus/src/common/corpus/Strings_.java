package corpus;

/** String concatenation: StringBuilder chains on 8, invokedynamic makeConcatWithConstants on 9+. */
public class Strings_ {
    static String sfield = "sf";
    String field = "f";

    public static String simple(String a, String b) { return a + b; }
    public static String withConstants(String a, int i) { return "pre-" + a + "-mid-" + i + "-post"; }
    public static String allTypes(boolean z, byte b, char c, short s, int i, long j, float f, double d, Object o, String str, char[] ca, int[] ia) {
        return "" + z + b + c + s + i + j + f + d + o + str + ca + ia + null + 1 + 2L + 3f + 4d + 'c' + true;
    }
    /** \1 and \2 are the tag characters of the indy recipe, so they force constants into bootstrap args. */
    public static String recipeEscapes(String a) { return "\u0001" + a + "\u0002" + a + "\u0001\u0002"; }
    public static String unicode(String a) { return "é€" + a + "😀" + a + "\0" + a + "\ud800"; }
    public String compound(String a) {
        String r = a;
        r += "x";
        r += 1;
        r += a + field + sfield;
        field += r;
        sfield += field + 2.5;
        String[] arr = { "a" };
        arr[0] += r;                // dup2 + concat
        arr[0] += 1L;
        return r;
    }
    public static String loop(String[] parts) {
        String s = "";
        for (String p : parts) s += p + ",";
        return s;
    }
    public static String constantFolded() { return "a" + "b" + 1 + 'c' + 2.0 + true + Consts.STR; }
    public static String nested(String a, String b, int c) { return (a + b) + (c + (a + "z")) + (b == null ? "null" + c : b + c); }
    /** More than 200 operands: javac splits indy concat into several call sites. */
    public static String huge(String a, int b) {
        return a + b + a + b + a + b + a + b + a + b + a + b + a + b + a + b + a + b + a + b + a + b + a + b + a + b + a + b + a + b + a + b + a + b + a + b + a + b + a + b
             + a + b + a + b + a + b + a + b + a + b + a + b + a + b + a + b + a + b + a + b + a + b + a + b + a + b + a + b + a + b + a + b + a + b + a + b + a + b + a + b
             + a + b + a + b + a + b + a + b + a + b + a + b + a + b + a + b + a + b + a + b + a + b + a + b + a + b + a + b + a + b + a + b + a + b + a + b + a + b + a + b
             + a + b + a + b + a + b + a + b + a + b + a + b + a + b + a + b + a + b + a + b + a + b + a + b + a + b + a + b + a + b + a + b + a + b + a + b + a + b + a + b
             + a + b + a + b + a + b + a + b + a + b + a + b + a + b + a + b + a + b + a + b + a + b + a + b + a + b + a + b + a + b + a + b + a + b + a + b + a + b + a + b
             + a + b + a + b + a + b + a + b + a + b + a + b + a + b + a + b + a + b + a + b + a + b + a + b + a + b + a + b + a + b + a + b + a + b + a + b + a + b + a + b;
    }
    public static int switchOnConcat(String a) {
        switch (a + "x") { case "ax": return 1; case "bx": return 2; default: return 0; }
    }
}
