package corpus;

import java.util.ArrayList;
import java.util.List;

/** Shapes chosen to provoke every StackMapTable frame kind and verification type. */
public class StackMaps {
    final int v;
    final Object o;

    /** Branch before super()/this(): UninitializedThis in frames. */
    public StackMaps(boolean c, int a, int b) {
        this(c ? a : b);
    }

    public StackMaps(int v) {
        super();
        this.v = v;
        this.o = v > 0 ? "pos" : null;
    }

    /** Branch between new and invokespecial: Uninitialized(offset) on the stack (full_frame). */
    public static Object uninit(boolean c, int a, int b, String s) {
        Object x = new StackMaps(c ? a : b);
        Object y = new StringBuilder(s == null ? "null" : s).append(c ? new StackMaps(a > b ? a : b) : new StackMaps(c, a, b));
        return new Object[] { x, y, new StackMaps(c && a > 0 || b < 0, c ? 1 : 2, new int[c ? 1 : 2].length) };
    }

    /** Null verification type; long/double/float locals; Top for dead slots. */
    public static double types(int n, long l, float f, double d) {
        Object nul = null;
        String s = null;
        int i = 0;
        while (i < n) {
            if (nul == null && s == null) i++;
            else i += 2;
        }
        {
            long dead1 = l + 1;
            double dead2 = d + dead1;
            if (dead2 > 0) i++;
        }
        // the dead slots above are reused / become Top here
        for (int k = 0; k < n; k++) {
            float g = f * k;
            if (g > 1) { double h = g; d += h; }
        }
        int[] arr = n > 0 ? new int[n] : null;
        long[][] larr = n > 1 ? new long[n][n] : null;
        return i + l + f + d + (arr == null ? 0 : arr.length) + (larr == null ? 0 : larr.length);
    }

    /** append / chop frames. */
    public static int appendChop(int n) {
        int r = 0;
        if (n > 0) {
            int a = n, b = n + 1, c = n + 2;
            while (a < 100) { a += b + c; }
            r = a;
        }
        if (n > 1) {
            int a = 1;
            if (n > 2) {
                int b = 2;
                if (n > 3) {
                    int c = 3;
                    while (c < n) c *= 2;
                    r += c;
                }
                r += b;
            }
            r += a;
        }
        for (int i = 0; i < n; i++) for (long j = 0; j < n; j++) for (double k = 0; k < n; k++) r++;
        return r;
    }

    /** Frames more than 63 bytes apart: same_frame_extended and same_locals_1_stack_item_frame_extended. */
    public static int extended(int x, String s) {
        if (x > 0) {
            x = x * 31 + 1; x = x * 31 + 2; x = x * 31 + 3; x = x * 31 + 4; x = x * 31 + 5; x = x * 31 + 6; x = x * 31 + 7; x = x * 31 + 8;
            x = x * 31 + 9; x = x * 31 + 10; x = x * 31 + 11; x = x * 31 + 12; x = x * 31 + 13; x = x * 31 + 14; x = x * 31 + 15; x = x * 31 + 16;
        }
        try {
            x += s.length(); x = x * 31 + 1; x = x * 31 + 2; x = x * 31 + 3; x = x * 31 + 4; x = x * 31 + 5; x = x * 31 + 6; x = x * 31 + 7;
            x = x * 31 + 9; x = x * 31 + 10; x = x * 31 + 11; x = x * 31 + 12; x = x * 31 + 13; x = x * 31 + 14; x = x * 31 + 15; x = x * 31 + 16;
        } catch (NullPointerException e) {
            x = -1;
        }
        return x;
    }

    /** Stack non-empty at a branch target: same_locals_1_stack_item and full frames with stack entries. */
    public static String stackAtBranch(boolean c, int a, long l, Object o) {
        String r = "a" + (c ? "yes" : "no");
        int m = a + (c ? 1 : 2);
        long q = l * (c ? 3L : 4L);
        double d = 1.5 * (c ? 2.0 : 3.0);
        float f = 2.5f + (c ? 1f : 0f);
        List<Object> list = new ArrayList<>();
        list.add(c ? o : r);
        takes(a, l, c ? "x" : null, d, c ? f : -f);
        return r + m + q + d + f + list;
    }

    static void takes(int a, long b, String c, double d, float e) { }
    static void takesNull(Object a, int b, Object c, long d) { }

    /** A null constant below a branch on the operand stack: Null verification type. */
    public static void nullOnStack(boolean c, double dparam) {
        takesNull(null, c ? 1 : 2, null, c ? 3L : 4L);
        dparam = c ? 1.0 : 2.0;   // dstore_1
    }

    /** Merging of reference types at join points; arrays of different dimension. */
    public static Object merges(int k, Integer boxed, String s, int[] ia, int[][] iaa) {
        Object o;
        if (k == 0) o = boxed; else if (k == 1) o = s; else if (k == 2) o = ia; else o = iaa;
        Number n = k > 5 ? boxed : Double.valueOf(k);
        Comparable<?> c = k > 6 ? boxed : s;
        Object[] arr = k > 7 ? new String[1] : new Integer[1];
        Cloneable cl = k > 8 ? ia : iaa;
        return new Object[] { o, n, c, arr, cl };
    }

    /** Many frames in one method. */
    public static int manyFrames(int x) {
        int r = 0;
        if ((x & 1) != 0) r += 1;
        if ((x & 2) != 0) r += 2;
        if ((x & 4) != 0) r += 4;
        if ((x & 8) != 0) r += 8;
        if ((x & 16) != 0) r += 16;
        if ((x & 32) != 0) r += 32;
        if ((x & 64) != 0) r += 64;
        if ((x & 128) != 0) r += 128;
        if ((x & 256) != 0) r += 256;
        if ((x & 512) != 0) r += 512;
        return r;
    }
}
