package corpus;

import java.lang.annotation.Documented;
import java.lang.annotation.ElementType;
import java.lang.annotation.Inherited;
import java.lang.annotation.Retention;
import java.lang.annotation.RetentionPolicy;
import java.lang.annotation.Target;

/** Top-level annotation type, itself meta-annotated, with constants and a nested type. */
@Documented
@Inherited
@Retention(RetentionPolicy.RUNTIME)
@Target({ ElementType.TYPE, ElementType.METHOD, ElementType.ANNOTATION_TYPE })
@TopAnno(value = "self", level = TopAnno.Level.HIGH)
public @interface TopAnno {
    String DEFAULT = "top";
    int MAX = 10;

    enum Level { LOW, MID, HIGH }

    String value() default DEFAULT;
    Level level() default Level.MID;
    Class<? extends Number>[] numbers() default { Integer.class, Long.class };
    int priority() default MAX - 1;
}
