package corpus;

/** Constants of every kind: push instructions, ldc variants, ConstantValue attributes. */
public class Consts {
    // ConstantValue attributes of every primitive type + String
    public static final boolean Z_TRUE = true;
    public static final boolean Z_FALSE = false;
    public static final byte B_MIN = Byte.MIN_VALUE;
    public static final byte B_MAX = Byte.MAX_VALUE;
    public static final short S_MIN = Short.MIN_VALUE;
    public static final short S_MAX = Short.MAX_VALUE;
    public static final char C_MIN = '\u0000';
    public static final char C_MAX = '￿';
    public static final char C_A = 'A';
    public static final char C_SURR = '\ud800';
    public static final int I_MIN = Integer.MIN_VALUE;
    public static final int I_MAX = Integer.MAX_VALUE;
    public static final int I_ZERO = 0;
    public static final int I_M1 = -1;
    public static final long J_MIN = Long.MIN_VALUE;
    public static final long J_MAX = Long.MAX_VALUE;
    public static final long J_ZERO = 0L;
    public static final long J_ONE = 1L;
    public static final float F_NAN = Float.NaN;
    public static final float F_PINF = Float.POSITIVE_INFINITY;
    public static final float F_NINF = Float.NEGATIVE_INFINITY;
    public static final float F_NZERO = -0.0f;
    public static final float F_ZERO = 0.0f;
    public static final float F_MIN = Float.MIN_VALUE;          // subnormal
    public static final float F_MIN_NORMAL = Float.MIN_NORMAL;
    public static final float F_MAX = Float.MAX_VALUE;
    public static final float F_SUBNORMAL = 1.0e-40f;
    public static final float F_NAN_BITS = 0.0f / 0.0f;
    public static final double D_NAN = Double.NaN;
    public static final double D_PINF = Double.POSITIVE_INFINITY;
    public static final double D_NINF = Double.NEGATIVE_INFINITY;
    public static final double D_NZERO = -0.0;
    public static final double D_ZERO = 0.0;
    public static final double D_MIN = Double.MIN_VALUE;        // subnormal
    public static final double D_MIN_NORMAL = Double.MIN_NORMAL;
    public static final double D_MAX = Double.MAX_VALUE;
    public static final double D_SUBNORMAL = 1.0e-310;
    public static final double D_PI = 3.141592653589793;
    public static final String STR = "constant";
    public static final String STR_EMPTY = "";
    public static final String STR_NUL = "a\0b\0";
    public static final String STR_EMOJI = "😀 grin";
    public static final String STR_LONE_HI = "\uD800";
    public static final String STR_LONE_LO = "\uDC00x";
    public static final String STR_REVERSED = "\uDC00\uD800";
    public static final String STR_2BYTE = "\u0080߿é";
    public static final String STR_3BYTE = "ࠀ￿€";
    // non-constant static finals (no ConstantValue, initialised in <clinit>)
    public static final Object OBJ = new Object();
    public static final Integer BOXED = 42;
    public static final String NONCONST = String.valueOf(1);
    // instance final with constant initialiser (gets ConstantValue too)
    public final int instConst = 77;
    final String instStr = "inst";
    private static final long PRIVATE_CONST = 0x123456789abcdefL;
    protected static final double PROT_CONST = 2.718281828459045;

    public static int ints(int sel) {
        int a = -1, b = 0, c = 1, d = 2, e = 3, f = 4, g = 5;      // iconst_m1..iconst_5
        int h = 6, i = -2, j = 127, k = -128;                       // bipush
        int l = 128, m = -129, n = 32767, o = -32768, p = 255, q = 256; // sipush
        int r = 32768, s = -32769, t = 65535, u = 65536, v = Integer.MAX_VALUE, w = Integer.MIN_VALUE, x = 0xCAFEBABE; // ldc
        return sel + a + b + c + d + e + f + g + h + i + j + k + l + m + n + o + p + q + r + s + t + u + v + w + x;
    }

    public static long longs() {
        long a = 0L, b = 1L;                                         // lconst_0/1
        long c = 2L, d = -1L, e = 127L, f = 32767L;                  // iconst/bipush + i2l or ldc2_w
        long g = 0x7fffffffffffffffL, h = 0x8000000000000000L, i = 0xFFFFFFFFL, j = 1234567890123L;
        return a + b + c + d + e + f + g + h + i + j;
    }

    public static float floats() {
        float a = 0f, b = 1f, c = 2f;                               // fconst_0/1/2
        float d = 3f, e = -1f, f = 0.5f, g = -0.0f, h = 1e-45f, i = 3.4028235e38f, j = 1.17549435E-38f;
        float k = Float.NaN, l = Float.POSITIVE_INFINITY, m = Float.NEGATIVE_INFINITY;
        float n = Float.intBitsToFloat(0x7fc00001);
        return a + b + c + d + e + f + g + h + i + j + k + l + m + n;
    }

    public static double doubles() {
        double a = 0d, b = 1d;                                      // dconst_0/1
        double c = 2d, d = -1d, e = 0.1, f = -0.0, g = 4.9e-324, h = 1.7976931348623157e308, i = 2.2250738585072014E-308;
        double j = Double.NaN, k = Double.POSITIVE_INFINITY, l = Double.NEGATIVE_INFINITY, m = 1e-320;
        return a + b + c + d + e + f + g + h + i + j + k + l + m;
    }

    public static Object[] refs() {
        return new Object[] {
            null, "str", "", "a\0b", "😀", "\uD800", "\uDC00x", "x\uD800y\uDBFFz", "\u0000", "\u007f\u0080߿ࠀ￿",
            Object.class, String.class, int.class, void.class, int[].class, String[][].class, long[][][].class,
            Consts.class, Consts[].class, java.util.Map.Entry.class, Void.class, boolean.class, byte.class, char.class,
            short.class, long.class, float.class, double.class,
        };
    }

    public static char[] chars() {
        return new char[] { 'a', '\0', '\n', '\t', '\\', '\'', '"', 'é', '€', '\ud83d', '\ude00', '￿', '\177' };
    }

    public static boolean bools(boolean x) {
        boolean t = true, f = false;
        return (t & x) | (f ^ x) || !x && t;
    }

    public static String longString() {
        return "Lorem ipsum dolor sit amet, consectetur adipiscing elit, sed do eiusmod tempor incididunt ut labore et dolore magna aliqua. "
            + "Ut enim ad minim veniam, quis nostrud exercitation ullamco laboris nisi ut aliquip ex ea commodo consequat. "
            + "Duis aute irure dolor in reprehenderit in voluptate velit esse cillum dolore eu fugiat nulla pariatur. "
            + "Excepteur sint occaecat cupidatat non proident, sunt in culpa qui officia deserunt mollit anim id est laborum. "
            + "Sed ut perspiciatis unde omnis iste natus error sit voluptatem accusantium doloremque laudantium, totam rem aperiam, "
            + "eaque ipsa quae ab illo inventore veritatis et quasi architecto beatae vitae dicta sunt explicabo. "
            + "éèêë 中文 русский 𝒳𝒴𝒵 \0\0\0 "
            + "Nemo enim ipsam voluptatem quia voluptas sit aspernatur aut odit aut fugit, sed quia consequuntur magni dolores eos qui "
            + "ratione voluptatem sequi nesciunt. Neque porro quisquam est, qui dolorem ipsum quia dolor sit amet, consectetur, adipisci velit.";
    }
}
