package corpus;

/** Deprecated attribute on class, field, method, constructor, nested types; javadoc @deprecated tag too. */
@Deprecated
public class Deprecated_ {
    @Deprecated public int field;
    @Deprecated public static final int CONST = 1;
    /** @deprecated javadoc-only deprecation also sets the Deprecated attribute */
    public int javadocOnly;
    @Deprecated public Deprecated_() { }
    @Deprecated public void method() { }
    /** @deprecated via javadoc */
    public static void javadocMethod() { }
    @Deprecated public static class Nested { }
    @Deprecated public interface Iface { @Deprecated void m(); }
    @Deprecated public enum En { @Deprecated A, B }
    @Deprecated public @interface An { @Deprecated int v() default 0; }
    public void user() { method(); field++; javadocMethod(); }
}
