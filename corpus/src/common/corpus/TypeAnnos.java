package corpus;

import corpus.Annos.Both;
import corpus.Annos.TA;
import corpus.Annos.TB;
import corpus.Annos.TC;
import corpus.Annos.TI;
import corpus.Annos.TP;
import java.io.ByteArrayInputStream;
import java.io.IOException;
import java.io.InputStream;
import java.io.Serializable;
import java.util.ArrayList;
import java.util.HashMap;
import java.util.List;
import java.util.Map;
import java.util.function.BiFunction;
import java.util.function.Function;
import java.util.function.IntFunction;
import java.util.function.Supplier;

/** Type annotations (JVMS 4.7.20) on every target_type and with every type_path kind, visible and invisible. */
public class TypeAnnos<@TA T extends @TB(1) Object & @TC Comparable<@TA T>, @TI @TP U extends @TA List<@TB(2) ? extends @TC Number>>
        extends @TA ArrayList<@TB(3) T>
        implements @TB(4) Serializable, @TC({ "impl" }) Comparable<@TA TypeAnnos<@TI T, U>> {

    private static final long serialVersionUID = 1L;

    public static class Outer {
        public class Inner { public class Deeper<X> { } }
        public static class SNested<Y> { public class InS { } }
    }

    // ---- fields (target 0x13) with all type_path kinds
    @TA String field;
    @TI String invisibleField;
    @TA @TI @TB(5) String mixedField;
    @Both String both;
    @TA String @TB(6) [] @TC [] arr2;                                   // type_path kind 0 (array)
    @TA int @TB(7) [] primArr;
    @TA int prim;
    Map<@TA String, @TB(8) List<@TC Integer>> map;                       // kind 3 (type argument)
    List<? extends @TA Number> wildExt;                                  // kind 2 (wildcard bound)
    List<? super @TI Integer> wildSup;
    List<@TA ?> wildItself;
    List<@TA ? extends @TB(9) List<@TC ? super @TI String @TA []>> wildDeep;
    Outer.@TA Inner nestedType;                                          // kind 1 (nested)
    @TA Outer.Inner outerAnnotated;
    @TA Outer.@TB(10) Inner.@TC Deeper<@TI String> deep;
    Outer.SNested<@TA String>.@TB(11) InS staticThenInner;
    Map.@TA Entry<@TB(12) String, @TC int @TA []> entry;
    List<@TA String>[] @TB(13) [] genericArr;
    static @TA Object sfield;

    // ---- methods: return 0x14, receiver 0x15, formal parameter 0x16, throws 0x17, type parameter 0x01, bound 0x12
    public @TA TypeAnnos() { }                                           // ctor "return" type
    @Both public TypeAnnos(@TA String a, int plain, @TB(14) List<@TC String> c) { }
    public @TA String ret() { return null; }
    public @TA String @TB(15) [] retArr() { return null; }
    public @TI Map<@TA String, @TB(16) ?> retGeneric() { return null; }
    public @TA int retPrim() { return 0; }
    public void receiver(@TA TypeAnnos<@TB(17) T, @TC U> this) { }
    public void receiverAndParam(@TI TypeAnnos<T, U> this, @TA String p) { }
    public void params(@TA String a, int b, @TB(18) List<@TC String> c, @TI long d, @TA String @TB(19) ... varargs) { }
    public void thrower() throws @TA IOException, @TB(20) RuntimeException, @TI Error { }
    public <@TA X extends @TB(21) Number & @TC Comparable<@TI X>, @TI Y, @TP Z extends @TA Y> X generic(X x, Y y, Z z) { return x; }
    public static <@TB(22) Q> @TA Q sgeneric(@TB(23) Q q) { return q; }
    @Override public int compareTo(@TA TypeAnnos<@TB(24) T, U> o) { return 0; }   // bridge gets no annotations
    @Both public String bothMethod(@Both String p) { @Both String l = p; return l; }

    public class In {
        public In(@TA TypeAnnos<T, U> TypeAnnos.this) { }                // receiver of inner class constructor
        public In(@TB(25) TypeAnnos<@TC T, U> TypeAnnos.this, @TA String s) { }
        public void m(@TA TypeAnnos<@TB(26) T, U>.@TC In this) { }
    }

    public TypeAnnos(int forCtorTypeArgs) { }
    public <A> TypeAnnos(A a, String s) { }
    <A> A id(A a) { return a; }
    static <A, B> Map<A, B> smap() { return new HashMap<>(); }

    // ---- code targets 0x40..0x4B
    @SuppressWarnings("unchecked")
    public Object code(Object o, List<String> list) throws Exception {
        @TA String local = "s";                                           // 0x40 local variable
        @TI String invisibleLocal = "i";
        @TB(27) List<@TC String> genericLocal = new @TA ArrayList<@TB(28) String>();   // 0x44 new
        @TA int @TB(29) [] @TC [] arrLocal = new @TA int @TB(30) [2] @TC [3];
        String @TA [] init = new String @TB(31) [] { local };
        for (@TA int i = 0; i < 2; i++) { @TB(32) long inLoop = i; arrLocal[0][0] += inLoop; }
        for (@TA String each : list) { local += each; }
        { @TA Object scoped1 = o; local += scoped1; }
        { @TB(33) Object scoped2 = o; local += scoped2; }                 // same slot, second range
        try (@TA InputStream in = new @TB(34) ByteArrayInputStream(new byte @TC [0]);      // 0x41 resource variable
             @TI InputStream in2 = new ByteArrayInputStream(new byte[1])) {
            local += in.read() + in2.read();
        } catch (@TA IOException | @TB(35) IllegalStateException e) {       // 0x42 exception parameter
            local += e;
        } catch (@TC RuntimeException e) {
            local += e;
        } finally {
            @TA Object inFinally = local;                                  // duplicated finally bodies: multiple table entries
            local += inFinally;
        }
        if (o instanceof @TA String) local += "str";                       // 0x43 instanceof
        if (o instanceof @TB(36) List<@TC ?>) local += "list";
        if (o instanceof @TA String @TI []) local += "arr";
        Object n1 = new @TA Object();
        Object n2 = new @TA Outer().new @TB(37) Inner();
        Object n3 = new @TA ArrayList<@TB(38) String>() { @TC String inAnon; };
        Object n4 = new Outer.@TA SNested<@TB(39) String>();
        Object n5 = new @TA String @TB(40) [3] @TC [];
        Supplier<ArrayList<String>> cr1 = @TA ArrayList<@TB(41) String>::new;            // 0x45 constructor reference
        IntFunction<int[]> cr2 = @TA int[]::new;                       // (annotating both element and dimension crashes javac 17)
        IntFunction<String[][]> cr3 = String @TB(42) [] @TC []::new;
        Function<String, Integer> mr1 = @TA String::length;                               // 0x46 method reference
        Function<List<String>, Integer> mr2 = @TB(43) List<@TC String>::size;
        String c1 = (@TA String) o;                                                        // 0x47 cast
        Object c2 = (@TA Serializable & @TB(44) Comparable<@TC String>) o;                 // intersection cast: type_argument_index 0,1
        List<String> c3 = (@TI List<@TA String>) o;
        int c4 = (@TA int) 3L;
        Object c5 = (@TA String @TB(45) []) o;
        Object ci1 = new <@TA String> TypeAnnos<T, U>("a", "s");                            // 0x48 ctor invocation type argument
        Object mi1 = this.<@TA String>id("x");                                              // 0x49 method invocation type argument
        Object mi2 = TypeAnnos.<@TA String, @TB(46) List<@TC Integer>>smap();
        BiFunction<String, String, TypeAnnos<T, U>> cra = TypeAnnos<T, U>::<@TA String>new;   // 0x4A ctor reference type argument
        Function<String, String> mra = this::<@TB(47) String>id;                             // 0x4B method reference type argument
        Function<@TA String, @TB(48) Integer> lam = (@TC String s) -> { @TA int len = s.length(); return (@TI Integer) len; };
        return new Object[] { local, invisibleLocal, genericLocal, arrLocal, init, n1, n2, n3, n4, n5, cr1, cr2, cr3, mr1, mr2, c1, c2, c3, c4, c5, ci1, mi1, mi2, cra, mra, lam };
    }

    static @TA Object sinit;
    static { @TA Object inClinit = new @TB(49) Object(); sinit = (@TC Object) inClinit; }
    Object iinit;
    // NOTE: no type annotation on the local here. javac copies the localvar_target ranges of an
    // initializer-block local into *every* constructor without adjusting them, which yields
    // start_pc/length values that are not instruction boundaries (not representable as class facts).
    // The annotated variant lives in InitBlock below, a class with exactly one constructor.
    // The same happens to offset targets (NEW, CAST, ...) inside instance initializers and field
    // initializers, so those are unannotated here as well.
    { Object inInit = new Object(); iinit = inInit; }

    public static class InitBlock {
        Object iinit;
        { @TI Object inInit = new @TA Object(); iinit = inInit; }
        static Object sinit;
        static { @TI Object inClinit2 = new @TB(48) Object(); sinit = inClinit2; }
        @TA Object fieldInit = new @TB(50) ArrayList<@TC String>();
        Object castInit = (@TC Object) fieldInit;
    }
    @TA Object fieldInit = new ArrayList<String>();
    Supplier<@TA String> lambdaField = () -> (@TB(51) String) null;

    public interface AnnIface<@TA K> extends @TB(52) Supplier<@TC K>, @TI Serializable { @TA K get(); }
    public enum AnnEnum implements @TA Serializable { @TB(53) A; @TC int f; }
    public static abstract class AnnAbstract<@TP P> implements @TA List<@TB(54) P> { }
}
