package corpus;

import java.io.Serializable;
import java.util.ArrayList;
import java.util.Arrays;
import java.util.Comparator;
import java.util.HashMap;
import java.util.List;
import java.util.Map;
import java.util.concurrent.Callable;
import java.util.function.BiFunction;
import java.util.function.BinaryOperator;
import java.util.function.Consumer;
import java.util.function.Function;
import java.util.function.IntBinaryOperator;
import java.util.function.IntFunction;
import java.util.function.IntSupplier;
import java.util.function.LongUnaryOperator;
import java.util.function.Predicate;
import java.util.function.Supplier;
import java.util.function.ToDoubleBiFunction;
import java.util.function.UnaryOperator;

/** invokedynamic: lambdas and method references of all shapes. */
public class Lambdas implements Serializable {
    private static final long serialVersionUID = 1L;

    public interface SerRunnable extends Runnable, Serializable { }
    public interface SerFn<T, R> extends Function<T, R>, Serializable { }
    @FunctionalInterface public interface TriFn<A, B, C, R> { R apply(A a, B b, C c); }
    public interface Marker { }
    public interface StrFn extends Function<String, String> { @Override String apply(String s); }   // needs bridge -> altMetafactory FLAG_BRIDGES
    public interface Thrower<E extends Exception> { void run() throws E; }
    public interface WithDefault { int get(); default Supplier<Integer> boxed() { return () -> get() + 1; } static Runnable st() { return () -> { }; } }

    private int field = 7;
    static int sfield;
    static final Runnable FROM_CLINIT = () -> sfield = 1;
    final Supplier<String> fromFieldInit = () -> "init" + this.field;
    static Function<Integer, Integer> fact;
    static { fact = n -> n <= 1 ? 1 : n * Lambdas.fact.apply(n - 1); }

    public Lambdas() { Runnable r = () -> field++; r.run(); }
    public Lambdas(String s) { field = s.length(); }
    public Lambdas(int a, long b) { this(((Supplier<String>) () -> "x" + a + b).get()); }   // lambda in ctor prologue

    public static Runnable nonCapturing() { return () -> sfield++; }
    public Supplier<Integer> capturingThis() { return () -> field; }
    public static IntSupplier capturingLocals(int a, long b, String c, double d, float e, byte f, char g, short h, boolean i, int[] j) {
        return () -> a + (int) b + c.length() + (int) d + (int) e + f + g + h + (i ? 1 : 0) + j.length;
    }
    public IntBinaryOperator capturingBoth(int k) { return (x, y) -> x * k + y * field; }
    public static LongUnaryOperator wideArgs(double d) { return l -> l + (long) d; }
    public static ToDoubleBiFunction<Long, Double> wideBoxed() { return (l, d) -> l + d; }

    public Supplier<Supplier<Callable<Integer>>> nested(int a) {
        return () -> {
            int b = a + 1;
            return () -> {
                int c = b + field;
                return () -> a + b + c + field;
            };
        };
    }

    public static Object methodRefs(List<String> list, Lambdas self) {
        Function<String, Integer> stat = Integer::parseInt;                 // static
        Function<String, Integer> unbound = String::length;                 // unbound instance
        Function<String, String> bound = "abc"::concat;                     // bound instance
        Consumer<Object> boundField = System.out::println;                  // bound on field value (null check)
        Supplier<Integer> boundThis = self::instanceM;
        Supplier<Lambdas> ctor0 = Lambdas::new;                             // constructor refs
        Function<String, Lambdas> ctor1 = Lambdas::new;
        BiFunction<Integer, Long, Lambdas> ctor2 = Lambdas::new;
        Supplier<List<String>> genericCtor = ArrayList::new;
        Supplier<Map<String, List<Integer>>> genericCtor2 = HashMap<String, List<Integer>>::new;
        IntFunction<int[]> arr1 = int[]::new;                               // array constructor refs
        IntFunction<String[][]> arr2 = String[][]::new;
        Function<Integer, List<String>[]> arr3 = List[]::new;
        Function<Object[], List<Object>> varargsRef = Arrays::asList;       // varargs target
        BiFunction<String, Object[], String> fmt = String::format;
        Comparator<String> cmp = String::compareToIgnoreCase;
        BinaryOperator<Integer> boxing = Math::max;                         // boxing adaptation
        Function<Integer, Long> widening = Long::valueOf;
        Supplier<Inner> innerCtor = self.new Holder()::make;
        UnaryOperator<String> priv = self::privateM;
        Function<Lambdas, Integer> fieldLess = Lambdas::instanceM;
        Function<String, Object> intersect = Lambdas::<String>genericM;
        Predicate<Object> isNull = java.util.Objects::isNull;
        Runnable iface = WithDefault.st()::run;
        list.forEach(System.out::println);
        list.sort(Comparator.comparing(String::length).thenComparing(Comparator.naturalOrder()));
        return Arrays.asList(stat, unbound, bound, boundField, boundThis, ctor0, ctor1, ctor2, genericCtor, genericCtor2, arr1, arr2, arr3,
            varargsRef, fmt, cmp, boxing, widening, innerCtor, priv, fieldLess, intersect, isNull, iface);
    }

    int instanceM() { return field; }
    private String privateM(String s) { return s + field; }
    static <T> Object genericM(T t) { return t; }

    public class Inner { final int v; Inner(int v) { this.v = v; } }
    public class Holder {
        Inner make() { return new Inner(field); }
        Supplier<Inner> ref() { return () -> new Inner(field + 1); }
        Function<Integer, Inner> ctorRef() { return Inner::new; }         // inner class ctor ref captures outer this
        Supplier<String> superRef() { return Holder.super::toString; }
        Supplier<String> outerRef() { return Lambdas.this::toString; }
    }

    @Override public String toString() { Supplier<String> s = super::toString; return s.get(); }  // super method ref -> synthetic lambda

    public static Object serializable(int cap) {
        Runnable r1 = (Runnable & Serializable) () -> sfield += cap;       // altMetafactory FLAG_SERIALIZABLE, $deserializeLambda$
        SerRunnable r2 = () -> sfield--;
        SerFn<String, Integer> f1 = String::length;                        // serializable method ref
        SerFn<Integer, int[]> f2 = int[]::new;
        Supplier<Lambdas> f3 = (Supplier<Lambdas> & Serializable) Lambdas::new;
        Comparator<String> c = (Comparator<String> & Serializable) (a, b) -> a.length() - b.length();
        return new Object[] { r1, r2, f1, f2, f3, c };
    }

    public static Object markersAndBridges() {
        Runnable marked = (Runnable & Marker) () -> { };                   // altMetafactory FLAG_MARKERS
        Runnable both = (Runnable & Marker & Serializable & Cloneable) () -> { };
        StrFn bridged = s -> s + "!";                                       // altMetafactory FLAG_BRIDGES
        StrFn bridgedRef = String::trim;
        return new Object[] { marked, both, bridged, bridgedRef };
    }

    public static <T extends Comparable<T>, E extends Exception> T generic(List<T> l, Thrower<E> t) throws E {
        t.run();
        Comparator<T> c = (a, b) -> a.compareTo(b);
        BinaryOperator<T> max = (a, b) -> c.compare(a, b) >= 0 ? a : b;
        return l.stream().reduce(max).orElse(null);
    }

    public static int inAnonymous(int x) {
        return new Object() {
            int y = x;
            int go() { IntSupplier s = () -> x + y; return s.getAsInt(); }
        }.go();
    }

    public static Runnable anonInLambda(int x) {
        return () -> new Thread() { @Override public void run() { sfield = x; } }.start();
    }

    public static void blockBodies(List<Integer> xs) throws Exception {
        Callable<Integer> c = () -> {
            int sum = 0;
            for (int x : xs) {
                switch (x) { case 1: sum += 1; break; case 100: sum += 2; break; default: sum--; }
                try { if (x < 0) throw new IllegalStateException(); } catch (IllegalStateException e) { sum = 0; } finally { sum++; }
            }
            synchronized (xs) { return sum; }
        };
        Thrower<Exception> t = () -> { throw new Exception("x" + c.call()); };
        t.run();
    }

    public static TriFn<Integer, Long, Double, String> tri() { return (a, b, c) -> "" + a + b + c; }

    public static Function<int[], Function<long[][], Function<String[], Object>>> curried() {
        return a -> b -> c -> new Object[] { a, b, c };
    }
}
