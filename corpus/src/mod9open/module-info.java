/** Open module with no explicit directives except a requires: ACC_OPEN, mandated java.base. */
open module corpus.openmod {
    requires static java.logging;
    exports corpus.openmod;
}
