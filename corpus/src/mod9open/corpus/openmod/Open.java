package corpus.openmod;

public class Open {
    public static int answer() { return 42; }
}
