package corpus.mod.internal;

import corpus.mod.spi.Service;

public class ServiceImpl2 implements Service {
    private ServiceImpl2() { }
    /** Provider method instead of a public constructor. */
    public static Service provider() { return new ServiceImpl2(); }
    @Override public String handle(String in) { return new StringBuilder(in).reverse().toString(); }
    @Override public int priority() { return 1; }
}
