package corpus.mod.internal;

import corpus.mod.spi.Service;

public class ServiceImpl implements Service {
    @Override public String handle(String in) { return in.toUpperCase(); }
}
