package corpus.mod.internal;

import java.io.PrintWriter;
import java.util.spi.ToolProvider;

public class Tool implements ToolProvider {
    @Override public String name() { return "corpus-tool"; }
    @Override public int run(PrintWriter out, PrintWriter err, String... args) { out.println(args.length); return 0; }
}
