package corpus.mod.api;

import corpus.mod.spi.Service;
import java.util.ServiceLoader;
import java.util.logging.Logger;

@ModAnno("api")
public final class Api {
    private static final Logger LOG = Logger.getLogger(Api.class.getName());
    private Api() { }

    public static String run(String in) {
        StringBuilder sb = new StringBuilder();
        for (Service s : ServiceLoader.load(Service.class)) sb.append(s.handle(in)).append(';');
        LOG.fine(() -> "ran " + sb);
        return sb.toString();
    }

    public static void main(String[] args) { System.out.println(run(String.join(" ", args))); }
}
