package corpus.mod.api;

import java.lang.annotation.ElementType;
import java.lang.annotation.Retention;
import java.lang.annotation.RetentionPolicy;
import java.lang.annotation.Target;

@Retention(RetentionPolicy.RUNTIME)
@Target({ ElementType.MODULE, ElementType.TYPE })
public @interface ModAnno { String value(); }
