package corpus.mod.spi;

public interface Service {
    String handle(String in);
    default int priority() { return 0; }
}
