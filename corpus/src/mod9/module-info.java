import corpus.mod.api.ModAnno;

/**
 * Module attribute with every directive kind.
 * @deprecated to get the Deprecated attribute and RuntimeVisibleAnnotations on a module-info class
 */
@Deprecated(since = "9", forRemoval = true)
@ModAnno("on-module")
module corpus.mod {
    requires java.base;                         // explicit (otherwise ACC_MANDATED)
    requires transitive java.logging;
    requires static java.compiler;
    requires static transitive java.xml;
    requires java.sql;

    exports corpus.mod.api;
    exports corpus.mod.spi to java.logging, java.xml, not.existing.module;
    opens corpus.mod.internal;
    opens corpus.mod.api to java.desktop, java.sql;

    uses corpus.mod.spi.Service;
    uses java.util.spi.ToolProvider;
    uses java.sql.Driver;

    provides corpus.mod.spi.Service with corpus.mod.internal.ServiceImpl, corpus.mod.internal.ServiceImpl2;
    provides java.util.spi.ToolProvider with corpus.mod.internal.Tool;
}
