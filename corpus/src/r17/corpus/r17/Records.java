package corpus.r17;

import corpus.Annos.AllKinds;
import corpus.Annos.Both;
import corpus.Annos.Marker;
import corpus.Annos.Nested;
import corpus.Annos.RtMarker;
import corpus.Annos.TA;
import corpus.Annos.TB;
import corpus.Annos.TC;
import corpus.Annos.TI;
import java.io.Serializable;
import java.lang.annotation.ElementType;
import java.lang.annotation.Retention;
import java.lang.annotation.RetentionPolicy;
import java.lang.annotation.Target;
import java.util.List;
import java.util.Map;
import java.util.Objects;

/** Record attribute: component annotations, Signature on components, compact/canonical/extra ctors, ObjectMethods indy. */
public class Records {
    @Retention(RetentionPolicy.RUNTIME)
    @Target(ElementType.RECORD_COMPONENT)
    public @interface OnComponent { String value() default ""; }

    @Retention(RetentionPolicy.CLASS)
    @Target({ ElementType.RECORD_COMPONENT, ElementType.FIELD, ElementType.METHOD, ElementType.PARAMETER })
    public @interface Everywhere { }

    public record Empty() { }

    public record Point(int x, int y) { }

    /** Compact canonical constructor (mandated parameters), static members, instance method. */
    public record Range(int lo, int hi) implements Comparable<Range>, Serializable {
        public static final Range EMPTY = new Range(0, 0);
        static int created;
        public Range {
            if (lo > hi) throw new IllegalArgumentException("lo > hi: " + lo + " > " + hi);
            created++;
        }
        public Range(int single) { this(single, single); }
        public int length() { return hi - lo; }
        public static Range of(int a, int b) { return a <= b ? new Range(a, b) : new Range(b, a); }
        @Override public int compareTo(Range o) { return Integer.compare(lo, o.lo); }
    }

    /** Annotated and generic components; annotations propagate to field / accessor / ctor parameter per their targets. */
    public record Annotated<T extends Comparable<T>, U>(
            @OnComponent("first") @Everywhere @AllKinds(str = "component") T first,
            @TA List<@TB(1) ? extends @TC U> second,
            @Both @TI Map<@TA String, T @TB(2) []> third,
            @Deprecated @Marker @RtMarker int fourth,
            @OnComponent @TA String @TB(3) ... rest) {
        /** Explicit canonical constructor. */
        public Annotated(T first, List<? extends U> second, Map<String, T[]> third, int fourth, String... rest) {
            this.first = Objects.requireNonNull(first);
            this.second = second;
            this.third = third;
            this.fourth = fourth;
            this.rest = rest.clone();
        }
        /** Explicit accessor. */
        @Override public @TA T first() { return first; }
    }

    /** All primitive component types: ObjectMethods bootstrap with many getters. */
    public record Prims(boolean z, byte b, char c, short s, int i, long j, float f, double d, Object o, int[] ia, String[][] saa) {
        @Override public boolean equals(Object other) { return other instanceof Prims p && p.i == i; }
        @Override public int hashCode() { return i; }
    }

    public record Nested1(Point p, Range r, Nested1 next) {
        record Inner(@AllKinds(n = @Nested(5)) Nested1 outer) { }
    }

    public interface Shape { double area(); }
    public record Circle(double r) implements Shape { @Override public double area() { return Math.PI * r * r; } }

    public static Object local(int a) {
        record Local(int v, String s) { static int K = 1; int twice() { return 2 * v; } }   // local record: implicitly static
        enum LocalEnum { P, Q }                                                              // local enum (16+)
        interface LocalIface { int f(); }                                                    // local interface (16+)
        LocalIface li = () -> a;
        return new Object[] { new Local(a, "s").twice(), LocalEnum.P, li.f(), Local.K };
    }

    public class InnerWithStatic { static int allowedSince16 = 1; record R(int q) { } }       // static members in inner classes (16+)
}
