package corpus.r17;

import corpus.Annos.TA;

/** PermittedSubclasses on classes and interfaces. */
public class Sealed {
    public sealed interface Expr permits Const, Add, Mul, Neg, Other { }
    public record Const(int v) implements Expr { }
    public record Add(Expr l, Expr r) implements Expr { }
    public record Mul(Expr l, Expr r) implements Expr { }
    public static final class Neg implements Expr { final Expr e; Neg(Expr e) { this.e = e; } }
    public non-sealed interface Other extends Expr { }

    public abstract static sealed class Animal permits Animal.Dog, Animal.Cat, Wild {
        public static final class Dog extends Animal { }
        public static sealed class Cat extends Animal permits Lion { }
        static final class Lion extends Cat { }
    }
    public static non-sealed class Wild extends Animal { }

    /** permits omitted: inferred from the compilation unit. */
    public sealed interface Inferred { }
    record I1() implements Inferred { }
    enum I2 implements Inferred { X, Y { } }      // enum with a constant body is implicitly sealed: PermittedSubclasses on an enum

    public sealed interface Generic<@TA T> permits GenImpl { }
    public static final class GenImpl<T> implements Generic<T> { }

    public static int eval(Expr e) {
        if (e instanceof Const c) return c.v();
        if (e instanceof Add a) return eval(a.l()) + eval(a.r());
        if (e instanceof Mul m && m.l() instanceof Const c && c.v() == 0) return 0;
        if (e instanceof Mul m) return eval(m.l()) * eval(m.r());
        if (!(e instanceof Neg n)) throw new IllegalArgumentException();
        return -eval(n.e);
    }
}
