package corpus.r17;

import corpus.Annos.TA;
import corpus.Annos.TB;
import java.util.List;
import java.util.concurrent.TimeUnit;

/** Switch expressions, arrow cases, yield, text blocks, pattern matching for instanceof. */
public class Modern {
    public enum Day { MON, TUE, WED, THU, FRI, SAT, SUN }

    public static int arrowEnum(Day d) {
        return switch (d) {
            case MON, TUE, WED, THU, FRI -> 1;
            case SAT -> { int x = d.ordinal(); yield x * 2; }
            case SUN -> throw new IllegalStateException("sunday");     // exhaustive: synthetic default throwing IncompatibleClassChangeError
        };
    }

    public static String arrowInt(int k) {
        return switch (k) {
            case 1, 2, 3 -> "low";
            case 100 -> "hundred";
            case -1, Integer.MIN_VALUE -> "neg";
            default -> { if (k > 1000) yield "big"; yield "other" + k; }
        };
    }

    public static int arrowString(String s) {
        return switch (s) {
            case "a", "b" -> 1;
            case "Aa", "BB" -> 2;        // equal hash codes
            case "" -> 3;
            default -> s.length();
        };
    }

    public static long oldStyleYield(char c, TimeUnit u) {
        long r = switch (c) { case 'a': case 'b': yield 1L; case 'z': yield 26L; default: yield 0L; };
        double d = switch (u) { case NANOSECONDS -> 1e-9; case SECONDS -> 1.0; default -> Double.NaN; };
        switch (u) {                                               // arrow statement switch
            case DAYS -> r++;
            case HOURS, MINUTES -> { r += 2; }
            default -> { }
        }
        return r + (long) d;
    }

    /** Switch expression with a non-empty operand stack and try inside: javac spills the stack to locals. */
    public static String stackSpill(int k, String p) {
        return p + k + switch (k) {
            case 0 -> { try { yield Integer.toString(Integer.parseInt(p)); } catch (NumberFormatException e) { yield "nfe"; } finally { k++; } }
            default -> "d";
        } + p.length();
    }

    public static final String TEXT_BLOCK = """
        Hello,
          "text" block \
        with continuation, escapes \t é \s
        and a trailing newline
        """;

    public static String textBlocks(String name) {
        return """
            <html>
              <body>%s 😀 \0</body>
            </html>""".formatted(name) + TEXT_BLOCK;
    }

    public static String patterns(Object o) {
        if (o instanceof @TA String s && !s.isEmpty()) return s;
        if (o instanceof final Integer i) return "int" + i;
        if (o instanceof List<?> l && l.size() > 1 && l.get(0) instanceof @TB(1) CharSequence cs) return cs.toString();
        if (!(o instanceof Number n)) return "other";
        return "num" + n.intValue();
    }

    public static boolean patternInLoopAndTernary(Object[] os) {
        int count = 0;
        for (Object o : os) {
            while (!(o instanceof String str)) { o = String.valueOf(o); }
            count += str.length();
        }
        return os.length > 0 && os[0] instanceof Long l ? l > count : count > 0;
    }

    public strictfp double strictIsNoOpSince17(double a) { return a / 3; }   // ACC_STRICT no longer emitted for release 17
}
