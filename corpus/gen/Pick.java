import java.io.ByteArrayOutputStream;
import java.io.IOException;
import java.io.InputStream;
import java.io.PrintStream;
import java.nio.charset.StandardCharsets;
import java.nio.file.Files;
import java.nio.file.Path;
import java.nio.file.Paths;
import java.util.ArrayList;
import java.util.Arrays;
import java.util.Collections;
import java.util.Comparator;
import java.util.Enumeration;
import java.util.LinkedHashMap;
import java.util.LinkedHashSet;
import java.util.List;
import java.util.Map;
import java.util.Set;
import java.util.TreeMap;
import java.util.TreeSet;
import java.util.function.Predicate;
import java.util.function.ToLongFunction;
import java.util.stream.Collectors;
import java.util.stream.Stream;
import java.util.zip.Deflater;
import java.util.zip.ZipEntry;
import java.util.zip.ZipFile;

/**
 * Minimal class-file walker (no libraries) used to
 *   (1) pick a diverse, deterministic sample of JDK classes:
 *         java gen/Pick.java &lt;extracted-jimage-dir&gt; &lt;out-list&gt; [maxClasses=400] [maxZipBytes=3000000]
 *       out-list gets one relative path per line (sorted), e.g. java.base/java/lang/Object.class
 *   (2) print coverage statistics (attributes, opcodes, constant-pool tags, type-annotation targets)
 *       over directories and/or zip files:
 *         java gen/Pick.java --stats &lt;dir-or-zip&gt;...
 *
 * Selection is deterministic: everything is sorted by (criterion, path); no randomness.
 */
public class Pick {

    // ------------------------------------------------------------------ class-file model

    static final class Info {
        String path;                 // relative path, '/' separated
        int size;                    // file size
        int deflated;                // estimated deflate size
        int major, minor;
        int cpCount;
        int maxCode;                 // largest code_length
        int methods, fields;
        int bootstrapMethods;
        int nestMembers, permitted, recordComponents, innerClasses;
        int switches;                // tableswitch + lookupswitch
        int maxStackMapFrames;
        boolean isModuleInfo;
        final Set<String> attrs = new TreeSet<>();      // attribute names at every level
        final Set<String> attrsAt = new TreeSet<>();    // "level:name"
        final Set<Integer> opcodes = new TreeSet<>();   // plain opcodes; wide forms as 0x100|op
        final Set<Integer> cpTags = new TreeSet<>();
        final Set<Integer> typeAnnoTargets = new TreeSet<>();
        final Set<Integer> typePathKinds = new TreeSet<>();
        final Set<Integer> frameKinds = new TreeSet<>(); // 0 same,1 same1,2 same1ext,3 chop,4 sameext,5 append,6 full
        final Set<Integer> verifTypes = new TreeSet<>();
        final Set<Character> elementTags = new TreeSet<>();
    }

    static final class Reader {
        final byte[] b;
        int p;
        Reader(byte[] b) { this.b = b; }
        int u1() { return b[p++] & 0xff; }
        int u2() { int v = ((b[p] & 0xff) << 8) | (b[p + 1] & 0xff); p += 2; return v; }
        int u4() { int v = ((b[p] & 0xff) << 24) | ((b[p + 1] & 0xff) << 16) | ((b[p + 2] & 0xff) << 8) | (b[p + 3] & 0xff); p += 4; return v; }
        void skip(int n) { p += n; }
    }

    static Info parse(String path, byte[] bytes) {
        Info in = new Info();
        in.path = path;
        in.size = bytes.length;
        Reader r = new Reader(bytes);
        if (r.u4() != 0xCAFEBABE) throw new IllegalArgumentException("bad magic: " + path);
        in.minor = r.u2();
        in.major = r.u2();
        int n = r.u2();
        in.cpCount = n;
        String[] utf = new String[n];
        for (int i = 1; i < n; i++) {
            int tag = r.u1();
            in.cpTags.add(tag);
            switch (tag) {
                case 1: { int len = r.u2(); utf[i] = new String(bytes, r.p, len, StandardCharsets.ISO_8859_1); r.skip(len); break; }
                case 3: case 4: r.skip(4); break;
                case 5: case 6: r.skip(8); i++; break;
                case 7: case 8: case 16: case 19: case 20: r.skip(2); break;
                case 9: case 10: case 11: case 12: case 17: case 18: r.skip(4); break;
                case 15: r.skip(3); break;
                default: throw new IllegalArgumentException("bad cp tag " + tag + " in " + path);
            }
        }
        int access = r.u2();
        in.isModuleInfo = (access & 0x8000) != 0;
        r.u2(); r.u2();
        r.skip(2 * r.u2());
        in.fields = r.u2();
        for (int i = 0; i < in.fields; i++) { r.skip(6); attributes(r, utf, in, "field"); }
        in.methods = r.u2();
        for (int i = 0; i < in.methods; i++) { r.skip(6); attributes(r, utf, in, "method"); }
        attributes(r, utf, in, "class");
        if (r.p != bytes.length) throw new IllegalArgumentException("trailing bytes in " + path);
        return in;
    }

    static void attributes(Reader r, String[] utf, Info in, String level) {
        int n = r.u2();
        for (int i = 0; i < n; i++) {
            String name = utf[r.u2()];
            int len = r.u4();
            int end = r.p + len;
            in.attrs.add(name);
            in.attrsAt.add(level + ":" + name);
            switch (name) {
                case "Code": {
                    r.u2(); r.u2();
                    int codeLen = r.u4();
                    in.maxCode = Math.max(in.maxCode, codeLen);
                    code(r.b, r.p, codeLen, in);
                    r.skip(codeLen);
                    r.skip(8 * r.u2());
                    attributes(r, utf, in, "code");
                    break;
                }
                case "Record": {
                    int c = r.u2();
                    in.recordComponents = Math.max(in.recordComponents, c);
                    for (int k = 0; k < c; k++) { r.skip(4); attributes(r, utf, in, "component"); }
                    break;
                }
                case "BootstrapMethods": in.bootstrapMethods = r.u2(); break;
                case "NestMembers": in.nestMembers = r.u2(); break;
                case "PermittedSubclasses": in.permitted = r.u2(); break;
                case "InnerClasses": in.innerClasses = r.u2(); break;
                case "StackMapTable": stackMap(r, in); break;
                case "RuntimeVisibleTypeAnnotations":
                case "RuntimeInvisibleTypeAnnotations": {
                    int c = r.u2();
                    for (int k = 0; k < c; k++) typeAnnotation(r, in);
                    break;
                }
                case "RuntimeVisibleAnnotations":
                case "RuntimeInvisibleAnnotations": {
                    int c = r.u2();
                    for (int k = 0; k < c; k++) annotation(r, in);
                    break;
                }
                case "RuntimeVisibleParameterAnnotations":
                case "RuntimeInvisibleParameterAnnotations": {
                    int np = r.u1();
                    for (int q = 0; q < np; q++) { int c = r.u2(); for (int k = 0; k < c; k++) annotation(r, in); }
                    break;
                }
                case "AnnotationDefault": elementValue(r, in); break;
                default: break;
            }
            if (r.p > end) throw new IllegalArgumentException("attribute overrun " + name + " in " + in.path);
            r.p = end;
        }
    }

    static void stackMap(Reader r, Info in) {
        int n = r.u2();
        in.maxStackMapFrames = Math.max(in.maxStackMapFrames, n);
        for (int i = 0; i < n; i++) {
            int t = r.u1();
            if (t < 64) in.frameKinds.add(0);
            else if (t < 128) { in.frameKinds.add(1); vti(r, in); }
            else if (t < 247) throw new IllegalArgumentException("reserved frame type " + t);
            else if (t == 247) { in.frameKinds.add(2); r.u2(); vti(r, in); }
            else if (t < 251) { in.frameKinds.add(3); r.u2(); }
            else if (t == 251) { in.frameKinds.add(4); r.u2(); }
            else if (t < 255) { in.frameKinds.add(5); r.u2(); for (int k = 0; k < t - 251; k++) vti(r, in); }
            else {
                in.frameKinds.add(6); r.u2();
                int l = r.u2(); for (int k = 0; k < l; k++) vti(r, in);
                int s = r.u2(); for (int k = 0; k < s; k++) vti(r, in);
            }
        }
    }

    static void vti(Reader r, Info in) {
        int t = r.u1();
        in.verifTypes.add(t);
        if (t == 7 || t == 8) r.u2();
    }

    static void annotation(Reader r, Info in) {
        r.u2();
        int n = r.u2();
        for (int i = 0; i < n; i++) { r.u2(); elementValue(r, in); }
    }

    static void elementValue(Reader r, Info in) {
        int tag = r.u1();
        in.elementTags.add((char) tag);
        switch (tag) {
            case 'e': r.u2(); r.u2(); break;
            case '@': annotation(r, in); break;
            case '[': { int n = r.u2(); for (int i = 0; i < n; i++) elementValue(r, in); break; }
            default: r.u2(); break; // B C D F I J S Z s c
        }
    }

    static void typeAnnotation(Reader r, Info in) {
        int target = r.u1();
        in.typeAnnoTargets.add(target);
        switch (target) {
            case 0x00: case 0x01: r.u1(); break;
            case 0x10: r.u2(); break;
            case 0x11: case 0x12: r.u2(); break;
            case 0x13: case 0x14: case 0x15: break;
            case 0x16: r.u1(); break;
            case 0x17: r.u2(); break;
            case 0x40: case 0x41: r.skip(6 * r.u2()); break;
            case 0x42: r.u2(); break;
            case 0x43: case 0x44: case 0x45: case 0x46: r.u2(); break;
            case 0x47: case 0x48: case 0x49: case 0x4A: case 0x4B: r.skip(3); break;
            default: throw new IllegalArgumentException("bad type annotation target " + target + " in " + in.path);
        }
        int pl = r.u1();
        for (int i = 0; i < pl; i++) { in.typePathKinds.add(r.u1()); r.u1(); }
        annotation(r, in);
    }

    // ------------------------------------------------------------------ instruction walk

    static final String[] MNEMONIC = new String[256];
    static final int[] OPLEN = new int[256]; // 0 = illegal, -1 = variable
    static {
        String names =
            "nop aconst_null iconst_m1 iconst_0 iconst_1 iconst_2 iconst_3 iconst_4 iconst_5 lconst_0 lconst_1 fconst_0 fconst_1 fconst_2 dconst_0 dconst_1 "
          + "bipush sipush ldc ldc_w ldc2_w iload lload fload dload aload iload_0 iload_1 iload_2 iload_3 lload_0 lload_1 lload_2 lload_3 fload_0 fload_1 fload_2 fload_3 "
          + "dload_0 dload_1 dload_2 dload_3 aload_0 aload_1 aload_2 aload_3 iaload laload faload daload aaload baload caload saload "
          + "istore lstore fstore dstore astore istore_0 istore_1 istore_2 istore_3 lstore_0 lstore_1 lstore_2 lstore_3 fstore_0 fstore_1 fstore_2 fstore_3 "
          + "dstore_0 dstore_1 dstore_2 dstore_3 astore_0 astore_1 astore_2 astore_3 iastore lastore fastore dastore aastore bastore castore sastore "
          + "pop pop2 dup dup_x1 dup_x2 dup2 dup2_x1 dup2_x2 swap iadd ladd fadd dadd isub lsub fsub dsub imul lmul fmul dmul idiv ldiv fdiv ddiv irem lrem frem drem "
          + "ineg lneg fneg dneg ishl lshl ishr lshr iushr lushr iand land ior lor ixor lxor iinc i2l i2f i2d l2i l2f l2d f2i f2l f2d d2i d2l d2f i2b i2c i2s "
          + "lcmp fcmpl fcmpg dcmpl dcmpg ifeq ifne iflt ifge ifgt ifle if_icmpeq if_icmpne if_icmplt if_icmpge if_icmpgt if_icmple if_acmpeq if_acmpne "
          + "goto jsr ret tableswitch lookupswitch ireturn lreturn freturn dreturn areturn return getstatic putstatic getfield putfield "
          + "invokevirtual invokespecial invokestatic invokeinterface invokedynamic new newarray anewarray arraylength athrow checkcast instanceof "
          + "monitorenter monitorexit wide multianewarray ifnull ifnonnull goto_w jsr_w";
        String[] ns = names.split(" ");
        if (ns.length != 202) throw new AssertionError("opcode table: " + ns.length);
        for (int i = 0; i < ns.length; i++) { MNEMONIC[i] = ns[i]; OPLEN[i] = 1; }
        for (int op : new int[] { 16, 18, 21, 22, 23, 24, 25, 54, 55, 56, 57, 58, 169, 188 }) OPLEN[op] = 2;
        for (int op : new int[] { 17, 19, 20, 132, 178, 179, 180, 181, 182, 183, 184, 187, 189, 192, 193, 198, 199 }) OPLEN[op] = 3;
        for (int op = 153; op <= 168; op++) OPLEN[op] = 3;
        OPLEN[197] = 4;
        OPLEN[185] = 5; OPLEN[186] = 5; OPLEN[200] = 5; OPLEN[201] = 5;
        OPLEN[170] = -1; OPLEN[171] = -1; OPLEN[196] = -1;
    }

    static String opName(int key) {
        return key >= 0x100 ? "wide " + MNEMONIC[key & 0xff] : MNEMONIC[key];
    }

    static void code(byte[] b, int start, int len, Info in) {
        int pc = 0;
        while (pc < len) {
            int op = b[start + pc] & 0xff;
            int l = OPLEN[op];
            if (l == 0) throw new IllegalArgumentException("illegal opcode " + op + " at " + pc + " in " + in.path);
            in.opcodes.add(op);
            if (l > 0) { pc += l; continue; }
            if (op == 196) {
                int sub = b[start + pc + 1] & 0xff;
                in.opcodes.add(0x100 | sub);
                pc += sub == 132 ? 6 : 4;
            } else {
                in.switches++;
                int q = (pc + 4) & ~3;
                int base = start + q;
                if (op == 170) {
                    int lo = i4(b, base + 4), hi = i4(b, base + 8);
                    pc = q + 12 + 4 * (hi - lo + 1);
                } else {
                    int np = i4(b, base + 4);
                    pc = q + 8 + 8 * np;
                }
            }
        }
        if (pc != len) throw new IllegalArgumentException("code overrun in " + in.path);
    }

    static int i4(byte[] b, int p) {
        return ((b[p] & 0xff) << 24) | ((b[p + 1] & 0xff) << 16) | ((b[p + 2] & 0xff) << 8) | (b[p + 3] & 0xff);
    }

    // ------------------------------------------------------------------ input

    static byte[] readAll(InputStream is) throws IOException {
        ByteArrayOutputStream bo = new ByteArrayOutputStream();
        byte[] buf = new byte[65536];
        for (int n; (n = is.read(buf)) > 0; ) bo.write(buf, 0, n);
        return bo.toByteArray();
    }

    static int deflatedSize(byte[] data) {
        Deflater d = new Deflater(9, true);
        d.setInput(data);
        d.finish();
        byte[] buf = new byte[65536];
        int total = 0;
        while (!d.finished()) total += d.deflate(buf);
        d.end();
        return total;
    }

    static List<Info> scanDir(Path root, boolean deflate) throws IOException {
        List<Path> files;
        try (Stream<Path> s = Files.walk(root)) {
            files = s.filter(p -> p.toString().endsWith(".class") && Files.isRegularFile(p)).collect(Collectors.toList());
        }
        List<Info> out = files.parallelStream().map(p -> {
            try {
                byte[] data = Files.readAllBytes(p);
                Info in = parse(root.relativize(p).toString().replace('\\', '/'), data);
                if (deflate) in.deflated = deflatedSize(data);
                return in;
            } catch (IOException e) {
                throw new RuntimeException(e);
            }
        }).collect(Collectors.toList());
        out.sort(Comparator.comparing(i -> i.path));
        return out;
    }

    static List<Info> scanZip(Path zip) throws IOException {
        List<Info> out = new ArrayList<>();
        try (ZipFile zf = new ZipFile(zip.toFile())) {
            for (Enumeration<? extends ZipEntry> e = zf.entries(); e.hasMoreElements(); ) {
                ZipEntry ze = e.nextElement();
                if (ze.isDirectory() || !ze.getName().endsWith(".class")) continue;
                try (InputStream is = zf.getInputStream(ze)) { out.add(parse(ze.getName(), readAll(is))); }
            }
        }
        out.sort(Comparator.comparing(i -> i.path));
        return out;
    }

    // ------------------------------------------------------------------ stats

    static final String[] JVMS_ATTRIBUTES = {
        "ConstantValue", "Code", "StackMapTable", "Exceptions", "InnerClasses", "EnclosingMethod", "Synthetic", "Signature",
        "SourceFile", "SourceDebugExtension", "LineNumberTable", "LocalVariableTable", "LocalVariableTypeTable", "Deprecated",
        "RuntimeVisibleAnnotations", "RuntimeInvisibleAnnotations", "RuntimeVisibleParameterAnnotations",
        "RuntimeInvisibleParameterAnnotations", "RuntimeVisibleTypeAnnotations", "RuntimeInvisibleTypeAnnotations",
        "AnnotationDefault", "BootstrapMethods", "MethodParameters", "Module", "ModulePackages", "ModuleMainClass",
        "NestHost", "NestMembers", "Record", "PermittedSubclasses",
    };

    static void stats(List<String> inputs, PrintStream o) throws IOException {
        List<Info> all = new ArrayList<>();
        for (String s : inputs) {
            Path p = Paths.get(s);
            List<Info> part = Files.isDirectory(p) ? scanDir(p, false) : scanZip(p);
            o.println("input " + s + ": " + part.size() + " classes");
            all.addAll(part);
        }
        Map<String, Integer> attrCount = new TreeMap<>();
        Map<String, Integer> attrAtCount = new TreeMap<>();
        Map<Integer, Integer> opCount = new TreeMap<>();
        Set<Integer> tags = new TreeSet<>(), targets = new TreeSet<>(), paths = new TreeSet<>(), frames = new TreeSet<>(), vtis = new TreeSet<>();
        Set<Character> etags = new TreeSet<>();
        Map<Integer, Integer> majors = new TreeMap<>();
        Info biggestCode = null, biggestPool = null, mostBsm = null;
        for (Info in : all) {
            for (String a : in.attrs) attrCount.merge(a, 1, Integer::sum);
            for (String a : in.attrsAt) attrAtCount.merge(a, 1, Integer::sum);
            for (int op : in.opcodes) opCount.merge(op, 1, Integer::sum);
            tags.addAll(in.cpTags); targets.addAll(in.typeAnnoTargets); paths.addAll(in.typePathKinds);
            frames.addAll(in.frameKinds); vtis.addAll(in.verifTypes); etags.addAll(in.elementTags);
            majors.merge(in.major, 1, Integer::sum);
            if (biggestCode == null || in.maxCode > biggestCode.maxCode) biggestCode = in;
            if (biggestPool == null || in.cpCount > biggestPool.cpCount) biggestPool = in;
            if (mostBsm == null || in.bootstrapMethods > mostBsm.bootstrapMethods) mostBsm = in;
        }
        o.println("total classes: " + all.size());
        o.println("major versions: " + majors);
        if (biggestCode != null) {
            o.println("largest code_length: " + biggestCode.maxCode + " (" + biggestCode.path + ")");
            o.println("largest constant_pool_count: " + biggestPool.cpCount + " (" + biggestPool.path + ")");
            o.println("most bootstrap methods: " + mostBsm.bootstrapMethods + " (" + mostBsm.path + ")");
        }
        o.println("attributes present (classes containing): " + attrCount);
        o.println("attributes by level: " + attrAtCount);
        List<String> missingAttrs = new ArrayList<>();
        for (String a : JVMS_ATTRIBUTES) if (!attrCount.containsKey(a)) missingAttrs.add(a);
        o.println("JVMS 4.7 attributes NEVER present: " + missingAttrs);
        Set<String> extra = new TreeSet<>(attrCount.keySet());
        extra.removeAll(Arrays.asList(JVMS_ATTRIBUTES));
        o.println("non-JVMS attributes present: " + extra);
        StringBuilder present = new StringBuilder(), absent = new StringBuilder();
        int np = 0, na = 0;
        for (int op = 0; op < 202; op++) {
            if (opCount.containsKey(op)) { present.append(' ').append(MNEMONIC[op]); np++; }
            else { absent.append(' ').append(MNEMONIC[op]); na++; }
        }
        o.println("opcodes present (" + np + "):" + present);
        o.println("opcodes NEVER present (" + na + "):" + absent);
        StringBuilder wides = new StringBuilder();
        for (int k : opCount.keySet()) if (k >= 0x100) wides.append(' ').append(MNEMONIC[k & 0xff]);
        o.println("wide-prefixed forms present:" + wides);
        StringBuilder rare = new StringBuilder();
        for (Map.Entry<Integer, Integer> e : opCount.entrySet()) if (e.getValue() <= 3) rare.append(' ').append(opName(e.getKey())).append('=').append(e.getValue());
        o.println("opcodes in <= 3 classes:" + rare);
        o.println("constant pool tags present: " + tags);
        o.println("type annotation target_types present: " + targets.stream().map(t -> String.format("0x%02X", t)).collect(Collectors.toList()));
        o.println("type_path kinds present: " + paths);
        o.println("stack map frame kinds present (0 same,1 same1,2 same1ext,3 chop,4 sameext,5 append,6 full): " + frames);
        o.println("verification type tags present: " + vtis);
        o.println("element_value tags present: " + etags);
    }

    // ------------------------------------------------------------------ pick

    static final class Picker {
        final List<Info> all;
        final Map<String, String> why = new LinkedHashMap<>();   // path -> first reason
        final Map<String, Info> byPath = new LinkedHashMap<>();
        Picker(List<Info> all) { this.all = all; for (Info i : all) byPath.put(i.path, i); }

        void add(Info i, String reason) { why.putIfAbsent(i.path, reason); }

        /** Top n by key descending (ties by path). */
        void top(String reason, int n, Predicate<Info> filter, ToLongFunction<Info> key) {
            List<Info> l = all.stream().filter(filter).collect(Collectors.toList());
            l.sort(Comparator.<Info>comparingLong(i -> -key.applyAsLong(i)).thenComparing(i -> i.path));
            // at most 2 per package per criterion, so that families of look-alike classes
            // (LocaleNames_xx, IntVector/LongVector/...) do not crowd out everything else
            Map<String, Integer> perPackage = new TreeMap<>();
            int taken = 0;
            for (Info i : l) {
                if (taken >= n) break;
                String pkg = i.path.substring(0, i.path.lastIndexOf('/'));
                if (perPackage.merge(pkg, 1, Integer::sum) > 2) continue;
                add(i, reason);
                taken++;
            }
        }

        /** n smallest (by file size) matching classes. */
        void smallest(String reason, int n, Predicate<Info> filter) {
            top(reason, n, filter, i -> -(long) i.size);
        }

        /** Evenly spaced sample of n classes from the path-sorted matching list. */
        void stride(String reason, int n, Predicate<Info> filter) {
            List<Info> l = all.stream().filter(filter).filter(i -> !why.containsKey(i.path)).collect(Collectors.toList());
            if (l.isEmpty() || n <= 0) return;
            if (l.size() <= n) { for (Info i : l) add(i, reason); return; }
            for (int k = 0; k < n; k++) add(l.get((int) ((long) k * l.size() / n)), reason);
        }
    }

    static long zipCost(Info i) {
        // local header 30 + name, central header 46 + name, deflated data
        return i.deflated + 76L + 2L * i.path.length();
    }

    static void pick(Path root, Path outList, int maxClasses, long maxZip) throws IOException {
        List<Info> all = scanDir(root, true);
        Picker pk = new Picker(all);
        Predicate<Info> any = i -> true;
        Predicate<Info> normal = i -> !i.isModuleInfo;

        // Opcode rarity: for every opcode (incl. wide forms) that occurs in few classes, the 2 smallest classes using it.
        Map<Integer, Integer> opCount = new TreeMap<>();
        for (Info in : all) for (int op : in.opcodes) opCount.merge(op, 1, Integer::sum);
        for (Map.Entry<Integer, Integer> e : opCount.entrySet()) {
            if (e.getValue() > 400) continue;
            final int op = e.getKey();
            pk.smallest("opcode " + opName(op), 2, i -> i.opcodes.contains(op));
        }
        // Every attribute name: the 2 smallest classes carrying it and the one with most distinct attributes.
        Set<String> attrNames = new TreeSet<>();
        for (Info in : all) attrNames.addAll(in.attrsAt);
        for (String a : attrNames) {
            pk.smallest("attr " + a, 2, i -> i.attrsAt.contains(a));
            pk.top("attr-rich " + a, 1, i -> i.attrsAt.contains(a), i -> i.attrs.size());
        }
        // Every constant-pool tag, frame kind, verification type, type-annotation target, element tag.
        for (int t = 1; t <= 20; t++) { final int tt = t; pk.smallest("cp tag " + t, 1, i -> i.cpTags.contains(tt)); }
        for (int t = 0; t <= 6; t++) { final int tt = t; pk.smallest("frame kind " + t, 1, i -> i.frameKinds.contains(tt)); }
        for (int t = 0; t <= 8; t++) { final int tt = t; pk.smallest("verification type " + t, 1, i -> i.verifTypes.contains(tt)); }
        for (int t = 0; t <= 0x4B; t++) { final int tt = t; pk.smallest("type-annotation target " + t, 2, i -> i.typeAnnoTargets.contains(tt)); }
        for (int t = 0; t <= 3; t++) { final int tt = t; pk.smallest("type-path kind " + t, 1, i -> i.typePathKinds.contains(tt)); }
        for (char c : "BCDFIJSZsec@[".toCharArray()) { final char cc = c; pk.smallest("element tag " + c, 1, i -> i.elementTags.contains(cc)); }

        // Class-file versions other than the dominant one (the image has a few major 50/52 classes).
        Map<Integer, Integer> majors = new TreeMap<>();
        for (Info in : all) majors.merge(in.major, 1, Integer::sum);
        for (Map.Entry<Integer, Integer> e : majors.entrySet()) {
            if (e.getValue() > 1000) continue;
            final int mj = e.getKey();
            pk.smallest("major " + mj, 2, i -> i.major == mj);
            pk.top("major " + mj + " big", 2, i -> i.major == mj, i -> i.size);
        }
        // Classes without SourceFile (rare in the image).
        pk.smallest("no SourceFile", 3, i -> !i.attrs.contains("SourceFile"));

        // Module descriptors: the 5 biggest plus a stride of 10 more.
        pk.top("module-info big", 5, i -> i.isModuleInfo, i -> i.size);
        pk.stride("module-info", 10, i -> i.isModuleInfo);

        // Heavyweights (kept few: they dominate the zip size).
        pk.top("max code length", 14, normal, i -> i.maxCode);
        pk.top("constant pool count", 8, normal, i -> i.cpCount);
        pk.top("switch count", 14, normal, i -> i.switches);
        pk.top("bootstrap methods", 12, normal, i -> i.bootstrapMethods);
        pk.top("distinct attributes", 20, normal, i -> i.attrs.size());
        pk.top("nest members", 6, normal, i -> i.nestMembers);
        pk.top("permitted subclasses", 6, normal, i -> i.permitted);
        pk.top("record components", 6, normal, i -> i.recordComponents);
        pk.top("stack map frames", 5, normal, i -> i.maxStackMapFrames);
        pk.top("method count", 4, normal, i -> i.methods);
        pk.top("field count", 4, normal, i -> i.fields);
        pk.top("inner classes", 4, normal, i -> i.innerClasses);

        // Attribute-specific strides.
        String[][] strides = {
            { "RuntimeVisibleTypeAnnotations", "12" }, { "RuntimeInvisibleTypeAnnotations", "12" },
            { "RuntimeVisibleParameterAnnotations", "10" }, { "RuntimeInvisibleParameterAnnotations", "10" },
            { "Record", "12" }, { "PermittedSubclasses", "10" }, { "NestMembers", "10" }, { "NestHost", "10" },
            { "BootstrapMethods", "12" }, { "EnclosingMethod", "12" }, { "AnnotationDefault", "12" },
            { "MethodParameters", "8" }, { "Deprecated", "8" }, { "Signature", "8" }, { "Exceptions", "6" },
            { "RuntimeVisibleAnnotations", "8" }, { "RuntimeInvisibleAnnotations", "8" }, { "LocalVariableTypeTable", "6" },
        };
        for (String[] s : strides) pk.stride("stride " + s[0], Integer.parseInt(s[1]), i -> i.attrs.contains(s[0]) && i.size < 40000);
        pk.stride("stride switches", 12, i -> i.switches >= 10 && i.size < 60000);

        // Per-module representation, then a global stride over everything else (small ordinary classes).
        Set<String> modules = new TreeSet<>();
        for (Info in : all) modules.add(in.path.substring(0, in.path.indexOf('/')));
        for (String m : modules) pk.stride("module " + m, 1, i -> normal.test(i) && i.path.startsWith(m + "/") && i.size < 20000);
        int remaining = maxClasses - pk.why.size();
        if (remaining > 0) pk.stride("global stride", remaining, i -> normal.test(i) && i.size < 30000);

        // Enforce the limits: drop stride-sampled classes first (largest first), then anything largest first.
        List<Info> chosen = pk.why.keySet().stream().map(pk.byPath::get).collect(Collectors.toList());
        long budget = maxZip - 22 - 2048; // end-of-central-directory + safety margin
        Comparator<Info> bySizeDesc = Comparator.<Info>comparingLong(i -> -zipCost(i)).thenComparing(i -> i.path);
        while (chosen.size() > maxClasses || chosen.stream().mapToLong(Pick::zipCost).sum() > budget) {
            List<Info> cands = chosen.stream().filter(i -> {
                String w = pk.why.get(i.path);
                return w.startsWith("global stride") || w.startsWith("stride ") || w.startsWith("module ");
            }).sorted(bySizeDesc).collect(Collectors.toList());
            if (cands.isEmpty()) cands = chosen.stream().sorted(bySizeDesc).collect(Collectors.toList());
            Info drop = cands.get(0);
            chosen.remove(drop);
            pk.why.remove(drop.path);
        }
        chosen.sort(Comparator.comparing(i -> i.path));
        List<String> lines = new ArrayList<>();
        for (Info i : chosen) lines.add(i.path);
        Files.write(outList, (String.join("\n", lines) + "\n").getBytes(StandardCharsets.UTF_8));
        List<String> whyLines = new ArrayList<>();
        for (Info i : chosen) whyLines.add(i.path + "\t" + i.size + "\t" + pk.why.get(i.path));
        Files.write(Paths.get(outList.toString() + ".why"), (String.join("\n", whyLines) + "\n").getBytes(StandardCharsets.UTF_8));
        long unc = chosen.stream().mapToLong(i -> i.size).sum();
        long est = chosen.stream().mapToLong(Pick::zipCost).sum() + 22;
        System.out.println("scanned " + all.size() + " classes; picked " + chosen.size() + " (" + unc + " bytes uncompressed, ~" + est + " bytes zipped)");
    }

    public static void main(String[] args) throws IOException {
        if (args.length >= 1 && args[0].equals("--stats")) {
            stats(Arrays.asList(args).subList(1, args.length), System.out);
            return;
        }
        if (args.length < 2) {
            System.err.println("usage: java gen/Pick.java <extracted-dir> <out-list> [maxClasses] [maxZipBytes]\n"
                + "       java gen/Pick.java --stats <dir-or-zip>...");
            System.exit(2);
        }
        int maxClasses = args.length > 2 ? Integer.parseInt(args[2]) : 400;
        long maxZip = args.length > 3 ? Long.parseLong(args[3]) : 3_000_000L;
        pick(Paths.get(args[0]), Paths.get(args[1]), maxClasses, maxZip);
    }
}
