//! Keeps the duke projection honest: the differences between duke and the reference parser must stay
//! within the triaged list `tests/proj_duke_expected.json`, and everything outside the triaged JSON
//! paths must be deep-equal.

use cfkit::duke_diff::{self, Outcome, Summary};
use cfkit::parse::parse_class_facts_only;
use cfkit::proj_duke::{duke_to_facts, ProjError};
use serde_json::{json, Value};
use std::collections::BTreeSet;
use std::sync::OnceLock;

fn inputs() -> &'static Vec<(String, Vec<u8>)> {
	static I: OnceLock<Vec<(String, Vec<u8>)>> = OnceLock::new();
	I.get_or_init(|| {
		duke_diff::install_quiet_panic_hook();
		duke_diff::inputs()
	})
}

fn expected() -> Value {
	let path = std::path::Path::new(env!("CARGO_MANIFEST_DIR")).join("tests").join("proj_duke_expected.json");
	serde_json::from_str(&std::fs::read_to_string(path).expect("tests/proj_duke_expected.json")).expect("valid JSON")
}

fn expected_atoms(mode: &str) -> BTreeSet<(String, String)> {
	expected()[mode]["atoms"]
		.as_array()
		.expect("atoms")
		.iter()
		.map(|a| (a["path"].as_str().expect("path").to_string(), a["kind"].as_str().expect("kind").to_string()))
		.collect()
}

fn expected_errors(mode: &str) -> BTreeSet<(String, String)> {
	expected()[mode]["errors"]
		.as_array()
		.expect("errors")
		.iter()
		.map(|a| (a["category"].as_str().expect("category").to_string(), a["message"].as_str().expect("message").to_string()))
		.collect()
}

fn check_against_expected(mode: &str, s: &Summary) {
	let atoms = expected_atoms(mode);
	let errors = expected_errors(mode);
	let mut new = Vec::new();
	for (k, g) in &s.atoms {
		if !atoms.contains(k) {
			new.push(format!("NEW atom: {} {}  ({} classes, e.g. {})", k.1, k.0, g.count, g.examples.join(", ")));
		}
	}
	for (k, g) in &s.errors {
		if !errors.contains(k) {
			new.push(format!("NEW error group: [{}] {}  ({} classes, e.g. {})", k.0, k.1, g.count, g.examples.join(", ")));
		}
	}
	for k in &atoms {
		if !s.atoms.contains_key(k) {
			println!("note: triaged {mode} atom no longer occurs: {} {}", k.1, k.0);
		}
	}
	for k in &errors {
		if !s.errors.contains_key(k) {
			println!("note: triaged {mode} error group no longer occurs: [{}] {}", k.0, k.1);
		}
	}
	assert!(
		new.is_empty(),
		"{mode}: differences that are not triaged in tests/proj_duke_expected.json (run `cfdiff{}` / `cfdiff --class <id>`):\n{}",
		if mode == "write" { " --write" } else { "" },
		new.join("\n")
	);
}

#[test]
fn read_differences_are_all_triaged() {
	let s = duke_diff::measure_read(inputs(), 4);
	assert!(s.classes >= 1900, "corpus + samples missing? {} inputs", s.classes);
	// the reference parser accepts every input
	assert!(!s.errors.keys().any(|(c, _)| c == "reference-error"), "{:?}", s.errors.keys().collect::<Vec<_>>());
	// a sizeable part of the inputs is completely equal (all corpus classes compiled without -g that have no parameter annotations, most samples)
	assert!(s.equal >= 900, "only {} deep-equal classes", s.equal);
	check_against_expected("read", &s);
}

#[test]
fn write_differences_are_all_triaged() {
	let s = duke_diff::measure_write(inputs(), 4);
	assert!(s.classes >= 1800, "{} classes written", s.classes);
	assert!(s.equal >= 1400, "only {} deep-equal classes", s.equal);
	check_against_expected("write", &s);
}

/// Removes the node(s) addressed by a generalised path (`#` = every list element) from `v`.
fn mask(v: &mut Value, segs: &[&str]) {
	let Some((first, rest)) = segs.split_first() else { return };
	if *first == "#" {
		if let Value::Array(l) = v {
			for x in l {
				if rest.is_empty() {
					*x = Value::Null;
				} else {
					mask(x, rest);
				}
			}
		}
	} else if let Value::Object(m) = v {
		if rest.is_empty() {
			m.remove(*first);
		} else if let Some(x) = m.get_mut(*first) {
			mask(x, rest);
		}
	}
}

fn mask_all(v: &mut Value, atoms: &BTreeSet<(String, String)>) {
	for (p, _) in atoms {
		// `path/#` stands for a list whose length differs: mask the whole list
		let p = p.strip_suffix("/#").unwrap_or(p);
		let segs: Vec<&str> = p.split('/').skip(1).collect();
		mask(v, &segs);
	}
}

/// Independent of the diff routine: with the triaged paths removed from both sides, the reference facts
/// and duke's facts are `==`; classes without any triaged path are therefore completely deep-equal.
#[test]
fn outside_the_triaged_paths_everything_is_deep_equal() {
	let read_atoms = expected_atoms("read");
	let write_atoms = expected_atoms("write");
	let (mut compared, mut equal, mut written) = (0usize, 0usize, 0usize);
	for (id, bytes) in inputs() {
		let mut reference = parse_class_facts_only(bytes).unwrap_or_else(|e| panic!("{id}: {e}")).facts;
		let Ok(tree) = duke_diff::duke_read(bytes) else { continue };
		let mut projected = duke_to_facts(&tree).unwrap_or_else(|e| panic!("{id}: {e}"));
		compared += 1;
		let was_equal = reference == projected;
		// the diff routine agrees with `==`
		assert_eq!(duke_diff::diff(&reference, &projected, duke_diff::READ_KINDS).is_empty(), was_equal, "{id}");
		if was_equal {
			equal += 1;
		}
		let expected_output = projected.clone();
		mask_all(&mut reference, &read_atoms);
		mask_all(&mut projected, &read_atoms);
		assert!(reference == projected, "{id}: read differs outside the triaged paths; run `cfdiff --class '{id}'`");

		// writer
		let mut out = Vec::new();
		let r = duke_diff::guarded(|| duke::write_class(&mut out, &tree));
		assert!(matches!(r, Ok(Ok(()))), "{id}: duke::write_class failed: {r:?}");
		let mut output = parse_class_facts_only(&out).unwrap_or_else(|e| panic!("{id}: output of duke::write_class: {e}")).facts;
		let mut expected_output = expected_output;
		mask_all(&mut output, &write_atoms);
		mask_all(&mut expected_output, &write_atoms);
		assert!(expected_output == output, "{id}: write differs outside the triaged paths; run `cfdiff --write --class '{id}'`");
		written += 1;
	}
	assert!(compared >= 1800 && equal >= 900 && written == compared, "compared {compared}, equal {equal}, written {written}");
}

fn ops_of(facts: &Value, out: &mut BTreeSet<String>) {
	for m in facts["methods"].as_array().into_iter().flatten() {
		for i in m["attrs"]["Code"]["insns"].as_array().into_iter().flatten() {
			out.insert(i["op"].as_str().unwrap_or("?").to_string());
		}
	}
}

/// Every instruction mnemonic goes through duke's reader and the projection unchanged.
#[test]
fn every_mnemonic_survives_duke() {
	duke_diff::install_quiet_panic_hook();
	let mut facts = cfkit::samples::kitchen_sink_facts();
	// duke rejects an exception table row ending at code_length (triaged)
	duke_diff::avoid_code_end(&mut facts);
	let bytes = cfkit::asm::assemble(&facts, &cfkit::asm::Encoding::default()).expect("assemble");
	let tree = duke_diff::duke_read(&bytes).unwrap_or_else(|o| panic!("duke cannot read the kitchen sink: {o:?}"));
	let projected = duke_to_facts(&tree).expect("projection");
	let mut ops = BTreeSet::new();
	ops_of(&projected, &mut ops);
	let all: BTreeSet<String> = cfkit::samples::all_mnemonics().into_iter().map(str::to_string).collect();
	assert_eq!(ops, all);
	for (a, b) in facts["methods"].as_array().unwrap().iter().zip(projected["methods"].as_array().unwrap()) {
		assert_eq!(a["attrs"]["Code"]["insns"], b["attrs"]["Code"]["insns"]);
		assert_eq!(a["attrs"]["Code"]["exceptions"], b["attrs"]["Code"]["exceptions"]);
	}
}

fn branchy_tree() -> duke::tree::class::ClassFile {
	use cfkit::samples::{class, code, method_with_code, op};
	let insns = vec![
		json!({"op": "iload", "var": 0}),
		json!({"op": "tableswitch", "default": 3, "low": 5, "targets": [2, 3]}),
		op("nop"),
		op("return"),
	];
	let facts = class([52, 0], 0x21, "p/B", Some("java/lang/Object"), vec![], vec![method_with_code(0x9, "m", "(I)V", code(1, 1, insns, vec![], json!({})))], json!({}));
	let bytes = cfkit::asm::assemble(&facts, &cfkit::asm::Encoding::default()).expect("assemble");
	let tree = duke_diff::duke_read(&bytes).unwrap_or_else(|o| panic!("{o:?}"));
	assert_eq!(duke_to_facts(&tree).expect("projection"), facts);
	tree
}

/// The projection refuses trees it cannot translate instead of guessing.
#[test]
fn projection_errors() {
	duke_diff::install_quiet_panic_hook();
	let err = |t: &duke::tree::class::ClassFile| -> String {
		match duke_to_facts(t) {
			Err(ProjError(m)) => m,
			Ok(v) => panic!("projection succeeded: {v}"),
		}
	};
	// a referenced label that is attached nowhere
	let mut t = branchy_tree();
	t.methods[0].code.as_mut().unwrap().instructions[2].label = None;
	assert!(err(&t).contains("attached to no instruction"), "{}", err(&t));
	// a label attached twice
	let mut t = branchy_tree();
	let l = t.methods[0].code.as_ref().unwrap().instructions[2].label;
	t.methods[0].code.as_mut().unwrap().instructions[0].label = l;
	assert!(err(&t).contains("is attached to instruction"), "{}", err(&t));
	// the last label is translated to len(insns); used as a jump target it is still a position
	let mut t = branchy_tree();
	let c = t.methods[0].code.as_mut().unwrap();
	c.last_label = c.instructions[2].label.take();
	let v = duke_to_facts(&t).expect("projection");
	assert_eq!(v["methods"][0]["attrs"]["Code"]["insns"][1]["targets"][0], json!(4));
	// tableswitch whose high does not match the table
	let mut t = branchy_tree();
	if let duke::tree::method::code::Instruction::TableSwitch { high, .. } = &mut t.methods[0].code.as_mut().unwrap().instructions[1].instruction {
		*high += 1;
	} else {
		panic!("not a tableswitch");
	}
	assert!(err(&t).contains("tableswitch"), "{}", err(&t));
	// max_stack missing
	let mut t = branchy_tree();
	t.methods[0].code.as_mut().unwrap().max_stack = None;
	assert!(err(&t).contains("max_stack"), "{}", err(&t));
}

/// Diagnostic (run with `--ignored --nocapture`): which of duke's code_length rejections hits which sample.
#[test]
#[ignore]
fn diagnose_code_end_rejections() {
	duke_diff::install_quiet_panic_hook();
	let mut samples = cfkit::samples::sample_classes();
	samples.push(("kitchen_sink".into(), cfkit::samples::kitchen_sink_facts()));
	for (name, facts) in samples {
		let bytes = cfkit::asm::assemble(&facts, &cfkit::asm::Encoding::default()).expect("assemble");
		if let Outcome::DukeReadError(m) = duke_diff::compare_read(&bytes) {
			if !m.contains("out of bounds for code length") {
				continue;
			}
			// undo one adaptation at a time
			let mut only_exc = facts.clone();
			for m in only_exc["methods"].as_array_mut().unwrap() {
				let c = &mut m["attrs"]["Code"];
				if c.is_object() {
					let mut cc = json!({"insns": c["insns"].clone(), "exceptions": c["exceptions"].clone(), "attrs": {}});
					duke_diff::avoid_code_end(&mut cc);
					c["exceptions"] = cc["exceptions"].clone();
				}
			}
			let b2 = cfkit::asm::assemble(&only_exc, &cfkit::asm::Encoding::default()).expect("assemble");
			let after_exc = matches!(duke_diff::compare_read(&b2), Outcome::Compared(_));
			let mut all = facts.clone();
			duke_diff::avoid_code_end(&mut all);
			let b3 = cfkit::asm::assemble(&all, &cfkit::asm::Encoding::default()).expect("assemble");
			let after_all = matches!(duke_diff::compare_read(&b3), Outcome::Compared(_));
			println!("{name}: readable after moving exception ends: {after_exc}; after also dropping local variable / localvar_target rows starting at code_length: {after_all}");
		}
	}
}
