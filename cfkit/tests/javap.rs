//! One-off sanity check of the parser against `javap -v -p -c` (needs a JDK on PATH):
//! `cargo test --offline --test javap -- --ignored --nocapture`
//!
//! Compared per class: field and method names and descriptors (in order), and per method with code:
//! max_stack, max_locals, number of instructions, the byte offset and (normalised) mnemonic of every
//! instruction, the exception table (byte offsets and catch type) and the line number table.

use cfkit::corpus::corpus_dir;
use cfkit::parse::parse_class;
use serde_json::Value;

#[derive(Debug, Default, PartialEq)]
struct JMethod {
	name: String,
	desc: String,
	stack: Option<(u64, u64)>,
	insns: Vec<(u64, String)>,
	exc: Vec<(u64, u64, u64, String)>,
	lines: Vec<(u64, u64)>,
}

fn normalise(m: &str) -> String {
	let m = m.strip_suffix("_w").unwrap_or(m);
	let m = if m == "ldc2" { "ldc" } else { m };
	for p in ["iload", "lload", "fload", "dload", "aload", "istore", "lstore", "fstore", "dstore", "astore"] {
		if let Some(rest) = m.strip_prefix(p) {
			if rest.len() == 2 && rest.starts_with('_') && rest.as_bytes()[1].is_ascii_digit() {
				return p.to_string();
			}
		}
	}
	m.to_string()
}

fn parse_javap(text: &str, this_dotted: &str) -> Vec<JMethod> {
	let mut out: Vec<JMethod> = Vec::new();
	let lines: Vec<&str> = text.lines().collect();
	let mut section = "";
	let mut prev_decl = String::new();
	let mut in_members = false;
	for (i, l) in lines.iter().enumerate() {
		let t = l.trim();
		if l.starts_with('{') {
			in_members = true;
			continue;
		}
		if !in_members {
			continue;
		}
		if l.starts_with('}') {
			break;
		}
		let indent = l.len() - l.trim_start().len();
		if indent == 2 && !t.is_empty() {
			prev_decl = t.to_string();
			section = "";
			continue;
		}
		if indent == 4 && t.starts_with("descriptor: ") {
			let desc = t["descriptor: ".len()..].to_string();
			let decl = prev_decl.trim_end_matches(';');
			let name = if decl == "static {}" {
				"<clinit>".to_string()
			} else if let Some(p) = decl.find('(') {
				let head = &decl[..p];
				let n = head.rsplit(' ').next().unwrap_or("");
				if n == this_dotted { "<init>".to_string() } else { n.to_string() }
			} else {
				decl.rsplit(' ').next().unwrap_or("").to_string()
			};
			out.push(JMethod { name, desc, ..Default::default() });
			continue;
		}
		let Some(cur) = out.last_mut() else { continue };
		if let Some(rest) = t.strip_prefix("stack=") {
			let nums: Vec<u64> = rest.split(|c: char| !c.is_ascii_digit()).filter(|x| !x.is_empty()).map(|x| x.parse().unwrap()).collect();
			cur.stack = Some((nums[0], nums[1]));
			section = "code";
			continue;
		}
		if let Some((head, _)) = t.split_once(':') {
			if head != "default" && head.starts_with(|c: char| c.is_ascii_alphabetic()) && head.chars().all(|c| c.is_ascii_alphabetic() || c == ' ') {
				section = match head {
					"Code" => "code",
					"Exception table" => "exc",
					"LineNumberTable" => "lnt",
					_ => "other",
				};
				continue;
			}
		}
		match section {
			"code" => {
				if let Some((a, b)) = t.split_once(": ") {
					if let Ok(off) = a.trim().parse::<u64>() {
						let m = b.split_whitespace().next().unwrap_or("");
						if m.chars().all(|c| c.is_ascii_alphanumeric() || c == '_') && m.starts_with(|c: char| c.is_ascii_lowercase()) {
							cur.insns.push((off, normalise(m)));
						}
					}
				}
			}
			"exc" => {
				let w: Vec<&str> = t.split_whitespace().collect();
				if w.len() >= 4 && w[0].chars().all(|c| c.is_ascii_digit()) {
					let ty = if w[3] == "any" { "any".to_string() } else { w[3..].join(" ") };
					cur.exc.push((w[0].parse().unwrap(), w[1].parse().unwrap(), w[2].parse().unwrap(), ty));
				}
			}
			"lnt" => {
				if let Some(rest) = t.strip_prefix("line ") {
					if let Some((a, b)) = rest.split_once(": ") {
						cur.lines.push((a.parse().unwrap(), b.parse().unwrap()));
					}
				}
			}
			_ => {}
		}
		let _ = i;
	}
	out
}

#[test]
#[ignore]
fn javap_agrees() {
	let root = corpus_dir().join("classes");
	let picks = [
		"17-g/corpus/Arith.class", "17-g/corpus/Flow.class", "17-g/corpus/Switches.class", "17-g/corpus/Exceptions_.class",
		"17-g/corpus/Lambdas.class", "17-g/corpus/Consts.class", "17-g/corpus/Arrays_.class", "17-g/corpus/TypeAnnos.class",
		"17-g/corpus/gen/WideLocals.class", "17-g/corpus/gen/HugeMethod.class", "17-g/corpus/gen/BigPool.class", "17-g/corpus/gen/Near64K.class",
		"17-g/corpus/r17/Records.class", "17-g/corpus/Strings_.class", "8-g/corpus/Invokes.class", "11-g/corpus/StackMaps.class", "8/corpus/Flow.class",
	];
	let mut checked = (0usize, 0usize, 0usize, 0usize, 0usize);
	for pick in picks {
		let path = root.join(pick);
		let bytes = std::fs::read(&path).unwrap_or_else(|_| panic!("{pick} missing"));
		let p = parse_class(&bytes).unwrap();
		let out = std::process::Command::new("javap").args(["-v", "-p", "-c"]).arg(&path).output().expect("javap");
		let text = String::from_utf8_lossy(&out.stdout);
		let this = p.facts["this"].as_str().unwrap().replace('/', ".");
		let jm = parse_javap(&text, &this);
		let mut members: Vec<&Value> = p.facts["fields"].as_array().unwrap().iter().collect();
		let n_fields = members.len();
		members.extend(p.facts["methods"].as_array().unwrap().iter());
		assert_eq!(jm.len(), members.len(), "{pick}: member count");
		let mut lay_iter = p.layout.as_array().unwrap().iter();
		for (k, (j, m)) in jm.iter().zip(members.iter()).enumerate() {
			assert_eq!(Value::String(j.desc.clone()), m["desc"], "{pick}: descriptor of member {k}");
			if let Some(n) = m["name"].as_str() {
				if n.is_ascii() && !n.contains('$') && !j.name.contains('<') || n.starts_with('<') {
					assert_eq!(j.name, n, "{pick}: name of member {k}");
				}
			}
			checked.0 += 1;
			if k < n_fields {
				continue;
			}
			let code = m["attrs"].get("Code");
			assert_eq!(j.stack.is_some(), code.is_some(), "{pick}: {} has code", j.name);
			let Some(code) = code else { continue };
			let lay = lay_iter.next().unwrap();
			assert_eq!(j.stack.unwrap(), (code["max_stack"].as_u64().unwrap(), code["max_locals"].as_u64().unwrap()), "{pick}: {} stack/locals", j.name);
			let insns = code["insns"].as_array().unwrap();
			let offs: Vec<u64> = lay["offsets"].as_array().unwrap().iter().map(|o| o.as_u64().unwrap()).collect();
			assert_eq!(j.insns.len(), insns.len(), "{pick}: {} instruction count", j.name);
			for (i, (joff, jmn)) in j.insns.iter().enumerate() {
				assert_eq!(*joff, offs[i], "{pick}: {} insn {i} offset", j.name);
				assert_eq!(jmn, insns[i]["op"].as_str().unwrap(), "{pick}: {} insn {i} mnemonic", j.name);
			}
			checked.1 += insns.len();
			let pc = |i: &Value| -> u64 {
				let i = i.as_u64().unwrap() as usize;
				if i == offs.len() { lay["code_length"].as_u64().unwrap() } else { offs[i] }
			};
			let exc: Vec<(u64, u64, u64, String)> = code["exceptions"].as_array().unwrap().iter().map(|e| {
				let ty = match e.get("catch") { Some(c) => format!("Class {}", c.as_str().unwrap()), None => "any".into() };
				(pc(&e["start"]), pc(&e["end"]), pc(&e["handler"]), ty)
			}).collect();
			assert_eq!(j.exc, exc, "{pick}: {} exception table", j.name);
			checked.2 += exc.len();
			let mut jl: Vec<(u64, u64)> = j.lines.iter().map(|(line, pc)| (*pc, *line)).collect();
			jl.sort();
			jl.dedup();
			let fl: Vec<(u64, u64)> = code["attrs"].get("LineNumberTable").and_then(Value::as_array).map(|l| l.iter().map(|r| (pc(&r[0]), r[1].as_u64().unwrap())).collect()).unwrap_or_default();
			assert_eq!(jl, fl, "{pick}: {} line numbers", j.name);
			checked.3 += fl.len();
			checked.4 += 1;
		}
	}
	eprintln!("javap cross-check: {} classes, {} members, {} methods with code, {} instructions, {} exception rows, {} line rows",
		picks.len(), checked.0, checked.4, checked.1, checked.2, checked.3);
}
