//! Hand-written facts: round trips under every standard encoding, opcode coverage, requested forms.

use cfkit::asm::{assemble, standard_encodings, AsmError, Encoding};
use cfkit::parse::{parse_class, Parsed};
use cfkit::samples::{kitchen_sink_facts, sample_classes};
use serde_json::{json, Value};
use std::collections::BTreeSet;

fn roundtrip(name: &str, facts: &Value, enc_name: &str, enc: &Encoding) -> Option<Parsed> {
	match assemble(facts, enc) {
		Ok(bytes) => {
			let p = parse_class(&bytes).unwrap_or_else(|e| panic!("{name} [{enc_name}]: assembled class does not parse: {e}"));
			assert_eq!(p.consumed, bytes.len(), "{name} [{enc_name}]: consumed");
			if &p.facts != facts {
				let a = serde_json::to_string_pretty(facts).unwrap();
				let b = serde_json::to_string_pretty(&p.facts).unwrap();
				for (la, lb) in a.lines().zip(b.lines()) {
					if la != lb {
						panic!("{name} [{enc_name}]: facts differ after round trip:\n  expected: {la}\n  got:      {lb}");
					}
				}
				panic!("{name} [{enc_name}]: facts differ after round trip (length)");
			}
			Some(p)
		}
		Err(AsmError::Unencodable(_)) => None,
		Err(e) => panic!("{name} [{enc_name}]: {e}"),
	}
}

#[test]
fn samples_roundtrip_under_all_encodings() {
	let mut n = 0;
	for (name, facts) in sample_classes() {
		for (en, enc) in standard_encodings() {
			let r = roundtrip(&name, &facts, en, &enc);
			// the only legitimately unencodable combination: all-wide on the 33000-nop method is fine (nops), so none expected
			assert!(r.is_some(), "{name} [{en}] unencodable");
			n += 1;
		}
	}
	assert!(n >= 300, "{n}");
}

/// opcode bytes used by the class, per the layout
fn opcodes_used(bytes: &[u8], p: &Parsed, out: &mut BTreeSet<u8>) {
	// find code arrays via spans: role "opcode"
	for s in &p.spans {
		if s.role == "opcode" {
			out.insert(bytes[s.off]);
		}
	}
}

#[test]
fn kitchen_sink_uses_every_opcode() {
	let facts = kitchen_sink_facts();
	let mut used = BTreeSet::new();
	for (en, enc) in standard_encodings() {
		let bytes = assemble(&facts, &enc).unwrap_or_else(|e| panic!("[{en}] {e}"));
		let p = roundtrip("kitchen_sink", &facts, en, &enc).unwrap();
		opcodes_used(&bytes, &p, &mut used);
	}
	let all: BTreeSet<u8> = (0u8..=0xc9).collect();
	let missing: Vec<String> = all.difference(&used).map(|o| format!("{o:#04x}")).collect();
	assert!(missing.is_empty(), "opcodes never emitted: {missing:?}");
	// every mnemonic of the format occurs in the facts
	let mut mn = BTreeSet::new();
	for m in facts["methods"].as_array().unwrap() {
		for i in m["attrs"]["Code"]["insns"].as_array().unwrap() {
			mn.insert(i["op"].as_str().unwrap().to_owned());
		}
	}
	for m in cfkit::samples::all_mnemonics() {
		assert!(mn.contains(m), "mnemonic {m} missing from the kitchen sink");
	}
	// every constant pool tag occurs (Module/Package excepted: module-info only)
	let bytes = assemble(&facts, &Encoding::default()).unwrap();
	let p = parse_class(&bytes).unwrap();
	let kinds: BTreeSet<&str> = p.raw["pool"].as_array().unwrap().iter().map(|k| k.as_str().unwrap()).collect();
	for k in ["Utf8", "Integer", "Float", "Long", "Double", "Class", "String", "Fieldref", "Methodref", "InterfaceMethodref", "NameAndType", "MethodHandle", "MethodType", "Dynamic", "InvokeDynamic"] {
		assert!(kinds.contains(k), "pool kind {k} missing");
	}
}

#[test]
fn default_encoding_is_minimal_and_far_jumps_use_w() {
	let facts = kitchen_sink_facts();
	let bytes = assemble(&facts, &Encoding::default()).unwrap();
	let p = parse_class(&bytes).unwrap();
	let far = &p.layout[1];
	assert_eq!(far["method"], json!(1));
	let forms = far["forms"].as_array().unwrap();
	let n = forms.len();
	assert_eq!(forms[0], json!("w"));
	assert_eq!(forms[1], json!("w"));
	assert_eq!(forms[n - 3], json!("w"));
	assert_eq!(forms[n - 2], json!("w"));
	assert_eq!(forms[n - 1], json!("short")); // goto to the return just before
	// `all`: minimal forms
	let all = &p.layout[0];
	let insns = facts["methods"][0]["attrs"]["Code"]["insns"].as_array().unwrap();
	for (i, f) in all["forms"].as_array().unwrap().iter().enumerate() {
		let insn = &insns[i];
		let op = insn["op"].as_str().unwrap();
		if let Some(v) = insn.get("var").and_then(Value::as_u64) {
			let expect = if op == "iinc" {
				let by = insn["by"].as_i64().unwrap();
				if v <= 255 && (-128..=127).contains(&by) { "plain" } else { "wide" }
			} else if op == "ret" {
				if v <= 255 { "plain" } else { "wide" }
			} else if v <= 3 {
				"short"
			} else if v <= 255 {
				"plain"
			} else {
				"wide"
			};
			assert_eq!(f, expect, "insn {i} {insn}");
		}
	}
}

#[test]
fn requested_forms_are_reflected_in_layout() {
	let facts = kitchen_sink_facts();
	let encs = standard_encodings();
	let (_, enc) = encs.iter().find(|(n, _)| *n == "all_wide").unwrap();
	let bytes = assemble(&facts, enc).unwrap();
	let p = parse_class(&bytes).unwrap();
	assert_eq!(p.facts, facts);
	for (m, lay) in p.layout.as_array().unwrap().iter().enumerate() {
		let insns = facts["methods"][m]["attrs"]["Code"]["insns"].as_array().unwrap();
		for (i, f) in lay["forms"].as_array().unwrap().iter().enumerate() {
			let op = insns[i]["op"].as_str().unwrap();
			let expect = match op {
				"iload" | "lload" | "fload" | "dload" | "aload" | "istore" | "lstore" | "fstore" | "dstore" | "astore" | "ret" | "iinc" => "wide",
				"ldc" | "goto" | "jsr" => "w",
				_ => "plain",
			};
			assert_eq!(f, expect, "method {m} insn {i} {op}");
		}
	}
	// per-instruction overrides
	let small = json!({
		"version": [52, 0], "access": 33, "this": "k/S", "super": "java/lang/Object", "interfaces": [], "fields": [], "attrs": {},
		"methods": [{"access": 9, "name": "m", "desc": "()V", "attrs": {"Code": {"max_stack": 1, "max_locals": 2, "exceptions": [], "attrs": {}, "insns": [
			{"op": "iload", "var": 1}, {"op": "iload", "var": 1}, {"op": "iload", "var": 1},
			{"op": "ldc", "const": {"int": 100000}}, {"op": "ldc", "const": {"int": 100000}},
			{"op": "goto", "target": 7}, {"op": "goto", "target": 7}, {"op": "iinc", "var": 1, "by": 1}, {"op": "iinc", "var": 1, "by": 1}, {"op": "return"}
		]}}}]
	});
	let enc = Encoding {
		forms: vec![(0, 0, "short".into()), (0, 1, "plain".into()), (0, 2, "wide".into()), (0, 3, "short".into()), (0, 4, "w".into()),
			(0, 5, "short".into()), (0, 6, "w".into()), (0, 7, "plain".into()), (0, 8, "wide".into())],
		..Default::default()
	};
	let p = parse_class(&assemble(&small, &enc).unwrap()).unwrap();
	assert_eq!(p.facts, small);
	assert_eq!(p.layout[0]["forms"], json!(["short", "plain", "wide", "short", "w", "short", "w", "plain", "wide", "plain"]));
	assert_eq!(p.layout[0]["offsets"], json!([0, 1, 3, 7, 9, 12, 15, 20, 23, 29]));
	// not representable
	for (i, f) in [(0usize, "w"), (3, "wide"), (9, "short"), (5, "wide")] {
		let enc = Encoding { forms: vec![(0, i, f.into())], ..Default::default() };
		assert!(matches!(assemble(&small, &enc), Err(AsmError::Unencodable(_))), "{i} {f}");
	}
	let enc = Encoding { forms: vec![(0, 3, "short".into())], pool_pad: Some(300), ..Default::default() };
	assert!(matches!(assemble(&small, &enc), Err(AsmError::Unencodable(_))));
	let mut big = small.clone();
	big["methods"][0]["attrs"]["Code"]["insns"][0]["var"] = json!(4);
	let enc = Encoding { forms: vec![(0, 0, "short".into())], ..Default::default() };
	assert!(matches!(assemble(&big, &enc), Err(AsmError::Unencodable(_))));
}

#[test]
fn conditional_branch_too_far_is_unencodable() {
	let mut insns = vec![json!({"op": "iconst_0"}), json!({"op": "ifeq", "target": 40002})];
	for _ in 0..40000 {
		insns.push(json!({"op": "nop"}));
	}
	insns.push(json!({"op": "return"}));
	let f = json!({
		"version": [52, 0], "access": 33, "this": "k/S", "super": "java/lang/Object", "interfaces": [], "fields": [], "attrs": {},
		"methods": [{"access": 9, "name": "m", "desc": "()V", "attrs": {"Code": {"max_stack": 1, "max_locals": 0, "exceptions": [], "attrs": {}, "insns": insns}}}]
	});
	assert!(matches!(assemble(&f, &Encoding::default()), Err(AsmError::Unencodable(_))));
	// 65535 byte method assembles, 65536 does not
	let mk = |n: usize| {
		let mut insns: Vec<Value> = (0..n - 1).map(|_| json!({"op": "nop"})).collect();
		insns.push(json!({"op": "return"}));
		let mut g = f.clone();
		g["methods"][0]["attrs"]["Code"]["insns"] = Value::Array(insns);
		g
	};
	let ok = mk(65535);
	let p = parse_class(&assemble(&ok, &Encoding::default()).unwrap()).unwrap();
	assert_eq!(p.facts, ok);
	assert_eq!(p.layout[0]["code_length"], json!(65535));
	assert!(matches!(assemble(&mk(65536), &Encoding::default()), Err(AsmError::Unencodable(_))));
}

#[test]
fn frame_forms_produce_the_expected_frame_types() {
	let (_, facts) = sample_classes().into_iter().find(|(n, _)| n == "frames_each_kind").unwrap();
	let types = |enc: &Encoding| -> Vec<u8> {
		let bytes = assemble(&facts, enc).unwrap();
		let p = parse_class(&bytes).unwrap();
		assert_eq!(p.facts, facts);
		p.spans.iter().filter(|s| s.role == "frame_type").map(|s| bytes[s.off]).collect()
	};
	assert_eq!(types(&Encoding::default()), vec![1, 64, 254, 249, 255, 255, 251, 247, 254, 248, 255]);
	assert_eq!(types(&Encoding { frame_forms: Some("full".into()), ..Default::default() }), vec![255; 11]);
	assert_eq!(types(&Encoding { frame_forms: Some("extended".into()), ..Default::default() }), vec![251, 247, 254, 249, 255, 255, 251, 247, 254, 248, 255]);
}

#[test]
fn encoding_deserializes_from_json() {
	let e: Encoding = serde_json::from_value(json!({
		"pool_order": "shuffle", "pool_seed": 5, "pool_pad": 10, "dedup": false, "forms": [[0, 1, "wide"]], "default_forms": {"ldc": "w"}, "frame_forms": "full"
	}))
	.unwrap();
	assert_eq!(e.forms, vec![(0, 1, "wide".to_string())]);
	assert_eq!(e.pool_pad, Some(10));
	let back = serde_json::to_value(&e).unwrap();
	let e2: Encoding = serde_json::from_value(back).unwrap();
	assert_eq!(e, e2);
}

/// Replaces the `k`-th node (pre-order) of a JSON tree by `new`; returns whether it was found.
fn replace_nth(v: &mut Value, k: &mut usize, new: &Value) -> bool {
	if *k == 0 {
		*v = new.clone();
		return true;
	}
	*k -= 1;
	match v {
		Value::Array(a) => a.iter_mut().any(|x| replace_nth(x, k, new)),
		Value::Object(m) => m.values_mut().any(|x| replace_nth(x, k, new)),
		_ => false,
	}
}

fn count_nodes(v: &Value) -> usize {
	1 + match v {
		Value::Array(a) => a.iter().map(count_nodes).sum(),
		Value::Object(m) => m.values().map(count_nodes).sum(),
		_ => 0,
	}
}

#[test]
fn assembler_never_panics_on_malformed_facts() {
	let junk = [json!(null), json!(-1), json!(70000), json!(4294967296u64), json!("x"), json!([]), json!({}), json!(true), json!([1, 2, 3]), json!({"utf16": [70000]}), json!(18446744073709551615u64)];
	let mut rng = cfkit::asm::Rng(99);
	let mut ok = 0;
	let mut err = 0;
	for (name, facts) in sample_classes() {
		if name == "far_jumps" {
			continue;
		}
		let n = count_nodes(&facts);
		for it in 0..150 {
			let mut f = facts.clone();
			let mut k = rng.below(n);
			let new = &junk[it % junk.len()];
			replace_nth(&mut f, &mut k, new);
			match assemble(&f, &Encoding::default()) {
				Ok(bytes) => {
					ok += 1;
					let _ = parse_class(&bytes);
				}
				Err(_) => err += 1,
			}
		}
	}
	assert!(err > 1000 && ok > 0, "{ok} {err}");
}
