//! The parser is a strict validator: targeted malformed inputs must be rejected.

use cfkit::asm::{assemble, Encoding};
use cfkit::parse::{parse_class, Parsed, Span};
use cfkit::samples::{kitchen_sink_facts, sample_classes};
use serde_json::{json, Value};

fn sample(name: &str) -> Value {
	sample_classes().into_iter().find(|(n, _)| n == name).unwrap_or_else(|| panic!("no sample {name}")).1
}

fn build(f: &Value) -> (Vec<u8>, Parsed) {
	let b = assemble(f, &Encoding::default()).unwrap();
	let p = parse_class(&b).unwrap();
	assert_eq!(&p.facts, f);
	(b, p)
}

fn rd(b: &[u8], s: &Span) -> u64 {
	b[s.off..s.off + s.len].iter().fold(0u64, |a, x| (a << 8) | *x as u64)
}

fn wr(b: &mut [u8], s: &Span, v: u64) {
	for i in 0..s.len {
		b[s.off + i] = (v >> (8 * (s.len - 1 - i))) as u8;
	}
}

fn patched(b: &[u8], s: &Span, v: u64) -> Vec<u8> {
	let mut c = b.to_vec();
	wr(&mut c, s, v);
	c
}

fn method_code(insns: Value) -> Value {
	json!({
		"version": [52, 0], "access": 33, "this": "k/S", "super": "java/lang/Object", "interfaces": [], "fields": [], "attrs": {},
		"methods": [{"access": 9, "name": "m", "desc": "()V", "attrs": {"Code": {"max_stack": 1, "max_locals": 1, "exceptions": [], "attrs": {}, "insns": insns}}}]
	})
}

#[test]
fn every_pool_index_is_checked() {
	// every cp_index span: out of range -> Err; 0 -> Err unless the field is optional
	let optional = ["super_class", "ic_outer", "ic_name", "em_method", "exc_catch_type", "mp_name", "mod_version", "mod_requires_version"];
	let mut n = 0;
	let mut all: Vec<(String, Value)> = sample_classes();
	all.push(("kitchen_sink".into(), kitchen_sink_facts()));
	for (name, f) in all {
		if name == "far_jumps" {
			continue;
		}
		let (b, p) = build(&f);
		let count = p.raw["limits"]["cp_count"].as_u64().unwrap();
		for s in p.spans.iter().filter(|s| s.class == "cp_index") {
			if s.len == 1 {
				continue; // ldc: u1 index cannot be out of range of a pool > 255 entries in general
			}
			let r = parse_class(&patched(&b, s, count));
			assert!(r.is_err(), "{name}: {} {} = cp_count accepted", s.role, s.path);
			let r = parse_class(&patched(&b, s, 65535));
			assert!(r.is_err(), "{name}: {} {} = 65535 accepted", s.role, s.path);
			let zero_ok = optional.iter().any(|o| s.role.starts_with(o));
			let r = parse_class(&patched(&b, s, 0));
			if !zero_ok {
				assert!(r.is_err(), "{name}: {} {} = 0 accepted", s.role, s.path);
			}
			n += 1;
		}
		// an index to the unusable slot after a Long/Double
		let pool = p.raw["pool"].as_array().unwrap();
		if let Some(hole) = (1..pool.len()).find(|i| pool[*i] == "-") {
			for s in p.spans.iter().filter(|s| s.class == "cp_index" && s.len == 2).take(50) {
				assert!(parse_class(&patched(&b, s, hole as u64)).is_err(), "{name}: {} -> unusable slot accepted", s.role);
			}
		}
	}
	assert!(n > 1000, "{n}");
}

#[test]
fn lengths_must_be_exact() {
	let mut n = 0;
	for (name, f) in sample_classes() {
		if name == "far_jumps" {
			continue;
		}
		let (b, p) = build(&f);
		let unknown_follows: Vec<usize> = p.spans.iter().enumerate().filter(|(_, s)| s.role == "attr_body_unknown").map(|(i, _)| i).collect();
		for (i, s) in p.spans.iter().enumerate() {
			if s.role == "attr_len" {
				let v = rd(&b, s);
				// opaque bodies (unknown attributes, SourceDebugExtension) have no measurable length of their own
				let is_unknown = unknown_follows.contains(&(i + 1)) || p.spans.get(i + 1).map_or(false, |n| n.role == "sde_bytes") || (v == 0 && s.path.contains("Src"));
				for d in [v + 1, v.wrapping_sub(1) & 0xffff_ffff, v + 2, 0xffff_ffff] {
					if d == v {
						continue;
					}
					let r = parse_class(&patched(&b, s, d));
					if let Ok(q) = &r {
						// only an unknown (opaque) attribute, or an empty recognised one that became opaque-compatible, may absorb it
						assert!(is_unknown || q.facts != p.facts, "{name}: attr_len {v}->{d} at {} accepted with the same facts", s.path);
						if !is_unknown {
							panic!("{name}: attr_len {v}->{d} at {} accepted", s.path);
						}
					}
					n += 1;
				}
			}
			if s.role == "code_len" {
				let v = rd(&b, s);
				for d in [0, v + 1, v - 1, 65536, 0xffff_ffff] {
					assert!(parse_class(&patched(&b, s, d)).is_err(), "{name}: code_len {v}->{d} accepted");
					n += 1;
				}
			}
			if s.role == "cp_utf8_len" {
				let v = rd(&b, s);
				for d in [v + 1, 65535] {
					if d != v {
						assert!(parse_class(&patched(&b, s, d)).is_err(), "{name}: utf8 len {v}->{d} accepted");
					}
				}
			}
		}
	}
	assert!(n > 500, "{n}");
}

#[test]
fn counts_must_be_exact() {
	// incrementing any count makes the structure run into foreign bytes: must never be accepted with equal facts,
	// and for the top-level counts must be an error
	let mut errs = 0;
	let mut total = 0;
	for (name, f) in sample_classes() {
		if name == "far_jumps" {
			continue;
		}
		let (b, p) = build(&f);
		for s in p.spans.iter().filter(|s| s.class == "count") {
			let v = rd(&b, s);
			let max = if s.len == 1 { 0xff } else if s.len == 2 { 0xffff } else { 0xffff_ffff };
			for d in [v + 1, max] {
				if d == v || d > max {
					continue;
				}
				total += 1;
				match parse_class(&patched(&b, s, d)) {
					Err(_) => errs += 1,
					Ok(q) => assert_ne!(q.facts, p.facts, "{name}: {} {}->{d} at {} accepted with the same facts", s.role, v, s.path),
				}
			}
		}
	}
	assert!(errs * 100 >= total * 97, "only {errs} of {total} count corruptions rejected");
}

fn expect_err(b: &[u8], needle: &str) {
	match parse_class(b) {
		Ok(_) => panic!("accepted; expected error containing {needle:?}"),
		Err(e) => assert!(e.msg.contains(needle), "error {:?} does not contain {needle:?}", e.msg),
	}
}

fn span<'a>(p: &'a Parsed, role: &str, nth: usize) -> &'a Span {
	p.spans.iter().filter(|s| s.role == role).nth(nth).unwrap_or_else(|| panic!("no span {role} #{nth}"))
}

#[test]
fn code_rules() {
	let f = method_code(json!([{"op": "goto", "target": 2}, {"op": "sipush", "value": 1}, {"op": "return"}]));
	let (b, p) = build(&f);
	// branch into the middle of sipush
	let s = span(&p, "branch_offset", 0);
	expect_err(&patched(&b, s, 4), "not an instruction boundary");
	expect_err(&patched(&b, s, 7), "equals code_length");
	expect_err(&patched(&b, s, 8), "outside the code");
	expect_err(&patched(&b, s, 0xfff0), "outside the code");
	// invalid / reserved opcodes
	let op = span(&p, "opcode", 2);
	for bad in [0xca_u64, 0xcb, 0xfe, 0xff] {
		expect_err(&patched(&b, op, bad), "invalid opcode");
	}
	// wide before a non-widenable opcode: replace goto(3 bytes) by wide nop nop
	let mut c = b.clone();
	let g = span(&p, "opcode", 0).off;
	c[g] = 0xc4;
	c[g + 1] = 0x00;
	c[g + 2] = 0x00;
	expect_err(&c, "wide prefix");
	// instruction running over the end of the code: last opcode := sipush
	expect_err(&patched(&b, op, 0x11), "");

	let f = method_code(json!([{"op": "iconst_0"}, {"op": "lookupswitch", "default": 2, "pairs": [[1, 2], [5, 2]]}, {"op": "return"}]));
	let (b, p) = build(&f);
	expect_err(&patched(&b, span(&p, "switch_key", 1), 1), "strictly increasing");
	expect_err(&patched(&b, span(&p, "switch_key", 1), 0), "strictly increasing");
	expect_err(&patched(&b, span(&p, "switch_npairs", 0), 0xffff_ffff), "negative");
	expect_err(&patched(&b, span(&p, "switch_npairs", 0), 0x7fff_ffff), "runs over");
	// non-zero padding is tolerated and reported
	let pad = span(&p, "switch_pad", 0);
	let q = parse_class(&patched(&b, pad, 0x0102)).unwrap();
	assert_eq!(q.facts, p.facts);
	assert_eq!(q.layout[0]["switch_pad"]["1"], json!([1, 2]));
	assert_eq!(p.layout[0]["switch_pad"]["1"], json!([0, 0]));

	let f = method_code(json!([{"op": "iconst_0"}, {"op": "tableswitch", "default": 2, "low": 3, "targets": [2, 2]}, {"op": "return"}]));
	let (b, p) = build(&f);
	expect_err(&patched(&b, span(&p, "switch_high", 0), 2), "low 3 > high 2");
	expect_err(&patched(&b, span(&p, "switch_high", 0), 0x7fff_ffff), "runs over");
	expect_err(&patched(&b, span(&p, "switch_low", 0), 0x8000_0000), "runs over");

	let f = method_code(json!([
		{"op": "aconst_null"}, {"op": "invokeinterface", "owner": "k/I", "name": "m", "desc": "(J)V"},
		{"op": "iconst_1"}, {"op": "newarray", "type": "int"}, {"op": "multianewarray", "class": "[[I", "dims": 2},
		{"op": "invokedynamic", "indy": {"bsm": {"kind": "invokestatic", "owner": "k/B", "name": "b", "desc": "()V", "itf": false}, "args": [], "name": "x", "desc": "()V"}},
		{"op": "ldc", "const": {"int": 77777}}, {"op": "ldc", "const": {"long": "5"}},
		{"op": "invokevirtual", "owner": "k/C", "name": "v", "desc": "()V", "itf": false}, {"op": "return"}
	]));
	let (b, p) = build(&f);
	expect_err(&patched(&b, span(&p, "insn_operand:count", 0), 2), "count");
	expect_err(&patched(&b, span(&p, "insn_operand:zero", 0), 1), "fourth operand");
	expect_err(&patched(&b, span(&p, "insn_operand:zero", 1), 1), "must be 0");
	expect_err(&patched(&b, span(&p, "insn_operand:atype", 0), 3), "atype");
	expect_err(&patched(&b, span(&p, "insn_operand:atype", 0), 12), "atype");
	expect_err(&patched(&b, span(&p, "insn_operand:dims", 0), 0), "0 dimensions");
	// ldc -> Long, ldc2_w -> Integer, invokevirtual -> InterfaceMethodref
	let pool: Vec<String> = p.raw["pool"].as_array().unwrap().iter().map(|k| k.as_str().unwrap().to_owned()).collect();
	let idx = |k: &str| pool.iter().position(|x| x == k).unwrap() as u64;
	expect_err(&patched(&b, span(&p, "insn_operand:cp:Loadable1", 0), idx("Long")), "");
	expect_err(&patched(&b, span(&p, "insn_operand:cp:Loadable2", 0), idx("Integer")), "");
	expect_err(&patched(&b, span(&p, "insn_operand:cp:Methodref", 0), idx("InterfaceMethodref")), "expected Methodref");
	expect_err(&patched(&b, span(&p, "insn_operand:cp:InterfaceMethodref", 0), idx("Methodref")), "expected InterfaceMethodref");
	// the assembler honours itf:true on invokevirtual, the parser rejects the result
	let mut g = f.clone();
	g["methods"][0]["attrs"]["Code"]["insns"][8]["itf"] = json!(true);
	expect_err(&assemble(&g, &Encoding::default()).unwrap(), "expected Methodref");
}

#[test]
fn table_positions_must_be_instruction_boundaries() {
	let f = sample("local_variable_tables");
	let (b, p) = build(&f);
	// code is nop nop return: offsets 0,1,2; length 3
	expect_err(&patched(&b, span(&p, "lnt_start_pc", 0), 3), "equals code_length");
	expect_err(&patched(&b, span(&p, "lnt_start_pc", 0), 4), "outside");
	expect_err(&patched(&b, span(&p, "lvt_length", 0), 4), "outside");
	expect_err(&patched(&b, span(&p, "lvtt_start_pc", 0), 9), "outside");
	let f = method_code(json!([{"op": "sipush", "value": 1}, {"op": "pop"}, {"op": "return"}]));
	let mut g = f.clone();
	g["methods"][0]["attrs"]["Code"]["exceptions"] = json!([{"start": 0, "end": 2, "handler": 2}]);
	g["methods"][0]["attrs"]["Code"]["attrs"] = json!({"LineNumberTable": [[1, 5]], "LocalVariableTable": [{"start": 1, "end": 3, "name": "x", "desc": "I", "slot": 0}],
		"StackMapTable": [{"at": 1, "locals": [], "stack": ["int"]}, {"at": 2, "locals": [], "stack": []}]});
	let (b, p) = build(&g);
	for role in ["exc_start_pc", "exc_end_pc", "exc_handler_pc", "lnt_start_pc", "lvt_start_pc"] {
		expect_err(&patched(&b, span(&p, role, 0), 1), "");
		expect_err(&patched(&b, span(&p, role, 0), 2), "");
	}
	expect_err(&patched(&b, span(&p, "exc_end_pc", 0), 0), "start_pc");
	expect_err(&patched(&b, span(&p, "exc_end_pc", 0), 6), "outside");
	expect_err(&patched(&b, span(&p, "exc_handler_pc", 0), 5), "equals code_length");
	// stack map: frame types 1 (same_locals_1 at delta 3) and chop etc.
	let ft = span(&p, "frame_type", 0);
	assert_eq!(rd(&b, ft), 64 + 3);
	expect_err(&patched(&b, ft, 64 + 2), "not an instruction boundary");
	expect_err(&patched(&b, ft, 64 + 63), "");
	expect_err(&patched(&b, ft, 128), "");
	expect_err(&patched(&b, ft, 246), "");
	let ft2 = span(&p, "frame_type", 1);
	assert_eq!(rd(&b, ft2), 0);
	expect_err(&patched(&b, ft2, 1), "equals code_length");
	expect_err(&patched(&b, span(&p, "vt_tag", 0), 9), "verification_type_info tag");
	// chop more locals than exist: same_frame (1 byte) cannot be patched to chop (3 bytes); use the sample
	let f = sample("frames_each_kind");
	let (b, p) = build(&f);
	let chop = p.spans.iter().filter(|s| s.role == "frame_type").find(|s| b[s.off] == 249).unwrap();
	let q = patched(&b, chop, 248); // chop 3 of 5: fine but then later frames differ
	assert!(parse_class(&q).map(|q| q.facts != p.facts).unwrap_or(true));
	let last_chop = p.spans.iter().filter(|s| s.role == "frame_type").filter(|s| b[s.off] == 248).last().unwrap();
	let _ = last_chop;
	let f = method_code(json!([{"op": "nop"}, {"op": "return"}]));
	let mut g = f.clone();
	g["methods"][0]["attrs"]["Code"]["attrs"] = json!({"StackMapTable": [{"at": 1, "locals": [], "stack": []}]});
	let (b, p) = build(&g);
	// same_frame(1) -> there is no room to turn it into a chop; craft by hand: full class with chop_frame
	let _ = (b, p);
	let mut h = f.clone();
	h["methods"][0]["desc"] = json!("(I)V");
	h["methods"][0]["attrs"]["Code"]["attrs"] = json!({"StackMapTable": [{"at": 1, "locals": [], "stack": []}]});
	let (b, p) = build(&h);
	let ft = span(&p, "frame_type", 0);
	assert_eq!(rd(&b, ft), 250); // chop 1
	expect_err(&patched(&b, ft, 249), "chop of 2 locals but only 1 exist");
}

#[test]
fn pool_rules() {
	let f = sample("ldc_all_constants");
	let (b, p) = build(&f);
	// undefined tags
	let tag = span(&p, "cp_tag", 0);
	for t in [0u64, 2, 13, 14, 21, 255] {
		expect_err(&patched(&b, tag, t), "undefined constant pool tag");
	}
	// reference_kind
	let rk = span(&p, "cp_ref_kind", 0);
	expect_err(&patched(&b, rk, 0), "reference_kind");
	expect_err(&patched(&b, rk, 10), "reference_kind");
	// getfield handle (kind 1) must reference a Fieldref: kind 5 on the same entry is an error
	assert_eq!(rd(&b, rk), 1);
	expect_err(&patched(&b, rk, 5), "expected Methodref");
	// bootstrap index out of range
	let bi = span(&p, "cp_bsm_index", 0);
	expect_err(&patched(&b, bi, 1000), "bootstrap_method_attr_index");
	// malformed UTF-8: find a Utf8 with bytes and poke
	let u = p.spans.iter().find(|s| s.role == "cp_utf8_bytes" && s.len >= 3).unwrap();
	for bad in [0x00u8, 0xf0, 0xff, 0x80, 0xc0, 0xe0] {
		let mut c = b.clone();
		c[u.off + u.len - 1] = bad;
		expect_err(&c, "");
	}
	// cp_count 0, and too small / too large
	let cc = span(&p, "cp_count", 0);
	expect_err(&patched(&b, cc, 0), "");
	expect_err(&patched(&b, cc, rd(&b, cc) - 1), "");
	expect_err(&patched(&b, cc, rd(&b, cc) + 1), "");
	// magic
	let mut c = b.clone();
	c[0] = 0xcb;
	expect_err(&c, "magic");
	// cyclic dynamic constant: make the nested condy's argument refer to the outer one
	let f = sample("indy_condy_unreferenced_bootstrap");
	let (b, p) = build(&f);
	let pool: Vec<String> = p.raw["pool"].as_array().unwrap().iter().map(|k| k.as_str().unwrap().to_owned()).collect();
	let dyns: Vec<usize> = pool.iter().enumerate().filter(|(_, k)| *k == "Dynamic").map(|(i, _)| i).collect();
	let mut found = false;
	for s in p.spans.iter().filter(|s| s.role == "bsm_arg:cp:Loadable") {
		if dyns.contains(&(rd(&b, s) as usize)) {
			for d in &dyns {
				if let Err(e) = parse_class(&patched(&b, s, *d as u64)) {
					if e.msg.contains("cyclic") {
						found = true;
					}
				}
			}
		}
	}
	assert!(found, "no cycle detected");
}

#[test]
fn descriptor_rules() {
	for (desc, ok) in [("I", true), ("[[J", true), ("Lx;", true), ("V", false), ("L;", false), ("Lx", false), ("", false), ("(I)V", false), ("La.b;", false), ("II", false)] {
		let mut f = sample("minimal_object");
		f["fields"] = json!([{"access": 0, "name": "f", "desc": desc, "attrs": {}}]);
		let b = assemble(&f, &Encoding::default()).unwrap();
		assert_eq!(parse_class(&b).is_ok(), ok, "field descriptor {desc:?}");
	}
	for (desc, ok) in [("()V", true), ("(I[JLx;)Lx;", true), ("()", false), ("(V)V", false), ("I", false), ("()VV", false), ("(L;)V", false), ("(", false)] {
		let mut f = sample("minimal_object");
		f["methods"] = json!([{"access": 0x401, "name": "m", "desc": desc, "attrs": {}}]);
		let b = assemble(&f, &Encoding::default()).unwrap();
		assert_eq!(parse_class(&b).is_ok(), ok, "method descriptor {desc:?}");
	}
	// 255 slots incl. this
	let mk = |n: usize, acc: u16| {
		let mut f = sample("minimal_object");
		f["methods"] = json!([{"access": acc, "name": "m", "desc": format!("({})V", "I".repeat(n)), "attrs": {}}]);
		parse_class(&assemble(&f, &Encoding::default()).unwrap()).is_ok()
	};
	assert!(mk(255, 0x408));
	assert!(!mk(256, 0x408));
	assert!(mk(254, 0x401));
	assert!(!mk(255, 0x401));
	// NameAndType used by a Fieldref must be a field descriptor
	let f = method_code(json!([{"op": "getstatic", "owner": "k/C", "name": "f", "desc": "()V"}, {"op": "return"}]));
	expect_err(&assemble(&f, &Encoding::default()).unwrap(), "NameAndType");
	let f = method_code(json!([{"op": "invokestatic", "owner": "k/C", "name": "f", "desc": "I", "itf": false}, {"op": "return"}]));
	expect_err(&assemble(&f, &Encoding::default()).unwrap(), "NameAndType");
	let f = method_code(json!([{"op": "ldc", "const": {"method_type": "I"}}, {"op": "return"}]));
	expect_err(&assemble(&f, &Encoding::default()).unwrap(), "MethodType");
}

#[test]
fn annotation_rules() {
	let f = sample("annotations_all_element_kinds");
	let (b, p) = build(&f);
	let t = span(&p, "element_tag", 0);
	for bad in [b'A', b'V', b'L', 0u8, b'E'] {
		expect_err(&patched(&b, t, bad as u64), "element_value tag");
	}
	// 'B' must reference an Integer: retag as 's' (Utf8) -> wrong kind
	expect_err(&patched(&b, t, b's' as u64), "expected Utf8");
	let f = sample("type_annotations_class_field_method");
	let (b, p) = build(&f);
	let tt = span(&p, "ta_target_type", 0);
	expect_err(&patched(&b, tt, 0x02), "target_type");
	expect_err(&patched(&b, tt, 0x4c), "target_type");
	// a field target type inside a field attribute is fine; a method one is not allowed there
	assert_eq!(rd(&b, tt), 0x13);
	expect_err(&patched(&b, tt, 0x14), "not allowed");
	let pk = span(&p, "ta_path_kind", 0);
	expect_err(&patched(&b, pk, 4), "type_path_kind");
	let pa = p.spans.iter().find(|s| s.role == "ta_path_arg" && rd(&b, s) == 0 && b[s.off - 1] != 3).unwrap();
	expect_err(&patched(&b, pa, 1), "must be 0");
	let f = sample("type_annotations_code");
	let (b, p) = build(&f);
	expect_err(&patched(&b, span(&p, "ta_offset", 0), 1), "not an instruction boundary");
	expect_err(&patched(&b, span(&p, "ta_length", 0), 2), "not an instruction boundary");
}

#[test]
fn two_bootstrap_methods_attributes_are_rejected_and_missing_one_too() {
	let f = sample("indy_condy_unreferenced_bootstrap");
	let (b, p) = build(&f);
	// rename the attribute: its name Utf8 "BootstrapMethods" -> "BootstrapMethodz": now dynamic constants have no table
	let pos = b.windows(16).position(|w| w == b"BootstrapMethods").unwrap();
	let mut c = b.clone();
	c[pos + 15] = b'z';
	expect_err(&c, "bootstrap_method_attr_index");
	let _ = p;
	// a second attribute with that name
	let mut g = f.clone();
	g["attrs"]["unknown"] = json!([{"name": "BootstrapMethodz", "bytes": "0000"}]);
	let b = assemble(&g, &Encoding::default()).unwrap();
	assert_eq!(parse_class(&b).unwrap().facts, g);
	let pos = b.windows(16).position(|w| w == b"BootstrapMethodz").unwrap();
	let mut c = b.clone();
	c[pos + 15] = b's';
	expect_err(&c, "two BootstrapMethods");
}
