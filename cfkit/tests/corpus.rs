//! Corpus-wide checks: parse, round trip under the standard encodings, span tiling, raw summary
//! consistency, robustness against mutations, reference extraction.

use cfkit::asm::{assemble, standard_encodings, AsmError, Rng};
use cfkit::corpus::corpus_classes;
use cfkit::parse::{parse_class, parse_class_facts_only};
use serde_json::Value;
use std::collections::{BTreeMap, BTreeSet};
use std::sync::Mutex;

/// Runs `f` over all items on all cores; collects the error strings.
fn par_for_each<T: Sync>(items: &[T], f: impl Fn(&T) -> Vec<String> + Sync) -> Vec<String> {
	let n = std::thread::available_parallelism().map(|n| n.get()).unwrap_or(4).min(32);
	let next = std::sync::atomic::AtomicUsize::new(0);
	let errors = Mutex::new(Vec::new());
	std::thread::scope(|s| {
		for _ in 0..n {
			s.spawn(|| loop {
				let i = next.fetch_add(1, std::sync::atomic::Ordering::SeqCst);
				let Some(item) = items.get(i) else { break };
				let e = f(item);
				if !e.is_empty() {
					errors.lock().unwrap().extend(e);
				}
			});
		}
	});
	let mut e = errors.into_inner().unwrap();
	e.sort();
	e
}

fn report(errors: Vec<String>) {
	if !errors.is_empty() {
		for e in errors.iter().take(40) {
			eprintln!("{e}");
		}
		panic!("{} failures", errors.len());
	}
}

#[test]
fn corpus_is_present() {
	let c = corpus_classes("default");
	assert!(c.len() >= 900, "compiled corpus has only {} classes", c.len());
	let t = corpus_classes("thorough");
	assert!(t.len() >= c.len() + 350, "jdk sample missing: {} vs {}", t.len(), c.len());
	for v in ["8/", "8-g/", "11/", "11-g/", "17/", "17-g/"] {
		assert!(c.iter().any(|(id, _)| id.starts_with(v)), "variant {v} missing");
	}
}

#[test]
fn every_class_parses_and_round_trips_under_all_encodings() {
	let classes = corpus_classes("thorough");
	let encs = standard_encodings();
	let unenc = Mutex::new(BTreeMap::<String, usize>::new());
	let errors = par_for_each(&classes, |(id, bytes)| {
		let mut errs = Vec::new();
		let p = match parse_class(bytes) {
			Ok(p) => p,
			Err(e) => return vec![format!("{id}: {e}")],
		};
		if p.consumed != bytes.len() {
			errs.push(format!("{id}: consumed {} of {}", p.consumed, bytes.len()));
		}
		let max_code = p.raw["limits"]["max_code_length"].as_u64().unwrap_or(0);
		let cp_count = p.raw["limits"]["cp_count"].as_u64().unwrap_or(0);
		for (en, enc) in &encs {
			match assemble(&p.facts, enc) {
				Ok(out) => match parse_class(&out) {
					Ok(q) => {
						if q.facts != p.facts {
							errs.push(format!("{id} [{en}]: facts differ after round trip"));
						}
						if q.consumed != out.len() {
							errs.push(format!("{id} [{en}]: trailing bytes in assembler output"));
						}
						if *en == "all_wide" {
							// the layout must reflect the requested forms
							for (lay, m) in q.layout.as_array().unwrap().iter().zip(methods_with_code(&p.facts)) {
								let insns = m["attrs"]["Code"]["insns"].as_array().unwrap();
								for (i, f) in lay["forms"].as_array().unwrap().iter().enumerate() {
									let op = insns[i]["op"].as_str().unwrap();
									let expect = match op {
										"iload" | "lload" | "fload" | "dload" | "aload" | "istore" | "lstore" | "fstore" | "dstore" | "astore" | "ret" | "iinc" => "wide",
										"ldc" | "goto" | "jsr" => "w",
										_ => "plain",
									};
									if f != expect {
										errs.push(format!("{id} [{en}]: insn {i} {op} has form {f}, expected {expect}"));
										break;
									}
								}
							}
						}
						if *en == "shuffle_pad300" {
							// every ldc of a category 1 constant must be ldc_w now (indices > 300)
							for (lay, m) in q.layout.as_array().unwrap().iter().zip(methods_with_code(&p.facts)) {
								let insns = m["attrs"]["Code"]["insns"].as_array().unwrap();
								for (i, f) in lay["forms"].as_array().unwrap().iter().enumerate() {
									if insns[i]["op"] == "ldc" && f != "w" {
										errs.push(format!("{id} [{en}]: insn {i} ldc not wide despite padding"));
									}
								}
							}
						}
					}
					Err(e) => errs.push(format!("{id} [{en}]: assembled class rejected: {e}")),
				},
				Err(AsmError::Unencodable(m)) => {
					// legitimate only when code grows beyond 64K or the pool overflows without sharing
					let ok = (max_code > 16000 && matches!(*en, "all_wide" | "plain_vars")) || (*en == "no_dedup" && cp_count > 3000);
					if !ok {
						errs.push(format!("{id} [{en}]: unexpectedly unencodable: {m}"));
					}
					*unenc.lock().unwrap().entry(en.to_string()).or_default() += 1;
				}
				Err(e) => errs.push(format!("{id} [{en}]: {e}")),
			}
		}
		errs
	});
	eprintln!("classes: {}, encodings: {}, unencodable: {:?}", classes.len(), encs.len(), unenc.lock().unwrap());
	report(errors);
}

fn methods_with_code(facts: &Value) -> Vec<&Value> {
	facts["methods"].as_array().unwrap().iter().filter(|m| m["attrs"].get("Code").is_some()).collect()
}

#[test]
fn spans_tile_the_file_and_raw_summary_is_consistent() {
	let classes = corpus_classes("thorough");
	let errors = par_for_each(&classes, |(id, bytes)| {
		let mut errs = Vec::new();
		let p = match parse_class(bytes) {
			Ok(p) => p,
			Err(e) => return vec![format!("{id}: {e}")],
		};
		let mut pos = 0usize;
		for s in &p.spans {
			if s.off != pos || s.len == 0 {
				errs.push(format!("{id}: span {} {} at {} but expected offset {pos}", s.role, s.path, s.off));
				break;
			}
			pos += s.len;
		}
		if pos != p.consumed {
			errs.push(format!("{id}: spans end at {pos}, consumed {}", p.consumed));
		}
		// light mode gives the same facts and layout
		match parse_class_facts_only(bytes) {
			Ok(q) => {
				if q.facts != p.facts || q.layout != p.layout {
					errs.push(format!("{id}: light parse differs"));
				}
			}
			Err(e) => errs.push(format!("{id}: light parse fails: {e}")),
		}
		let pool = p.raw["pool"].as_array().unwrap();
		for u in p.raw["uses"].as_array().unwrap() {
			let idx = u[0].as_u64().unwrap() as usize;
			let exp: Vec<&str> = u[1].as_array().unwrap().iter().map(|k| k.as_str().unwrap()).collect();
			let ok = if idx == 0 { exp.contains(&"0") } else { pool.get(idx).and_then(Value::as_str).map_or(false, |k| exp.contains(&k)) };
			if !ok {
				errs.push(format!("{id}: use {u} does not match the pool"));
			}
		}
		for l in p.raw["lengths"].as_array().unwrap() {
			if l[0] != l[1] {
				errs.push(format!("{id}: length row {l}"));
			}
		}
		// layout sanity: offsets strictly increasing, below code_length
		for lay in p.layout.as_array().unwrap() {
			let offs: Vec<u64> = lay["offsets"].as_array().unwrap().iter().map(|o| o.as_u64().unwrap()).collect();
			if offs.first() != Some(&0) || offs.windows(2).any(|w| w[0] >= w[1]) || offs.last().unwrap() >= &lay["code_length"].as_u64().unwrap() {
				errs.push(format!("{id}: bad layout offsets"));
			}
		}
		errs
	});
	report(errors);
}

#[test]
fn trailing_bytes_are_not_an_error() {
	let classes = corpus_classes("default");
	let (_, a) = &classes[0];
	let (_, b) = &classes[classes.len() / 2];
	let mut cat = a.clone();
	cat.extend_from_slice(b);
	cat.extend_from_slice(&[1, 2, 3]);
	let p = parse_class(&cat).unwrap();
	assert_eq!(p.consumed, a.len());
	assert_eq!(p.facts, parse_class(a).unwrap().facts);
	let q = parse_class(&cat[p.consumed..]).unwrap();
	assert_eq!(q.consumed, b.len());
	assert!(parse_class(&cat[p.consumed + q.consumed..]).is_err());
}

/// Mutation / truncation robustness. `mutations` single-byte mutations at random positions (random
/// new value, plus the boundary values 0, 0xff, ±1 round robin) and truncation at every
/// `trunc_stride`-th position must give Ok or Err, never a panic; an `Ok` must be self-consistent
/// (consumed within bounds).
fn fuzz_class(id: &str, bytes: &[u8], mutations: usize, trunc_stride: usize, seed: u64) -> Vec<String> {
	let mut errs = Vec::new();
	let mut rng = Rng(seed ^ bytes.len() as u64);
	let mut buf = bytes.to_vec();
	let r = std::panic::catch_unwind(move || {
		let mut oks = 0usize;
		for k in 0..mutations {
			let pos = rng.below(buf.len());
			let old = buf[pos];
			buf[pos] = match k % 5 {
				0 => 0,
				1 => 0xff,
				2 => old.wrapping_add(1),
				3 => old.wrapping_sub(1),
				_ => rng.next() as u8,
			};
			// alternate between the full parser and the light one
			let r = if k % 2 == 0 { parse_class(&buf) } else { parse_class_facts_only(&buf) };
			if let Ok(p) = r {
				assert!(p.consumed <= buf.len());
				oks += 1;
			}
			buf[pos] = old;
		}
		let mut n = 0;
		while n < buf.len() {
			if let Ok(p) = parse_class(&buf[..n]) {
				assert!(p.consumed <= n);
				panic!("truncated class accepted at {n}");
			}
			n += trunc_stride;
		}
		oks
	});
	if let Err(e) = r {
		let msg = e.downcast_ref::<String>().cloned().or_else(|| e.downcast_ref::<&str>().map(|s| s.to_string())).unwrap_or_default();
		errs.push(format!("{id}: PANIC {msg}"));
	}
	errs
}

/// Budgeted version run by default: every compiled corpus class gets up to 2000 mutations, fewer for
/// big classes (about 6 MB of parsed input per class), and truncation at every 7th position or
/// sparser for big classes. The exhaustive version is `parser_never_panics_exhaustive`.
#[test]
fn parser_never_panics() {
	let classes = corpus_classes("default");
	let errors = par_for_each(&classes, |(id, bytes)| {
		let mutations = (6_000_000 / bytes.len().max(1)).clamp(40, 2000);
		let stride = (bytes.len() / 1000).max(7);
		fuzz_class(id, bytes, mutations, stride, 1)
	});
	report(errors);
}

/// As specified: 2000 random single-byte mutations and truncation at every 7th position for every
/// corpus class and every JDK sample class. Takes several minutes; run with
/// `cargo test --offline --release --test corpus -- --ignored parser_never_panics_exhaustive`.
#[test]
#[ignore]
fn parser_never_panics_exhaustive() {
	let classes = corpus_classes("thorough");
	let errors = par_for_each(&classes, |(id, bytes)| fuzz_class(id, bytes, 2000, 7, 2));
	report(errors);
}

#[test]
fn references_and_residual() {
	use cfkit::refs::{references, residual, REF_KINDS};
	let classes = corpus_classes("thorough");
	let seen = Mutex::new(BTreeSet::<&'static str>::new());
	let errors = par_for_each(&classes, |(id, bytes)| {
		let mut errs = Vec::new();
		let facts = parse_class_facts_only(bytes).unwrap().facts;
		let rows = references(&facts);
		let mut kinds = BTreeSet::new();
		for r in &rows {
			if !REF_KINDS.contains(&r.kind) {
				errs.push(format!("{id}: unknown kind {}", r.kind));
			}
			kinds.insert(r.kind);
			if r.owner.is_none() && r.name.is_none() && r.desc.is_none() {
				errs.push(format!("{id}: empty row {} {}", r.kind, r.path));
			}
		}
		if rows.first().map(|r| r.kind) != Some("this") {
			errs.push(format!("{id}: first row is not `this`"));
		}
		let res = residual(&facts);
		// the residual has no references left except blanks
		for r in references(&res) {
			for c in [&r.owner, &r.name, &r.desc].into_iter().flatten() {
				if c != "_" {
					errs.push(format!("{id}: residual still has {c} at {} {}", r.kind, r.path));
				}
			}
		}
		if residual(&res) != res {
			errs.push(format!("{id}: residual not idempotent"));
		}
		// a renaming of all class names (prefixing) changes the references but not the residual
		let renamed: Value = serde_json::from_str(&serde_json::to_string(&facts).unwrap().replace("java/", "jv/").replace("corpus/", "cp/")).unwrap();
		if residual(&renamed) != res {
			// only strings that are not references may differ: string constants mentioning java/ or corpus/
			let a = serde_json::to_string(&residual(&renamed)).unwrap().replace("jv/", "java/").replace("cp/", "corpus/");
			if a != serde_json::to_string(&res).unwrap() {
				errs.push(format!("{id}: residual changed under renaming"));
			}
		}
		seen.lock().unwrap().extend(kinds);
		errs
	});
	let seen = seen.into_inner().unwrap();
	let missing: Vec<&&str> = REF_KINDS.iter().filter(|k| !seen.contains(**k)).collect();
	eprintln!("reference kinds not occurring in the corpus: {missing:?}");
	// bsm_arg_class, ldc_mtype and module_main may legitimately be rare; everything else must occur
	for k in missing {
		assert!(matches!(*k, "ldc_mtype" | "bsm_arg_class" | "module_main"), "kind {k} never occurs");
	}
	report(errors);
}

/// Prints corpus statistics (classes per variant, bytes, opcode / form / attribute / constant kind /
/// frame type / target type coverage): `cargo test --offline --test corpus -- --ignored coverage_report --nocapture`
#[test]
#[ignore]
fn coverage_report() {
	use cfkit::parse::Parsed;
	for tier in ["default", "thorough"] {
		let classes = corpus_classes(tier);
		let mut per_variant = BTreeMap::<String, (usize, usize)>::new();
		let mut opcodes = BTreeSet::<u8>::new();
		let mut attrs = BTreeSet::<String>::new();
		let mut pool_kinds = BTreeSet::<String>::new();
		let mut frame_types = BTreeSet::<&'static str>::new();
		let mut target_types = BTreeSet::<u8>::new();
		let mut element_tags = BTreeSet::<char>::new();
		let mut vt_tags = BTreeSet::<u8>::new();
		let mut handle_kinds = BTreeSet::<u8>::new();
		let mut max_code = 0u64;
		let mut versions = BTreeSet::<u64>::new();
		for (id, bytes) in &classes {
			let v = id.split('/').next().unwrap().to_string();
			let e = per_variant.entry(v).or_default();
			e.0 += 1;
			e.1 += bytes.len();
			let p: Parsed = parse_class(bytes).unwrap();
			versions.insert(p.facts["version"][0].as_u64().unwrap());
			max_code = max_code.max(p.raw["limits"]["max_code_length"].as_u64().unwrap());
			for k in p.raw["pool"].as_array().unwrap() {
				pool_kinds.insert(k.as_str().unwrap().to_owned());
			}
			for s in &p.spans {
				match s.role.as_str() {
					"opcode" => {
						opcodes.insert(bytes[s.off]);
					}
					"frame_type" => {
						frame_types.insert(match bytes[s.off] {
							0..=63 => "same",
							64..=127 => "same_locals_1_stack_item",
							247 => "same_locals_1_stack_item_extended",
							248..=250 => "chop",
							251 => "same_extended",
							252..=254 => "append",
							_ => "full",
						});
					}
					"ta_target_type" => {
						target_types.insert(bytes[s.off]);
					}
					"element_tag" => {
						element_tags.insert(bytes[s.off] as char);
					}
					"vt_tag" => {
						vt_tags.insert(bytes[s.off]);
					}
					"cp_ref_kind" => {
						handle_kinds.insert(bytes[s.off]);
					}
					_ => {}
				}
				if s.role == "attr_name" {
					// the attribute name is in the path of the following spans; take it from the pool instead
				}
			}
			fn collect(v: &Value, out: &mut BTreeSet<String>) {
				match v {
					Value::Object(m) => {
						for (k, x) in m {
							if k == "attrs" {
								if let Value::Object(a) = x {
									for (n, val) in a {
										if n == "unknown" {
											for u in val.as_array().unwrap() {
												out.insert(format!("unknown:{}", u["name"].as_str().unwrap_or("?")));
											}
										} else {
											out.insert(n.clone());
										}
									}
								}
							}
							collect(x, out);
						}
					}
					Value::Array(a) => a.iter().for_each(|x| collect(x, out)),
					_ => {}
				}
			}
			collect(&p.facts, &mut attrs);
			if p.raw["pool"].as_array().unwrap().iter().any(|k| k == "Dynamic" || k == "InvokeDynamic") {
				attrs.insert("BootstrapMethods".into());
			}
		}
		eprintln!("==== tier {tier}: {} classes, {} bytes", classes.len(), classes.iter().map(|c| c.1.len()).sum::<usize>());
		eprintln!("per variant (classes, bytes): {per_variant:?}");
		eprintln!("major versions: {versions:?}; largest code_length: {max_code}");
		let missing: Vec<String> = (0u8..=0xc9).filter(|o| !opcodes.contains(o)).map(|o| format!("{:#04x} {}", o, cfkit::opcodes::lookup(o).name)).collect();
		eprintln!("opcode bytes never occurring ({}): {missing:?}", missing.len());
		let all_attrs = ["ConstantValue", "Code", "StackMapTable", "Exceptions", "InnerClasses", "EnclosingMethod", "Synthetic", "Signature", "SourceFile",
			"SourceDebugExtension", "LineNumberTable", "LocalVariableTable", "LocalVariableTypeTable", "Deprecated", "RuntimeVisibleAnnotations",
			"RuntimeInvisibleAnnotations", "RuntimeVisibleParameterAnnotations", "RuntimeInvisibleParameterAnnotations", "RuntimeVisibleTypeAnnotations",
			"RuntimeInvisibleTypeAnnotations", "AnnotationDefault", "BootstrapMethods", "MethodParameters", "Module", "ModulePackages", "ModuleMainClass",
			"NestHost", "NestMembers", "Record", "PermittedSubclasses"];
		let missing: Vec<&&str> = all_attrs.iter().filter(|a| !attrs.contains(**a)).collect();
		eprintln!("JVMS attributes never occurring: {missing:?}");
		eprintln!("other keys seen in attrs: {:?}", attrs.iter().filter(|a| !all_attrs.contains(&a.as_str())).collect::<Vec<_>>());
		eprintln!("pool kinds: {pool_kinds:?}");
		eprintln!("frame kinds: {frame_types:?}");
		eprintln!("verification type tags: {vt_tags:?}; method handle kinds: {handle_kinds:?}");
		eprintln!("type annotation target types: {:?}", target_types.iter().map(|t| format!("{t:#04x}")).collect::<Vec<_>>());
		eprintln!("element value tags: {element_tags:?}");
	}
}
