// included into parse.rs: the Code attribute

struct RawInsn {
	off: usize,
	form: &'static str,
	v: Map<String, Value>,
	/// absolute byte targets: branch -> [t]; switches -> [default, t0, t1, ...]
	targets: Vec<i64>,
	keys: Vec<i32>,
	is_table: bool,
	/// file offset of the instruction (for error messages)
	at: usize,
}

impl<'a> P<'a> {
	fn code(&mut self, m: &MethodCtx) -> PResult<Value> {
		let max_stack = self.u2("code_max_stack", "value")?;
		let max_locals = self.u2("code_max_locals", "value")?;
		let len_at = self.pos;
		let code_len = self.u4("code_len", "length")? as usize;
		if code_len == 0 || code_len > 65535 {
			return err(len_at, format!("{}: code_length {code_len} not in 1..=65535", self.path));
		}
		self.max_code_len = self.max_code_len.max(code_len);
		let code_start = self.pos;
		let code_end = match code_start.checked_add(code_len) {
			Some(e) if e <= self.limit => e,
			_ => return err(len_at, format!("{}: code_length {code_len} reaches beyond the attribute", self.path)),
		};
		// path "method[i].attr[j]:Code" -> instruction paths "method[i].Code.insn[k]"
		let attr_path = self.path.clone();
		let base = match attr_path.rfind(".attr[") {
			Some(p) => format!("{}.Code", &attr_path[..p]),
			None => "Code".to_string(),
		};
		let old_limit = self.limit;
		self.limit = code_end;
		let r = self.instructions(code_start, code_len, &base);
		self.limit = old_limit;
		self.path = attr_path.clone();
		let mut raw = r?;
		if self.pos != code_end {
			return err(self.pos, "internal: code not consumed");
		}
		self.lengths.push(json!([code_len, self.pos - code_start, format!("{base}.code")]));

		let mut idx_of = vec![u32::MAX; code_len + 1];
		for (i, r) in raw.iter().enumerate() {
			if let Some(s) = idx_of.get_mut(r.off) {
				*s = i as u32;
			}
		}
		idx_of[code_len] = raw.len() as u32;
		let initial_locals = facts::initial_locals(&self.this_name, m.access as u64, &m.name, &m.desc).unwrap_or_default();
		let cctx = CodeCtx { code_len, idx_of, initial_locals };

		// resolve targets
		let mut insns = Vec::with_capacity(raw.len());
		let mut offsets = Vec::with_capacity(raw.len());
		let mut forms = Vec::with_capacity(raw.len());
		let mut pads = Map::new();
		for (i, r) in raw.iter_mut().enumerate() {
			offsets.push(json!(r.off));
			forms.push(json!(r.form));
			if let Some(p) = r.v.remove("_pad") {
				pads.insert(i.to_string(), p);
			}
			if !r.targets.is_empty() {
				if r.targets.iter().any(|t| *t < 0 || *t >= code_len as i64 || cctx.idx_of.get(*t as usize).map_or(true, |x| *x == u32::MAX)) {
					self.path = format!("{base}.insn[{i}]");
				}
				let mut idx = Vec::with_capacity(r.targets.len());
				for t in &r.targets {
					idx.push(self.pc_idx(&cctx, *t, false, r.at, "jump target")?);
				}
				if r.v.get("op").and_then(Value::as_str) == Some("tableswitch") || r.is_table {
					r.v.insert("default".into(), json!(idx[0]));
					r.v.insert("targets".into(), json!(&idx[1..]));
				} else if r.v.get("op").and_then(Value::as_str) == Some("lookupswitch") {
					r.v.insert("default".into(), json!(idx[0]));
					let pairs: Vec<Value> = r.keys.iter().zip(idx[1..].iter()).map(|(k, t)| json!([k, t])).collect();
					r.v.insert("pairs".into(), Value::Array(pairs));
				} else {
					r.v.insert("target".into(), json!(idx[0]));
				}
			}
			insns.push(Value::Object(std::mem::take(&mut r.v)));
		}

		// exception table
		let n = self.u2("exc_count", "count")?;
		let mut exc = Vec::new();
		for i in 0..n {
			let saved = self.path.clone();
			self.path = format!("{base}.exc[{i}]");
			let r = (|| {
				let at = self.pos;
				let s = self.u2("exc_start_pc", "pc")?;
				let e = self.u2("exc_end_pc", "pc")?;
				let h = self.u2("exc_handler_pc", "pc")?;
				let c = self.cp_opt("exc_catch_type:cp:Class", &["Class"])?;
				if s >= e {
					return err(at, format!("{}: start_pc {s} >= end_pc {e}", self.path));
				}
				let mut row = Map::new();
				row.insert("start".into(), json!(self.pc_idx(&cctx, s as i64, false, at, "start_pc")?));
				row.insert("end".into(), json!(self.pc_idx(&cctx, e as i64, true, at, "end_pc")?));
				row.insert("handler".into(), json!(self.pc_idx(&cctx, h as i64, false, at, "handler_pc")?));
				if c != 0 {
					row.insert("catch".into(), self.class_name(c)?);
				}
				Ok(Value::Object(row))
			})();
			self.path = saved;
			exc.push(r?);
		}

		let saved = self.path.clone();
		self.path = base.clone();
		let attrs = self.attributes(Level::Code, Some(m), Some(&cctx));
		self.path = saved;
		let attrs = attrs?;

		if self.layout_method != self.cur_method {
			self.layout_method = self.cur_method;
			self.layout.push(jobj!({
				"method": self.cur_method, "offsets": offsets, "forms": forms, "code_length": code_len, "switch_pad": pads,
			}));
		}
		Ok(jobj!({
			"max_stack": max_stack, "max_locals": max_locals, "insns": insns, "exceptions": exc, "attrs": attrs,
		}))
	}

	fn instructions(&mut self, code_start: usize, code_len: usize, base: &str) -> PResult<Vec<RawInsn>> {
		let mut out: Vec<RawInsn> = Vec::new();
		let code_end = code_start + code_len;
		self.path = format!("{base}.insn[");
		let base_len = self.path.len();
		while self.pos < code_end {
			let at = self.pos;
			let off = at - code_start;
			{
				use std::fmt::Write;
				self.path.truncate(base_len);
				let _ = write!(self.path, "{}]", out.len());
			}
			let opc = self.u1("opcode", "tag")?;
			let mut op = opcodes::lookup(opc);
			let mut v = Map::new();
			let mut form: &'static str = "plain";
			let mut targets = Vec::new();
			let mut keys = Vec::new();
			let mut wide = false;
			if op.kind == OpKind::Wide {
				let o2 = self.u1("opcode", "tag")?;
				op = opcodes::lookup(o2);
				match op.kind {
					OpKind::Var | OpKind::Iinc => {}
					_ => return err(at, format!("{}: wide prefix before opcode {o2:#04x}", self.path)),
				}
				wide = true;
				form = "wide";
			}
			v.insert("op".into(), json!(op.name));
			match op.kind {
				OpKind::NoOperand => {}
				OpKind::BiPush => {
					v.insert("value".into(), json!(self.u1("insn_operand:byte", "value")? as i8));
				}
				OpKind::SiPush => {
					v.insert("value".into(), json!(self.u2("insn_operand:short", "value")? as i16));
				}
				OpKind::Ldc | OpKind::LdcW | OpKind::Ldc2W => {
					let (idx, iat) = if op.kind == OpKind::Ldc {
						form = "short";
						let iat = self.pos;
						let i = self.u1("insn_operand:cp:Loadable1", "cp_index")? as u16;
						(i, iat)
					} else {
						form = "w";
						let iat = self.pos;
						let role = if op.kind == OpKind::LdcW { "insn_operand:cp:Loadable1" } else { "insn_operand:cp:Loadable2" };
						(self.u2(role, "cp_index")?, iat)
					};
					let cat2 = op.kind == OpKind::Ldc2W;
					let exp = if cat2 { LOADABLE2 } else { LOADABLE1 };
					self.record_use(idx, exp);
					self.check_kind(idx, exp, iat, "ldc")?;
					if (self.category(idx) == 2) != cat2 {
						return err(iat, format!("{}: constant #{idx} has the wrong category for this ldc variant", self.path));
					}
					v.insert("const".into(), self.loadable(idx)?);
				}
				OpKind::Var => {
					let n = if wide { self.u2("insn_operand:local", "value")? } else { self.u1("insn_operand:local", "value")? as u16 };
					v.insert("var".into(), json!(n));
				}
				OpKind::VarShort(n) => {
					form = "short";
					v.insert("var".into(), json!(n));
				}
				OpKind::Iinc => {
					if wide {
						v.insert("var".into(), json!(self.u2("insn_operand:local", "value")?));
						v.insert("by".into(), json!(self.u2("insn_operand:short", "value")? as i16));
					} else {
						v.insert("var".into(), json!(self.u1("insn_operand:local", "value")?));
						v.insert("by".into(), json!(self.u1("insn_operand:byte", "value")? as i8));
					}
				}
				OpKind::Branch => {
					let rel = self.u2("branch_offset", "branch")? as i16;
					targets.push(off as i64 + rel as i64);
					if op.name == "goto" || op.name == "jsr" {
						form = "short";
					}
				}
				OpKind::BranchW => {
					let rel = self.u4("branch_offset", "branch")? as i32;
					targets.push(off as i64 + rel as i64);
					form = "w";
				}
				OpKind::TableSwitch | OpKind::LookupSwitch => {
					let pad = (4 - ((off + 1) % 4)) % 4;
					let pb = self.take(pad, "switch_pad", "bytes")?;
					v.insert("_pad".into(), json!(pb));
					let d = self.u4("switch_default", "branch")? as i32;
					targets.push(off as i64 + d as i64);
					if op.kind == OpKind::TableSwitch {
						let lat = self.pos;
						let low = self.u4("switch_low", "value")? as i32;
						let high = self.u4("switch_high", "value")? as i32;
						if low > high {
							return err(lat, format!("{}: tableswitch low {low} > high {high}", self.path));
						}
						let n = (high as i64 - low as i64 + 1) as usize;
						if n > (self.limit.saturating_sub(self.pos)) / 4 {
							return err(lat, format!("{}: tableswitch with {n} entries runs over the end of the code", self.path));
						}
						v.insert("low".into(), json!(low));
						for _ in 0..n {
							let r = self.u4("switch_offset", "branch")? as i32;
							targets.push(off as i64 + r as i64);
						}
					} else {
						let nat = self.pos;
						let np = self.u4("switch_npairs", "count")? as i32;
						if np < 0 {
							return err(nat, format!("{}: lookupswitch npairs {np} negative", self.path));
						}
						if np as usize > (self.limit.saturating_sub(self.pos)) / 8 {
							return err(nat, format!("{}: lookupswitch with {np} pairs runs over the end of the code", self.path));
						}
						for _ in 0..np {
							let kat = self.pos;
							let k = self.u4("switch_key", "value")? as i32;
							if let Some(&last) = keys.last() {
								if k <= last {
									return err(kat, format!("{}: lookupswitch keys not strictly increasing", self.path));
								}
							}
							keys.push(k);
							let r = self.u4("switch_offset", "branch")? as i32;
							targets.push(off as i64 + r as i64);
						}
						if np == 0 {
							// no pairs: still emit the (empty) list
						}
					}
				}
				OpKind::Field => {
					let i = self.cp("insn_operand:cp:Fieldref", &["Fieldref"])?;
					let (o, n, d, _) = self.member_ref(i)?;
					v.insert("owner".into(), o);
					v.insert("name".into(), n);
					v.insert("desc".into(), d);
				}
				OpKind::InvokeVirtual | OpKind::InvokeSpecialStatic | OpKind::InvokeInterface => {
					let (role, exp): (&str, &[&str]) = match op.kind {
						OpKind::InvokeVirtual => ("insn_operand:cp:Methodref", &["Methodref"]),
						OpKind::InvokeSpecialStatic => ("insn_operand:cp:Methodref|InterfaceMethodref", &["Methodref", "InterfaceMethodref"]),
						_ => ("insn_operand:cp:InterfaceMethodref", &["InterfaceMethodref"]),
					};
					let i = self.cp(role, exp)?;
					let (o, n, d, itf) = self.member_ref(i)?;
					if op.kind == OpKind::InvokeInterface {
						let cat = self.pos;
						let count = self.u1("insn_operand:count", "value")?;
						let zero = self.u1("insn_operand:zero", "value")?;
						let slots = facts::s_to_units(&d).ok().and_then(|u| facts::method_arg_slots(&u));
						if slots.map(|s| s + 1) != Some(count as u32) {
							return err(cat, format!("{}: invokeinterface count {count} does not match the descriptor", self.path));
						}
						if zero != 0 {
							return err(cat + 1, format!("{}: invokeinterface fourth operand byte is {zero}", self.path));
						}
					} else {
						v.insert("itf".into(), json!(itf));
					}
					v.insert("owner".into(), o);
					v.insert("name".into(), n);
					v.insert("desc".into(), d);
				}
				OpKind::InvokeDynamic => {
					let i = self.cp("insn_operand:cp:InvokeDynamic", &["InvokeDynamic"])?;
					let zat = self.pos;
					let z = self.u2("insn_operand:zero", "value")?;
					if z != 0 {
						return err(zat, format!("{}: invokedynamic operand bytes 3 and 4 must be 0", self.path));
					}
					self.spend()?;
					v.insert("indy".into(), self.dynamic(i)?);
				}
				OpKind::Class => {
					v.insert("class".into(), self.cp_class("insn_operand:cp:Class")?);
				}
				OpKind::NewArray => {
					let tat = self.pos;
					let t = self.u1("insn_operand:atype", "tag")?;
					match opcodes::ATYPES.iter().find(|(c, _)| *c == t) {
						Some((_, n)) => {
							v.insert("type".into(), json!(n));
						}
						None => return err(tat, format!("{}: newarray atype {t} undefined", self.path)),
					}
				}
				OpKind::MultiANewArray => {
					v.insert("class".into(), self.cp_class("insn_operand:cp:Class")?);
					let dat = self.pos;
					let d = self.u1("insn_operand:dims", "value")?;
					if d == 0 {
						return err(dat, format!("{}: multianewarray with 0 dimensions", self.path));
					}
					v.insert("dims".into(), json!(d));
				}
				OpKind::Wide => return err(at, format!("{}: wide wide", self.path)),
				OpKind::Invalid => return err(at, format!("{}: invalid opcode {opc:#04x}", self.path)),
			}
			let is_table = op.kind == OpKind::TableSwitch;
			out.push(RawInsn { off, form, v, targets, keys, is_table, at });
		}
		Ok(out)
	}

	fn verification_type(&mut self, c: &CodeCtx) -> PResult<Value> {
		let at = self.pos;
		let tag = self.u1("vt_tag", "tag")?;
		Ok(match tag {
			0 => json!("top"),
			1 => json!("int"),
			2 => json!("float"),
			3 => json!("double"),
			4 => json!("long"),
			5 => json!("null"),
			6 => json!("uninitialized_this"),
			7 => jobj!({"object": self.cp_class("vt_object:cp:Class")?}),
			8 => {
				let oat = self.pos;
				let pc = self.u2("vt_uninit_offset", "pc")?;
				jobj!({"uninitialized": self.pc_idx(c, pc as i64, false, oat, "Uninitialized_variable_info offset")?})
			}
			t => return err(at, format!("{}: undefined verification_type_info tag {t}", self.path)),
		})
	}

	fn stack_map_table(&mut self, c: &CodeCtx) -> PResult<Value> {
		let n = self.u2("smt_count", "count")?;
		let mut st = FrameState::new(c.initial_locals.clone());
		let mut frames = Vec::new();
		let mut pc: i64 = -1;
		for i in 0..n {
			let f = self.with_path(&format!("frame[{i}]"), |p| {
				let at = p.pos;
				let ft = p.u1("frame_type", "tag")?;
				let delta: i64;
				let (locals, stack) = match ft {
					0..=63 => {
						delta = ft as i64;
						st.same()
					}
					64..=127 => {
						delta = ft as i64 - 64;
						let vt = p.verification_type(c)?;
						st.same_locals_1(vt)
					}
					247 => {
						delta = p.u2("frame_offset_delta", "pc")? as i64;
						let vt = p.verification_type(c)?;
						st.same_locals_1(vt)
					}
					248..=250 => {
						delta = p.u2("frame_offset_delta", "pc")? as i64;
						match st.chop(251 - ft as usize) {
							Ok(r) => r,
							Err(m) => return err(at, format!("{}: {m}", p.path)),
						}
					}
					251 => {
						delta = p.u2("frame_offset_delta", "pc")? as i64;
						st.same()
					}
					252..=254 => {
						delta = p.u2("frame_offset_delta", "pc")? as i64;
						let mut more = Vec::new();
						for _ in 0..(ft - 251) {
							more.push(p.verification_type(c)?);
						}
						st.append(more)
					}
					255 => {
						delta = p.u2("frame_offset_delta", "pc")? as i64;
						let nl = p.u2("frame_num_locals", "count")?;
						let mut l = Vec::new();
						for _ in 0..nl {
							l.push(p.verification_type(c)?);
						}
						let ns = p.u2("frame_num_stack", "count")?;
						let mut s = Vec::new();
						for _ in 0..ns {
							s.push(p.verification_type(c)?);
						}
						st.full(l, s)
					}
					t => return err(at, format!("{}: reserved frame_type {t}", p.path)),
				};
				pc = pc + delta + 1;
				let idx = p.pc_idx(c, pc, false, at, "stack map frame offset")?;
				Ok(jobj!({"at": idx, "locals": locals, "stack": stack}))
			})?;
			frames.push(f);
		}
		Ok(Value::Array(frames))
	}
}
