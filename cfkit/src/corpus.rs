//! Access to the vendored class corpus in `/verif/corpus` (located relative to this crate).

use std::io::Read;
use std::path::{Path, PathBuf};

pub fn corpus_dir() -> PathBuf {
	Path::new(env!("CARGO_MANIFEST_DIR")).join("..").join("corpus")
}

fn walk(dir: &Path, out: &mut Vec<PathBuf>) {
	let mut entries: Vec<PathBuf> = match std::fs::read_dir(dir) {
		Ok(r) => r.filter_map(|e| e.ok()).map(|e| e.path()).collect(),
		Err(_) => return,
	};
	entries.sort();
	for e in entries {
		if e.is_dir() {
			walk(&e, out);
		} else if e.extension().map_or(false, |x| x == "class") {
			out.push(e);
		}
	}
}

/// The compiled corpus classes: id = path relative to `corpus/classes` (e.g. `17-g/corpus/Arith.class`).
pub fn compiled_classes() -> Vec<(String, Vec<u8>)> {
	let root = corpus_dir().join("classes");
	let mut files = Vec::new();
	walk(&root, &mut files);
	let mut out = Vec::new();
	for f in files {
		if let Ok(bytes) = std::fs::read(&f) {
			let id = f.strip_prefix(&root).unwrap_or(&f).to_string_lossy().replace('\\', "/");
			out.push((id, bytes));
		}
	}
	out
}

/// The JDK sample: id = `jdk/<entry name>`.
pub fn jdk_sample() -> Vec<(String, Vec<u8>)> {
	let path = corpus_dir().join("jdk-sample.zip");
	let mut out = Vec::new();
	let file = match std::fs::File::open(&path) {
		Ok(f) => f,
		Err(_) => return out,
	};
	let mut zip = match zip::ZipArchive::new(file) {
		Ok(z) => z,
		Err(_) => return out,
	};
	for i in 0..zip.len() {
		if let Ok(mut e) = zip.by_index(i) {
			let name = e.name().to_owned();
			if !name.ends_with(".class") {
				continue;
			}
			let mut bytes = Vec::new();
			if e.read_to_end(&mut bytes).is_ok() {
				out.push((format!("jdk/{name}"), bytes));
			}
		}
	}
	out.sort_by(|a, b| a.0.cmp(&b.0));
	out
}

/// Tier `"thorough"`: compiled corpus + JDK sample; any other tier (`"quick"`, `"default"`): the
/// compiled corpus only. Sorted by id.
pub fn corpus_classes(tier: &str) -> Vec<(String, Vec<u8>)> {
	let mut v = compiled_classes();
	if tier == "thorough" {
		v.extend(jdk_sample());
	}
	v
}
