// included into parse.rs: top-level structure, constant pool

impl<'a> P<'a> {
	fn class_file(&mut self) -> PResult<Parsed> {
		self.path = "class".into();
		let magic = self.u4("magic", "magic")?;
		if magic != 0xCAFEBABE {
			return err(0, format!("bad magic {magic:#010x}"));
		}
		let minor = self.u2("minor_version", "version")?;
		let major = self.u2("major_version", "version")?;
		self.read_pool()?;
		self.validate_pool()?;

		// find and parse BootstrapMethods first: constants can only be valued with it
		let after_pool = self.pos;
		let spans_before = self.spans.len();
		self.skim_for_bootstrap_methods()?;
		let bsm_spans: Vec<Span> = self.spans.split_off(spans_before);
		self.pos = after_pool;
		self.validate_dynamic_entries()?;

		self.path = "class".into();
		let access = self.u2("access_flags", "flags")?;
		let this_name = self.cp_class("this_class")?;
		self.this_name = this_name.clone();
		let sup = self.cp_opt("super_class", &["Class"])?;
		let super_name = if sup == 0 { None } else { Some(self.class_name(sup)?) };
		let n_itf = self.u2("interfaces_count", "count")?;
		let mut interfaces = Vec::new();
		for i in 0..n_itf {
			let v = self.with_path(&format!("interfaces[{i}]"), |p| p.cp_class("interface"))?;
			interfaces.push(v);
		}
		self.path.clear();
		let n_fields = self.u2("fields_count", "count")?;
		let mut fields = Vec::new();
		for i in 0..n_fields {
			let f = self.with_path(&format!("field[{i}]"), |p| p.member(false))?;
			fields.push(f);
		}
		let n_methods = self.u2("methods_count", "count")?;
		let mut methods = Vec::new();
		for i in 0..n_methods {
			self.cur_method = Some(i as usize);
			let m = self.with_path(&format!("method[{i}]"), |p| p.member(true))?;
			methods.push(m);
		}
		let mut attrs = self.attributes(Level::Class, None, None)?;
		let consumed = self.pos;

		// bootstrap methods that the facts do not reach
		if self.has_bsm_attr {
			let main_marks = self.bsm_mark.clone();
			let n = self.bsm.len();
			let referenced = main_marks.iter().filter(|m| **m).count();
			let mut touched_by_unref = vec![false; n];
			let mut vals: Vec<Option<Value>> = vec![None; n];
			for i in 0..n {
				if main_marks[i] {
					continue;
				}
				self.bsm_mark = vec![false; n];
				let (h, args) = self.bsm[i].clone();
				let bsm = self.handle(h)?;
				let mut av = Vec::new();
				for a in args {
					av.push(self.loadable(a)?);
				}
				vals[i] = Some(jobj!({"bsm": bsm, "args": av}));
				for (j, m) in self.bsm_mark.iter().enumerate() {
					if *m {
						touched_by_unref[j] = true;
					}
				}
			}
			let mut roots = Vec::new();
			for i in 0..n {
				if !main_marks[i] && !touched_by_unref[i] {
					if let Some(v) = vals[i].take() {
						roots.push(v);
					}
				}
			}
			self.bsm_mark = main_marks;
			if !roots.is_empty() || referenced == 0 {
				attrs.insert("unreferenced_bootstrap".into(), Value::Array(roots));
			}
		}

		// merge the spans of the BootstrapMethods body at their place (file order)
		if !bsm_spans.is_empty() {
			let first = bsm_spans[0].off;
			let at = self.spans.partition_point(|s| s.off < first);
			let tail = self.spans.split_off(at);
			self.spans.extend(bsm_spans);
			self.spans.extend(tail);
		}

		let mut facts = Map::new();
		facts.insert("version".into(), json!([major, minor]));
		facts.insert("access".into(), json!(access));
		facts.insert("this".into(), this_name);
		if let Some(s) = super_name {
			facts.insert("super".into(), s);
		}
		facts.insert("interfaces".into(), Value::Array(interfaces));
		facts.insert("fields".into(), Value::Array(fields));
		facts.insert("methods".into(), Value::Array(methods));
		facts.insert("attrs".into(), Value::Object(attrs));

		let pool_kinds: Vec<Value> = self.pool.iter().map(|e| json!(e.kind())).collect();
		let raw = jobj!({
			"pool": pool_kinds,
			"uses": std::mem::take(&mut self.uses),
			"lengths": std::mem::take(&mut self.lengths),
			"limits": jobj!({
				"major": major, "minor": minor, "cp_count": self.pool.len(), "fields": n_fields, "methods": n_methods,
				"interfaces": n_itf, "max_code_length": self.max_code_len, "max_attr_len": self.max_attr_len,
				"file_len": self.b.len(), "consumed": consumed
			}),
		});
		Ok(Parsed {
			facts: Value::Object(facts),
			layout: Value::Array(std::mem::take(&mut self.layout)),
			spans: std::mem::take(&mut self.spans),
			raw,
			consumed,
		})
	}

	fn read_pool(&mut self) -> PResult<()> {
		self.path = "class".into();
		let count = self.u2("cp_count", "count")?;
		if count == 0 {
			return err(self.pos - 2, "constant_pool_count is 0");
		}
		self.pool = Vec::with_capacity(count as usize);
		self.pool.push(E::None);
		let mut i = 1usize;
		while i < count as usize {
			{
				use std::fmt::Write;
				self.path.clear();
				let _ = write!(self.path, "cp[{i}]");
			}
			let at = self.pos;
			let tag = self.u1("cp_tag", "tag")?;
			let mut two = false;
			let e = match tag {
				1 => {
					let len = self.u2("cp_utf8_len", "length")? as usize;
					let start = self.pos;
					let bytes = self.take(len, "cp_utf8_bytes", "bytes")?;
					self.lengths.push(json!([len, bytes.len(), self.path.clone()]));
					match facts::decode_mutf8(bytes) {
						Ok(u) => E::Utf8(u),
						Err(m) => return err(start, format!("constant #{i}: malformed modified UTF-8: {m}")),
					}
				}
				3 => E::Int(self.u4("cp_value", "value")? as i32),
				4 => E::Float(self.u4("cp_value", "value")?),
				5 | 6 => {
					let hi = self.u4("cp_value", "value")? as u64;
					let lo = self.u4("cp_value", "value")? as u64;
					// merge the two spans into one 8 byte span
					self.spans.pop();
					if let Some(s) = self.spans.last_mut() {
						s.len = 8;
					}
					two = true;
					let v = (hi << 32) | lo;
					if tag == 5 {
						E::Long(v as i64)
					} else {
						E::Double(v)
					}
				}
				7 => E::Class(self.u2("cp_index:Class.name", "cp_index")?),
				8 => E::Str(self.u2("cp_index:String.string", "cp_index")?),
				9 => E::Field(self.u2("cp_index:Fieldref.class", "cp_index")?, self.u2("cp_index:Fieldref.name_and_type", "cp_index")?),
				10 => E::Method(self.u2("cp_index:Methodref.class", "cp_index")?, self.u2("cp_index:Methodref.name_and_type", "cp_index")?),
				11 => E::IMethod(
					self.u2("cp_index:InterfaceMethodref.class", "cp_index")?,
					self.u2("cp_index:InterfaceMethodref.name_and_type", "cp_index")?,
				),
				12 => E::Nat(self.u2("cp_index:NameAndType.name", "cp_index")?, self.u2("cp_index:NameAndType.descriptor", "cp_index")?),
				15 => {
					let k = self.u1("cp_ref_kind", "tag")?;
					E::Handle(k, self.u2("cp_index:MethodHandle.reference", "cp_index")?)
				}
				16 => E::MType(self.u2("cp_index:MethodType.descriptor", "cp_index")?),
				17 => E::Dyn(self.u2("cp_bsm_index", "bsm_index")?, self.u2("cp_index:Dynamic.name_and_type", "cp_index")?),
				18 => E::Indy(self.u2("cp_bsm_index", "bsm_index")?, self.u2("cp_index:InvokeDynamic.name_and_type", "cp_index")?),
				19 => E::Module(self.u2("cp_index:Module.name", "cp_index")?),
				20 => E::Package(self.u2("cp_index:Package.name", "cp_index")?),
				t => return err(at, format!("constant #{i}: undefined constant pool tag {t}")),
			};
			self.pool.push(e);
			i += 1;
			if two {
				if i >= count as usize {
					return err(at, format!("constant #{}: Long/Double in the last slot of the constant pool", i - 1));
				}
				self.pool.push(E::None);
				i += 1;
			}
		}
		Ok(())
	}

	/// Validates every index field inside the pool (used or not), and descriptors.
	fn validate_pool(&mut self) -> PResult<()> {
		let at = 10usize; // errors inside the pool are reported at the pool start
		let n = self.pool.len();
		// how each NameAndType is used: bit 0 as field, bit 1 as method
		let mut nat_use = vec![0u8; n];
		for i in 1..n {
			if !self.light {
				use std::fmt::Write;
				self.path.clear();
				let _ = write!(self.path, "cp[{i}]");
			}
			let e = match &self.pool[i] {
				E::Utf8(_) | E::None | E::Int(_) | E::Float(_) | E::Long(_) | E::Double(_) => continue,
				other => other.clone(),
			};
			let chk = |p: &mut Self, idx: u16, exp: &[&str]| -> PResult<()> {
				p.record_use(idx, exp);
				match p.check_kind(idx, exp, at, "constant") {
					Ok(()) => Ok(()),
					Err(mut e) => {
						e.msg = format!("constant #{i}: {}", e.msg);
						Err(e)
					}
				}
			};
			match e {
				E::Class(x) | E::Str(x) | E::Module(x) | E::Package(x) => chk(self, x, &["Utf8"])?,
				E::MType(x) => {
					chk(self, x, &["Utf8"])?;
					if !facts::is_method_descriptor(self.utf8_units(x)?) {
						return err(at, format!("constant #{i}: MethodType with malformed method descriptor"));
					}
				}
				E::Field(c, t) => {
					chk(self, c, &["Class"])?;
					chk(self, t, &["NameAndType"])?;
					nat_use[t as usize] |= 1;
				}
				E::Method(c, t) | E::IMethod(c, t) => {
					chk(self, c, &["Class"])?;
					chk(self, t, &["NameAndType"])?;
					nat_use[t as usize] |= 2;
				}
				E::Nat(a, b) => {
					chk(self, a, &["Utf8"])?;
					chk(self, b, &["Utf8"])?;
				}
				E::Handle(k, r) => {
					let exp: &[&str] = match k {
						1..=4 => &["Fieldref"],
						5 | 8 => &["Methodref"],
						6 | 7 => &["Methodref", "InterfaceMethodref"],
						9 => &["InterfaceMethodref"],
						_ => return err(at, format!("constant #{i}: MethodHandle reference_kind {k} not in 1..=9")),
					};
					chk(self, r, exp)?;
				}
				E::Dyn(_, t) => {
					chk(self, t, &["NameAndType"])?;
					nat_use[t as usize] |= 1;
				}
				E::Indy(_, t) => {
					chk(self, t, &["NameAndType"])?;
					nat_use[t as usize] |= 2;
				}
				_ => {}
			}
		}
		for i in 1..n {
			if let E::Nat(_, d) = self.pool[i] {
				let du = self.utf8_units(d)?;
				let f = facts::is_field_descriptor(du);
				let m = facts::is_method_descriptor(du);
				let ok = match nat_use[i] {
					0 => f || m,
					1 => f,
					2 => m,
					_ => false,
				};
				if !ok {
					return err(at, format!("constant #{i}: NameAndType descriptor is malformed for its use"));
				}
			}
		}
		Ok(())
	}

	/// After BootstrapMethods is known: every Dynamic / InvokeDynamic must index into it.
	fn validate_dynamic_entries(&mut self) -> PResult<()> {
		for i in 1..self.pool.len() {
			if let E::Dyn(b, _) | E::Indy(b, _) = self.pool[i] {
				if b as usize >= self.bsm.len() {
					return err(10, format!("constant #{i}: bootstrap_method_attr_index {b} but BootstrapMethods has {} entries", self.bsm.len()));
				}
			}
		}
		Ok(())
	}

	/// Skips over fields and methods using attribute_length, then parses the class-level
	/// BootstrapMethods attribute (if any) into `self.bsm`. Leaves `pos` anywhere.
	fn skim_for_bootstrap_methods(&mut self) -> PResult<()> {
		let skip = |p: &mut Self, n: usize| -> PResult<()> {
			match p.pos.checked_add(n) {
				Some(e) if e <= p.b.len() => {
					p.pos = e;
					Ok(())
				}
				_ => err(p.pos, "unexpected end of input"),
			}
		};
		let rd2 = |p: &mut Self| -> PResult<u16> {
			let s = p.b.get(p.pos..p.pos.wrapping_add(2)).ok_or(ParseError { offset: p.pos, msg: "unexpected end of input".into() })?;
			p.pos += 2;
			Ok(((s[0] as u16) << 8) | s[1] as u16)
		};
		let rd4 = |p: &mut Self| -> PResult<u32> {
			let hi = rd2(p)? as u32;
			let lo = rd2(p)? as u32;
			Ok((hi << 16) | lo)
		};
		skip(self, 6)?;
		let n_itf = rd2(self)? as usize;
		skip(self, n_itf * 2)?;
		for _ in 0..2 {
			let n = rd2(self)?;
			for _ in 0..n {
				skip(self, 6)?;
				let na = rd2(self)?;
				for _ in 0..na {
					skip(self, 2)?;
					let len = rd4(self)? as usize;
					skip(self, len)?;
				}
			}
		}
		let na = rd2(self)?;
		for ai in 0..na {
			let name = rd2(self)?;
			let len = rd4(self)? as usize;
			let is_bsm = match self.pool.get(name as usize) {
				Some(E::Utf8(u)) => u.iter().copied().eq("BootstrapMethods".encode_utf16()),
				_ => false,
			};
			if is_bsm {
				if self.has_bsm_attr {
					return err(self.pos, "two BootstrapMethods attributes");
				}
				self.has_bsm_attr = true;
				let start = self.pos;
				let end = match start.checked_add(len) {
					Some(e) if e <= self.b.len() => e,
					_ => return err(self.pos, "BootstrapMethods attribute runs over the end of input"),
				};
				self.bsm_body = Some((start, end));
				self.limit = end;
				self.path = format!("attr[{ai}]:BootstrapMethods");
				let r = self.bootstrap_methods_body();
				self.limit = self.b.len();
				r?;
				if self.pos != end {
					return err(self.pos, format!("BootstrapMethods: attribute_length {len} but body occupies {} bytes", self.pos - start));
				}
				self.path.clear();
			} else {
				skip(self, len)?;
			}
		}
		self.bsm_mark = vec![false; self.bsm.len()];
		Ok(())
	}

	fn bootstrap_methods_body(&mut self) -> PResult<()> {
		let n = self.u2("bsm_count", "count")?;
		for i in 0..n {
			self.with_path(&format!("entry[{i}]"), |p| {
				let h = p.cp("bsm_method_ref:cp:MethodHandle", &["MethodHandle"])?;
				let na = p.u2("bsm_num_args", "count")?;
				let mut args = Vec::with_capacity(na as usize);
				for _ in 0..na {
					args.push(p.cp("bsm_arg:cp:Loadable", LOADABLE)?);
				}
				p.bsm.push((h, args));
				Ok(())
			})?;
		}
		Ok(())
	}

	fn member(&mut self, is_method: bool) -> PResult<Value> {
		let access = self.u2("member_access", "flags")?;
		let name_at = self.pos;
		let name_i = self.cp("member_name", &["Utf8"])?;
		let desc_i = self.cp("member_desc", &["Utf8"])?;
		let name = self.utf8(name_i)?;
		let desc = self.utf8(desc_i)?;
		let du = self.utf8_units(desc_i)?;
		if is_method {
			match facts::method_arg_slots(du) {
				Some(n) if n + if access & 0x0008 == 0 { 1 } else { 0 } <= 255 => {}
				Some(_) => return err(name_at, format!("{}: method descriptor needs more than 255 argument slots", self.path)),
				None => return err(name_at, format!("{}: malformed method descriptor", self.path)),
			}
		} else if !facts::is_field_descriptor(du) {
			return err(name_at, format!("{}: malformed field descriptor", self.path));
		}
		let mctx = MethodCtx { access, name: name.clone(), desc: desc.clone() };
		let attrs = self.attributes(if is_method { Level::Method } else { Level::Field }, if is_method { Some(&mctx) } else { None }, None)?;
		Ok(jobj!({"access": access, "name": name, "desc": desc, "attrs": attrs}))
	}
}
