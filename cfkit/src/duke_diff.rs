//! Measuring agreement between duke and the reference parser (used by `cfdiff` and `tests/proj_duke.rs`).
//!
//! *Read*: for a class file `b`, `parse_class(b).facts` (reference) vs
//! `duke_to_facts(duke::read_class(b))`.
//! *Write*: for a tree `t` duke has read, `duke_to_facts(t)` (expected) vs
//! `parse_class(duke::write_class(t)).facts`.
//!
//! A difference **atom** is `(generalised JSON path, kind)`; list indices are replaced by `#`. The
//! **signature** of a class is the set of its atoms. Errors and panics are grouped by a normalised
//! message (numbers and quoted strings replaced).

use crate::asm::{assemble, standard_encodings};
use crate::parse::parse_class_facts_only;
use crate::proj_duke::duke_to_facts;
use duke::tree::class::ClassFile;
use serde_json::{json, Value};
use std::cell::RefCell;
use std::collections::BTreeMap;
use std::io::Cursor;
use std::panic::{catch_unwind, AssertUnwindSafe};

/// One concrete difference.
#[derive(Debug, Clone, PartialEq, Eq)]
pub struct Diff {
	/// concrete path, e.g. `/methods/3/attrs/Code/insns/17/var`
	pub path: String,
	/// generalised path, e.g. `/methods/#/attrs/Code/insns/#/var`
	pub gpath: String,
	pub kind: &'static str,
	/// the value on the expected side (`None` if absent there)
	pub expected: Option<Value>,
	/// the value on the other side
	pub got: Option<Value>,
}

/// The labels of the three kinds for one direction.
#[derive(Debug, Clone, Copy)]
pub struct Kinds {
	pub missing: &'static str,
	/// like `missing`, but the absent value is an empty list (FACTS.md §4.3: duke's tree cannot tell an
	/// attribute with an empty table from an absent one)
	pub missing_empty: &'static str,
	pub extra: &'static str,
	pub different: &'static str,
}

pub const READ_KINDS: Kinds = Kinds { missing: "missing-in-duke", missing_empty: "missing-in-duke(empty-list)", extra: "extra-in-duke", different: "different" };
pub const WRITE_KINDS: Kinds = Kinds { missing: "missing-in-output", missing_empty: "missing-in-output(empty-list)", extra: "extra-in-output", different: "different" };

/// Structural difference of two JSON values. Objects are compared key by key, lists of equal length
/// element by element; lists of different length give one `missing`/`extra` entry at `path/#` (their
/// elements are not aligned); everything else that is unequal gives `different`.
pub fn diff(expected: &Value, got: &Value, kinds: Kinds) -> Vec<Diff> {
	let mut out = Vec::new();
	walk(expected, got, kinds, &mut String::new(), &mut String::new(), &mut out);
	out
}

fn walk(e: &Value, g: &Value, kinds: Kinds, path: &mut String, gpath: &mut String, out: &mut Vec<Diff>) {
	if e == g {
		return;
	}
	match (e, g) {
		(Value::Object(a), Value::Object(b)) => {
			let mut keys: Vec<&String> = a.keys().chain(b.keys()).collect();
			keys.sort();
			keys.dedup();
			for k in keys {
				let (pl, gl) = (path.len(), gpath.len());
				path.push('/');
				path.push_str(k);
				gpath.push('/');
				gpath.push_str(k);
				match (a.get(k), b.get(k)) {
					(Some(x), Some(y)) => walk(x, y, kinds, path, gpath, out),
					(Some(x), None) => {
						let kind = if x.as_array().map_or(false, |l| l.is_empty()) { kinds.missing_empty } else { kinds.missing };
						out.push(Diff { path: path.clone(), gpath: gpath.clone(), kind, expected: Some(x.clone()), got: None })
					}
					(None, Some(y)) => {
						out.push(Diff { path: path.clone(), gpath: gpath.clone(), kind: kinds.extra, expected: None, got: Some(y.clone()) })
					}
					(None, None) => {}
				}
				path.truncate(pl);
				gpath.truncate(gl);
			}
		}
		(Value::Array(a), Value::Array(b)) if a.len() == b.len() => {
			for (i, (x, y)) in a.iter().zip(b.iter()).enumerate() {
				let (pl, gl) = (path.len(), gpath.len());
				path.push_str(&format!("/{i}"));
				gpath.push_str("/#");
				walk(x, y, kinds, path, gpath, out);
				path.truncate(pl);
				gpath.truncate(gl);
			}
		}
		(Value::Array(a), Value::Array(b)) => {
			let kind = if a.len() > b.len() { kinds.missing } else { kinds.extra };
			out.push(Diff {
				path: format!("{path}/# (length {} vs {})", a.len(), b.len()),
				gpath: format!("{gpath}/#"),
				kind,
				expected: Some(e.clone()),
				got: Some(g.clone()),
			});
		}
		_ => out.push(Diff { path: path.clone(), gpath: gpath.clone(), kind: kinds.different, expected: Some(e.clone()), got: Some(g.clone()) }),
	}
}

/// The atoms (`kind path`, sorted, deduplicated) of a list of differences.
pub fn atoms(diffs: &[Diff]) -> Vec<(String, &'static str)> {
	let mut v: Vec<(String, &'static str)> = diffs.iter().map(|d| (d.gpath.clone(), d.kind)).collect();
	v.sort();
	v.dedup();
	v
}

/// Replaces digit runs by `N` and double-quoted strings by `"…"`, so that messages group.
pub fn normalise_message(m: &str) -> String {
	let mut out = String::with_capacity(m.len());
	let mut chars = m.chars().peekable();
	while let Some(c) = chars.next() {
		if c == '"' {
			out.push_str("\"…\"");
			let mut esc = false;
			for d in chars.by_ref() {
				if esc {
					esc = false;
				} else if d == '\\' {
					esc = true;
				} else if d == '"' {
					break;
				}
			}
		} else if c.is_ascii_digit() {
			while chars.peek().map_or(false, |d| d.is_ascii_digit()) {
				chars.next();
			}
			out.push('N');
		} else {
			out.push(c);
		}
	}
	out
}

// ---------------------------------------------------------------------------------------------
// running duke

thread_local! {
	static LAST_PANIC_LOCATION: RefCell<Option<String>> = const { RefCell::new(None) };
}

/// Installs a panic hook that prints nothing and records the panic location for [`guarded`].
pub fn install_quiet_panic_hook() {
	std::panic::set_hook(Box::new(|info| {
		let loc = info.location().map(|l| format!("{}:{}", l.file(), l.line()));
		LAST_PANIC_LOCATION.with(|c| *c.borrow_mut() = loc);
	}));
}

/// Runs `f`, turning a panic into `Err("<message> @ <file:line>")`.
pub fn guarded<T>(f: impl FnOnce() -> T) -> Result<T, String> {
	LAST_PANIC_LOCATION.with(|c| *c.borrow_mut() = None);
	match catch_unwind(AssertUnwindSafe(f)) {
		Ok(v) => Ok(v),
		Err(p) => {
			let msg = if let Some(s) = p.downcast_ref::<&str>() {
				(*s).to_string()
			} else if let Some(s) = p.downcast_ref::<String>() {
				s.clone()
			} else {
				"<non-string panic payload>".to_string()
			};
			let loc = LAST_PANIC_LOCATION.with(|c| c.borrow_mut().take()).unwrap_or_else(|| "?".into());
			Err(format!("{msg} @ {loc}"))
		}
	}
}

/// What happened to one class.
#[derive(Debug, Clone)]
pub enum Outcome {
	/// the reference parser rejected the input (read mode) / the output (write mode)
	ReferenceError(String),
	DukeReadError(String),
	DukeReadPanic(String),
	ProjError(String),
	ProjPanic(String),
	DukeWriteError(String),
	DukeWritePanic(String),
	/// compared; the list is empty iff the two values are deep-equal
	Compared(Vec<Diff>),
}

pub fn duke_read(bytes: &[u8]) -> Outcome2<ClassFile> {
	match guarded(|| duke::read_class(&mut Cursor::new(bytes))) {
		Ok(Ok(c)) => Ok(c),
		Ok(Err(e)) => Err(Outcome::DukeReadError(format!("{e:#}"))),
		Err(p) => Err(Outcome::DukeReadPanic(p)),
	}
}

pub type Outcome2<T> = Result<T, Outcome>;

fn project(tree: &ClassFile) -> Outcome2<Value> {
	match guarded(|| duke_to_facts(tree)) {
		Ok(Ok(v)) => Ok(v),
		Ok(Err(e)) => Err(Outcome::ProjError(e.0)),
		Err(p) => Err(Outcome::ProjPanic(p)),
	}
}

/// Read comparison of one class file.
pub fn compare_read(bytes: &[u8]) -> Outcome {
	let reference = match parse_class_facts_only(bytes) {
		Ok(p) => p.facts,
		Err(e) => return Outcome::ReferenceError(e.to_string()),
	};
	let tree = match duke_read(bytes) {
		Ok(t) => t,
		Err(o) => return o,
	};
	match project(&tree) {
		Ok(v) => Outcome::Compared(diff(&reference, &v, READ_KINDS)),
		Err(o) => o,
	}
}

/// Writer round trip of one class file: `None` if duke cannot read / project it (that is counted in read mode).
pub fn compare_write(bytes: &[u8]) -> Option<Outcome> {
	let tree = duke_read(bytes).ok()?;
	let expected = project(&tree).ok()?;
	let mut out: Vec<u8> = Vec::new();
	match guarded(|| duke::write_class(&mut out, &tree)) {
		Ok(Ok(())) => {}
		Ok(Err(e)) => return Some(Outcome::DukeWriteError(format!("{e:#}"))),
		Err(p) => return Some(Outcome::DukeWritePanic(p)),
	}
	Some(match parse_class_facts_only(&out) {
		Ok(p) => Outcome::Compared(diff(&expected, &p.facts, WRITE_KINDS)),
		Err(e) => Outcome::ReferenceError(e.to_string()),
	})
}

// ---------------------------------------------------------------------------------------------
// inputs

/// All measured inputs: the thorough corpus, and every sample class + the kitchen sink assembled under
/// every standard encoding (`sample/<name>[<encoding>]`). Unencodable combinations are skipped.
pub fn inputs() -> Vec<(String, Vec<u8>)> {
	let mut v = crate::corpus::corpus_classes("thorough");
	v.extend(sample_inputs());
	v
}

pub fn sample_inputs() -> Vec<(String, Vec<u8>)> {
	let mut v = Vec::new();
	let mut samples = crate::samples::sample_classes();
	samples.push(("kitchen_sink".to_string(), crate::samples::kitchen_sink_facts()));
	let encs = standard_encodings();
	for (name, facts) in &samples {
		for (en, enc) in &encs {
			if let Ok(bytes) = assemble(facts, enc) {
				v.push((format!("sample/{name}[{en}]"), bytes));
			}
		}
		// duke's reader rejects positions equal to code_length in some places, empty member names
		// and class file versions above 67.0
		// (see the triage); the `~adapted` variant keeps everything else of such a sample reachable
		// for the comparison
		let mut adapted = facts.clone();
		avoid_code_end(&mut adapted);
		avoid_empty_member_names(&mut adapted);
		avoid_future_version(&mut adapted);
		if &adapted != facts {
			for (en, enc) in &encs {
				if let Ok(bytes) = assemble(&adapted, enc) {
					v.push((format!("sample/{name}~adapted[{en}]"), bytes));
				}
			}
		}
	}
	v
}

/// duke rejects class file versions above 67.0 (`Version::V23`): such a version becomes 67.0.
pub fn avoid_future_version(class: &mut Value) {
	let major = class.get("version").and_then(|v| v.get(0)).and_then(Value::as_u64).unwrap_or(0);
	let minor = class.get("version").and_then(|v| v.get(1)).and_then(Value::as_u64).unwrap_or(0);
	if major > 67 || (major == 67 && minor > 0) {
		class["version"] = json!([67, 0]);
	}
}

/// Renames fields and methods whose name is the empty string to `_empty`.
pub fn avoid_empty_member_names(class: &mut Value) {
	for key in ["fields", "methods"] {
		if let Some(Value::Array(l)) = class.get_mut(key) {
			for m in l {
				if m.get("name") == Some(&json!("")) {
					m["name"] = json!("_empty");
				}
			}
		}
	}
}

/// Rewrites facts so that no exception table row ends at `len(insns)` (the end moves one instruction
/// back; the row is dropped if it would become empty) and no local variable / localvar_target row
/// *starts* at `len(insns)` (dropped).
pub fn avoid_code_end(v: &mut Value) {
	match v {
		Value::Array(a) => a.iter_mut().for_each(avoid_code_end),
		Value::Object(m) => {
			if let (Some(n), true) = (m.get("insns").and_then(Value::as_array).map(|l| l.len() as u64), m.contains_key("exceptions")) {
				if let Some(Value::Array(rows)) = m.get_mut("exceptions") {
					rows.retain_mut(|r| {
						if r.get("end").and_then(Value::as_u64) == Some(n) {
							if r.get("start").and_then(Value::as_u64).map_or(false, |s| s + 1 < n) {
								r["end"] = json!(n - 1);
								true
							} else {
								false
							}
						} else {
							true
						}
					});
				}
				if let Some(Value::Object(attrs)) = m.get_mut("attrs") {
					for key in ["LocalVariableTable", "LocalVariableTypeTable"] {
						if let Some(Value::Array(rows)) = attrs.get_mut(key) {
							rows.retain(|r| r.get("start").and_then(Value::as_u64) != Some(n));
						}
					}
					for key in ["RuntimeVisibleTypeAnnotations", "RuntimeInvisibleTypeAnnotations"] {
						if let Some(Value::Array(annos)) = attrs.get_mut(key) {
							for a in annos {
								if let Some(Value::Array(rows)) = a.get_mut("target").and_then(|t| t.get_mut("table")) {
									rows.retain(|r| r.get("start").and_then(Value::as_u64) != Some(n));
								}
							}
						}
					}
				}
			}
			for (_, x) in m.iter_mut() {
				avoid_code_end(x);
			}
		}
		_ => {}
	}
}

// ---------------------------------------------------------------------------------------------
// summary

#[derive(Debug, Clone, Default)]
pub struct Group {
	pub count: usize,
	pub examples: Vec<String>,
	/// all ids of the group, in input order
	pub ids: Vec<String>,
	/// (size in bytes, id) of the smallest class in the group
	pub smallest: Option<(usize, String)>,
}

impl Group {
	fn add(&mut self, id: &str, size: usize) {
		self.count += 1;
		self.ids.push(id.to_string());
		if self.examples.len() < 3 {
			self.examples.push(id.to_string());
		}
		if self.smallest.as_ref().map_or(true, |(s, _)| size < *s) {
			self.smallest = Some((size, id.to_string()));
		}
	}
	fn to_json(&self) -> Value {
		json!({"count": self.count, "examples": self.examples, "ids": self.ids, "smallest": self.smallest.as_ref().map(|(s, i)| json!({"id": i, "bytes": s}))})
	}
}

#[derive(Debug, Clone, Default)]
pub struct Summary {
	pub mode: String,
	pub classes: usize,
	/// classes that were compared (no error on either side)
	pub compared: usize,
	pub equal: usize,
	/// `(generalised path, kind)` → group
	pub atoms: BTreeMap<(String, String), Group>,
	/// sorted list of `kind path` → group
	pub signatures: BTreeMap<Vec<String>, Group>,
	/// `(category, normalised message)` → group; categories: `reference-error duke-read-error duke-read-panic
	/// proj-error proj-panic duke-write-error duke-write-panic`
	pub errors: BTreeMap<(String, String), Group>,
	/// ids of the classes that are deep-equal
	pub equal_ids: Vec<String>,
}

impl Summary {
	pub fn add(&mut self, id: &str, size: usize, o: &Outcome) {
		self.classes += 1;
		let mut err = |cat: &str, m: &str| {
			self.errors.entry((cat.to_string(), normalise_message(m))).or_default().add(id, size);
		};
		match o {
			Outcome::ReferenceError(m) => err("reference-error", m),
			Outcome::DukeReadError(m) => err("duke-read-error", m),
			Outcome::DukeReadPanic(m) => err("duke-read-panic", m),
			Outcome::ProjError(m) => err("proj-error", m),
			Outcome::ProjPanic(m) => err("proj-panic", m),
			Outcome::DukeWriteError(m) => err("duke-write-error", m),
			Outcome::DukeWritePanic(m) => err("duke-write-panic", m),
			Outcome::Compared(d) => {
				self.compared += 1;
				if d.is_empty() {
					self.equal += 1;
					self.equal_ids.push(id.to_string());
					return;
				}
				let at = atoms(d);
				for (p, k) in &at {
					self.atoms.entry((p.clone(), k.to_string())).or_default().add(id, size);
				}
				let sig: Vec<String> = at.iter().map(|(p, k)| format!("{k} {p}")).collect();
				self.signatures.entry(sig).or_default().add(id, size);
			}
		}
	}

	pub fn to_json(&self) -> Value {
		let atoms: Vec<Value> = self
			.atoms
			.iter()
			.map(|((p, k), g)| {
				let mut v = g.to_json();
				v["path"] = json!(p);
				v["kind"] = json!(k);
				v
			})
			.collect();
		let sigs: Vec<Value> = self
			.signatures
			.iter()
			.map(|(s, g)| {
				let mut v = g.to_json();
				v["atoms"] = json!(s);
				v
			})
			.collect();
		let errors: Vec<Value> = self
			.errors
			.iter()
			.map(|((c, m), g)| {
				let mut v = g.to_json();
				v["category"] = json!(c);
				v["message"] = json!(m);
				v
			})
			.collect();
		json!({
			"mode": self.mode, "classes": self.classes, "compared": self.compared, "equal": self.equal,
			"atoms": atoms, "signatures": sigs, "errors": errors,
		})
	}

	pub fn print(&self) {
		println!("== {} ==", self.mode);
		println!("{} classes, {} compared, {} deep-equal, {} with differences, {} errors/panics",
			self.classes, self.compared, self.equal, self.compared - self.equal, self.classes - self.compared);
		println!("\n-- difference atoms (kind, generalised path): count, smallest, first examples");
		let mut atoms: Vec<_> = self.atoms.iter().collect();
		atoms.sort_by(|a, b| b.1.count.cmp(&a.1.count).then(a.0.cmp(b.0)));
		for ((p, k), g) in atoms {
			println!("{:>6}  {k:<18} {p}", g.count);
			println!("        smallest: {}  examples: {}", g.smallest.as_ref().map_or(String::new(), |(s, i)| format!("{i} ({s} B)")), g.examples.join(", "));
		}
		println!("\n-- difference signatures (set of atoms per class): count, first examples");
		let mut sigs: Vec<_> = self.signatures.iter().collect();
		sigs.sort_by(|a, b| b.1.count.cmp(&a.1.count).then(a.0.cmp(b.0)));
		for (s, g) in sigs {
			println!("{:>6}  examples: {}", g.count, g.examples.join(", "));
			for a in s {
				println!("          {a}");
			}
		}
		println!("\n-- errors / panics by normalised message");
		let mut errs: Vec<_> = self.errors.iter().collect();
		errs.sort_by(|a, b| a.0 .0.cmp(&b.0 .0).then(b.1.count.cmp(&a.1.count)));
		for ((c, m), g) in errs {
			println!("{:>6}  [{c}] {m}", g.count);
			println!("        smallest: {}  examples: {}", g.smallest.as_ref().map_or(String::new(), |(s, i)| format!("{i} ({s} B)")), g.examples.join(", "));
		}
		println!();
	}
}

/// Runs `f` over all inputs on `threads` threads, in input order.
fn par_map<T: Send>(inputs: &[(String, Vec<u8>)], threads: usize, f: impl Fn(&[u8]) -> T + Sync) -> Vec<T> {
	let threads = threads.max(1);
	let chunk = (inputs.len() + threads - 1) / threads.max(1);
	if chunk == 0 {
		return Vec::new();
	}
	let f = &f;
	std::thread::scope(|s| {
		let handles: Vec<_> = inputs
			.chunks(chunk)
			.map(|part| {
				std::thread::Builder::new()
					.stack_size(64 << 20)
					.spawn_scoped(s, move || part.iter().map(|(_, b)| f(b)).collect::<Vec<T>>())
					.expect("spawn")
			})
			.collect();
		handles.into_iter().flat_map(|h| h.join().expect("worker thread")).collect()
	})
}

pub fn measure_read(inputs: &[(String, Vec<u8>)], threads: usize) -> Summary {
	let outcomes = par_map(inputs, threads, compare_read);
	let mut s = Summary { mode: "read".into(), ..Default::default() };
	for ((id, b), o) in inputs.iter().zip(outcomes.iter()) {
		s.add(id, b.len(), o);
	}
	s
}

pub fn measure_write(inputs: &[(String, Vec<u8>)], threads: usize) -> Summary {
	let outcomes = par_map(inputs, threads, compare_write);
	let mut s = Summary { mode: "write".into(), ..Default::default() };
	for ((id, b), o) in inputs.iter().zip(outcomes.iter()) {
		if let Some(o) = o {
			s.add(id, b.len(), o);
		}
	}
	s
}
