//! Hand-written class facts: a kitchen sink using every opcode and constant kind, and a set of small
//! classes exercising one feature each. All values are in canonical form, i.e.
//! `parse(assemble(f, enc)).facts == f` holds for them (checked by the tests).

use crate::opcodes::{self, Kind};
use serde_json::{json, Value};

const OBJ: &str = "java/lang/Object";

pub fn class(version: [u16; 2], access: u16, this: &str, sup: Option<&str>, fields: Vec<Value>, methods: Vec<Value>, attrs: Value) -> Value {
	let mut c = json!({
		"version": version, "access": access, "this": this, "interfaces": [], "fields": fields, "methods": methods, "attrs": attrs,
	});
	if let Some(s) = sup {
		c["super"] = json!(s);
	}
	c
}

pub fn member(access: u16, name: &str, desc: &str, attrs: Value) -> Value {
	json!({"access": access, "name": name, "desc": desc, "attrs": attrs})
}

pub fn code(max_stack: u16, max_locals: u16, insns: Vec<Value>, exceptions: Vec<Value>, attrs: Value) -> Value {
	json!({"max_stack": max_stack, "max_locals": max_locals, "insns": insns, "exceptions": exceptions, "attrs": attrs})
}

pub fn method_with_code(access: u16, name: &str, desc: &str, c: Value) -> Value {
	member(access, name, desc, json!({"Code": c}))
}

pub fn op(name: &str) -> Value {
	json!({"op": name})
}

fn simple_class(name: &str, methods: Vec<Value>, attrs: Value) -> Value {
	class([61, 0], 0x21, name, Some(OBJ), vec![], methods, attrs)
}

fn handle(kind: &str, owner: &str, name: &str, desc: &str, itf: bool) -> Value {
	json!({"kind": kind, "owner": owner, "name": name, "desc": desc, "itf": itf})
}

fn bsm_handle() -> Value {
	handle(
		"invokestatic",
		"k/Boot",
		"bootstrap",
		"(Ljava/lang/invoke/MethodHandles$Lookup;Ljava/lang/String;Ljava/lang/Object;[Ljava/lang/Object;)Ljava/lang/Object;",
		false,
	)
}

/// One constant of every loadable kind (category 1 first, then category 2).
pub fn all_constants() -> Vec<Value> {
	let condy_int = json!({"dynamic": {"bsm": bsm_handle(), "args": [{"int": 7}], "name": "ci", "desc": "I"}});
	vec![
		json!({"int": -2147483648i64}),
		json!({"int": 65536}),
		json!({"float": 0x7fc00001u32}),
		json!({"float": 0x80000000u32}),
		json!({"string": "hello"}),
		json!({"string": "nul\u{0}two\u{7ff}three\u{ffff}supp\u{1f600}"}),
		json!({"string": {"utf16": [0xd800, 0x61, 0xdfff]}}),
		json!({"class": "k/Other"}),
		json!({"class": "[[I"}),
		json!({"class": "[Lk/Other;"}),
		json!({"method_type": "(IJ)Ljava/lang/String;"}),
		json!({"method_handle": handle("getfield", "k/Other", "f", "I", false)}),
		json!({"method_handle": handle("getstatic", "k/Other", "sf", "J", false)}),
		json!({"method_handle": handle("putfield", "k/Other", "f", "I", false)}),
		json!({"method_handle": handle("putstatic", "k/Other", "sf", "J", false)}),
		json!({"method_handle": handle("invokevirtual", "k/Other", "m", "()V", false)}),
		json!({"method_handle": handle("invokestatic", "k/Other", "sm", "()V", false)}),
		json!({"method_handle": handle("invokestatic", "k/Itf", "sm", "()V", true)}),
		json!({"method_handle": handle("invokespecial", "k/Other", "pm", "()V", false)}),
		json!({"method_handle": handle("invokespecial", "k/Itf", "pm", "()V", true)}),
		json!({"method_handle": handle("newinvokespecial", "k/Other", "<init>", "(I)V", false)}),
		json!({"method_handle": handle("invokeinterface", "k/Itf", "im", "(D)V", true)}),
		condy_int.clone(),
		json!({"dynamic": {"bsm": bsm_handle(), "args": [condy_int, {"class": "k/Other"}, {"long": "5"}, {"double": "4607182418800017408"},
			{"method_type": "()V"}, {"method_handle": handle("invokestatic", "k/Other", "sm", "()V", false)}, {"string": "arg"}, {"float": 1065353216}],
			"name": "nested", "desc": "Ljava/lang/Object;"}}),
		// category 2
		json!({"long": "-9223372036854775808"}),
		json!({"long": "4294967296"}),
		json!({"double": "9221120237041090561"}),
		json!({"double": "9223372036854775808"}),
		json!({"dynamic": {"bsm": bsm_handle(), "args": [], "name": "cl", "desc": "J"}}),
		json!({"dynamic": {"bsm": bsm_handle(), "args": [], "name": "cd", "desc": "D"}}),
	]
}

fn indy_value() -> Value {
	json!({"bsm": handle("invokestatic", "java/lang/invoke/LambdaMetafactory", "metafactory",
		"(Ljava/lang/invoke/MethodHandles$Lookup;Ljava/lang/String;Ljava/lang/invoke/MethodType;Ljava/lang/invoke/MethodType;Ljava/lang/invoke/MethodHandle;Ljava/lang/invoke/MethodType;)Ljava/lang/invoke/CallSite;", false),
		"args": [{"method_type": "()V"}, {"method_handle": handle("invokestatic", "k/KitchenSink", "lambda$0", "()V", false)}, {"method_type": "()V"}],
		"name": "run", "desc": "()Ljava/lang/Runnable;"})
}

/// Instructions covering every canonical mnemonic (and the short/plain/wide operand ranges).
/// Branches target instruction 0; not meant to be verifiable, only structurally valid.
fn every_instruction() -> Vec<Value> {
	let mut v: Vec<Value> = Vec::new();
	let mut seen: Vec<&str> = Vec::new();
	for o in opcodes::OPS.iter() {
		if seen.contains(&o.name) {
			continue;
		}
		seen.push(o.name);
		match o.kind {
			Kind::NoOperand => v.push(op(o.name)),
			Kind::BiPush => {
				for n in [-128, -1, 0, 127] {
					v.push(json!({"op": "bipush", "value": n}));
				}
			}
			Kind::SiPush => {
				for n in [-32768, -129, 0, 128, 32767] {
					v.push(json!({"op": "sipush", "value": n}));
				}
			}
			Kind::Ldc | Kind::LdcW | Kind::Ldc2W => {
				for c in all_constants() {
					v.push(json!({"op": "ldc", "const": c}));
				}
			}
			Kind::Var | Kind::VarShort(_) => {
				let vars: &[u16] = if o.name == "ret" { &[0, 255, 256, 65535] } else { &[0, 1, 2, 3, 4, 255, 256, 65535] };
				for n in vars {
					v.push(json!({"op": o.name, "var": n}));
				}
			}
			Kind::Iinc => {
				for (var, by) in [(0, 1), (255, -128), (255, 127), (256, 1), (1, 128), (1, -129), (65535, -32768), (7, 32767)] {
					v.push(json!({"op": "iinc", "var": var, "by": by}));
				}
			}
			Kind::Branch | Kind::BranchW => v.push(json!({"op": o.name, "target": 0})),
			Kind::TableSwitch => {
				v.push(json!({"op": "tableswitch", "default": 0, "low": -1, "targets": [0, 1, 2]}));
				v.push(json!({"op": "tableswitch", "default": 1, "low": 2147483647, "targets": [0]}));
				v.push(json!({"op": "tableswitch", "default": 1, "low": -2147483648i64, "targets": [0, 0]}));
			}
			Kind::LookupSwitch => {
				v.push(json!({"op": "lookupswitch", "default": 0, "pairs": []}));
				v.push(json!({"op": "lookupswitch", "default": 0, "pairs": [[-2147483648i64, 1], [-5, 2], [0, 0], [2147483647, 3]]}));
			}
			Kind::Field => v.push(json!({"op": o.name, "owner": "k/Other", "name": "f", "desc": "Ljava/lang/String;"})),
			Kind::InvokeVirtual => {
				v.push(json!({"op": o.name, "owner": "k/Other", "name": "m", "desc": "(IJ)V", "itf": false}));
				v.push(json!({"op": o.name, "owner": "[I", "name": "clone", "desc": "()Ljava/lang/Object;", "itf": false}));
			}
			Kind::InvokeSpecialStatic => {
				v.push(json!({"op": o.name, "owner": "k/Other", "name": "m", "desc": "(IJ)V", "itf": false}));
				v.push(json!({"op": o.name, "owner": "k/Itf", "name": "m", "desc": "(IJ)V", "itf": true}));
			}
			Kind::InvokeInterface => {
				v.push(json!({"op": o.name, "owner": "k/Itf", "name": "im", "desc": "(IJDLjava/lang/Object;[J)V"}));
				v.push(json!({"op": o.name, "owner": "k/Itf", "name": "im0", "desc": "()I"}));
			}
			Kind::InvokeDynamic => {
				v.push(json!({"op": "invokedynamic", "indy": indy_value()}));
				v.push(json!({"op": "invokedynamic", "indy": {"bsm": bsm_handle(), "args": [], "name": "x", "desc": "(I)I"}}));
			}
			Kind::Class => {
				v.push(json!({"op": o.name, "class": "k/Other"}));
				if o.name != "new" {
					v.push(json!({"op": o.name, "class": "[Ljava/lang/String;"}));
				}
			}
			Kind::NewArray => {
				for (_, t) in opcodes::ATYPES {
					v.push(json!({"op": "newarray", "type": t}));
				}
			}
			Kind::MultiANewArray => {
				v.push(json!({"op": "multianewarray", "class": "[[I", "dims": 2}));
				v.push(json!({"op": "multianewarray", "class": "[[[Lk/Other;", "dims": 255}));
				v.push(json!({"op": "multianewarray", "class": "[[[Lk/Other;", "dims": 1}));
			}
			Kind::Wide | Kind::Invalid => {}
		}
	}
	v.push(op("return"));
	v
}

/// A method whose `goto`/`jsr` must be encoded as `goto_w`/`jsr_w`: 40000 `nop`s in between,
/// forward and backward.
fn far_jumps(count: usize) -> Value {
	let mut insns = vec![json!({"op": "goto", "target": count + 3}), json!({"op": "jsr", "target": count + 3})];
	for _ in 0..count {
		insns.push(op("nop"));
	}
	insns.push(op("return")); // count + 2
	insns.push(json!({"op": "goto", "target": 0})); // count + 3
	insns.push(json!({"op": "jsr", "target": 1}));
	insns.push(json!({"op": "goto", "target": count + 2}));
	code(1, 1, insns, vec![], json!({}))
}

/// A class (version 50.0 so that `jsr`/`ret` are legal) whose methods use every opcode of the JVM
/// and every constant kind. `all` uses every mnemonic; `far` forces `goto_w`/`jsr_w`; the pool
/// contains every constant kind (incl. Module / Package via the Module attribute? no — those only
/// occur in module-info, see `sample_classes`).
pub fn kitchen_sink_facts() -> Value {
	let all = every_instruction();
	let n = all.len();
	let all_code = code(
		10,
		65535,
		all,
		vec![
			json!({"start": 0, "end": n, "handler": 0, "catch": "java/lang/Throwable"}),
			json!({"start": 1, "end": 2, "handler": 3}),
		],
		json!({
			"LineNumberTable": [[0, 1], [0, 2], [5, 65535]],
			"LocalVariableTable": [{"start": 0, "end": n, "name": "this", "desc": "Lk/KitchenSink;", "slot": 0}],
		}),
	);
	class(
		[50, 0],
		0x21,
		"k/KitchenSink",
		Some(OBJ),
		vec![member(0x19, "C", "J", json!({"ConstantValue": {"long": "123456789012345"}}))],
		vec![
			method_with_code(0x1, "all", "()V", all_code),
			method_with_code(0x9, "far", "()V", far_jumps(40000)),
			method_with_code(0x100a, "lambda$0", "()V", code(0, 0, vec![op("return")], vec![], json!({}))),
		],
		json!({"SourceFile": "KitchenSink.java"}),
	)
}

fn anno(ty: &str, pairs: Value) -> Value {
	json!({"type": ty, "pairs": pairs})
}

fn all_element_values() -> Value {
	json!([
		["b", {"B": -128}], ["c", {"C": 65535}], ["d", {"D": "9221120237041090560"}], ["f", {"F": 2143289344u32}], ["i", {"I": -2147483648i64}],
		["j", {"J": "9223372036854775807"}], ["s", {"S": -32768}], ["z", {"Z": 1}], ["z2", {"Z": 2}], ["str", {"s": "text\u{0}"}],
		["en", {"e": {"type": "Lk/Color;", "name": "RED"}}], ["cl", {"c": "Ljava/lang/String;"}], ["clv", {"c": "V"}], ["cla", {"c": "[I"}],
		["nested", {"@": {"type": "Lk/Inner;", "pairs": [["v", {"I": 1}], ["deep", {"@": {"type": "Lk/Deep;", "pairs": []}}]]}}],
		["arr", {"[": [{"I": 1}, {"I": 2}]}], ["empty", {"[": []}],
		["arr2", {"[": [{"[": [{"s": "x"}]}, {"e": {"type": "Lk/Color;", "name": "BLUE"}}, {"c": "D"}, {"@": {"type": "Lk/Inner;", "pairs": []}}]}],
		["str", {"s": "duplicate name"}]
	])
}

/// Small classes exercising one feature each: `(name, facts)`.
pub fn sample_classes() -> Vec<(String, Value)> {
	let mut v: Vec<(String, Value)> = Vec::new();
	let mut add = |name: &str, f: Value| v.push((name.to_owned(), f));
	let ret = || code(0, 1, vec![op("return")], vec![], json!({}));

	add("minimal_object", class([45, 3], 0x21, OBJ, None, vec![], vec![], json!({})));
	add("interface", {
		let mut c = class([52, 0], 0x601, "k/I", Some(OBJ), vec![], vec![member(0x401, "m", "()V", json!({}))], json!({}));
		c["interfaces"] = json!(["k/J", "k/A", "k/J"]);
		c
	});
	add(
		"constant_values",
		class([61, 0], 0x21, "k/CV", Some(OBJ), vec![
			member(0x19, "I", "I", json!({"ConstantValue": {"int": -1}})),
			member(0x19, "Z", "Z", json!({"ConstantValue": {"int": 1}})),
			member(0x19, "F", "F", json!({"ConstantValue": {"float": 0xffc00000u32}})),
			member(0x19, "J", "J", json!({"ConstantValue": {"long": "-1"}})),
			member(0x19, "D", "D", json!({"ConstantValue": {"double": "18444492273895866368"}})),
			member(0x19, "S", "Ljava/lang/String;", json!({"ConstantValue": {"string": ""}})),
			member(0x19, "S2", "Ljava/lang/String;", json!({"ConstantValue": {"string": {"utf16": [0xdc00]}}})),
			member(0x2, "plain", "[[Lk/CV;", json!({})),
		], vec![], json!({})),
	);
	add("exceptions_attr", simple_class("k/Ex", vec![
		member(0x401, "a", "()V", json!({"Exceptions": ["java/io/IOException", "k/Z", "java/io/IOException"]})),
		member(0x401, "b", "()V", json!({"Exceptions": []})),
	], json!({})));
	add("inner_classes", simple_class("k/Outer$Inner", vec![], json!({
		"InnerClasses": [
			{"inner": "k/Outer$Inner", "outer": "k/Outer", "name": "Inner", "access": 0x9},
			{"inner": "k/Outer$1", "access": 0},
			{"inner": "k/Outer$1Local", "name": "Local", "access": 0x10},
			{"inner": "k/Outer$Inner", "outer": "k/Outer", "name": "Inner", "access": 0xffff}
		],
		"NestHost": "k/Outer",
	})));
	add("enclosing_method", simple_class("k/Outer$1", vec![], json!({"EnclosingMethod": {"class": "k/Outer", "method": {"name": "m", "desc": "(I)V"}}})));
	add("enclosing_class_only", simple_class("k/Outer$2", vec![], json!({"EnclosingMethod": {"class": "k/Outer"}})));
	add("nest_members", simple_class("k/Outer", vec![], json!({"NestMembers": ["k/Outer$Inner", "k/Outer$1"]})));
	add("permitted_subclasses", class([61, 0], 0x421, "k/Sealed", Some(OBJ), vec![], vec![], json!({"PermittedSubclasses": ["k/B", "k/A"]})));
	add("synthetic_deprecated", class([61, 0], 0x1021, "k/SD", Some(OBJ),
		vec![member(0x1002, "f", "I", json!({"Synthetic": true, "Deprecated": true}))],
		vec![member(0x1401, "m", "()V", json!({"Synthetic": true, "Deprecated": true}))],
		json!({"Synthetic": true, "Deprecated": true})));
	add("signatures", class([61, 0], 0x21, "k/G", Some(OBJ),
		vec![member(0x2, "f", "Ljava/util/List;", json!({"Signature": "Ljava/util/List<TT;>;"}))],
		vec![member(0x401, "m", "(Ljava/lang/Object;)V", json!({"Signature": "<U:Ljava/lang/Object;>(TU;)V^TT;"}))],
		json!({"Signature": "<T:Ljava/lang/Throwable;>Ljava/lang/Object;Ljava/lang/Comparable<TT;>;"})));
	add("source_file_and_debug_extension", simple_class("k/Src", vec![], json!({"SourceFile": "Src.java", "SourceDebugExtension": "SMAP\nSrc.java\nJSP\n\u{0}\u{1f600}"})));
	add("source_debug_extension_not_mutf8", simple_class("k/Src2", vec![], json!({"SourceDebugExtension": {"hex": "00ff80"}})));
	add("source_debug_extension_empty", simple_class("k/Src3", vec![], json!({"SourceDebugExtension": ""})));
	add("annotations_all_element_kinds", class([61, 0], 0x21, "k/An", Some(OBJ),
		vec![member(0x2, "f", "I", json!({"RuntimeInvisibleAnnotations": [anno("Lk/A;", json!([]))]}))],
		vec![member(0x401, "m", "()V", json!({"RuntimeVisibleAnnotations": [anno("Lk/A;", all_element_values())]}))],
		json!({
			"RuntimeVisibleAnnotations": [anno("Lk/A;", all_element_values()), anno("Lk/B;", json!([])), anno("Lk/A;", json!([]))],
			"RuntimeInvisibleAnnotations": [],
		})));
	add("parameter_annotations", simple_class("k/PA", vec![member(0x401, "m", "(IJ)V", json!({
		"RuntimeVisibleParameterAnnotations": [[], [anno("Lk/A;", json!([["v", {"I": 1}]])), anno("Lk/B;", json!([]))]],
		"RuntimeInvisibleParameterAnnotations": [],
	}))], json!({})));
	add("annotation_default", class([61, 0], 0x2601, "k/Anno", Some(OBJ), vec![], vec![
		member(0x401, "i", "()I", json!({"AnnotationDefault": {"I": 42}})),
		member(0x401, "s", "()Ljava/lang/String;", json!({"AnnotationDefault": {"s": ""}})),
		member(0x401, "e", "()Lk/Color;", json!({"AnnotationDefault": {"e": {"type": "Lk/Color;", "name": "RED"}}})),
		member(0x401, "c", "()Ljava/lang/Class;", json!({"AnnotationDefault": {"c": "V"}})),
		member(0x401, "a", "()Lk/Inner;", json!({"AnnotationDefault": {"@": anno("Lk/Inner;", json!([["x", {"Z": 0}]]))}})),
		member(0x401, "arr", "()[J", json!({"AnnotationDefault": {"[": [{"J": "1"}, {"J": "-1"}]}})),
		member(0x401, "d", "()D", json!({"AnnotationDefault": {"D": "0"}})),
		member(0x401, "f", "()F", json!({"AnnotationDefault": {"F": 0}})),
	], json!({})));
	let ta = |target: Value, path: Value| json!({"target": target, "path": path, "type": "Lk/T;", "pairs": [["v", {"I": 1}]]});
	add("type_annotations_class_field_method", class([61, 0], 0x21, "k/TA", Some(OBJ),
		vec![member(0x2, "f", "Ljava/util/Map;", json!({
			"RuntimeVisibleTypeAnnotations": [ta(json!({"kind": "field"}), json!([[3, 0], [3, 1], [2, 0], [0, 0], [1, 0]])), ta(json!({"kind": "field"}), json!([]))],
		}))],
		vec![member(0x1, "m", "(ILjava/lang/String;)Ljava/lang/Object;", json!({
			"RuntimeInvisibleTypeAnnotations": [
				ta(json!({"kind": "method_type_parameter", "index": 0}), json!([])),
				ta(json!({"kind": "method_type_parameter_bound", "param": 1, "bound": 255}), json!([])),
				ta(json!({"kind": "method_return"}), json!([[0, 0]])),
				ta(json!({"kind": "method_receiver"}), json!([])),
				ta(json!({"kind": "method_formal_parameter", "index": 1}), json!([])),
				ta(json!({"kind": "throws", "index": 65535}), json!([])),
			],
			"RuntimeVisibleTypeAnnotations": [],
		}))],
		json!({"RuntimeVisibleTypeAnnotations": [
			ta(json!({"kind": "class_type_parameter", "index": 255}), json!([])),
			ta(json!({"kind": "class_extends", "index": 65535}), json!([])),
			ta(json!({"kind": "class_extends", "index": 0}), json!([[3, 255]])),
			ta(json!({"kind": "class_type_parameter_bound", "param": 0, "bound": 1}), json!([])),
		]})));
	{
		let insns = vec![
			json!({"op": "new", "class": "k/X"}), op("dup"), json!({"op": "invokespecial", "owner": "k/X", "name": "<init>", "desc": "()V", "itf": false}),
			json!({"op": "astore", "var": 1}), json!({"op": "aload", "var": 1}), json!({"op": "instanceof", "class": "k/X"}), op("pop"),
			json!({"op": "aload", "var": 1}), json!({"op": "checkcast", "class": "k/X"}), op("pop"), op("return"),
		];
		let offs = |k: &str| ta(json!({"kind": k, "insn": 0}), json!([]));
		let offi = |k: &str, i: u8| ta(json!({"kind": k, "insn": 8, "index": i}), json!([]));
		add("type_annotations_code", simple_class("k/TAC", vec![method_with_code(0x1, "m", "()V", code(2, 2, insns,
			vec![json!({"start": 0, "end": 3, "handler": 10, "catch": "k/E"})],
			json!({"RuntimeVisibleTypeAnnotations": [
				ta(json!({"kind": "local_variable", "table": [{"start": 4, "end": 11, "slot": 1}, {"start": 11, "end": 11, "slot": 2}, {"start": 0, "end": 0, "slot": 65535}]}), json!([])),
				ta(json!({"kind": "resource_variable", "table": []}), json!([])),
				ta(json!({"kind": "exception_parameter", "index": 0}), json!([])),
				ta(json!({"kind": "instanceof", "insn": 5}), json!([])),
				offs("new"), offs("constructor_reference"), offs("method_reference"),
				offi("cast", 0), offi("constructor_invocation_type_argument", 1), offi("method_invocation_type_argument", 2),
				offi("constructor_reference_type_argument", 3), offi("method_reference_type_argument", 255),
			], "RuntimeInvisibleTypeAnnotations": [ta(json!({"kind": "new", "insn": 0}), json!([[1, 0]]))]}),
		))], json!({})));
	}
	add("method_parameters", simple_class("k/MP", vec![member(0x401, "m", "(IJLjava/lang/String;)V", json!({
		"MethodParameters": [{"name": "a", "access": 0x10}, {"access": 0x1000}, {"name": "c", "access": 0x8000}],
	})), member(0x401, "n", "()V", json!({"MethodParameters": []}))], json!({})));
	add("module_info", class([61, 0], 0x8000, "module-info", None, vec![], vec![], json!({
		"Module": {
			"name": "k.mod", "access": 0x20, "version": "1.2.3",
			"requires": [{"name": "java.base", "access": 0x8000, "version": "17"}, {"name": "k.other", "access": 0x60}],
			"exports": [{"package": "k/api", "access": 0, "to": []}, {"package": "k/impl", "access": 0x1000, "to": ["k.friend", "k.other"]}],
			"opens": [{"package": "k/impl", "access": 0, "to": ["k.friend"]}],
			"uses": ["k/api/Service"],
			"provides": [{"class": "k/api/Service", "with": ["k/impl/ServiceImpl", "k/impl/Other"]}],
		},
		"ModulePackages": ["k/api", "k/impl", "k/hidden"],
		"ModuleMainClass": "k/impl/Main",
		"SourceFile": "module-info.java",
	})));
	add("module_info_empty", class([53, 0], 0x8000, "module-info", None, vec![], vec![], json!({
		"Module": {"name": "m", "access": 0, "requires": [], "exports": [], "opens": [], "uses": [], "provides": []},
		"ModulePackages": [],
	})));
	add("record", class([61, 0], 0x31, "k/R", Some("java/lang/Record"), vec![member(0x12, "x", "I", json!({}))], vec![], json!({
		"Record": [
			{"name": "x", "desc": "I", "attrs": {}},
			{"name": "l", "desc": "Ljava/util/List;", "attrs": {
				"Signature": "Ljava/util/List<Ljava/lang/String;>;",
				"RuntimeVisibleAnnotations": [anno("Lk/A;", json!([]))],
				"RuntimeInvisibleAnnotations": [anno("Lk/B;", json!([]))],
				"RuntimeVisibleTypeAnnotations": [ta(json!({"kind": "field"}), json!([[3, 0]]))],
				"RuntimeInvisibleTypeAnnotations": [ta(json!({"kind": "field"}), json!([]))],
				"unknown": [{"name": "Custom", "bytes": "01"}],
			}},
		],
	})));
	add("record_empty", class([61, 0], 0x31, "k/R0", Some("java/lang/Record"), vec![], vec![], json!({"Record": []})));
	{
		// frames of each kind: compact encoding yields same, same_locals_1, append, chop, full, and
		// the extended variants (offset_delta > 63)
		let mut insns = Vec::new();
		for _ in 0..200 {
			insns.push(op("nop"));
		}
		insns.push(op("return"));
		let l0 = json!([{"object": "k/F"}, "int"]);
		let frames = json!([
			{"at": 1, "locals": l0, "stack": []},
			{"at": 2, "locals": l0, "stack": ["int"]},
			{"at": 3, "locals": [{"object": "k/F"}, "int", "long", "double", "float"], "stack": []},
			{"at": 4, "locals": [{"object": "k/F"}, "int", "long"], "stack": []},
			{"at": 5, "locals": [{"object": "k/F"}, "int", "long", "null", "top", {"uninitialized": 0}, {"object": "[I"}], "stack": []},
			{"at": 6, "locals": [], "stack": ["long", "double", {"object": "java/lang/String"}]},
			{"at": 100, "locals": [], "stack": []},
			{"at": 180, "locals": [], "stack": [{"object": "java/lang/Throwable"}]},
			{"at": 181, "locals": ["top", "top", "int"], "stack": []},
			{"at": 182, "locals": [], "stack": []},
			{"at": 183, "locals": ["int"], "stack": ["int"]},
		]);
		add("frames_each_kind", simple_class("k/F", vec![method_with_code(0x1, "m", "(I)V", code(4, 8, insns, vec![], json!({"StackMapTable": frames})))], json!({})));
	}
	add("frames_initial", simple_class("k/FI", vec![
		method_with_code(0x1, "<init>", "(J[Lk/FI;D)V", code(1, 6, vec![op("nop"), op("return")], vec![], json!({"StackMapTable": [
			{"at": 1, "locals": ["uninitialized_this", "long", {"object": "[Lk/FI;"}, "double"], "stack": []}]}))),
		method_with_code(0x9, "s", "(ZBCSIF)V", code(1, 6, vec![op("nop"), op("return")], vec![], json!({"StackMapTable": [
			{"at": 1, "locals": ["int", "int", "int", "int", "int", "float"], "stack": []}]}))),
		method_with_code(0x1, "empty", "()V", code(0, 1, vec![op("return")], vec![], json!({"StackMapTable": []}))),
	], json!({})));
	add("object_init_frame", class([61, 0], 0x21, OBJ, None, vec![], vec![
		method_with_code(0x1, "<init>", "()V", code(0, 1, vec![op("nop"), op("return")], vec![], json!({"StackMapTable": [
			{"at": 1, "locals": [{"object": OBJ}], "stack": []}]}))),
	], json!({})));
	add("switches", simple_class("k/Sw", vec![method_with_code(0x9, "m", "(I)V", code(1, 1, vec![
		json!({"op": "iload", "var": 0}),
		json!({"op": "tableswitch", "default": 7, "low": -3, "targets": [7, 2, 7, 7, 2]}),
		json!({"op": "iload", "var": 0}),
		json!({"op": "lookupswitch", "default": 7, "pairs": [[-1000000, 7], [-1, 4], [0, 7], [2147483647, 4]]}),
		op("nop"),
		json!({"op": "iload", "var": 0}),
		json!({"op": "lookupswitch", "default": 7, "pairs": []}),
		op("return"),
	], vec![], json!({})))], json!({})));
	add("exception_table", simple_class("k/Et", vec![method_with_code(0x9, "m", "()V", code(1, 1, vec![
		op("nop"), op("nop"), op("nop"), op("return"), json!({"op": "astore", "var": 0}), op("return"),
	], vec![
		json!({"start": 0, "end": 6, "handler": 4}),
		json!({"start": 0, "end": 3, "handler": 4, "catch": "k/E1"}),
		json!({"start": 0, "end": 3, "handler": 4, "catch": "k/E1"}),
		json!({"start": 4, "end": 5, "handler": 4, "catch": "[I"}),
		json!({"start": 5, "end": 6, "handler": 0}),
	], json!({})))], json!({})));
	add("local_variable_tables", simple_class("k/Lv", vec![method_with_code(0x9, "m", "(Ljava/util/List;)V", code(1, 3, vec![
		op("nop"), op("nop"), op("return"),
	], vec![], json!({
		"LocalVariableTable": [
			{"start": 0, "end": 3, "name": "l", "desc": "Ljava/util/List;", "slot": 0},
			{"start": 1, "end": 3, "name": "x", "desc": "I", "slot": 1},
			{"start": 1, "end": 3, "name": "x", "desc": "I", "slot": 1},
			{"start": 3, "end": 3, "name": "dead", "desc": "J", "slot": 65535},
		],
		"LocalVariableTypeTable": [{"start": 0, "end": 3, "name": "l", "sig": "Ljava/util/List<Ljava/lang/String;>;", "slot": 0}],
		"LineNumberTable": [[0, 10], [0, 11], [1, 10], [2, 0], [2, 65535]],
	})))], json!({})));
	add("empty_code_tables", simple_class("k/Ect", vec![method_with_code(0x9, "m", "()V", code(0, 0, vec![op("return")], vec![], json!({
		"LocalVariableTable": [], "LocalVariableTypeTable": [], "LineNumberTable": [], "StackMapTable": [],
		"RuntimeVisibleTypeAnnotations": [], "RuntimeInvisibleTypeAnnotations": [],
	})))], json!({})));
	add("wide_locals", simple_class("k/W", vec![method_with_code(0x9, "m", "()V", code(2, 65535, vec![
		json!({"op": "iload", "var": 3}), json!({"op": "iload", "var": 4}), json!({"op": "iload", "var": 255}), json!({"op": "iload", "var": 256}),
		json!({"op": "lstore", "var": 65534}), json!({"op": "iinc", "var": 256, "by": 1}), json!({"op": "iinc", "var": 1, "by": 300}),
		json!({"op": "iinc", "var": 1, "by": -128}), op("return"),
	], vec![], json!({})))], json!({})));
	{
		let mut insns: Vec<Value> = all_constants().into_iter().map(|c| json!({"op": "ldc", "const": c})).collect();
		insns.push(op("return"));
		add("ldc_all_constants", simple_class("k/Ldc", vec![method_with_code(0x9, "m", "()V", code(2, 0, insns, vec![], json!({})))], json!({})));
	}
	add("indy_condy_unreferenced_bootstrap", simple_class("k/Dyn", vec![method_with_code(0x9, "m", "()V", code(2, 0, vec![
		json!({"op": "invokedynamic", "indy": indy_value()}),
		json!({"op": "invokedynamic", "indy": indy_value()}),
		json!({"op": "ldc", "const": {"dynamic": {"bsm": bsm_handle(), "args": [{"dynamic": {"bsm": bsm_handle(), "args": [], "name": "inner", "desc": "I"}}], "name": "outer", "desc": "Ljava/lang/Object;"}}}),
		op("return"),
	], vec![], json!({})))], json!({"unreferenced_bootstrap": [
		{"bsm": bsm_handle(), "args": []},
		{"bsm": bsm_handle(), "args": [{"dynamic": {"bsm": bsm_handle(), "args": [{"int": 99}], "name": "only_here", "desc": "I"}}, {"string": "s"}]},
		{"bsm": bsm_handle(), "args": []},
	]})));
	// dynamic constants nested as deep as the reader's documented limit lets them (64 below one another): below an
	// invokedynamic call site and below an ldc - a well-formed class either way
	{
		let mut chain = json!({"dynamic": {"bsm": bsm_handle(), "args": [{"int": 7}], "name": "c0", "desc": "I"}});
		for i in 1..64 { chain = json!({"dynamic": {"bsm": bsm_handle(), "args": [chain], "name": format!("c{i}"), "desc": "I"}}); }
		let mut site = indy_value();
		site["args"] = json!([chain.clone()]);
		site["bsm"] = bsm_handle();
		add("indy_condy_chain_64", simple_class("k/DynChain", vec![method_with_code(0x9, "m", "()V", code(2, 0, vec![
			json!({"op": "invokedynamic", "indy": site.clone()}), op("pop"),
			json!({"op": "invokedynamic", "indy": site}), op("pop"),
			json!({"op": "ldc", "const": chain}), op("pop"),
			op("return"),
		], vec![], json!({})))], json!({})));
	}
	add("empty_bootstrap_methods", simple_class("k/Ebm", vec![], json!({"unreferenced_bootstrap": []})));
	add("odd_strings", class([61, 0], 0x21, "k/Odd\u{0}\u{e9}\u{20ac}\u{1f600}", Some(OBJ),
		vec![member(0x2, "", "I", json!({})), member(0x2, "\u{0}", "I", json!({})), json!({"access": 2, "name": {"utf16": [0xd83d]}, "desc": "I", "attrs": {}})],
		vec![method_with_code(0x9, "<clinit>", "()V", code(1, 0, vec![
			json!({"op": "ldc", "const": {"string": {"utf16": [0xdc00, 0xd800]}}}), op("pop"),
			json!({"op": "ldc", "const": {"string": "\u{d7ff}\u{e000}"}}), op("pop"), op("return"),
		], vec![], json!({})))],
		json!({"SourceFile": {"utf16": [0xdfff]}})));
	add("unknown_attributes", class([61, 0], 0x21, "k/U", Some(OBJ),
		vec![member(0x2, "f", "I", json!({"unknown": [{"name": "Code", "bytes": "0001"}, {"name": "Zzz", "bytes": ""}]}))],
		vec![method_with_code(0x9, "m", "()V", code(0, 0, vec![op("return")], vec![], json!({"unknown": [{"name": "CodeLevel", "bytes": "ff"}, {"name": "ConstantValue", "bytes": "0001"}]}))),
			member(0x401, "n", "()V", json!({"unknown": [{"name": "A", "bytes": "02"}, {"name": "A", "bytes": "02"}, {"name": "A", "bytes": "0100"}, {"name": {"utf16": [0xd800]}, "bytes": "00"}]}))],
		json!({"unknown": [{"name": "", "bytes": "cafe"}, {"name": "LineNumberTable", "bytes": "0000"}]})));
	add("duplicate_attributes", class([61, 0], 0x21, "k/Dup", Some(OBJ),
		vec![member(0x1a, "f", "I", json!({"ConstantValue": {"int": 1}, "dup": {"ConstantValue": [{"int": 2}]}}))],
		vec![member(0x9, "m", "()V", json!({"Code": ret(), "Signature": "()V", "dup": {
			"Code": [code(1, 1, vec![op("nop"), op("return")], vec![], json!({}))],
			"Signature": ["()V", "<T:Ljava/lang/Object;>()V"],
		}}))],
		json!({"SourceFile": "a", "Deprecated": true, "dup": {"SourceFile": ["b", "a"], "Deprecated": [true]}})));
	add("jsr_ret", class([49, 0], 0x21, "k/Jsr", Some(OBJ), vec![], vec![method_with_code(0x9, "m", "()V", code(1, 300, vec![
		json!({"op": "jsr", "target": 2}), op("return"), json!({"op": "astore", "var": 1}), json!({"op": "jsr", "target": 5}), json!({"op": "ret", "var": 1}),
		json!({"op": "astore", "var": 299}), json!({"op": "ret", "var": 299}),
	], vec![], json!({})))], json!({})));
	add("far_jumps", simple_class("k/Far", vec![method_with_code(0x9, "m", "()V", far_jumps(33000))], json!({})));
	add("invokes", simple_class("k/Inv", vec![method_with_code(0x1, "m", "(Lk/I;)V", code(6, 2, vec![
		json!({"op": "invokestatic", "owner": "k/I", "name": "s", "desc": "()V", "itf": true}),
		json!({"op": "invokestatic", "owner": "k/C", "name": "s", "desc": "()V", "itf": false}),
		json!({"op": "aload", "var": 0}),
		json!({"op": "invokespecial", "owner": "k/I", "name": "d", "desc": "()V", "itf": true}),
		json!({"op": "aload", "var": 1}),
		json!({"op": "lconst_0"}),
		json!({"op": "dconst_0"}),
		json!({"op": "invokeinterface", "owner": "k/I", "name": "i", "desc": "(JD)V"}),
		json!({"op": "aload", "var": 0}),
		json!({"op": "invokevirtual", "owner": "k/Inv", "name": "m", "desc": "(Lk/I;)V", "itf": false}),
		op("return"),
	], vec![], json!({})))], json!({})));
	add("arrays", simple_class("k/Arr", vec![method_with_code(0x9, "m", "()V", code(3, 0, vec![
		op("iconst_1"), json!({"op": "newarray", "type": "boolean"}), op("pop"),
		op("iconst_1"), json!({"op": "anewarray", "class": "[I"}), op("pop"),
		op("iconst_1"), op("iconst_2"), json!({"op": "multianewarray", "class": "[[Ljava/lang/String;", "dims": 2}),
		json!({"op": "checkcast", "class": "[[Ljava/lang/Object;"}), json!({"op": "instanceof", "class": "[[Ljava/lang/Object;"}), op("pop"), op("return"),
	], vec![], json!({})))], json!({})));
	add("extreme_numbers", class([65535, 65535], 0xffff, "k/Max", Some(OBJ),
		vec![member(0xffff, "f", "I", json!({}))],
		vec![method_with_code(0xffff, "m", "()V", code(65535, 65535, vec![op("return")], vec![], json!({})))],
		json!({})));
	add("uninitialized_frames", simple_class("k/Un", vec![method_with_code(0x9, "m", "(Z)Ljava/lang/Object;", code(3, 1, vec![
		json!({"op": "new", "class": "k/Un"}), op("dup"), json!({"op": "iload", "var": 0}), json!({"op": "ifeq", "target": 4}),
		op("nop"), json!({"op": "invokespecial", "owner": "k/Un", "name": "<init>", "desc": "()V", "itf": false}), op("areturn"),
	], vec![], json!({"StackMapTable": [{"at": 4, "locals": ["int"], "stack": [{"uninitialized": 0}, {"uninitialized": 0}]}]})))], json!({})));
	for (_, f) in v.iter_mut() {
		crate::facts::canonicalize(f);
	}
	v
}

/// All instruction mnemonics of the facts format.
pub fn all_mnemonics() -> Vec<&'static str> {
	let mut v: Vec<&'static str> = Vec::new();
	for o in opcodes::OPS.iter() {
		if o.kind != Kind::Wide && !v.contains(&o.name) {
			v.push(o.name);
		}
	}
	v
}
