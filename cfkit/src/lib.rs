//! cfkit — independent JVM class-file parser / assembler and the *class facts* format (see FACTS.md).
pub mod facts;
pub mod opcodes;
pub mod parse;
pub mod asm;
pub mod refs;
pub mod corpus;
pub mod samples;
pub mod proj_duke;
pub mod duke_diff;
