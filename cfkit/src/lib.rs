pub mod facts;
pub mod opcodes;
