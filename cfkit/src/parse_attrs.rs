// included into parse.rs: attribute tables

const CONST_VALUE_KINDS: &[&str] = &["Integer", "Float", "Long", "Double", "String"];

impl<'a> P<'a> {
	fn attributes(&mut self, level: Level, mctx: Option<&MethodCtx>, cctx: Option<&CodeCtx>) -> PResult<Map<String, Value>> {
		let n = self.u2("attrs_count", "count")?;
		let mut out: Map<String, Value> = Map::new();
		let mut unknown: Vec<Value> = Vec::new();
		let mut dup: Map<String, Value> = Map::new();
		let mut lnt: Option<Vec<Value>> = None;
		let mut lvt: Option<Vec<Value>> = None;
		let mut lvtt: Option<Vec<Value>> = None;
		for i in 0..n {
			let saved = self.path.len();
			if saved > 0 {
				self.path.push('.');
			}
			self.path.push_str(&format!("attr[{i}]"));
			let r = self.attribute(level, mctx, cctx);
			self.path.truncate(saved);
			let (name, name_s, val) = r?;
			match val {
				AttrVal::Unknown(bytes) => unknown.push(jobj!({"name": name_s, "bytes": bytes})),
				AttrVal::Skip => {}
				AttrVal::Lnt(rows) => lnt.get_or_insert_with(Vec::new).extend(rows),
				AttrVal::Lvt(rows) => lvt.get_or_insert_with(Vec::new).extend(rows),
				AttrVal::Lvtt(rows) => lvtt.get_or_insert_with(Vec::new).extend(rows),
				AttrVal::Val(v) => {
					if out.contains_key(&name) {
						if let Value::Array(l) = dup.entry(name).or_insert_with(|| Value::Array(Vec::new())) {
							l.push(v);
						}
					} else {
						out.insert(name, v);
					}
				}
			}
		}
		if let Some(mut rows) = lnt {
			canon_sort_dedup(&mut rows);
			out.insert("LineNumberTable".into(), Value::Array(rows));
		}
		if let Some(mut rows) = lvt {
			canon_sort(&mut rows);
			out.insert("LocalVariableTable".into(), Value::Array(rows));
		}
		if let Some(mut rows) = lvtt {
			canon_sort(&mut rows);
			out.insert("LocalVariableTypeTable".into(), Value::Array(rows));
		}
		if !unknown.is_empty() {
			canon_sort(&mut unknown);
			out.insert("unknown".into(), Value::Array(unknown));
		}
		if !dup.is_empty() {
			out.insert("dup".into(), Value::Object(dup));
		}
		Ok(out)
	}

	fn attribute(&mut self, level: Level, mctx: Option<&MethodCtx>, cctx: Option<&CodeCtx>) -> PResult<(String, Value, AttrVal)> {
		let name_i = self.cp("attr_name", &["Utf8"])?;
		let len_at = self.pos;
		let len = self.u4("attr_len", "length")? as usize;
		self.max_attr_len = self.max_attr_len.max(len);
		let name_s = self.utf8(name_i)?;
		let name: String = match &name_s {
			Value::String(s) => s.clone(),
			_ => String::new(),
		};
		let start = self.pos;
		let end = match start.checked_add(len) {
			Some(e) if e <= self.limit => e,
			_ => {
				return err(len_at, format!("{}: attribute_length {len} reaches beyond the enclosing structure / end of input", self.path));
			}
		};
		use Level::*;
		let known = matches!(
			(level, name.as_str()),
			(Field, "ConstantValue")
				| (Method, "Code") | (Method, "Exceptions")
				| (Class, "InnerClasses") | (Class, "EnclosingMethod")
				| (Class | Field | Method, "Synthetic") | (Class | Field | Method, "Deprecated")
				| (Class | Field | Method | Record, "Signature")
				| (Class, "SourceFile") | (Class, "SourceDebugExtension")
				| (Class | Field | Method | Record, "RuntimeVisibleAnnotations")
				| (Class | Field | Method | Record, "RuntimeInvisibleAnnotations")
				| (Method, "RuntimeVisibleParameterAnnotations") | (Method, "RuntimeInvisibleParameterAnnotations")
				| (_, "RuntimeVisibleTypeAnnotations") | (_, "RuntimeInvisibleTypeAnnotations")
				| (Method, "AnnotationDefault") | (Method, "MethodParameters")
				| (Class, "BootstrapMethods") | (Class, "Module") | (Class, "ModulePackages") | (Class, "ModuleMainClass")
				| (Class, "NestHost") | (Class, "NestMembers") | (Class, "Record") | (Class, "PermittedSubclasses")
				| (Code, "LineNumberTable") | (Code, "LocalVariableTable") | (Code, "LocalVariableTypeTable") | (Code, "StackMapTable")
		);
		if !known {
			let old = self.limit;
			self.limit = end;
			let body = self.take(len, "attr_body_unknown", "bytes");
			self.limit = old;
			let body = body?;
			self.lengths.push(json!([len, len, self.path.clone()]));
			return Ok((name, name_s, AttrVal::Unknown(hex(body))));
		}
		self.path.push(':');
		self.path.push_str(&name);
		if level == Class && name == "BootstrapMethods" {
			// parsed up front by skim_for_bootstrap_methods (spans are merged later)
			self.pos = end;
			self.lengths.push(json!([len, len, self.path.clone()]));
			return Ok((name, name_s, AttrVal::Skip));
		}
		let old = self.limit;
		self.limit = end;
		let r = self.attribute_body(level, &name, len, mctx, cctx);
		self.limit = old;
		let v = r?;
		if self.pos != end {
			return err(len_at, format!("{}: attribute_length {len} but the body occupies {} bytes", self.path, self.pos - start));
		}
		self.lengths.push(json!([len, self.pos - start, self.path.clone()]));
		Ok((name, name_s, v))
	}

	fn attribute_body(&mut self, level: Level, name: &str, len: usize, mctx: Option<&MethodCtx>, cctx: Option<&CodeCtx>) -> PResult<AttrVal> {
		let v = match name {
			"ConstantValue" => {
				let i = self.cp("cv_index:cp:ConstantValue", CONST_VALUE_KINDS)?;
				self.loadable(i)?
			}
			"Code" => match mctx {
				Some(m) => self.code(m)?,
				None => return err(self.pos, "internal: Code outside a method"),
			},
			"Exceptions" => Value::Array(self.class_list("exceptions_count", "exceptions_class:cp:Class")?),
			"InnerClasses" => {
				let n = self.u2("ic_count", "count")?;
				let mut rows = Vec::new();
				for i in 0..n {
					let row = self.with_path(&format!("row[{i}]"), |p| {
						let inner = p.cp_class("ic_inner:cp:Class")?;
						let outer = p.cp_opt("ic_outer:cp:Class", &["Class"])?;
						let nm = p.cp_opt("ic_name:cp:Utf8", &["Utf8"])?;
						let access = p.u2("ic_access", "flags")?;
						let mut m = Map::new();
						m.insert("inner".into(), inner);
						if outer != 0 {
							m.insert("outer".into(), p.class_name(outer)?);
						}
						if nm != 0 {
							m.insert("name".into(), p.utf8(nm)?);
						}
						m.insert("access".into(), json!(access));
						Ok(Value::Object(m))
					})?;
					rows.push(row);
				}
				Value::Array(rows)
			}
			"EnclosingMethod" => {
				let class = self.cp_class("em_class:cp:Class")?;
				let at = self.pos;
				let m = self.cp_opt("em_method:cp:NameAndType", &["NameAndType"])?;
				let mut o = Map::new();
				o.insert("class".into(), class);
				if m != 0 {
					let (n, d) = self.nat(m)?;
					if let E::Nat(_, di) = self.entry(m) {
						if !facts::is_method_descriptor(self.utf8_units(*di)?) {
							return err(at, "EnclosingMethod: NameAndType is not a method descriptor");
						}
					}
					o.insert("method".into(), jobj!({"name": n, "desc": d}));
				}
				Value::Object(o)
			}
			"Synthetic" | "Deprecated" => {
				if len != 0 {
					return err(self.pos, format!("{name}: attribute_length must be 0"));
				}
				Value::Bool(true)
			}
			"Signature" => self.cp_utf8("signature:cp:Utf8")?,
			"SourceFile" => self.cp_utf8("sourcefile:cp:Utf8")?,
			"SourceDebugExtension" => {
				let b = self.take(len, "sde_bytes", "bytes")?;
				match facts::decode_mutf8(b) {
					Ok(u) => s_from_units(&u),
					Err(_) => jobj!({"hex": hex(b)}),
				}
			}
			"RuntimeVisibleAnnotations" | "RuntimeInvisibleAnnotations" => Value::Array(self.annotation_list()?),
			"RuntimeVisibleParameterAnnotations" | "RuntimeInvisibleParameterAnnotations" => {
				let n = self.u1("pa_num_parameters", "count")?;
				let mut ps = Vec::new();
				for i in 0..n {
					let l = self.with_path(&format!("param[{i}]"), |p| p.annotation_list())?;
					ps.push(Value::Array(l));
				}
				Value::Array(ps)
			}
			"RuntimeVisibleTypeAnnotations" | "RuntimeInvisibleTypeAnnotations" => {
				let n = self.u2("ta_count", "count")?;
				let mut l = Vec::new();
				for i in 0..n {
					let a = self.with_path(&format!("anno[{i}]"), |p| p.type_annotation(level, cctx))?;
					l.push(a);
				}
				Value::Array(l)
			}
			"AnnotationDefault" => self.element_value(0)?,
			"MethodParameters" => {
				let n = self.u1("mp_count", "count")?;
				let mut l = Vec::new();
				for i in 0..n {
					let row = self.with_path(&format!("param[{i}]"), |p| {
						let nm = p.cp_opt("mp_name:cp:Utf8", &["Utf8"])?;
						let access = p.u2("mp_access", "flags")?;
						let mut m = Map::new();
						if nm != 0 {
							m.insert("name".into(), p.utf8(nm)?);
						}
						m.insert("access".into(), json!(access));
						Ok(Value::Object(m))
					})?;
					l.push(row);
				}
				Value::Array(l)
			}
			"Module" => self.module()?,
			"ModulePackages" => {
				let n = self.u2("modpkg_count", "count")?;
				let mut l = Vec::new();
				for _ in 0..n {
					l.push(self.cp_named("modpkg_package:cp:Package", "Package")?);
				}
				Value::Array(l)
			}
			"ModuleMainClass" => self.cp_class("modmain_class:cp:Class")?,
			"NestHost" => self.cp_class("nesthost_class:cp:Class")?,
			"NestMembers" => Value::Array(self.class_list("nestmembers_count", "nestmembers_class:cp:Class")?),
			"PermittedSubclasses" => Value::Array(self.class_list("permitted_count", "permitted_class:cp:Class")?),
			"Record" => {
				let n = self.u2("rec_count", "count")?;
				let mut l = Vec::new();
				for i in 0..n {
					let c = self.with_path(&format!("component[{i}]"), |p| {
						let name = p.cp_utf8("rec_name:cp:Utf8")?;
						let at = p.pos;
						let di = p.cp("rec_desc:cp:Utf8", &["Utf8"])?;
						if !facts::is_field_descriptor(p.utf8_units(di)?) {
							return err(at, "Record: malformed component descriptor");
						}
						let desc = p.utf8(di)?;
						let attrs = p.attributes(Level::Record, None, None)?;
						Ok(jobj!({"name": name, "desc": desc, "attrs": attrs}))
					})?;
					l.push(c);
				}
				Value::Array(l)
			}
			"LineNumberTable" => {
				let c = self.need_code(cctx)?;
				let n = self.u2("lnt_count", "count")?;
				let mut rows = Vec::new();
				for _ in 0..n {
					let at = self.pos;
					let pc = self.u2("lnt_start_pc", "pc")?;
					let line = self.u2("lnt_line", "value")?;
					let i = self.pc_idx(c, pc as i64, false, at, "LineNumberTable start_pc")?;
					rows.push(json!([i, line]));
				}
				return Ok(AttrVal::Lnt(rows));
			}
			"LocalVariableTable" | "LocalVariableTypeTable" => {
				let c = self.need_code(cctx)?;
				let is_t = name == "LocalVariableTypeTable";
				let roles: [&str; 6] = if is_t {
					["lvtt_count", "lvtt_start_pc", "lvtt_length", "lvtt_name:cp:Utf8", "lvtt_signature:cp:Utf8", "lvtt_index"]
				} else {
					["lvt_count", "lvt_start_pc", "lvt_length", "lvt_name:cp:Utf8", "lvt_descriptor:cp:Utf8", "lvt_index"]
				};
				let n = self.u2(roles[0], "count")?;
				let mut rows = Vec::new();
				for _ in 0..n {
					let at = self.pos;
					let pc = self.u2(roles[1], "pc")?;
					let ln = self.u2(roles[2], "pc")?;
					let nm = self.cp_utf8(roles[3])?;
					let d = self.cp_utf8(roles[4])?;
					let slot = self.u2(roles[5], "value")?;
					let s = self.pc_idx(c, pc as i64, ln == 0, at, "local variable start_pc")?;
					let e = self.pc_idx(c, pc as i64 + ln as i64, true, at, "local variable start_pc+length")?;
					let mut m = Map::new();
					m.insert("start".into(), json!(s));
					m.insert("end".into(), json!(e));
					m.insert("name".into(), nm);
					m.insert(if is_t { "sig" } else { "desc" }.into(), d);
					m.insert("slot".into(), json!(slot));
					rows.push(Value::Object(m));
				}
				return Ok(if is_t { AttrVal::Lvtt(rows) } else { AttrVal::Lvt(rows) });
			}
			"StackMapTable" => {
				let c = self.need_code(cctx)?;
				self.stack_map_table(c)?
			}
			other => return err(self.pos, format!("internal: unhandled attribute {other}")),
		};
		Ok(AttrVal::Val(v))
	}

	fn need_code<'c>(&self, cctx: Option<&'c CodeCtx>) -> PResult<&'c CodeCtx> {
		match cctx {
			Some(c) => Ok(c),
			None => err(self.pos, "internal: code attribute outside Code"),
		}
	}

	/// Maps a byte offset to an instruction index.
	fn pc_idx(&self, c: &CodeCtx, pc: i64, allow_end: bool, at: usize, what: &str) -> PResult<usize> {
		if pc < 0 || pc > c.code_len as i64 {
			return err(at, format!("{}: {what} {pc} outside the code array (length {})", self.path, c.code_len));
		}
		if pc as usize == c.code_len && !allow_end {
			return err(at, format!("{}: {what} {pc} equals code_length", self.path));
		}
		match c.idx_of.get(pc as usize) {
			Some(&i) if i != u32::MAX => Ok(i as usize),
			_ => err(at, format!("{}: {what} {pc} is not an instruction boundary", self.path)),
		}
	}

	fn class_list(&mut self, count_role: &str, role: &str) -> PResult<Vec<Value>> {
		let n = self.u2(count_role, "count")?;
		let mut l = Vec::with_capacity(n as usize);
		for _ in 0..n {
			l.push(self.cp_class(role)?);
		}
		Ok(l)
	}

	/// Reads an index of a Module or Package entry and returns its name.
	fn cp_named(&mut self, role: &str, kind: &'static str) -> PResult<Value> {
		let i = self.cp(role, &[kind])?;
		match self.entry(i) {
			E::Module(n) | E::Package(n) => self.utf8(*n),
			_ => err(self.pos, "internal: not a Module/Package"),
		}
	}

	fn module(&mut self) -> PResult<Value> {
		let mut m = Map::new();
		m.insert("name".into(), self.cp_named("mod_name:cp:Module", "Module")?);
		m.insert("access".into(), json!(self.u2("mod_flags", "flags")?));
		let v = self.cp_opt("mod_version:cp:Utf8", &["Utf8"])?;
		if v != 0 {
			m.insert("version".into(), self.utf8(v)?);
		}
		let n = self.u2("mod_requires_count", "count")?;
		let mut l = Vec::new();
		for i in 0..n {
			let r = self.with_path(&format!("requires[{i}]"), |p| {
				let mut r = Map::new();
				r.insert("name".into(), p.cp_named("mod_requires:cp:Module", "Module")?);
				r.insert("access".into(), json!(p.u2("mod_requires_flags", "flags")?));
				let v = p.cp_opt("mod_requires_version:cp:Utf8", &["Utf8"])?;
				if v != 0 {
					r.insert("version".into(), p.utf8(v)?);
				}
				Ok(Value::Object(r))
			})?;
			l.push(r);
		}
		m.insert("requires".into(), Value::Array(l));
		for which in ["exports", "opens"] {
			let n = self.u2(&format!("mod_{which}_count"), "count")?;
			let mut l = Vec::new();
			for i in 0..n {
				let r = self.with_path(&format!("{which}[{i}]"), |p| {
					let mut r = Map::new();
					r.insert("package".into(), p.cp_named(&format!("mod_{which}:cp:Package"), "Package")?);
					r.insert("access".into(), json!(p.u2(&format!("mod_{which}_flags"), "flags")?));
					let nt = p.u2(&format!("mod_{which}_to_count"), "count")?;
					let mut to = Vec::new();
					for _ in 0..nt {
						to.push(p.cp_named(&format!("mod_{which}_to:cp:Module"), "Module")?);
					}
					r.insert("to".into(), Value::Array(to));
					Ok(Value::Object(r))
				})?;
				l.push(r);
			}
			m.insert(which.into(), Value::Array(l));
		}
		m.insert("uses".into(), Value::Array(self.class_list("mod_uses_count", "mod_uses:cp:Class")?));
		let n = self.u2("mod_provides_count", "count")?;
		let mut l = Vec::new();
		for i in 0..n {
			let r = self.with_path(&format!("provides[{i}]"), |p| {
				let c = p.cp_class("mod_provides:cp:Class")?;
				let with = p.class_list("mod_provides_with_count", "mod_provides_with:cp:Class")?;
				Ok(jobj!({"class": c, "with": with}))
			})?;
			l.push(r);
		}
		m.insert("provides".into(), Value::Array(l));
		Ok(Value::Object(m))
	}

	// ---- annotations -----------------------------------------------------------------------

	fn annotation_list(&mut self) -> PResult<Vec<Value>> {
		let n = self.u2("anno_count", "count")?;
		let mut l = Vec::new();
		for i in 0..n {
			let a = self.with_path(&format!("anno[{i}]"), |p| p.annotation(0))?;
			l.push(a);
		}
		Ok(l)
	}

	fn annotation(&mut self, depth: usize) -> PResult<Value> {
		let t = self.cp_utf8("anno_type:cp:Utf8")?;
		let pairs = self.element_value_pairs(depth)?;
		Ok(jobj!({"type": t, "pairs": pairs}))
	}

	fn element_value_pairs(&mut self, depth: usize) -> PResult<Vec<Value>> {
		let n = self.u2("anno_num_pairs", "count")?;
		let mut pairs = Vec::new();
		for _ in 0..n {
			let name = self.cp_utf8("element_name:cp:Utf8")?;
			let v = self.element_value(depth + 1)?;
			pairs.push(json!([name, v]));
		}
		Ok(pairs)
	}

	fn element_value(&mut self, depth: usize) -> PResult<Value> {
		if depth > MAX_EV_DEPTH {
			return err(self.pos, "element values nested too deeply");
		}
		let at = self.pos;
		let tag = self.u1("element_tag", "tag")?;
		let key = (tag as char).to_string();
		let v = match tag {
			b'B' | b'C' | b'I' | b'S' | b'Z' => {
				let i = self.cp("element_const:cp:Integer", &["Integer"])?;
				match self.entry(i) {
					E::Int(v) => json!(*v),
					_ => Value::Null,
				}
			}
			b'F' => {
				let i = self.cp("element_const:cp:Float", &["Float"])?;
				match self.entry(i) {
					E::Float(v) => json!(*v),
					_ => Value::Null,
				}
			}
			b'J' => {
				let i = self.cp("element_const:cp:Long", &["Long"])?;
				match self.entry(i) {
					E::Long(v) => json!(v.to_string()),
					_ => Value::Null,
				}
			}
			b'D' => {
				let i = self.cp("element_const:cp:Double", &["Double"])?;
				match self.entry(i) {
					E::Double(v) => json!(v.to_string()),
					_ => Value::Null,
				}
			}
			b's' => self.cp_utf8("element_const:cp:Utf8")?,
			b'e' => {
				let t = self.cp_utf8("element_enum_type:cp:Utf8")?;
				let n = self.cp_utf8("element_enum_name:cp:Utf8")?;
				jobj!({"type": t, "name": n})
			}
			b'c' => self.cp_utf8("element_class:cp:Utf8")?,
			b'@' => self.annotation(depth + 1)?,
			b'[' => {
				let n = self.u2("element_array_count", "count")?;
				let mut l = Vec::new();
				for _ in 0..n {
					l.push(self.element_value(depth + 1)?);
				}
				Value::Array(l)
			}
			t => return err(at, format!("{}: undefined element_value tag {t:#04x}", self.path)),
		};
		let mut m = Map::new();
		m.insert(key, v);
		Ok(Value::Object(m))
	}

	fn type_annotation(&mut self, level: Level, cctx: Option<&CodeCtx>) -> PResult<Value> {
		let at = self.pos;
		let tt = self.u1("ta_target_type", "tag")?;
		let mut t = Map::new();
		let allowed: &[Level] = match tt {
			0x00 | 0x10 | 0x11 => &[Level::Class],
			0x01 | 0x12 | 0x14..=0x17 => &[Level::Method],
			0x13 => &[Level::Field, Level::Record],
			0x40..=0x4b => &[Level::Code],
			_ => return err(at, format!("{}: undefined target_type {tt:#04x}", self.path)),
		};
		if !allowed.contains(&level) {
			return err(at, format!("{}: target_type {tt:#04x} not allowed at this location", self.path));
		}
		let kind = match tt {
			0x00 => "class_type_parameter",
			0x01 => "method_type_parameter",
			0x10 => "class_extends",
			0x11 => "class_type_parameter_bound",
			0x12 => "method_type_parameter_bound",
			0x13 => "field",
			0x14 => "method_return",
			0x15 => "method_receiver",
			0x16 => "method_formal_parameter",
			0x17 => "throws",
			0x40 => "local_variable",
			0x41 => "resource_variable",
			0x42 => "exception_parameter",
			0x43 => "instanceof",
			0x44 => "new",
			0x45 => "constructor_reference",
			0x46 => "method_reference",
			0x47 => "cast",
			0x48 => "constructor_invocation_type_argument",
			0x49 => "method_invocation_type_argument",
			0x4a => "constructor_reference_type_argument",
			_ => "method_reference_type_argument",
		};
		t.insert("kind".into(), json!(kind));
		match tt {
			0x00 | 0x01 | 0x16 => {
				t.insert("index".into(), json!(self.u1("ta_index", "value")?));
			}
			0x10 | 0x17 | 0x42 => {
				t.insert("index".into(), json!(self.u2("ta_index", "value")?));
			}
			0x11 | 0x12 => {
				t.insert("param".into(), json!(self.u1("ta_param_index", "value")?));
				t.insert("bound".into(), json!(self.u1("ta_bound_index", "value")?));
			}
			0x13..=0x15 => {}
			0x40 | 0x41 => {
				let c = self.need_code(cctx)?;
				let n = self.u2("ta_table_count", "count")?;
				let mut rows = Vec::new();
				for _ in 0..n {
					let at = self.pos;
					let pc = self.u2("ta_start_pc", "pc")?;
					let ln = self.u2("ta_length", "pc")?;
					let slot = self.u2("ta_index", "value")?;
					let s = self.pc_idx(c, pc as i64, true, at, "localvar_target start_pc")?;
					let e = self.pc_idx(c, pc as i64 + ln as i64, true, at, "localvar_target start_pc+length")?;
					rows.push(jobj!({"start": s, "end": e, "slot": slot}));
				}
				t.insert("table".into(), Value::Array(rows));
			}
			_ => {
				let c = self.need_code(cctx)?;
				let at = self.pos;
				let pc = self.u2("ta_offset", "pc")?;
				let i = self.pc_idx(c, pc as i64, false, at, "type annotation offset")?;
				t.insert("insn".into(), json!(i));
				if tt >= 0x47 {
					t.insert("index".into(), json!(self.u1("ta_type_argument_index", "value")?));
				}
			}
		}
		let pl = self.u1("ta_path_length", "count")?;
		let mut path = Vec::new();
		for _ in 0..pl {
			let at = self.pos;
			let k = self.u1("ta_path_kind", "tag")?;
			let a = self.u1("ta_path_arg", "value")?;
			if k > 3 {
				return err(at, format!("{}: undefined type_path_kind {k}", self.path));
			}
			if k != 3 && a != 0 {
				return err(at, format!("{}: type_argument_index {a} must be 0 for type_path_kind {k}", self.path));
			}
			path.push(json!([k, a]));
		}
		let ty = self.cp_utf8("anno_type:cp:Utf8")?;
		let pairs = self.element_value_pairs(0)?;
		Ok(jobj!({"target": t, "path": path, "type": ty, "pairs": pairs}))
	}
}

enum AttrVal {
	Val(Value),
	Unknown(String),
	Skip,
	Lnt(Vec<Value>),
	Lvt(Vec<Value>),
	Lvtt(Vec<Value>),
}
