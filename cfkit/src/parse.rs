//! Strict class-file parser / validator, written from JVMS (Java SE 21) chapter 4 alone.
//!
//! See `FACTS.md` for the output formats. Nothing here uses the code under test.

use crate::facts::{self, canon_sort, canon_sort_dedup, hex, s_from_units, FrameState};
use crate::opcodes::{self, Kind as OpKind};
use serde_json::{json, Map, Value};

#[derive(Debug, Clone, PartialEq, Eq)]
pub struct ParseError {
	pub offset: usize,
	pub msg: String,
}

impl std::fmt::Display for ParseError {
	fn fmt(&self, f: &mut std::fmt::Formatter<'_>) -> std::fmt::Result {
		write!(f, "class file error at offset {}: {}", self.offset, self.msg)
	}
}
impl std::error::Error for ParseError {}

type PResult<T> = Result<T, ParseError>;

/// Builds a JSON object, *moving* the values (unlike `json!`, which serialises by reference).
macro_rules! jobj {
	({ $($k:literal : $v:expr),* $(,)? }) => {{
		let mut m = Map::new();
		$( m.insert($k.to_string(), Value::from($v)); )*
		Value::Object(m)
	}};
}

#[derive(Debug, Clone, PartialEq, Eq)]
pub struct Span {
	pub off: usize,
	pub len: usize,
	pub role: String,
	pub path: String,
	/// coarse class of the role, see FACTS.md §7.3
	pub class: &'static str,
}

#[derive(Debug, Clone)]
pub struct Parsed {
	pub facts: Value,
	pub layout: Value,
	pub spans: Vec<Span>,
	pub raw: Value,
	pub consumed: usize,
}

pub fn parse_class(bytes: &[u8]) -> Result<Parsed, ParseError> {
	let mut p = P::new(bytes);
	p.class_file()
}

/// Like [`parse_class`] but does not collect `spans` and `raw.uses` (both come back empty). Same
/// validation, same facts and layout; roughly twice as fast.
pub fn parse_class_facts_only(bytes: &[u8]) -> Result<Parsed, ParseError> {
	let mut p = P::new(bytes);
	p.light = true;
	p.class_file()
}

// ---------------------------------------------------------------------------------------------

#[derive(Debug, Clone)]
enum E {
	None,
	Utf8(Vec<u16>),
	Int(i32),
	Float(u32),
	Long(i64),
	Double(u64),
	Class(u16),
	Str(u16),
	Field(u16, u16),
	Method(u16, u16),
	IMethod(u16, u16),
	Nat(u16, u16),
	Handle(u8, u16),
	MType(u16),
	Dyn(u16, u16),
	Indy(u16, u16),
	Module(u16),
	Package(u16),
}

impl E {
	fn kind(&self) -> &'static str {
		match self {
			E::None => "-",
			E::Utf8(_) => "Utf8",
			E::Int(_) => "Integer",
			E::Float(_) => "Float",
			E::Long(_) => "Long",
			E::Double(_) => "Double",
			E::Class(_) => "Class",
			E::Str(_) => "String",
			E::Field(..) => "Fieldref",
			E::Method(..) => "Methodref",
			E::IMethod(..) => "InterfaceMethodref",
			E::Nat(..) => "NameAndType",
			E::Handle(..) => "MethodHandle",
			E::MType(_) => "MethodType",
			E::Dyn(..) => "Dynamic",
			E::Indy(..) => "InvokeDynamic",
			E::Module(_) => "Module",
			E::Package(_) => "Package",
		}
	}
}

const LOADABLE: &[&str] = &["Integer", "Float", "Long", "Double", "Class", "String", "MethodHandle", "MethodType", "Dynamic"];
const LOADABLE1: &[&str] = &["Integer", "Float", "Class", "String", "MethodHandle", "MethodType", "Dynamic"];
const LOADABLE2: &[&str] = &["Long", "Double", "Dynamic"];

pub const HANDLE_KINDS: [&str; 9] =
	["getfield", "getstatic", "putfield", "putstatic", "invokevirtual", "invokestatic", "invokespecial", "newinvokespecial", "invokeinterface"];

const MAX_DYN_DEPTH: usize = 300;
const MAX_DYN_NODES: usize = 200_000;
const MAX_EV_DEPTH: usize = 64;

#[derive(Clone, Copy, PartialEq, Eq, Debug)]
enum Level {
	Class,
	Field,
	Method,
	Code,
	Record,
}

/// Context of the Code attribute being parsed.
struct CodeCtx {
	code_len: usize,
	/// instruction index per byte offset (`u32::MAX` = not a boundary); entry `code_len` = number of instructions
	idx_of: Vec<u32>,
	initial_locals: Vec<Value>,
}

struct MethodCtx {
	access: u16,
	name: Value,
	desc: Value,
}

struct P<'a> {
	b: &'a [u8],
	pos: usize,
	limit: usize,
	spans: Vec<Span>,
	path: String,
	pool: Vec<E>,
	uses: Vec<Value>,
	lengths: Vec<Value>,
	bsm: Vec<(u16, Vec<u16>)>,
	bsm_mark: Vec<bool>,
	has_bsm_attr: bool,
	bsm_body: Option<(usize, usize)>,
	budget: usize,
	dyn_stack: Vec<u16>,
	this_name: Value,
	max_code_len: usize,
	max_attr_len: usize,
	layout: Vec<Value>,
	light: bool,
	cur_method: Option<usize>,
	layout_method: Option<usize>,
}

fn err<T>(offset: usize, msg: impl Into<String>) -> PResult<T> {
	Err(ParseError { offset, msg: msg.into() })
}

impl<'a> P<'a> {
	fn new(b: &'a [u8]) -> P<'a> {
		P {
			b,
			pos: 0,
			limit: b.len(),
			spans: Vec::new(),
			path: String::new(),
			pool: Vec::new(),
			uses: Vec::new(),
			lengths: Vec::new(),
			bsm: Vec::new(),
			bsm_mark: Vec::new(),
			has_bsm_attr: false,
			bsm_body: None,
			budget: MAX_DYN_NODES,
			dyn_stack: Vec::new(),
			this_name: Value::Null,
			max_code_len: 0,
			max_attr_len: 0,
			layout: Vec::new(),
			light: false,
			cur_method: None,
			layout_method: None,
		}
	}

	// ---- primitive reads -------------------------------------------------------------------

	fn take(&mut self, n: usize, role: &str, class: &'static str) -> PResult<&'a [u8]> {
		let end = match self.pos.checked_add(n) {
			Some(e) => e,
			None => return err(self.pos, "length overflow"),
		};
		if end > self.limit {
			return if self.limit >= self.b.len() {
				err(self.pos, format!("unexpected end of input reading {role} ({n} bytes) at {}", self.path))
			} else {
				err(self.pos, format!("{role} ({n} bytes) at {} runs over the end of the enclosing structure (ends at {})", self.path, self.limit))
			};
		}
		let s = match self.b.get(self.pos..end) {
			Some(s) => s,
			None => return err(self.pos, "unexpected end of input"),
		};
		if n > 0 && !self.light {
			self.spans.push(Span { off: self.pos, len: n, role: role.to_owned(), path: self.path.clone(), class });
		}
		self.pos = end;
		Ok(s)
	}

	fn u1(&mut self, role: &str, class: &'static str) -> PResult<u8> {
		let s = self.take(1, role, class)?;
		Ok(s.first().copied().unwrap_or(0))
	}
	fn u2(&mut self, role: &str, class: &'static str) -> PResult<u16> {
		let s = self.take(2, role, class)?;
		Ok(((*s.first().unwrap_or(&0) as u16) << 8) | *s.get(1).unwrap_or(&0) as u16)
	}
	fn u4(&mut self, role: &str, class: &'static str) -> PResult<u32> {
		let s = self.take(4, role, class)?;
		let mut v = 0u32;
		for i in 0..4 {
			v = (v << 8) | *s.get(i).unwrap_or(&0) as u32;
		}
		Ok(v)
	}

	fn with_path<T>(&mut self, seg: &str, f: impl FnOnce(&mut Self) -> PResult<T>) -> PResult<T> {
		let saved = self.path.len();
		if saved > 0 && !seg.starts_with('[') {
			self.path.push('.');
		}
		self.path.push_str(seg);
		let r = f(self);
		self.path.truncate(saved);
		r
	}

	// ---- pool access -----------------------------------------------------------------------

	fn entry(&self, idx: u16) -> &E {
		self.pool.get(idx as usize).unwrap_or(&E::None)
	}

	/// Checks that `idx` designates an entry of one of the expected kinds.
	fn check_kind(&self, idx: u16, expected: &[&str], at: usize, what: &str) -> PResult<()> {
		if idx == 0 {
			return err(at, format!("{what}: constant pool index 0"));
		}
		if idx as usize >= self.pool.len() {
			return err(at, format!("{what}: constant pool index {idx} out of range (count {})", self.pool.len()));
		}
		let k = self.entry(idx).kind();
		if k == "-" {
			return err(at, format!("{what}: constant pool index {idx} is the unusable slot after a Long/Double"));
		}
		if !expected.contains(&k) {
			return err(at, format!("{what}: constant pool index {idx} is a {k}, expected {}", expected.join("|")));
		}
		Ok(())
	}

	fn record_use(&mut self, idx: u16, expected: &[&str]) {
		if self.light {
			return;
		}
		self.uses.push(json!([idx, expected, self.path.clone()]));
	}

	/// Reads a u2 pool index that must designate one of the expected kinds.
	fn cp(&mut self, role: &str, expected: &[&str]) -> PResult<u16> {
		let at = self.pos;
		let idx = self.u2(role, "cp_index")?;
		self.record_use(idx, expected);
		self.check_kind(idx, expected, at, role)?;
		Ok(idx)
	}

	/// Like `cp`, but 0 is allowed (returns 0).
	fn cp_opt(&mut self, role: &str, expected: &[&str]) -> PResult<u16> {
		let at = self.pos;
		let idx = self.u2(role, "cp_index")?;
		if idx == 0 {
			let mut e: Vec<&str> = expected.to_vec();
			e.push("0");
			self.uses.push(json!([idx, e, self.path.clone()]));
			return Ok(0);
		}
		self.record_use(idx, expected);
		self.check_kind(idx, expected, at, role)?;
		Ok(idx)
	}

	fn utf8_units(&self, idx: u16) -> PResult<&[u16]> {
		match self.entry(idx) {
			E::Utf8(u) => Ok(u),
			_ => err(self.pos, format!("internal: index {idx} is not a Utf8")),
		}
	}
	fn utf8(&self, idx: u16) -> PResult<Value> {
		Ok(s_from_units(self.utf8_units(idx)?))
	}
	fn cp_utf8(&mut self, role: &str) -> PResult<Value> {
		let i = self.cp(role, &["Utf8"])?;
		self.utf8(i)
	}
	fn class_name(&self, idx: u16) -> PResult<Value> {
		match self.entry(idx) {
			E::Class(n) => self.utf8(*n),
			_ => err(self.pos, format!("internal: index {idx} is not a Class")),
		}
	}
	fn cp_class(&mut self, role: &str) -> PResult<Value> {
		let i = self.cp(role, &["Class"])?;
		self.class_name(i)
	}
	fn nat(&self, idx: u16) -> PResult<(Value, Value)> {
		match self.entry(idx) {
			E::Nat(n, d) => Ok((self.utf8(*n)?, self.utf8(*d)?)),
			_ => err(self.pos, format!("internal: index {idx} is not a NameAndType")),
		}
	}
	/// (owner, name, desc, is InterfaceMethodref)
	fn member_ref(&self, idx: u16) -> PResult<(Value, Value, Value, bool)> {
		let (c, n, itf) = match self.entry(idx) {
			E::Field(c, n) => (*c, *n, false),
			E::Method(c, n) => (*c, *n, false),
			E::IMethod(c, n) => (*c, *n, true),
			_ => return err(self.pos, format!("internal: index {idx} is not a member reference")),
		};
		let (name, desc) = self.nat(n)?;
		Ok((self.class_name(c)?, name, desc, itf))
	}
	fn handle(&self, idx: u16) -> PResult<Value> {
		match self.entry(idx) {
			E::Handle(kind, r) => {
				let (owner, name, desc, itf) = self.member_ref(*r)?;
				let k = HANDLE_KINDS.get((*kind as usize).wrapping_sub(1)).copied().unwrap_or("?");
				Ok(jobj!({"kind": k, "owner": owner, "name": name, "desc": desc, "itf": itf}))
			}
			_ => err(self.pos, format!("internal: index {idx} is not a MethodHandle")),
		}
	}

	fn spend(&mut self) -> PResult<()> {
		if self.budget == 0 {
			return err(self.pos, "dynamic constants expand to too many nodes");
		}
		self.budget -= 1;
		Ok(())
	}

	/// The value `D` of a Dynamic or InvokeDynamic entry.
	fn dynamic(&mut self, idx: u16) -> PResult<Value> {
		let (b, n) = match self.entry(idx) {
			E::Dyn(b, n) | E::Indy(b, n) => (*b, *n),
			_ => return err(self.pos, format!("internal: index {idx} is not dynamic")),
		};
		if self.dyn_stack.contains(&idx) {
			return err(self.pos, format!("cyclic dynamic constant #{idx}"));
		}
		if self.dyn_stack.len() >= MAX_DYN_DEPTH {
			return err(self.pos, "dynamic constants nested too deeply");
		}
		let (h, args) = match self.bsm.get(b as usize) {
			Some((h, a)) => (*h, a.clone()),
			None => return err(self.pos, format!("constant #{idx}: bootstrap method index {b} out of range")),
		};
		if let Some(m) = self.bsm_mark.get_mut(b as usize) {
			*m = true;
		}
		self.dyn_stack.push(idx);
		let r = (|| {
			let bsm = self.handle(h)?;
			let mut av = Vec::with_capacity(args.len());
			for a in args {
				av.push(self.loadable(a)?);
			}
			let (name, desc) = self.nat(n)?;
			Ok(jobj!({"bsm": bsm, "args": av, "name": name, "desc": desc}))
		})();
		self.dyn_stack.pop();
		r
	}

	/// The value `C` of a loadable entry.
	fn loadable(&mut self, idx: u16) -> PResult<Value> {
		self.spend()?;
		let e = self.entry(idx).clone();
		Ok(match e {
			E::Int(v) => facts::c_int(v),
			E::Float(v) => facts::c_float(v),
			E::Long(v) => facts::c_long(v),
			E::Double(v) => facts::c_double(v),
			E::Class(n) => jobj!({"class": self.utf8(n)?}),
			E::Str(n) => jobj!({"string": self.utf8(n)?}),
			E::MType(n) => jobj!({"method_type": self.utf8(n)?}),
			E::Handle(..) => jobj!({"method_handle": self.handle(idx)?}),
			E::Dyn(..) => jobj!({"dynamic": self.dynamic(idx)?}),
			other => return err(self.pos, format!("constant #{idx} ({}) is not loadable", other.kind())),
		})
	}

	/// 1 or 2: the category of a loadable entry.
	fn category(&self, idx: u16) -> u8 {
		match self.entry(idx) {
			E::Long(_) | E::Double(_) => 2,
			E::Dyn(_, n) => match self.entry(*n) {
				E::Nat(_, d) => match self.entry(*d) {
					E::Utf8(u) if u.len() == 1 && (u[0] == b'J' as u16 || u[0] == b'D' as u16) => 2,
					_ => 1,
				},
				_ => 1,
			},
			_ => 1,
		}
	}
}

include!("parse_pool.rs");
include!("parse_attrs.rs");
include!("parse_code.rs");
