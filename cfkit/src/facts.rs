//! Helpers shared by everything that produces or consumes *class facts* (see `FACTS.md`).
//!
//! This module holds the string representation (Java strings as JSON), the modified UTF-8 codec of
//! JVMS 4.4.7, and small constructors for the number representations used by the facts format.

use anyhow::{anyhow, bail, Result};
use serde_json::{json, Map, Value};

/// Decodes modified UTF-8 (JVMS 4.4.7) into UTF-16 code units, strictly.
///
/// Rejected: a zero byte, bytes `0xf0..=0xff`, a continuation byte in lead position, a truncated
/// sequence, a lead byte followed by a non-continuation byte, and over-long encodings (a two byte
/// sequence for `0x01..=0x7f`, a three byte sequence for a value below `0x800`). The two byte
/// sequence `c0 80` is the one and only representation of `U+0000`.
pub fn decode_mutf8(bytes: &[u8]) -> std::result::Result<Vec<u16>, String> {
	let mut out = Vec::with_capacity(bytes.len());
	let mut i = 0usize;
	while i < bytes.len() {
		let a = bytes[i];
		if a == 0 {
			return Err(format!("zero byte at {i}"));
		} else if a < 0x80 {
			out.push(a as u16);
			i += 1;
		} else if a & 0xe0 == 0xc0 {
			let b = *bytes.get(i + 1).ok_or_else(|| format!("truncated two byte sequence at {i}"))?;
			if b & 0xc0 != 0x80 {
				return Err(format!("bad continuation byte at {}", i + 1));
			}
			let v = ((a as u16 & 0x1f) << 6) | (b as u16 & 0x3f);
			if v != 0 && v < 0x80 {
				return Err(format!("over-long two byte sequence at {i}"));
			}
			out.push(v);
			i += 2;
		} else if a & 0xf0 == 0xe0 {
			let b = *bytes.get(i + 1).ok_or_else(|| format!("truncated three byte sequence at {i}"))?;
			let c = *bytes.get(i + 2).ok_or_else(|| format!("truncated three byte sequence at {i}"))?;
			if b & 0xc0 != 0x80 {
				return Err(format!("bad continuation byte at {}", i + 1));
			}
			if c & 0xc0 != 0x80 {
				return Err(format!("bad continuation byte at {}", i + 2));
			}
			let v = ((a as u16 & 0x0f) << 12) | ((b as u16 & 0x3f) << 6) | (c as u16 & 0x3f);
			if v < 0x800 {
				return Err(format!("over-long three byte sequence at {i}"));
			}
			out.push(v);
			i += 3;
		} else {
			return Err(format!("illegal lead byte {a:#04x} at {i}"));
		}
	}
	Ok(out)
}

/// Encodes UTF-16 code units as modified UTF-8 (JVMS 4.4.7). Total: every `u16` sequence is encodable;
/// supplementary characters are simply their two surrogates, three bytes each.
pub fn encode_mutf8(units: &[u16]) -> Vec<u8> {
	let mut out = Vec::with_capacity(units.len());
	for &u in units {
		if (0x0001..=0x007f).contains(&u) {
			out.push(u as u8);
		} else if u <= 0x07ff {
			// includes u == 0
			out.push(0xc0 | (u >> 6) as u8);
			out.push(0x80 | (u & 0x3f) as u8);
		} else {
			out.push(0xe0 | (u >> 12) as u8);
			out.push(0x80 | ((u >> 6) & 0x3f) as u8);
			out.push(0x80 | (u & 0x3f) as u8);
		}
	}
	out
}

/// The facts representation of a Java string given as UTF-16 code units: a JSON string if the units
/// are well-formed UTF-16 (no unpaired surrogate), `{"utf16":[units...]}` otherwise.
pub fn s_from_units(units: &[u16]) -> Value {
	match String::from_utf16(units) {
		Ok(s) => Value::String(s),
		Err(_) => json!({ "utf16": units }),
	}
}

/// The facts representation of a Rust string.
pub fn s_from_str(s: &str) -> Value {
	Value::String(s.to_owned())
}

/// The UTF-16 code units of a facts string (either representation).
pub fn s_to_units(v: &Value) -> Result<Vec<u16>> {
	match v {
		Value::String(s) => Ok(s.encode_utf16().collect()),
		Value::Object(m) if m.len() == 1 => {
			let list = m.get("utf16").and_then(Value::as_array).ok_or_else(|| anyhow!("not a string value: {v}"))?;
			let mut out = Vec::with_capacity(list.len());
			for x in list {
				let n = x.as_u64().filter(|n| *n <= 0xffff).ok_or_else(|| anyhow!("not a UTF-16 code unit: {x}"))?;
				out.push(n as u16);
			}
			Ok(out)
		}
		_ => bail!("not a string value: {v}"),
	}
}

/// `true` iff the value is a facts string (either representation).
pub fn is_s(v: &Value) -> bool {
	s_to_units(v).is_ok()
}

/// A human readable rendering of a facts string (lossy for `{"utf16":..}`), for paths and messages.
pub fn s_display(v: &Value) -> String {
	match v {
		Value::String(s) => s.clone(),
		other => match s_to_units(other) {
			Ok(units) => String::from_utf16_lossy(&units),
			Err(_) => other.to_string(),
		},
	}
}

pub fn c_int(v: i32) -> Value {
	json!({ "int": v })
}
pub fn c_float(bits: u32) -> Value {
	json!({ "float": bits })
}
pub fn c_long(v: i64) -> Value {
	json!({ "long": v.to_string() })
}
pub fn c_double(bits: u64) -> Value {
	json!({ "double": bits.to_string() })
}

/// Builds a JSON object from key/value pairs.
pub fn obj<const N: usize>(pairs: [(&str, Value); N]) -> Value {
	let mut m = Map::new();
	for (k, v) in pairs {
		m.insert(k.to_owned(), v);
	}
	Value::Object(m)
}

/// JVMS 4.3.3: the number of argument slots of a method descriptor (long and double count two),
/// or `None` if the descriptor is not well-formed.
pub fn descriptor_arg_slots(desc: &[u16]) -> Option<u32> {
	let mut i = 0usize;
	if desc.get(i) != Some(&(b'(' as u16)) {
		return None;
	}
	i += 1;
	let mut slots = 0u32;
	loop {
		let c = *desc.get(i)?;
		if c == b')' as u16 {
			i += 1;
			break;
		}
		let (next, width) = field_type(desc, i)?;
		slots += width;
		i = next;
	}
	// return descriptor
	if desc.get(i) == Some(&(b'V' as u16)) {
		i += 1;
	} else {
		let (next, _) = field_type(desc, i)?;
		i = next;
	}
	if i == desc.len() {
		Some(slots)
	} else {
		None
	}
}

/// Parses one field type starting at `i`; returns the index after it and its slot width.
fn field_type(desc: &[u16], mut i: usize) -> Option<(usize, u32)> {
	let mut dims = 0;
	while *desc.get(i)? == b'[' as u16 {
		dims += 1;
		i += 1;
	}
	if dims > 255 {
		return None;
	}
	let c = *desc.get(i)?;
	let width = match u8::try_from(c).ok()? {
		b'B' | b'C' | b'F' | b'I' | b'S' | b'Z' => {
			i += 1;
			1
		}
		b'D' | b'J' => {
			i += 1;
			2
		}
		b'L' => {
			i += 1;
			let start = i;
			while *desc.get(i)? != b';' as u16 {
				i += 1;
			}
			if i == start {
				return None;
			}
			i += 1;
			1
		}
		_ => return None,
	};
	Some((i, if dims > 0 { 1 } else { width }))
}


// ---------------------------------------------------------------------------------------------
// canonical order

fn type_rank(v: &Value) -> u8 {
	match v {
		Value::Null => 0,
		Value::Bool(false) => 1,
		Value::Bool(true) => 2,
		Value::Number(_) => 3,
		Value::String(_) => 4,
		Value::Array(_) => 5,
		Value::Object(_) => 6,
	}
}

fn num_i128(n: &serde_json::Number) -> i128 {
	if let Some(i) = n.as_i64() {
		i as i128
	} else if let Some(u) = n.as_u64() {
		u as i128
	} else {
		// facts never contain non-integers; order them deterministically anyway
		n.as_f64().map(|f| f as i128).unwrap_or(0)
	}
}

/// The canonical total order on JSON values of FACTS.md §1.3.
pub fn canon_cmp(a: &Value, b: &Value) -> std::cmp::Ordering {
	use std::cmp::Ordering::*;
	let (ra, rb) = (type_rank(a), type_rank(b));
	if ra != rb {
		return ra.cmp(&rb);
	}
	match (a, b) {
		(Value::Number(x), Value::Number(y)) => num_i128(x).cmp(&num_i128(y)),
		(Value::String(x), Value::String(y)) => x.as_str().cmp(y.as_str()),
		(Value::Array(x), Value::Array(y)) => {
			for (p, q) in x.iter().zip(y.iter()) {
				let c = canon_cmp(p, q);
				if c != Equal {
					return c;
				}
			}
			x.len().cmp(&y.len())
		}
		(Value::Object(x), Value::Object(y)) => {
			let mut kx: Vec<(&String, &Value)> = x.iter().collect();
			let mut ky: Vec<(&String, &Value)> = y.iter().collect();
			kx.sort_by(|p, q| p.0.cmp(q.0));
			ky.sort_by(|p, q| p.0.cmp(q.0));
			for (p, q) in kx.iter().zip(ky.iter()) {
				let c = p.0.cmp(q.0);
				if c != Equal {
					return c;
				}
				let c = canon_cmp(p.1, q.1);
				if c != Equal {
					return c;
				}
			}
			kx.len().cmp(&ky.len())
		}
		_ => Equal,
	}
}

/// Sorts a list canonically (stable).
pub fn canon_sort(list: &mut [Value]) {
	list.sort_by(canon_cmp);
}

/// Sorts canonically and removes duplicates.
pub fn canon_sort_dedup(list: &mut Vec<Value>) {
	list.sort_by(canon_cmp);
	list.dedup();
}

/// Brings hand-made facts into canonical form: sorts every `unknown`, `LocalVariableTable`,
/// `LocalVariableTypeTable` list and sorts + dedups every `LineNumberTable` list (FACTS.md §1.4),
/// recursively.
pub fn canonicalize(v: &mut Value) {
	match v {
		Value::Array(a) => a.iter_mut().for_each(canonicalize),
		Value::Object(m) => {
			for (k, x) in m.iter_mut() {
				canonicalize(x);
				if let Value::Array(list) = x {
					match k.as_str() {
						"unknown" | "LocalVariableTable" | "LocalVariableTypeTable" => canon_sort(list),
						"LineNumberTable" => canon_sort_dedup(list),
						_ => {}
					}
				}
			}
		}
		_ => {}
	}
}

// ---------------------------------------------------------------------------------------------
// descriptors

/// One parsed field type of a descriptor.
#[derive(Debug, Clone, PartialEq, Eq)]
pub enum FieldType {
	/// `B C I S Z F J D`
	Prim(u8),
	/// `Lname;` — the name (without `L` and `;`) as UTF-16 units.
	Object(Vec<u16>),
	/// an array type — the complete descriptor (from the first `[`) as UTF-16 units.
	Array(Vec<u16>),
}

impl FieldType {
	pub fn slots(&self) -> u32 {
		match self {
			FieldType::Prim(b'J') | FieldType::Prim(b'D') => 2,
			_ => 1,
		}
	}
}

fn class_name_in_descriptor_ok(name: &[u16]) -> bool {
	if name.is_empty() {
		return false;
	}
	let mut seg_len = 0usize;
	for &c in name {
		if c == b'/' as u16 {
			if seg_len == 0 {
				return false;
			}
			seg_len = 0;
		} else if c == b'.' as u16 || c == b';' as u16 || c == b'[' as u16 {
			return false;
		} else {
			seg_len += 1;
		}
	}
	seg_len != 0
}

/// Strictly parses one field type starting at `i`; returns the type and the index after it.
///
/// JVMS 4.3.2: at most 255 array dimensions; a class name is non-empty, consists of non-empty
/// `/`-separated segments and contains none of `.` `;` `[`.
pub fn parse_field_type(desc: &[u16], start: usize) -> Option<(FieldType, usize)> {
	let mut i = start;
	let mut dims = 0usize;
	while *desc.get(i)? == b'[' as u16 {
		dims += 1;
		i += 1;
	}
	if dims > 255 {
		return None;
	}
	let c = *desc.get(i)?;
	let c8 = u8::try_from(c).ok()?;
	let base = match c8 {
		b'B' | b'C' | b'F' | b'I' | b'S' | b'Z' | b'D' | b'J' => {
			i += 1;
			FieldType::Prim(c8)
		}
		b'L' => {
			i += 1;
			let s = i;
			while *desc.get(i)? != b';' as u16 {
				i += 1;
			}
			let name = desc.get(s..i)?;
			if !class_name_in_descriptor_ok(name) {
				return None;
			}
			i += 1;
			FieldType::Object(name.to_vec())
		}
		_ => return None,
	};
	if dims > 0 {
		Some((FieldType::Array(desc.get(start..i)?.to_vec()), i))
	} else {
		Some((base, i))
	}
}

/// `true` iff `desc` is a well-formed field descriptor (JVMS 4.3.2).
pub fn is_field_descriptor(desc: &[u16]) -> bool {
	matches!(parse_field_type(desc, 0), Some((_, n)) if n == desc.len())
}

/// Parses a method descriptor (JVMS 4.3.3) into its parameter types; `None` if malformed.
/// The number of argument slots is *not* limited here, see [`method_arg_slots`].
pub fn parse_method_descriptor(desc: &[u16]) -> Option<Vec<FieldType>> {
	if desc.first() != Some(&(b'(' as u16)) {
		return None;
	}
	let mut i = 1usize;
	let mut params = Vec::new();
	loop {
		if *desc.get(i)? == b')' as u16 {
			i += 1;
			break;
		}
		let (t, n) = parse_field_type(desc, i)?;
		params.push(t);
		i = n;
	}
	if desc.get(i) == Some(&(b'V' as u16)) {
		i += 1;
	} else {
		let (_, n) = parse_field_type(desc, i)?;
		i = n;
	}
	if i == desc.len() {
		Some(params)
	} else {
		None
	}
}

/// Argument slots of a well-formed method descriptor (long/double count 2), without `this`.
pub fn method_arg_slots(desc: &[u16]) -> Option<u32> {
	parse_method_descriptor(desc).map(|p| p.iter().map(FieldType::slots).sum())
}

/// `true` iff `desc` is a well-formed method descriptor with at most 255 argument slots.
pub fn is_method_descriptor(desc: &[u16]) -> bool {
	matches!(method_arg_slots(desc), Some(n) if n <= 255)
}

// ---------------------------------------------------------------------------------------------
// stack map frames

pub const ACC_STATIC: u64 = 0x0008;

/// The verification type (FACTS.md §5.4) of a parameter type.
pub fn vt_of_field_type(t: &FieldType) -> Value {
	match t {
		FieldType::Prim(b'F') => json!("float"),
		FieldType::Prim(b'J') => json!("long"),
		FieldType::Prim(b'D') => json!("double"),
		FieldType::Prim(_) => json!("int"),
		FieldType::Object(n) => json!({ "object": s_from_units(n) }),
		FieldType::Array(d) => json!({ "object": s_from_units(d) }),
	}
}

/// The locals of the initial frame of a method (FACTS.md §5.4). `None` if `desc` is malformed.
pub fn initial_locals(this_class: &Value, method_access: u64, method_name: &Value, method_desc: &Value) -> Option<Vec<Value>> {
	let desc = s_to_units(method_desc).ok()?;
	let params = parse_method_descriptor(&desc)?;
	let mut locals = Vec::with_capacity(params.len() + 1);
	if method_access & ACC_STATIC == 0 {
		let is_init = matches!(method_name, Value::String(s) if s == "<init>");
		let is_object = matches!(this_class, Value::String(s) if s == "java/lang/Object");
		if is_init && !is_object {
			locals.push(json!("uninitialized_this"));
		} else {
			locals.push(json!({ "object": this_class.clone() }));
		}
	}
	for p in &params {
		locals.push(vt_of_field_type(p));
	}
	Some(locals)
}

/// Expands compressed stack map frames (FACTS.md §5.4): holds the locals of the previous frame.
#[derive(Debug, Clone)]
pub struct FrameState {
	pub locals: Vec<Value>,
}

impl FrameState {
	pub fn new(initial_locals: Vec<Value>) -> FrameState {
		FrameState { locals: initial_locals }
	}
	/// same_frame / same_frame_extended
	pub fn same(&mut self) -> (Vec<Value>, Vec<Value>) {
		(self.locals.clone(), Vec::new())
	}
	/// same_locals_1_stack_item_frame (also extended)
	pub fn same_locals_1(&mut self, stack: Value) -> (Vec<Value>, Vec<Value>) {
		(self.locals.clone(), vec![stack])
	}
	/// chop_frame; `Err` if fewer than `k` locals exist.
	pub fn chop(&mut self, k: usize) -> std::result::Result<(Vec<Value>, Vec<Value>), String> {
		if k > self.locals.len() {
			return Err(format!("chop of {k} locals but only {} exist", self.locals.len()));
		}
		let n = self.locals.len() - k;
		self.locals.truncate(n);
		Ok((self.locals.clone(), Vec::new()))
	}
	/// append_frame
	pub fn append(&mut self, more: Vec<Value>) -> (Vec<Value>, Vec<Value>) {
		self.locals.extend(more);
		(self.locals.clone(), Vec::new())
	}
	/// full_frame
	pub fn full(&mut self, locals: Vec<Value>, stack: Vec<Value>) -> (Vec<Value>, Vec<Value>) {
		self.locals = locals;
		(self.locals.clone(), stack)
	}
}

pub fn hex(bytes: &[u8]) -> String {
	const D: &[u8; 16] = b"0123456789abcdef";
	let mut s = String::with_capacity(bytes.len() * 2);
	for &b in bytes {
		s.push(D[(b >> 4) as usize] as char);
		s.push(D[(b & 15) as usize] as char);
	}
	s
}

pub fn unhex(s: &str) -> Option<Vec<u8>> {
	let b = s.as_bytes();
	if b.len() % 2 != 0 {
		return None;
	}
	let d = |c: u8| -> Option<u8> {
		match c {
			b'0'..=b'9' => Some(c - b'0'),
			b'a'..=b'f' => Some(c - b'a' + 10),
			b'A'..=b'F' => Some(c - b'A' + 10),
			_ => None,
		}
	};
	let mut out = Vec::with_capacity(b.len() / 2);
	for p in b.chunks(2) {
		out.push(d(p[0])? << 4 | d(p[1])?);
	}
	Some(out)
}

#[cfg(test)]
mod tests {
	use super::*;

	#[test]
	fn mutf8_roundtrip() {
		let units: Vec<u16> = vec![0, 1, 0x7f, 0x80, 0x7ff, 0x800, 0xffff, 0xd800, 0xdc00, 0xd83d, 0xde00, b'a' as u16];
		let enc = encode_mutf8(&units);
		assert_eq!(decode_mutf8(&enc).unwrap(), units);
		assert!(decode_mutf8(&[0]).is_err());
		assert!(decode_mutf8(&[0xc1, 0x81]).is_err());
		assert!(decode_mutf8(&[0xe0, 0x80, 0x80]).is_err());
		assert!(decode_mutf8(&[0xf0, 0x9f, 0x98, 0x80]).is_err());
		assert!(decode_mutf8(&[0xc0]).is_err());
		assert!(decode_mutf8(&[0x80]).is_err());
		assert_eq!(decode_mutf8(&[0xc0, 0x80]).unwrap(), vec![0]);
	}

	#[test]
	fn strings() {
		assert_eq!(s_from_units(&[0x61, 0]), Value::String("a\0".into()));
		assert_eq!(s_from_units(&[0xd83d, 0xde00]), Value::String("\u{1f600}".into()));
		let bad = s_from_units(&[0xd800, 0x61]);
		assert_eq!(bad, json!({"utf16":[0xd800, 0x61]}));
		assert_eq!(s_to_units(&bad).unwrap(), vec![0xd800, 0x61]);
	}

	#[test]
	fn slots() {
		let d = |s: &str| descriptor_arg_slots(&s.encode_utf16().collect::<Vec<_>>());
		assert_eq!(d("()V"), Some(0));
		assert_eq!(d("(IJ[DLjava/lang/Object;[[Lx;)I"), Some(6));
		assert_eq!(d("(I"), None);
		assert_eq!(d("(V)V"), None);
		assert_eq!(d("()"), None);
		assert_eq!(d("(L;)V"), None);
	}

	#[test]
	fn canon_order() {
		let mut v = vec![json!([2, 1]), json!([1, 5]), json!([1, 2]), json!({"a":1}), json!("x"), json!(3), json!(null)];
		canon_sort(&mut v);
		assert_eq!(v, vec![json!(null), json!(3), json!("x"), json!([1, 2]), json!([1, 5]), json!([2, 1]), json!({"a":1})]);
	}

	#[test]
	fn descriptors() {
		let u = |s: &str| s.encode_utf16().collect::<Vec<_>>();
		assert!(is_field_descriptor(&u("I")));
		assert!(is_field_descriptor(&u("[[Ljava/lang/String;")));
		assert!(!is_field_descriptor(&u("Ljava.lang.String;")));
		assert!(!is_field_descriptor(&u("L/a;")));
		assert!(!is_field_descriptor(&u("La//b;")));
		assert!(!is_field_descriptor(&u("V")));
		assert!(!is_field_descriptor(&u("II")));
		assert!(is_method_descriptor(&u("(IJ[DLjava/lang/Object;)V")));
		assert!(!is_method_descriptor(&u("(V)V")));
		let big = format!("({})V", "J".repeat(128));
		assert!(!is_method_descriptor(&u(&big)));
		let l = initial_locals(&json!("a/B"), 0, &json!("<init>"), &json!("(IJ[ILx/Y;)V")).unwrap();
		assert_eq!(l, vec![json!("uninitialized_this"), json!("int"), json!("long"), json!({"object":"[I"}), json!({"object":"x/Y"})]);
		let l = initial_locals(&json!("a/B"), 8, &json!("m"), &json!("(F)V")).unwrap();
		assert_eq!(l, vec![json!("float")]);
	}

	#[test]
	fn hex_roundtrip() {
		assert_eq!(hex(&[0, 0xab, 0xff]), "00abff");
		assert_eq!(unhex("00abFF"), Some(vec![0, 0xab, 0xff]));
		assert_eq!(unhex("0"), None);
	}
}
