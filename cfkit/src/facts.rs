//! Helpers shared by everything that produces or consumes *class facts* (see `FACTS.md`).
//!
//! This module holds the string representation (Java strings as JSON), the modified UTF-8 codec of
//! JVMS 4.4.7, and small constructors for the number representations used by the facts format.

use anyhow::{anyhow, bail, Result};
use serde_json::{json, Map, Value};

/// Decodes modified UTF-8 (JVMS 4.4.7) into UTF-16 code units, strictly.
///
/// Rejected: a zero byte, bytes `0xf0..=0xff`, a continuation byte in lead position, a truncated
/// sequence, a lead byte followed by a non-continuation byte, and over-long encodings (a two byte
/// sequence for `0x01..=0x7f`, a three byte sequence for a value below `0x800`). The two byte
/// sequence `c0 80` is the one and only representation of `U+0000`.
pub fn decode_mutf8(bytes: &[u8]) -> std::result::Result<Vec<u16>, String> {
	let mut out = Vec::with_capacity(bytes.len());
	let mut i = 0usize;
	while i < bytes.len() {
		let a = bytes[i];
		if a == 0 {
			return Err(format!("zero byte at {i}"));
		} else if a < 0x80 {
			out.push(a as u16);
			i += 1;
		} else if a & 0xe0 == 0xc0 {
			let b = *bytes.get(i + 1).ok_or_else(|| format!("truncated two byte sequence at {i}"))?;
			if b & 0xc0 != 0x80 {
				return Err(format!("bad continuation byte at {}", i + 1));
			}
			let v = ((a as u16 & 0x1f) << 6) | (b as u16 & 0x3f);
			if v != 0 && v < 0x80 {
				return Err(format!("over-long two byte sequence at {i}"));
			}
			out.push(v);
			i += 2;
		} else if a & 0xf0 == 0xe0 {
			let b = *bytes.get(i + 1).ok_or_else(|| format!("truncated three byte sequence at {i}"))?;
			let c = *bytes.get(i + 2).ok_or_else(|| format!("truncated three byte sequence at {i}"))?;
			if b & 0xc0 != 0x80 {
				return Err(format!("bad continuation byte at {}", i + 1));
			}
			if c & 0xc0 != 0x80 {
				return Err(format!("bad continuation byte at {}", i + 2));
			}
			let v = ((a as u16 & 0x0f) << 12) | ((b as u16 & 0x3f) << 6) | (c as u16 & 0x3f);
			if v < 0x800 {
				return Err(format!("over-long three byte sequence at {i}"));
			}
			out.push(v);
			i += 3;
		} else {
			return Err(format!("illegal lead byte {a:#04x} at {i}"));
		}
	}
	Ok(out)
}

/// Encodes UTF-16 code units as modified UTF-8 (JVMS 4.4.7). Total: every `u16` sequence is encodable;
/// supplementary characters are simply their two surrogates, three bytes each.
pub fn encode_mutf8(units: &[u16]) -> Vec<u8> {
	let mut out = Vec::with_capacity(units.len());
	for &u in units {
		if (0x0001..=0x007f).contains(&u) {
			out.push(u as u8);
		} else if u <= 0x07ff {
			// includes u == 0
			out.push(0xc0 | (u >> 6) as u8);
			out.push(0x80 | (u & 0x3f) as u8);
		} else {
			out.push(0xe0 | (u >> 12) as u8);
			out.push(0x80 | ((u >> 6) & 0x3f) as u8);
			out.push(0x80 | (u & 0x3f) as u8);
		}
	}
	out
}

/// The facts representation of a Java string given as UTF-16 code units: a JSON string if the units
/// are well-formed UTF-16 (no unpaired surrogate), `{"utf16":[units...]}` otherwise.
pub fn s_from_units(units: &[u16]) -> Value {
	match String::from_utf16(units) {
		Ok(s) => Value::String(s),
		Err(_) => json!({ "utf16": units }),
	}
}

/// The facts representation of a Rust string.
pub fn s_from_str(s: &str) -> Value {
	Value::String(s.to_owned())
}

/// The UTF-16 code units of a facts string (either representation).
pub fn s_to_units(v: &Value) -> Result<Vec<u16>> {
	match v {
		Value::String(s) => Ok(s.encode_utf16().collect()),
		Value::Object(m) if m.len() == 1 => {
			let list = m.get("utf16").and_then(Value::as_array).ok_or_else(|| anyhow!("not a string value: {v}"))?;
			let mut out = Vec::with_capacity(list.len());
			for x in list {
				let n = x.as_u64().filter(|n| *n <= 0xffff).ok_or_else(|| anyhow!("not a UTF-16 code unit: {x}"))?;
				out.push(n as u16);
			}
			Ok(out)
		}
		_ => bail!("not a string value: {v}"),
	}
}

/// `true` iff the value is a facts string (either representation).
pub fn is_s(v: &Value) -> bool {
	s_to_units(v).is_ok()
}

/// A human readable rendering of a facts string (lossy for `{"utf16":..}`), for paths and messages.
pub fn s_display(v: &Value) -> String {
	match v {
		Value::String(s) => s.clone(),
		other => match s_to_units(other) {
			Ok(units) => String::from_utf16_lossy(&units),
			Err(_) => other.to_string(),
		},
	}
}

pub fn c_int(v: i32) -> Value {
	json!({ "int": v })
}
pub fn c_float(bits: u32) -> Value {
	json!({ "float": bits })
}
pub fn c_long(v: i64) -> Value {
	json!({ "long": v.to_string() })
}
pub fn c_double(bits: u64) -> Value {
	json!({ "double": bits.to_string() })
}

/// Builds a JSON object from key/value pairs.
pub fn obj<const N: usize>(pairs: [(&str, Value); N]) -> Value {
	let mut m = Map::new();
	for (k, v) in pairs {
		m.insert(k.to_owned(), v);
	}
	Value::Object(m)
}

/// JVMS 4.3.3: the number of argument slots of a method descriptor (long and double count two),
/// or `None` if the descriptor is not well-formed.
pub fn descriptor_arg_slots(desc: &[u16]) -> Option<u32> {
	let mut i = 0usize;
	if desc.get(i) != Some(&(b'(' as u16)) {
		return None;
	}
	i += 1;
	let mut slots = 0u32;
	loop {
		let c = *desc.get(i)?;
		if c == b')' as u16 {
			i += 1;
			break;
		}
		let (next, width) = field_type(desc, i)?;
		slots += width;
		i = next;
	}
	// return descriptor
	if desc.get(i) == Some(&(b'V' as u16)) {
		i += 1;
	} else {
		let (next, _) = field_type(desc, i)?;
		i = next;
	}
	if i == desc.len() {
		Some(slots)
	} else {
		None
	}
}

/// Parses one field type starting at `i`; returns the index after it and its slot width.
fn field_type(desc: &[u16], mut i: usize) -> Option<(usize, u32)> {
	let mut dims = 0;
	while *desc.get(i)? == b'[' as u16 {
		dims += 1;
		i += 1;
	}
	if dims > 255 {
		return None;
	}
	let c = *desc.get(i)?;
	let width = match u8::try_from(c).ok()? {
		b'B' | b'C' | b'F' | b'I' | b'S' | b'Z' => {
			i += 1;
			1
		}
		b'D' | b'J' => {
			i += 1;
			2
		}
		b'L' => {
			i += 1;
			let start = i;
			while *desc.get(i)? != b';' as u16 {
				i += 1;
			}
			if i == start {
				return None;
			}
			i += 1;
			1
		}
		_ => return None,
	};
	Some((i, if dims > 0 { 1 } else { width }))
}

#[cfg(test)]
mod tests {
	use super::*;

	#[test]
	fn mutf8_roundtrip() {
		let units: Vec<u16> = vec![0, 1, 0x7f, 0x80, 0x7ff, 0x800, 0xffff, 0xd800, 0xdc00, 0xd83d, 0xde00, b'a' as u16];
		let enc = encode_mutf8(&units);
		assert_eq!(decode_mutf8(&enc).unwrap(), units);
		assert!(decode_mutf8(&[0]).is_err());
		assert!(decode_mutf8(&[0xc1, 0x81]).is_err());
		assert!(decode_mutf8(&[0xe0, 0x80, 0x80]).is_err());
		assert!(decode_mutf8(&[0xf0, 0x9f, 0x98, 0x80]).is_err());
		assert!(decode_mutf8(&[0xc0]).is_err());
		assert!(decode_mutf8(&[0x80]).is_err());
		assert_eq!(decode_mutf8(&[0xc0, 0x80]).unwrap(), vec![0]);
	}

	#[test]
	fn strings() {
		assert_eq!(s_from_units(&[0x61, 0]), Value::String("a\0".into()));
		assert_eq!(s_from_units(&[0xd83d, 0xde00]), Value::String("\u{1f600}".into()));
		let bad = s_from_units(&[0xd800, 0x61]);
		assert_eq!(bad, json!({"utf16":[0xd800, 0x61]}));
		assert_eq!(s_to_units(&bad).unwrap(), vec![0xd800, 0x61]);
	}

	#[test]
	fn slots() {
		let d = |s: &str| descriptor_arg_slots(&s.encode_utf16().collect::<Vec<_>>());
		assert_eq!(d("()V"), Some(0));
		assert_eq!(d("(IJ[DLjava/lang/Object;[[Lx;)I"), Some(6));
		assert_eq!(d("(I"), None);
		assert_eq!(d("(V)V"), None);
		assert_eq!(d("()"), None);
		assert_eq!(d("(L;)V"), None);
	}
}
