//! The JVM instruction set (JVMS 6.5 / chapter 7 "Opcode Mnemonics by Opcode"), as a table.
//!
//! The table is indexed by opcode byte. Each entry gives the mnemonic as written in the JVMS and
//! the operand layout. Nothing here is shared with the code under test.

/// Operand layout of an opcode.
#[derive(Debug, Clone, Copy, PartialEq, Eq)]
pub enum Kind {
	/// No operands.
	NoOperand,
	/// `bipush`: one signed byte.
	BiPush,
	/// `sipush`: one signed short.
	SiPush,
	/// `ldc`: u1 constant pool index.
	Ldc,
	/// `ldc_w`: u2 constant pool index (category 1 loadable).
	LdcW,
	/// `ldc2_w`: u2 constant pool index (category 2 loadable).
	Ldc2W,
	/// `iload`, `lload`, `fload`, `dload`, `aload`, `istore`, ..., `astore`, `ret`: u1 local variable index
	/// (u2 when prefixed by `wide`).
	Var,
	/// `iload_0` .. `astore_3`: the one byte short forms; the payload is the local variable index and
	/// the mnemonic in the table is the one of the plain form (`iload`).
	VarShort(u8),
	/// `iinc`: u1 index, s1 constant (u2, s2 when prefixed by `wide`).
	Iinc,
	/// `if*`, `goto`, `jsr`, `ifnull`, `ifnonnull`: s2 branch offset.
	Branch,
	/// `goto_w`, `jsr_w`: s4 branch offset. The mnemonic in the table is the one of the 16 bit form.
	BranchW,
	TableSwitch,
	LookupSwitch,
	/// `getstatic`, `putstatic`, `getfield`, `putfield`: u2 index of a Fieldref.
	Field,
	/// `invokevirtual`: u2 index of a Methodref.
	InvokeVirtual,
	/// `invokespecial`, `invokestatic`: u2 index of a Methodref or an InterfaceMethodref.
	InvokeSpecialStatic,
	/// `invokeinterface`: u2 index of an InterfaceMethodref, u1 count, u1 zero.
	InvokeInterface,
	/// `invokedynamic`: u2 index of an InvokeDynamic, two zero bytes.
	InvokeDynamic,
	/// `new`, `anewarray`, `checkcast`, `instanceof`: u2 index of a Class.
	Class,
	/// `newarray`: u1 atype.
	NewArray,
	/// `multianewarray`: u2 index of a Class, u1 dimensions.
	MultiANewArray,
	/// The `wide` prefix.
	Wide,
	/// Not an instruction that may appear in a class file (reserved opcodes and unassigned values).
	Invalid,
}

#[derive(Debug, Clone, Copy)]
pub struct Op {
	pub name: &'static str,
	pub kind: Kind,
}

const fn op(name: &'static str, kind: Kind) -> Op {
	Op { name, kind }
}

use Kind::*;

/// Opcodes 0x00 ..= 0xc9 in numerical order. All larger opcode values are invalid in class files
/// (0xca breakpoint, 0xfe impdep1, 0xff impdep2 are reserved, the rest is unassigned).
pub const OPS: [Op; 202] = [
	/* 0x00 */ op("nop", NoOperand),
	/* 0x01 */ op("aconst_null", NoOperand),
	/* 0x02 */ op("iconst_m1", NoOperand),
	/* 0x03 */ op("iconst_0", NoOperand),
	/* 0x04 */ op("iconst_1", NoOperand),
	/* 0x05 */ op("iconst_2", NoOperand),
	/* 0x06 */ op("iconst_3", NoOperand),
	/* 0x07 */ op("iconst_4", NoOperand),
	/* 0x08 */ op("iconst_5", NoOperand),
	/* 0x09 */ op("lconst_0", NoOperand),
	/* 0x0a */ op("lconst_1", NoOperand),
	/* 0x0b */ op("fconst_0", NoOperand),
	/* 0x0c */ op("fconst_1", NoOperand),
	/* 0x0d */ op("fconst_2", NoOperand),
	/* 0x0e */ op("dconst_0", NoOperand),
	/* 0x0f */ op("dconst_1", NoOperand),
	/* 0x10 */ op("bipush", BiPush),
	/* 0x11 */ op("sipush", SiPush),
	/* 0x12 */ op("ldc", Ldc),
	/* 0x13 */ op("ldc", LdcW),
	/* 0x14 */ op("ldc", Ldc2W),
	/* 0x15 */ op("iload", Var),
	/* 0x16 */ op("lload", Var),
	/* 0x17 */ op("fload", Var),
	/* 0x18 */ op("dload", Var),
	/* 0x19 */ op("aload", Var),
	/* 0x1a */ op("iload", VarShort(0)),
	/* 0x1b */ op("iload", VarShort(1)),
	/* 0x1c */ op("iload", VarShort(2)),
	/* 0x1d */ op("iload", VarShort(3)),
	/* 0x1e */ op("lload", VarShort(0)),
	/* 0x1f */ op("lload", VarShort(1)),
	/* 0x20 */ op("lload", VarShort(2)),
	/* 0x21 */ op("lload", VarShort(3)),
	/* 0x22 */ op("fload", VarShort(0)),
	/* 0x23 */ op("fload", VarShort(1)),
	/* 0x24 */ op("fload", VarShort(2)),
	/* 0x25 */ op("fload", VarShort(3)),
	/* 0x26 */ op("dload", VarShort(0)),
	/* 0x27 */ op("dload", VarShort(1)),
	/* 0x28 */ op("dload", VarShort(2)),
	/* 0x29 */ op("dload", VarShort(3)),
	/* 0x2a */ op("aload", VarShort(0)),
	/* 0x2b */ op("aload", VarShort(1)),
	/* 0x2c */ op("aload", VarShort(2)),
	/* 0x2d */ op("aload", VarShort(3)),
	/* 0x2e */ op("iaload", NoOperand),
	/* 0x2f */ op("laload", NoOperand),
	/* 0x30 */ op("faload", NoOperand),
	/* 0x31 */ op("daload", NoOperand),
	/* 0x32 */ op("aaload", NoOperand),
	/* 0x33 */ op("baload", NoOperand),
	/* 0x34 */ op("caload", NoOperand),
	/* 0x35 */ op("saload", NoOperand),
	/* 0x36 */ op("istore", Var),
	/* 0x37 */ op("lstore", Var),
	/* 0x38 */ op("fstore", Var),
	/* 0x39 */ op("dstore", Var),
	/* 0x3a */ op("astore", Var),
	/* 0x3b */ op("istore", VarShort(0)),
	/* 0x3c */ op("istore", VarShort(1)),
	/* 0x3d */ op("istore", VarShort(2)),
	/* 0x3e */ op("istore", VarShort(3)),
	/* 0x3f */ op("lstore", VarShort(0)),
	/* 0x40 */ op("lstore", VarShort(1)),
	/* 0x41 */ op("lstore", VarShort(2)),
	/* 0x42 */ op("lstore", VarShort(3)),
	/* 0x43 */ op("fstore", VarShort(0)),
	/* 0x44 */ op("fstore", VarShort(1)),
	/* 0x45 */ op("fstore", VarShort(2)),
	/* 0x46 */ op("fstore", VarShort(3)),
	/* 0x47 */ op("dstore", VarShort(0)),
	/* 0x48 */ op("dstore", VarShort(1)),
	/* 0x49 */ op("dstore", VarShort(2)),
	/* 0x4a */ op("dstore", VarShort(3)),
	/* 0x4b */ op("astore", VarShort(0)),
	/* 0x4c */ op("astore", VarShort(1)),
	/* 0x4d */ op("astore", VarShort(2)),
	/* 0x4e */ op("astore", VarShort(3)),
	/* 0x4f */ op("iastore", NoOperand),
	/* 0x50 */ op("lastore", NoOperand),
	/* 0x51 */ op("fastore", NoOperand),
	/* 0x52 */ op("dastore", NoOperand),
	/* 0x53 */ op("aastore", NoOperand),
	/* 0x54 */ op("bastore", NoOperand),
	/* 0x55 */ op("castore", NoOperand),
	/* 0x56 */ op("sastore", NoOperand),
	/* 0x57 */ op("pop", NoOperand),
	/* 0x58 */ op("pop2", NoOperand),
	/* 0x59 */ op("dup", NoOperand),
	/* 0x5a */ op("dup_x1", NoOperand),
	/* 0x5b */ op("dup_x2", NoOperand),
	/* 0x5c */ op("dup2", NoOperand),
	/* 0x5d */ op("dup2_x1", NoOperand),
	/* 0x5e */ op("dup2_x2", NoOperand),
	/* 0x5f */ op("swap", NoOperand),
	/* 0x60 */ op("iadd", NoOperand),
	/* 0x61 */ op("ladd", NoOperand),
	/* 0x62 */ op("fadd", NoOperand),
	/* 0x63 */ op("dadd", NoOperand),
	/* 0x64 */ op("isub", NoOperand),
	/* 0x65 */ op("lsub", NoOperand),
	/* 0x66 */ op("fsub", NoOperand),
	/* 0x67 */ op("dsub", NoOperand),
	/* 0x68 */ op("imul", NoOperand),
	/* 0x69 */ op("lmul", NoOperand),
	/* 0x6a */ op("fmul", NoOperand),
	/* 0x6b */ op("dmul", NoOperand),
	/* 0x6c */ op("idiv", NoOperand),
	/* 0x6d */ op("ldiv", NoOperand),
	/* 0x6e */ op("fdiv", NoOperand),
	/* 0x6f */ op("ddiv", NoOperand),
	/* 0x70 */ op("irem", NoOperand),
	/* 0x71 */ op("lrem", NoOperand),
	/* 0x72 */ op("frem", NoOperand),
	/* 0x73 */ op("drem", NoOperand),
	/* 0x74 */ op("ineg", NoOperand),
	/* 0x75 */ op("lneg", NoOperand),
	/* 0x76 */ op("fneg", NoOperand),
	/* 0x77 */ op("dneg", NoOperand),
	/* 0x78 */ op("ishl", NoOperand),
	/* 0x79 */ op("lshl", NoOperand),
	/* 0x7a */ op("ishr", NoOperand),
	/* 0x7b */ op("lshr", NoOperand),
	/* 0x7c */ op("iushr", NoOperand),
	/* 0x7d */ op("lushr", NoOperand),
	/* 0x7e */ op("iand", NoOperand),
	/* 0x7f */ op("land", NoOperand),
	/* 0x80 */ op("ior", NoOperand),
	/* 0x81 */ op("lor", NoOperand),
	/* 0x82 */ op("ixor", NoOperand),
	/* 0x83 */ op("lxor", NoOperand),
	/* 0x84 */ op("iinc", Iinc),
	/* 0x85 */ op("i2l", NoOperand),
	/* 0x86 */ op("i2f", NoOperand),
	/* 0x87 */ op("i2d", NoOperand),
	/* 0x88 */ op("l2i", NoOperand),
	/* 0x89 */ op("l2f", NoOperand),
	/* 0x8a */ op("l2d", NoOperand),
	/* 0x8b */ op("f2i", NoOperand),
	/* 0x8c */ op("f2l", NoOperand),
	/* 0x8d */ op("f2d", NoOperand),
	/* 0x8e */ op("d2i", NoOperand),
	/* 0x8f */ op("d2l", NoOperand),
	/* 0x90 */ op("d2f", NoOperand),
	/* 0x91 */ op("i2b", NoOperand),
	/* 0x92 */ op("i2c", NoOperand),
	/* 0x93 */ op("i2s", NoOperand),
	/* 0x94 */ op("lcmp", NoOperand),
	/* 0x95 */ op("fcmpl", NoOperand),
	/* 0x96 */ op("fcmpg", NoOperand),
	/* 0x97 */ op("dcmpl", NoOperand),
	/* 0x98 */ op("dcmpg", NoOperand),
	/* 0x99 */ op("ifeq", Branch),
	/* 0x9a */ op("ifne", Branch),
	/* 0x9b */ op("iflt", Branch),
	/* 0x9c */ op("ifge", Branch),
	/* 0x9d */ op("ifgt", Branch),
	/* 0x9e */ op("ifle", Branch),
	/* 0x9f */ op("if_icmpeq", Branch),
	/* 0xa0 */ op("if_icmpne", Branch),
	/* 0xa1 */ op("if_icmplt", Branch),
	/* 0xa2 */ op("if_icmpge", Branch),
	/* 0xa3 */ op("if_icmpgt", Branch),
	/* 0xa4 */ op("if_icmple", Branch),
	/* 0xa5 */ op("if_acmpeq", Branch),
	/* 0xa6 */ op("if_acmpne", Branch),
	/* 0xa7 */ op("goto", Branch),
	/* 0xa8 */ op("jsr", Branch),
	/* 0xa9 */ op("ret", Var),
	/* 0xaa */ op("tableswitch", TableSwitch),
	/* 0xab */ op("lookupswitch", LookupSwitch),
	/* 0xac */ op("ireturn", NoOperand),
	/* 0xad */ op("lreturn", NoOperand),
	/* 0xae */ op("freturn", NoOperand),
	/* 0xaf */ op("dreturn", NoOperand),
	/* 0xb0 */ op("areturn", NoOperand),
	/* 0xb1 */ op("return", NoOperand),
	/* 0xb2 */ op("getstatic", Field),
	/* 0xb3 */ op("putstatic", Field),
	/* 0xb4 */ op("getfield", Field),
	/* 0xb5 */ op("putfield", Field),
	/* 0xb6 */ op("invokevirtual", InvokeVirtual),
	/* 0xb7 */ op("invokespecial", InvokeSpecialStatic),
	/* 0xb8 */ op("invokestatic", InvokeSpecialStatic),
	/* 0xb9 */ op("invokeinterface", InvokeInterface),
	/* 0xba */ op("invokedynamic", InvokeDynamic),
	/* 0xbb */ op("new", Class),
	/* 0xbc */ op("newarray", NewArray),
	/* 0xbd */ op("anewarray", Class),
	/* 0xbe */ op("arraylength", NoOperand),
	/* 0xbf */ op("athrow", NoOperand),
	/* 0xc0 */ op("checkcast", Class),
	/* 0xc1 */ op("instanceof", Class),
	/* 0xc2 */ op("monitorenter", NoOperand),
	/* 0xc3 */ op("monitorexit", NoOperand),
	/* 0xc4 */ op("wide", Wide),
	/* 0xc5 */ op("multianewarray", MultiANewArray),
	/* 0xc6 */ op("ifnull", Branch),
	/* 0xc7 */ op("ifnonnull", Branch),
	/* 0xc8 */ op("goto", BranchW),
	/* 0xc9 */ op("jsr", BranchW),
];

/// Looks up an opcode byte.
pub fn lookup(opcode: u8) -> Op {
	match OPS.get(opcode as usize) {
		Some(op) => *op,
		None => op("invalid", Invalid),
	}
}

/// The opcode byte of the *plain* (non-short, non-wide) encoding of a facts mnemonic, with its kind.
///
/// For `ldc` this is 0x12, for `goto` 0xa7, for `jsr` 0xa8.
pub fn by_name(name: &str) -> Option<(u8, Kind)> {
	for (i, op) in OPS.iter().enumerate() {
		if op.name == name {
			match op.kind {
				VarShort(_) | LdcW | Ldc2W | BranchW | Wide | Invalid => continue,
				kind => return Some((i as u8, kind)),
			}
		}
	}
	None
}

/// `newarray` atype codes (JVMS Table 6.5.newarray-A).
pub const ATYPES: [(u8, &str); 8] = [
	(4, "boolean"), (5, "char"), (6, "float"), (7, "double"), (8, "byte"), (9, "short"), (10, "int"), (11, "long"),
];

/// Opcode of the one-byte short form of a local variable instruction, if there is one.
pub fn short_var_opcode(name: &str, var: u16) -> Option<u8> {
	if var > 3 {
		return None;
	}
	let base = match name {
		"iload" => 0x1a, "lload" => 0x1e, "fload" => 0x22, "dload" => 0x26, "aload" => 0x2a,
		"istore" => 0x3b, "lstore" => 0x3f, "fstore" => 0x43, "dstore" => 0x47, "astore" => 0x4b,
		_ => return None,
	};
	Some(base + var as u8)
}

#[cfg(test)]
mod tests {
	use super::*;

	#[test]
	fn table_is_consistent() {
		assert_eq!(OPS.len(), 0xca);
		assert_eq!(OPS[0xb1].name, "return");
		assert_eq!(OPS[0xc7].name, "ifnonnull");
		assert_eq!(OPS[0x84].name, "iinc");
		assert_eq!(OPS[0x5f].name, "swap");
		assert_eq!(OPS[0x2e].name, "iaload");
		assert_eq!(OPS[0x4f].name, "iastore");
		assert_eq!(by_name("iload"), Some((0x15, Var)));
		assert_eq!(by_name("ldc"), Some((0x12, Ldc)));
		assert_eq!(by_name("goto"), Some((0xa7, Branch)));
		assert_eq!(short_var_opcode("astore", 2), Some(0x4d));
		for (i, op) in OPS.iter().enumerate() {
			if let VarShort(n) = op.kind {
				assert_eq!(short_var_opcode(op.name, n as u16), Some(i as u8));
			}
		}
	}
}
