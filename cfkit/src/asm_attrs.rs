// included into asm.rs: attribute tables

const ATTR_ORDER: &[&str] = &[
	"ConstantValue", "Code", "Exceptions", "InnerClasses", "EnclosingMethod", "Synthetic", "Deprecated", "Signature", "SourceFile",
	"SourceDebugExtension", "RuntimeVisibleAnnotations", "RuntimeInvisibleAnnotations", "RuntimeVisibleParameterAnnotations",
	"RuntimeInvisibleParameterAnnotations", "RuntimeVisibleTypeAnnotations", "RuntimeInvisibleTypeAnnotations", "AnnotationDefault",
	"MethodParameters", "Module", "ModulePackages", "ModuleMainClass", "NestHost", "NestMembers", "Record", "PermittedSubclasses",
	"LineNumberTable", "LocalVariableTable", "LocalVariableTypeTable", "StackMapTable",
];

fn attr_allowed(level: Level, name: &str) -> bool {
	use Level::*;
	matches!(
		(level, name),
		(Field, "ConstantValue")
			| (Method, "Code") | (Method, "Exceptions")
			| (Class, "InnerClasses") | (Class, "EnclosingMethod")
			| (Class | Field | Method, "Synthetic") | (Class | Field | Method, "Deprecated")
			| (Class | Field | Method | Record, "Signature")
			| (Class, "SourceFile") | (Class, "SourceDebugExtension")
			| (Class | Field | Method | Record, "RuntimeVisibleAnnotations")
			| (Class | Field | Method | Record, "RuntimeInvisibleAnnotations")
			| (Method, "RuntimeVisibleParameterAnnotations") | (Method, "RuntimeInvisibleParameterAnnotations")
			| (_, "RuntimeVisibleTypeAnnotations") | (_, "RuntimeInvisibleTypeAnnotations")
			| (Method, "AnnotationDefault") | (Method, "MethodParameters")
			| (Class, "Module") | (Class, "ModulePackages") | (Class, "ModuleMainClass")
			| (Class, "NestHost") | (Class, "NestMembers") | (Class, "Record") | (Class, "PermittedSubclasses")
			| (Code, "LineNumberTable") | (Code, "LocalVariableTable") | (Code, "LocalVariableTypeTable") | (Code, "StackMapTable")
	)
}

/// Byte offsets of the instructions of the code being assembled.
struct CodeLay {
	/// offsets[i] = byte offset of instruction i; offsets[n] = code_length
	offsets: Vec<u32>,
}

impl CodeLay {
	fn pc(&self, v: &Value, ctx: &str) -> R<u16> {
		let i = fint(v, 0, self.offsets.len() as i64 - 1, ctx)? as usize;
		Ok(self.offsets.get(i).copied().unwrap_or(0).min(65535) as u16)
	}
	/// index must denote an instruction (not the end position)
	fn pc_insn(&self, v: &Value, ctx: &str) -> R<u16> {
		let i = fint(v, 0, self.offsets.len() as i64 - 2, ctx)? as usize;
		Ok(self.offsets.get(i).copied().unwrap_or(0).min(65535) as u16)
	}
}

impl<'e> Asm<'e> {
	fn attr_list(&mut self, attrs: &Map<String, Value>, level: Level, mi: Option<&MethodInfo>, ctx: &str) -> R<Vec<Attr>> {
		self.attr_list_code(attrs, level, mi, None, ctx)
	}

	fn attr_list_code(&mut self, attrs: &Map<String, Value>, level: Level, mi: Option<&MethodInfo>, lay: Option<&CodeLay>, ctx: &str) -> R<Vec<Attr>> {
		for k in attrs.keys() {
			let ok = match k.as_str() {
				"unknown" | "dup" => true,
				"unreferenced_bootstrap" => level == Level::Class,
				n => attr_allowed(level, n),
			};
			if !ok {
				return invalid(format!("{ctx}.attrs: key {k:?} is not an attribute of this level"));
			}
		}
		let mut list: Vec<Attr> = Vec::new();
		for name in ATTR_ORDER {
			if let Some(v) = attrs.get(*name) {
				if *name == "LineNumberTable" {
					let lay = match lay {
						Some(l) => l,
						None => return invalid("LineNumberTable outside Code"),
					};
					let rows = farr(v, "LineNumberTable")?;
					let k = (self.enc.split_line_tables.unwrap_or(1).max(1) as usize).min(rows.len().max(1));
					let mut parts: Vec<Vec<&Value>> = vec![Vec::new(); k];
					for (i, r) in rows.iter().enumerate() {
						parts[i % k].push(r);
					}
					for part in parts {
						let mut w = W::default();
						w.u2(count_u16(part.len(), "LineNumberTable")?);
						for r in part {
							let r = farr(r, "LineNumberTable row")?;
							if r.len() != 2 {
								return invalid("LineNumberTable row must be [insn, line]");
							}
							w.u2(lay.pc_insn(&r[0], "LineNumberTable insn")?);
							w.u2(fu16(&r[1], "LineNumberTable line")?);
						}
						list.push(Attr { name: Value::String((*name).into()), body: w.b });
					}
				} else {
					let body = self.attr_body(name, v, level, mi, lay, &format!("{ctx}.{name}"))?;
					list.push(Attr { name: Value::String((*name).into()), body });
				}
			}
		}
		if let Some(u) = attrs.get("unknown") {
			for a in farr(u, "unknown")? {
				let bytes = match fget(a, "bytes", "unknown")?.as_str().and_then(unhex) {
					Some(b) => b,
					None => return invalid(format!("{ctx}: unknown attribute bytes must be a hex string")),
				};
				list.push(Attr { name: fget(a, "name", "unknown")?.clone(), body: bytes });
			}
		}
		if let Some(d) = attrs.get("dup") {
			for (name, values) in fobj(d, "dup")? {
				if !attr_allowed(level, name) || matches!(name.as_str(), "LineNumberTable" | "LocalVariableTable" | "LocalVariableTypeTable") {
					return invalid(format!("{ctx}: dup of {name:?} is not possible at this level"));
				}
				if !attrs.contains_key(name) {
					return invalid(format!("{ctx}: dup of {name:?} without a first occurrence"));
				}
				for v in farr(values, "dup")? {
					let body = self.attr_body(name, v, level, mi, lay, &format!("{ctx}.dup.{name}"))?;
					list.push(Attr { name: Value::String(name.clone()), body });
				}
			}
		}
		if let Some(r) = self.rng.as_mut() {
			shuffle_keeping_same_name_order(&mut list, r);
		}
		Ok(list)
	}

	fn attr_body(&mut self, name: &str, v: &Value, level: Level, mi: Option<&MethodInfo>, lay: Option<&CodeLay>, ctx: &str) -> R<Vec<u8>> {
		let mut w = W::default();
		match name {
			"ConstantValue" => {
				let k = fobj(v, ctx)?.keys().next().cloned().unwrap_or_default();
				if !matches!(k.as_str(), "int" | "float" | "long" | "double" | "string") {
					return invalid(format!("{ctx}: ConstantValue of kind {k:?}"));
				}
				w.u2(self.pool.constant(v, ctx)?.0);
			}
			"Code" => match mi {
				Some(mi) => return self.code(v, mi, ctx),
				None => return invalid("Code outside a method"),
			},
			"Exceptions" | "NestMembers" | "PermittedSubclasses" => self.class_list(&mut w, v, ctx)?,
			"InnerClasses" => {
				let rows = farr(v, ctx)?;
				w.u2(count_u16(rows.len(), ctx)?);
				for r in rows {
					w.u2(self.pool.class(fget(r, "inner", ctx)?)?);
					match r.get("outer") {
						Some(o) => w.u2(self.pool.class(o)?),
						None => w.u2(0),
					}
					match r.get("name") {
						Some(o) => w.u2(self.pool.utf8(o)?),
						None => w.u2(0),
					}
					w.u2(fkey_u16(r, "access", ctx)?);
				}
			}
			"EnclosingMethod" => {
				w.u2(self.pool.class(fget(v, "class", ctx)?)?);
				match v.get("method") {
					Some(m) => w.u2(self.pool.nat(fget(m, "name", ctx)?, fget(m, "desc", ctx)?)?),
					None => w.u2(0),
				}
			}
			"Synthetic" | "Deprecated" => {
				if v != &Value::Bool(true) {
					return invalid(format!("{ctx}: value must be true"));
				}
			}
			"Signature" | "SourceFile" => w.u2(self.pool.utf8(v)?),
			"SourceDebugExtension" => match v.get("hex") {
				Some(h) if v.as_object().map_or(false, |o| o.len() == 1) => match h.as_str().and_then(unhex) {
					Some(b) => w.bytes(&b),
					None => return invalid(format!("{ctx}: bad hex")),
				},
				_ => match s_to_units(v) {
					Ok(u) => w.bytes(&encode_mutf8(&u)),
					Err(_) => return invalid(format!("{ctx}: not a string")),
				},
			},
			"RuntimeVisibleAnnotations" | "RuntimeInvisibleAnnotations" => self.annotation_list(&mut w, v, ctx)?,
			"RuntimeVisibleParameterAnnotations" | "RuntimeInvisibleParameterAnnotations" => {
				let ps = farr(v, ctx)?;
				w.u1(count_u8(ps.len(), ctx)?);
				for p in ps {
					self.annotation_list(&mut w, p, ctx)?;
				}
			}
			"RuntimeVisibleTypeAnnotations" | "RuntimeInvisibleTypeAnnotations" => {
				let l = farr(v, ctx)?;
				w.u2(count_u16(l.len(), ctx)?);
				for a in l {
					self.type_annotation(&mut w, a, level, lay, ctx)?;
				}
			}
			"AnnotationDefault" => self.element_value(&mut w, v, ctx, 0)?,
			"MethodParameters" => {
				let l = farr(v, ctx)?;
				w.u1(count_u8(l.len(), ctx)?);
				for p in l {
					match p.get("name") {
						Some(n) => w.u2(self.pool.utf8(n)?),
						None => w.u2(0),
					}
					w.u2(fkey_u16(p, "access", ctx)?);
				}
			}
			"Module" => self.module(&mut w, v, ctx)?,
			"ModulePackages" => {
				let l = farr(v, ctx)?;
				w.u2(count_u16(l.len(), ctx)?);
				for p in l {
					w.u2(self.pool.package(p)?);
				}
			}
			"ModuleMainClass" | "NestHost" => w.u2(self.pool.class(v)?),
			"Record" => {
				let l = farr(v, ctx)?;
				w.u2(count_u16(l.len(), ctx)?);
				for (i, c) in l.iter().enumerate() {
					w.u2(self.pool.utf8(fget(c, "name", ctx)?)?);
					w.u2(self.pool.utf8(fget(c, "desc", ctx)?)?);
					let attrs = fobj(fget(c, "attrs", ctx)?, ctx)?;
					let list = self.attr_list(attrs, Level::Record, None, &format!("{ctx}[{i}]"))?;
					self.write_attrs(&mut w, list)?;
				}
			}
			"LocalVariableTable" | "LocalVariableTypeTable" => {
				let lay = match lay {
					Some(l) => l,
					None => return invalid("local variable table outside Code"),
				};
				let key = if name == "LocalVariableTable" { "desc" } else { "sig" };
				let rows = farr(v, ctx)?;
				w.u2(count_u16(rows.len(), ctx)?);
				for r in rows {
					let s = lay.pc(fget(r, "start", ctx)?, ctx)?;
					let e = lay.pc(fget(r, "end", ctx)?, ctx)?;
					if e < s {
						return invalid(format!("{ctx}: end before start"));
					}
					w.u2(s);
					w.u2(e - s);
					w.u2(self.pool.utf8(fget(r, "name", ctx)?)?);
					w.u2(self.pool.utf8(fget(r, key, ctx)?)?);
					w.u2(fkey_u16(r, "slot", ctx)?);
				}
			}
			"StackMapTable" => {
				let (lay, mi) = match (lay, mi) {
					(Some(l), Some(m)) => (l, m),
					_ => return invalid("StackMapTable outside Code"),
				};
				self.stack_map_table(&mut w, v, lay, mi, ctx)?;
			}
			other => return invalid(format!("{ctx}: attribute {other:?} cannot be assembled")),
		}
		Ok(w.b)
	}

	fn class_list(&mut self, w: &mut W, v: &Value, ctx: &str) -> R<()> {
		let l = farr(v, ctx)?;
		w.u2(count_u16(l.len(), ctx)?);
		for c in l {
			w.u2(self.pool.class(c)?);
		}
		Ok(())
	}

	fn module(&mut self, w: &mut W, v: &Value, ctx: &str) -> R<()> {
		w.u2(self.pool.module(fget(v, "name", ctx)?)?);
		w.u2(fkey_u16(v, "access", ctx)?);
		match v.get("version") {
			Some(s) => w.u2(self.pool.utf8(s)?),
			None => w.u2(0),
		}
		let req = farr(fget(v, "requires", ctx)?, ctx)?;
		w.u2(count_u16(req.len(), ctx)?);
		for r in req {
			w.u2(self.pool.module(fget(r, "name", ctx)?)?);
			w.u2(fkey_u16(r, "access", ctx)?);
			match r.get("version") {
				Some(s) => w.u2(self.pool.utf8(s)?),
				None => w.u2(0),
			}
		}
		for which in ["exports", "opens"] {
			let l = farr(fget(v, which, ctx)?, ctx)?;
			w.u2(count_u16(l.len(), ctx)?);
			for r in l {
				w.u2(self.pool.package(fget(r, "package", ctx)?)?);
				w.u2(fkey_u16(r, "access", ctx)?);
				let to = farr(fget(r, "to", ctx)?, ctx)?;
				w.u2(count_u16(to.len(), ctx)?);
				for t in to {
					w.u2(self.pool.module(t)?);
				}
			}
		}
		self.class_list(w, fget(v, "uses", ctx)?, ctx)?;
		let l = farr(fget(v, "provides", ctx)?, ctx)?;
		w.u2(count_u16(l.len(), ctx)?);
		for r in l {
			w.u2(self.pool.class(fget(r, "class", ctx)?)?);
			self.class_list(w, fget(r, "with", ctx)?, ctx)?;
		}
		Ok(())
	}

	fn annotation_list(&mut self, w: &mut W, v: &Value, ctx: &str) -> R<()> {
		let l = farr(v, ctx)?;
		w.u2(count_u16(l.len(), ctx)?);
		for a in l {
			self.annotation(w, a, ctx, 0)?;
		}
		Ok(())
	}

	fn annotation(&mut self, w: &mut W, a: &Value, ctx: &str, depth: usize) -> R<()> {
		w.u2(self.pool.utf8(fget(a, "type", ctx)?)?);
		self.pairs(w, fget(a, "pairs", ctx)?, ctx, depth)
	}

	fn pairs(&mut self, w: &mut W, v: &Value, ctx: &str, depth: usize) -> R<()> {
		let l = farr(v, ctx)?;
		w.u2(count_u16(l.len(), ctx)?);
		for p in l {
			let p = farr(p, ctx)?;
			if p.len() != 2 {
				return invalid(format!("{ctx}: an element value pair must be [name, value]"));
			}
			w.u2(self.pool.utf8(&p[0])?);
			self.element_value(w, &p[1], ctx, depth + 1)?;
		}
		Ok(())
	}

	fn element_value(&mut self, w: &mut W, v: &Value, ctx: &str, depth: usize) -> R<()> {
		if depth > 70 {
			return invalid(format!("{ctx}: element values nested too deeply"));
		}
		let o = fobj(v, ctx)?;
		let (k, x) = match (o.len(), o.iter().next()) {
			(1, Some(kv)) => kv,
			_ => return invalid(format!("{ctx}: an element value must have exactly one key")),
		};
		let tag = match k.as_bytes() {
			[t] => *t,
			_ => return invalid(format!("{ctx}: bad element value tag {k:?}")),
		};
		w.u1(tag);
		match tag {
			b'B' | b'C' | b'I' | b'S' | b'Z' => {
				let id = self.pool.intern(CpKey::Int(fi32(x, ctx)?))?;
				w.u2(self.pool.idx(id));
			}
			b'F' => {
				let id = self.pool.intern(CpKey::Float(fint(x, 0, u32::MAX as i64, ctx)? as u32))?;
				w.u2(self.pool.idx(id));
			}
			b'J' => match x.as_str().and_then(|s| s.parse::<i64>().ok()) {
				Some(n) => {
					let id = self.pool.intern(CpKey::Long(n))?;
					w.u2(self.pool.idx(id));
				}
				None => return invalid(format!("{ctx}: J needs a decimal string")),
			},
			b'D' => match x.as_str().and_then(|s| s.parse::<u64>().ok()) {
				Some(n) => {
					let id = self.pool.intern(CpKey::Double(n))?;
					w.u2(self.pool.idx(id));
				}
				None => return invalid(format!("{ctx}: D needs a decimal string")),
			},
			b's' | b'c' => w.u2(self.pool.utf8(x)?),
			b'e' => {
				w.u2(self.pool.utf8(fget(x, "type", ctx)?)?);
				w.u2(self.pool.utf8(fget(x, "name", ctx)?)?);
			}
			b'@' => self.annotation(w, x, ctx, depth + 1)?,
			b'[' => {
				let l = farr(x, ctx)?;
				w.u2(count_u16(l.len(), ctx)?);
				for e in l {
					self.element_value(w, e, ctx, depth + 1)?;
				}
			}
			_ => return invalid(format!("{ctx}: bad element value tag {k:?}")),
		}
		Ok(())
	}

	fn type_annotation(&mut self, w: &mut W, a: &Value, level: Level, lay: Option<&CodeLay>, ctx: &str) -> R<()> {
		let t = fget(a, "target", ctx)?;
		let kind = fstr(fget(t, "kind", ctx)?, ctx)?;
		const KINDS: &[(&str, u8)] = &[
			("class_type_parameter", 0x00), ("method_type_parameter", 0x01), ("class_extends", 0x10),
			("class_type_parameter_bound", 0x11), ("method_type_parameter_bound", 0x12), ("field", 0x13), ("method_return", 0x14),
			("method_receiver", 0x15), ("method_formal_parameter", 0x16), ("throws", 0x17), ("local_variable", 0x40),
			("resource_variable", 0x41), ("exception_parameter", 0x42), ("instanceof", 0x43), ("new", 0x44),
			("constructor_reference", 0x45), ("method_reference", 0x46), ("cast", 0x47),
			("constructor_invocation_type_argument", 0x48), ("method_invocation_type_argument", 0x49),
			("constructor_reference_type_argument", 0x4a), ("method_reference_type_argument", 0x4b),
		];
		let tt = match KINDS.iter().find(|(k, _)| *k == kind) {
			Some((_, t)) => *t,
			None => return invalid(format!("{ctx}: unknown type annotation target kind {kind:?}")),
		};
		let ok = match tt {
			0x00 | 0x10 | 0x11 => level == Level::Class,
			0x01 | 0x12 | 0x14..=0x17 => level == Level::Method,
			0x13 => level == Level::Field || level == Level::Record,
			_ => level == Level::Code,
		};
		if !ok {
			return invalid(format!("{ctx}: target kind {kind:?} not allowed at this level"));
		}
		w.u1(tt);
		match tt {
			0x00 | 0x01 | 0x16 => w.u1(fkey_u8(t, "index", ctx)?),
			0x10 | 0x17 | 0x42 => w.u2(fkey_u16(t, "index", ctx)?),
			0x11 | 0x12 => {
				w.u1(fkey_u8(t, "param", ctx)?);
				w.u1(fkey_u8(t, "bound", ctx)?);
			}
			0x13..=0x15 => {}
			0x40 | 0x41 => {
				let lay = match lay {
					Some(l) => l,
					None => return invalid("code type annotation outside Code"),
				};
				let rows = farr(fget(t, "table", ctx)?, ctx)?;
				w.u2(count_u16(rows.len(), ctx)?);
				for r in rows {
					let s = lay.pc(fget(r, "start", ctx)?, ctx)?;
					let e = lay.pc(fget(r, "end", ctx)?, ctx)?;
					if e < s {
						return invalid(format!("{ctx}: end before start"));
					}
					w.u2(s);
					w.u2(e - s);
					w.u2(fkey_u16(r, "slot", ctx)?);
				}
			}
			_ => {
				let lay = match lay {
					Some(l) => l,
					None => return invalid("code type annotation outside Code"),
				};
				w.u2(lay.pc_insn(fget(t, "insn", ctx)?, ctx)?);
				if tt >= 0x47 {
					w.u1(fkey_u8(t, "index", ctx)?);
				}
			}
		}
		let path = farr(fget(a, "path", ctx)?, ctx)?;
		w.u1(count_u8(path.len(), ctx)?);
		for p in path {
			let p = farr(p, ctx)?;
			if p.len() != 2 {
				return invalid(format!("{ctx}: type path entry must be [kind, index]"));
			}
			w.u1(fint(&p[0], 0, 3, ctx)? as u8);
			w.u1(fu8(&p[1], ctx)?);
		}
		w.u2(self.pool.utf8(fget(a, "type", ctx)?)?);
		self.pairs(w, fget(a, "pairs", ctx)?, ctx, 0)
	}
}

fn shuffle_keeping_same_name_order(list: &mut Vec<Attr>, r: &mut Rng) {
	let n = list.len();
	let mut perm: Vec<usize> = (0..n).collect();
	r.shuffle(&mut perm);
	// perm[k] = original index placed at position k; restore relative order among equal names
	let mut by_name: Vec<(String, Vec<usize>)> = Vec::new();
	for (k, &orig) in perm.iter().enumerate() {
		let name = s_display(&list[orig].name);
		match by_name.iter_mut().find(|(n, _)| *n == name) {
			Some((_, v)) => v.push(k),
			None => by_name.push((name, vec![k])),
		}
	}
	for (_, positions) in by_name {
		if positions.len() > 1 {
			let mut origs: Vec<usize> = positions.iter().map(|&k| perm[k]).collect();
			origs.sort();
			for (k, o) in positions.iter().zip(origs) {
				perm[*k] = o;
			}
		}
	}
	let mut slots: Vec<Option<Attr>> = std::mem::take(list).into_iter().map(Some).collect();
	for &o in &perm {
		if let Some(a) = slots.get_mut(o).and_then(Option::take) {
			list.push(a);
		}
	}
}
