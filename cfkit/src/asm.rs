//! Assembler: class facts (+ an [`Encoding`]) → class file bytes. Written from JVMS chapter 4 alone.
//!
//! See `FACTS.md` §6. The assembler walks the facts twice with identical control flow: the first walk
//! collects the constant pool (and the bootstrap method table), then the pool order is fixed, and the
//! second walk emits bytes with the final indices.

use crate::facts::{encode_mutf8, s_display, s_to_units, unhex};
use crate::opcodes::{self, Kind as OpKind};
use serde::{Deserialize, Serialize};
use serde_json::{Map, Value};
use std::collections::{BTreeMap, HashMap};

#[derive(Debug, Clone, PartialEq, Eq)]
pub enum AsmError {
	/// The facts are fine but the requested encoding cannot represent them.
	Unencodable(String),
	/// The facts are malformed.
	Invalid(String),
}

impl std::fmt::Display for AsmError {
	fn fmt(&self, f: &mut std::fmt::Formatter<'_>) -> std::fmt::Result {
		match self {
			AsmError::Unencodable(m) => write!(f, "unencodable: {m}"),
			AsmError::Invalid(m) => write!(f, "invalid facts: {m}"),
		}
	}
}
impl std::error::Error for AsmError {}

type R<T> = Result<T, AsmError>;

fn invalid<T>(m: impl Into<String>) -> R<T> {
	Err(AsmError::Invalid(m.into()))
}
fn unenc<T>(m: impl Into<String>) -> R<T> {
	Err(AsmError::Unencodable(m.into()))
}

#[derive(Debug, Default, Clone, Serialize, Deserialize, PartialEq)]
#[serde(default, deny_unknown_fields)]
pub struct Encoding {
	/// "first_use" (default) | "reverse" | "shuffle"
	pub pool_order: Option<String>,
	pub pool_seed: Option<u64>,
	pub pool_pad: Option<u32>,
	pub pool_pad_back: Option<u32>,
	pub dedup: Option<bool>,
	pub attr_order_seed: Option<u64>,
	pub split_line_tables: Option<u32>,
	/// (method index, instruction index, form)
	pub forms: Vec<(usize, usize, String)>,
	pub default_forms: BTreeMap<String, String>,
	/// "compact" (default) | "full" | "extended"
	pub frame_forms: Option<String>,
}

/// splitmix64 — the only source of pseudo randomness (deterministic, no external crate).
#[derive(Clone)]
pub struct Rng(pub u64);
impl Rng {
	pub fn next(&mut self) -> u64 {
		self.0 = self.0.wrapping_add(0x9E3779B97F4A7C15);
		let mut z = self.0;
		z = (z ^ (z >> 30)).wrapping_mul(0xBF58476D1CE4E5B9);
		z = (z ^ (z >> 27)).wrapping_mul(0x94D049BB133111EB);
		z ^ (z >> 31)
	}
	pub fn below(&mut self, n: usize) -> usize {
		if n == 0 {
			0
		} else {
			(self.next() % n as u64) as usize
		}
	}
	pub fn shuffle<T>(&mut self, v: &mut [T]) {
		for i in (1..v.len()).rev() {
			let j = self.below(i + 1);
			v.swap(i, j);
		}
	}
}

// ---------------------------------------------------------------------------------------------
// access helpers for facts

fn fget<'v>(v: &'v Value, key: &str, ctx: &str) -> R<&'v Value> {
	match v.get(key) {
		Some(x) => Ok(x),
		None => invalid(format!("{ctx}: missing key {key:?}")),
	}
}
fn farr<'v>(v: &'v Value, ctx: &str) -> R<&'v Vec<Value>> {
	match v.as_array() {
		Some(a) => Ok(a),
		None => invalid(format!("{ctx}: expected a list")),
	}
}
fn fobj<'v>(v: &'v Value, ctx: &str) -> R<&'v Map<String, Value>> {
	match v.as_object() {
		Some(a) => Ok(a),
		None => invalid(format!("{ctx}: expected an object")),
	}
}
fn fint(v: &Value, lo: i64, hi: i64, ctx: &str) -> R<i64> {
	let n = if let Some(i) = v.as_i64() {
		i
	} else if v.as_u64().is_some() {
		i64::MAX
	} else {
		return invalid(format!("{ctx}: expected an integer, got {v}"));
	};
	if n < lo || n > hi {
		return invalid(format!("{ctx}: {v} not in {lo}..={hi}"));
	}
	Ok(n)
}
fn fu8(v: &Value, ctx: &str) -> R<u8> {
	Ok(fint(v, 0, 255, ctx)? as u8)
}
fn fu16(v: &Value, ctx: &str) -> R<u16> {
	Ok(fint(v, 0, 65535, ctx)? as u16)
}
fn fi32(v: &Value, ctx: &str) -> R<i32> {
	Ok(fint(v, i32::MIN as i64, i32::MAX as i64, ctx)? as i32)
}
fn fkey_u16(v: &Value, key: &str, ctx: &str) -> R<u16> {
	fu16(fget(v, key, ctx)?, &format!("{ctx}.{key}"))
}
fn fkey_u8(v: &Value, key: &str, ctx: &str) -> R<u8> {
	fu8(fget(v, key, ctx)?, &format!("{ctx}.{key}"))
}
fn fstr<'v>(v: &'v Value, ctx: &str) -> R<&'v str> {
	match v.as_str() {
		Some(s) => Ok(s),
		None => invalid(format!("{ctx}: expected a JSON string")),
	}
}
fn count_u16(n: usize, what: &str) -> R<u16> {
	if n > 65535 {
		unenc(format!("{what}: {n} items do not fit a u2 count"))
	} else {
		Ok(n as u16)
	}
}
fn count_u8(n: usize, what: &str) -> R<u8> {
	if n > 255 {
		unenc(format!("{what}: {n} items do not fit a u1 count"))
	} else {
		Ok(n as u8)
	}
}

#[derive(Default)]
struct W {
	b: Vec<u8>,
}
impl W {
	fn u1(&mut self, v: u8) {
		self.b.push(v);
	}
	fn u2(&mut self, v: u16) {
		self.b.extend_from_slice(&v.to_be_bytes());
	}
	fn u4(&mut self, v: u32) {
		self.b.extend_from_slice(&v.to_be_bytes());
	}
	fn bytes(&mut self, v: &[u8]) {
		self.b.extend_from_slice(v);
	}
}

// ---------------------------------------------------------------------------------------------
// constant pool

#[derive(Debug, Clone, PartialEq, Eq, Hash)]
enum CpKey {
	Utf8(Vec<u16>),
	Int(i32),
	Float(u32),
	Long(i64),
	Double(u64),
	Class(usize),
	Str(usize),
	Field(usize, usize),
	Method(usize, usize),
	IMethod(usize, usize),
	Nat(usize, usize),
	Handle(u8, usize),
	MType(usize),
	Dyn(usize, usize),
	Indy(usize, usize),
	Module(usize),
	Package(usize),
}

impl CpKey {
	fn slots(&self) -> usize {
		match self {
			CpKey::Long(_) | CpKey::Double(_) => 2,
			_ => 1,
		}
	}
}

struct Pool {
	collecting: bool,
	dedup: bool,
	entries: Vec<CpKey>,
	map: HashMap<CpKey, usize>,
	next: usize,
	/// final index per entry id (emit mode)
	index: Vec<u16>,
	bsm: Vec<(usize, Vec<usize>)>,
	bsm_map: HashMap<(usize, Vec<usize>), usize>,
	bsm_next: usize,
	bsm_extra: Vec<(usize, Vec<usize>)>,
}

impl Pool {
	fn new(dedup: bool) -> Pool {
		Pool {
			collecting: true,
			dedup,
			entries: Vec::new(),
			map: HashMap::new(),
			next: 0,
			index: Vec::new(),
			bsm: Vec::new(),
			bsm_map: HashMap::new(),
			bsm_next: 0,
			bsm_extra: Vec::new(),
		}
	}

	fn intern(&mut self, key: CpKey) -> R<usize> {
		if self.dedup {
			if let Some(&id) = self.map.get(&key) {
				return Ok(id);
			}
			if !self.collecting {
				return invalid(format!("internal: constant {key:?} requested only in the second pass"));
			}
			let id = self.entries.len();
			self.entries.push(key.clone());
			self.map.insert(key, id);
			Ok(id)
		} else if self.collecting {
			self.entries.push(key);
			Ok(self.entries.len() - 1)
		} else {
			let id = self.next;
			self.next += 1;
			match self.entries.get(id) {
				Some(k) if *k == key => Ok(id),
				_ => invalid("internal: second pass diverged from the first"),
			}
		}
	}

	/// The class-file index of an entry id.
	fn idx(&self, id: usize) -> u16 {
		if self.collecting {
			(id + 1).min(65535) as u16
		} else {
			self.index.get(id).copied().unwrap_or(0)
		}
	}

	fn utf8_id(&mut self, s: &Value) -> R<usize> {
		match s_to_units(s) {
			Ok(u) => self.intern(CpKey::Utf8(u)),
			Err(_) => invalid(format!("not a string value: {s}")),
		}
	}
	fn utf8(&mut self, s: &Value) -> R<u16> {
		let id = self.utf8_id(s)?;
		Ok(self.idx(id))
	}
	fn class_id(&mut self, name: &Value) -> R<usize> {
		let n = self.utf8_id(name)?;
		self.intern(CpKey::Class(n))
	}
	fn class(&mut self, name: &Value) -> R<u16> {
		let id = self.class_id(name)?;
		Ok(self.idx(id))
	}
	fn module(&mut self, name: &Value) -> R<u16> {
		let n = self.utf8_id(name)?;
		let id = self.intern(CpKey::Module(n))?;
		Ok(self.idx(id))
	}
	fn package(&mut self, name: &Value) -> R<u16> {
		let n = self.utf8_id(name)?;
		let id = self.intern(CpKey::Package(n))?;
		Ok(self.idx(id))
	}
	fn nat_id(&mut self, name: &Value, desc: &Value) -> R<usize> {
		let n = self.utf8_id(name)?;
		let d = self.utf8_id(desc)?;
		self.intern(CpKey::Nat(n, d))
	}
	fn nat(&mut self, name: &Value, desc: &Value) -> R<u16> {
		let id = self.nat_id(name, desc)?;
		Ok(self.idx(id))
	}
	/// kind: 0 field, 1 method, 2 interface method; `v` carries owner/name/desc
	fn member_id(&mut self, v: &Value, kind: u8, ctx: &str) -> R<usize> {
		let c = self.class_id(fget(v, "owner", ctx)?)?;
		let t = self.nat_id(fget(v, "name", ctx)?, fget(v, "desc", ctx)?)?;
		self.intern(match kind {
			0 => CpKey::Field(c, t),
			1 => CpKey::Method(c, t),
			_ => CpKey::IMethod(c, t),
		})
	}
	fn member(&mut self, v: &Value, kind: u8, ctx: &str) -> R<u16> {
		let id = self.member_id(v, kind, ctx)?;
		Ok(self.idx(id))
	}
	fn handle_id(&mut self, h: &Value, ctx: &str) -> R<usize> {
		let k = fstr(fget(h, "kind", ctx)?, ctx)?;
		let kind = match crate::parse::HANDLE_KINDS.iter().position(|x| *x == k) {
			Some(p) => p as u8 + 1,
			None => return invalid(format!("{ctx}: unknown method handle kind {k:?}")),
		};
		let itf = match fget(h, "itf", ctx)? {
			Value::Bool(b) => *b,
			_ => return invalid(format!("{ctx}: itf must be a boolean")),
		};
		let mk = if kind <= 4 {
			0
		} else if itf {
			2
		} else {
			1
		};
		let r = self.member_id(h, mk, ctx)?;
		self.intern(CpKey::Handle(kind, r))
	}
	fn bsm_entry(&mut self, d: &Value, ctx: &str) -> R<(usize, Vec<usize>)> {
		let h = self.handle_id(fget(d, "bsm", ctx)?, ctx)?;
		let mut args = Vec::new();
		for a in farr(fget(d, "args", ctx)?, ctx)? {
			args.push(self.constant_id(a, ctx)?.0);
		}
		Ok((h, args))
	}
	/// Dynamic (indy = false) or InvokeDynamic entry of a `D` value.
	fn dynamic_id(&mut self, d: &Value, indy: bool, ctx: &str) -> R<usize> {
		let entry = self.bsm_entry(d, ctx)?;
		let b = if self.dedup {
			match self.bsm_map.get(&entry) {
				Some(&b) => b,
				None => {
					if !self.collecting {
						return invalid("internal: bootstrap entry requested only in the second pass");
					}
					self.bsm.push(entry.clone());
					self.bsm_map.insert(entry, self.bsm.len() - 1);
					self.bsm.len() - 1
				}
			}
		} else if self.collecting {
			self.bsm.push(entry);
			self.bsm.len() - 1
		} else {
			let b = self.bsm_next;
			self.bsm_next += 1;
			if self.bsm.get(b) != Some(&entry) {
				return invalid("internal: second pass diverged from the first (bootstrap methods)");
			}
			b
		};
		if b > 65535 {
			return unenc("more than 65535 bootstrap methods");
		}
		let t = self.nat_id(fget(d, "name", ctx)?, fget(d, "desc", ctx)?)?;
		self.intern(if indy { CpKey::Indy(b, t) } else { CpKey::Dyn(b, t) })
	}
	/// A loadable constant `C`; returns (id, is category 2).
	fn constant_id(&mut self, c: &Value, ctx: &str) -> R<(usize, bool)> {
		let o = fobj(c, ctx)?;
		if o.len() != 1 {
			return invalid(format!("{ctx}: a constant must have exactly one key: {c}"));
		}
		let (k, v) = match o.iter().next() {
			Some(kv) => kv,
			None => return invalid("empty constant"),
		};
		Ok(match k.as_str() {
			"int" => (self.intern(CpKey::Int(fi32(v, ctx)?))?, false),
			"float" => (self.intern(CpKey::Float(fint(v, 0, u32::MAX as i64, ctx)? as u32))?, false),
			"long" => match v.as_str().and_then(|s| s.parse::<i64>().ok()) {
				Some(n) => (self.intern(CpKey::Long(n))?, true),
				None => return invalid(format!("{ctx}: long must be a decimal string: {v}")),
			},
			"double" => match v.as_str().and_then(|s| s.parse::<u64>().ok()) {
				Some(n) => (self.intern(CpKey::Double(n))?, true),
				None => return invalid(format!("{ctx}: double must be a decimal string of the raw bits: {v}")),
			},
			"string" => {
				let u = self.utf8_id(v)?;
				(self.intern(CpKey::Str(u))?, false)
			}
			"class" => (self.class_id(v)?, false),
			"method_type" => {
				let u = self.utf8_id(v)?;
				(self.intern(CpKey::MType(u))?, false)
			}
			"method_handle" => (self.handle_id(v, ctx)?, false),
			"dynamic" => {
				let cat2 = matches!(v.get("desc"), Some(Value::String(s)) if s == "J" || s == "D");
				(self.dynamic_id(v, false, ctx)?, cat2)
			}
			other => return invalid(format!("{ctx}: unknown constant kind {other:?}")),
		})
	}
	fn constant(&mut self, c: &Value, ctx: &str) -> R<(u16, bool)> {
		let (id, cat2) = self.constant_id(c, ctx)?;
		Ok((self.idx(id), cat2))
	}

	/// Fixes the pool order; returns the serialized constant pool (count + entries).
	fn finalize(&mut self, enc: &Encoding) -> R<Vec<u8>> {
		let n = self.entries.len();
		let mut order: Vec<usize> = (0..n).collect();
		match enc.pool_order.as_deref().unwrap_or("first_use") {
			"first_use" => {}
			"reverse" => order.reverse(),
			"shuffle" => Rng(enc.pool_seed.unwrap_or(0) ^ 0x706f6f6c).shuffle(&mut order),
			other => return invalid(format!("unknown pool_order {other:?}")),
		}
		let filler = |w: &mut W, i: u32, back: bool, slot: &mut usize| {
			let tagv = if back { 0x4241434b_u32 } else { 0x46524f4e_u32 };
			match i % 3 {
				0 => {
					w.u1(3);
					w.u4(tagv.wrapping_add(i));
					*slot += 1;
				}
				1 => {
					let s = format!("\u{0}filler{}{}", if back { "B" } else { "F" }, i);
					let b = encode_mutf8(&s.encode_utf16().collect::<Vec<_>>());
					w.u1(1);
					w.u2(b.len() as u16);
					w.bytes(&b);
					*slot += 1;
				}
				_ => {
					w.u1(5);
					w.u4(tagv);
					w.u4(i);
					*slot += 2;
				}
			}
		};
		let mut body = W::default();
		let mut slot = 1usize;
		for i in 0..enc.pool_pad.unwrap_or(0) {
			filler(&mut body, i, false, &mut slot);
		}
		self.index = vec![0; n];
		let mut s = slot;
		for &id in &order {
			if s > 65535 {
				return unenc("constant pool has more than 65535 slots");
			}
			self.index[id] = s as u16;
			s += self.entries[id].slots();
		}
		for &id in &order {
			let ix = |i: &usize| self.index.get(*i).copied().unwrap_or(0);
			match &self.entries[id] {
				CpKey::Utf8(u) => {
					let b = encode_mutf8(u);
					if b.len() > 65535 {
						return unenc("Utf8 constant longer than 65535 bytes");
					}
					body.u1(1);
					body.u2(b.len() as u16);
					body.bytes(&b);
				}
				CpKey::Int(v) => {
					body.u1(3);
					body.u4(*v as u32);
				}
				CpKey::Float(v) => {
					body.u1(4);
					body.u4(*v);
				}
				CpKey::Long(v) => {
					body.u1(5);
					body.u4((*v as u64 >> 32) as u32);
					body.u4(*v as u64 as u32);
				}
				CpKey::Double(v) => {
					body.u1(6);
					body.u4((*v >> 32) as u32);
					body.u4(*v as u32);
				}
				CpKey::Class(a) => {
					body.u1(7);
					body.u2(ix(a));
				}
				CpKey::Str(a) => {
					body.u1(8);
					body.u2(ix(a));
				}
				CpKey::Field(a, b) => {
					body.u1(9);
					body.u2(ix(a));
					body.u2(ix(b));
				}
				CpKey::Method(a, b) => {
					body.u1(10);
					body.u2(ix(a));
					body.u2(ix(b));
				}
				CpKey::IMethod(a, b) => {
					body.u1(11);
					body.u2(ix(a));
					body.u2(ix(b));
				}
				CpKey::Nat(a, b) => {
					body.u1(12);
					body.u2(ix(a));
					body.u2(ix(b));
				}
				CpKey::Handle(k, a) => {
					body.u1(15);
					body.u1(*k);
					body.u2(ix(a));
				}
				CpKey::MType(a) => {
					body.u1(16);
					body.u2(ix(a));
				}
				CpKey::Dyn(b, t) => {
					body.u1(17);
					body.u2(*b as u16);
					body.u2(ix(t));
				}
				CpKey::Indy(b, t) => {
					body.u1(18);
					body.u2(*b as u16);
					body.u2(ix(t));
				}
				CpKey::Module(a) => {
					body.u1(19);
					body.u2(ix(a));
				}
				CpKey::Package(a) => {
					body.u1(20);
					body.u2(ix(a));
				}
			}
		}
		slot = s;
		for i in 0..enc.pool_pad_back.unwrap_or(0) {
			filler(&mut body, i, true, &mut slot);
		}
		if slot > 65535 {
			return unenc("constant pool has more than 65535 slots");
		}
		let mut out = W::default();
		out.u2(slot as u16);
		out.bytes(&body.b);
		self.collecting = false;
		self.next = 0;
		self.bsm_next = 0;
		self.bsm_extra.clear();
		Ok(out.b)
	}
}

// ---------------------------------------------------------------------------------------------

struct Asm<'e> {
	enc: &'e Encoding,
	pool: Pool,
	rng: Option<Rng>,
	forms: HashMap<(usize, usize), String>,
	this_name: Value,
}

/// One attribute ready to be written: name (S) and body.
struct Attr {
	name: Value,
	body: Vec<u8>,
}

pub fn assemble(facts: &Value, enc: &Encoding) -> Result<Vec<u8>, AsmError> {
	let mut forms = HashMap::new();
	for (m, i, f) in &enc.forms {
		forms.insert((*m, *i), f.clone());
	}
	let mut a = Asm { enc, pool: Pool::new(enc.dedup.unwrap_or(true)), rng: None, forms, this_name: Value::Null };
	a.rng = enc.attr_order_seed.map(Rng);
	let _ = a.class_body(facts)?;
	let pool_bytes = a.pool.finalize(enc)?;
	a.rng = enc.attr_order_seed.map(Rng);
	let body = a.class_body(facts)?;
	let ver = farr(fget(facts, "version", "class")?, "version")?;
	if ver.len() != 2 {
		return invalid("version must be [major, minor]");
	}
	let mut out = W::default();
	out.u4(0xCAFEBABE);
	out.u2(fu16(&ver[1], "minor")?);
	out.u2(fu16(&ver[0], "major")?);
	out.bytes(&pool_bytes);
	out.bytes(&body);
	Ok(out.b)
}

impl<'e> Asm<'e> {
	fn class_body(&mut self, f: &Value) -> R<Vec<u8>> {
		let mut w = W::default();
		w.u2(fkey_u16(f, "access", "class")?);
		let this = fget(f, "this", "class")?;
		self.this_name = this.clone();
		w.u2(self.pool.class(this)?);
		match f.get("super") {
			Some(s) => w.u2(self.pool.class(s)?),
			None => w.u2(0),
		}
		let itfs = farr(fget(f, "interfaces", "class")?, "interfaces")?;
		w.u2(count_u16(itfs.len(), "interfaces")?);
		for i in itfs {
			w.u2(self.pool.class(i)?);
		}
		let fields = farr(fget(f, "fields", "class")?, "fields")?;
		w.u2(count_u16(fields.len(), "fields")?);
		for (i, m) in fields.iter().enumerate() {
			self.member(&mut w, m, None, &format!("field[{i}]"))?;
		}
		let methods = farr(fget(f, "methods", "class")?, "methods")?;
		w.u2(count_u16(methods.len(), "methods")?);
		for (i, m) in methods.iter().enumerate() {
			self.member(&mut w, m, Some(i), &format!("method[{i}]"))?;
		}
		let attrs = fobj(fget(f, "attrs", "class")?, "class.attrs")?;
		let mut list = self.attr_list(attrs, Level::Class, None, "class")?;
		// BootstrapMethods: after everything else has made its requests
		let unref = attrs.get("unreferenced_bootstrap");
		if let Some(u) = unref {
			for (i, e) in farr(u, "unreferenced_bootstrap")?.iter().enumerate() {
				let entry = self.pool.bsm_entry(e, &format!("unreferenced_bootstrap[{i}]"))?;
				self.pool.bsm_extra.push(entry);
			}
		}
		if unref.is_some() || !self.pool.bsm.is_empty() {
			let mut b = W::default();
			let total = self.pool.bsm.len() + self.pool.bsm_extra.len();
			b.u2(count_u16(total, "BootstrapMethods")?);
			for (h, args) in self.pool.bsm.iter().chain(self.pool.bsm_extra.iter()) {
				b.u2(self.pool.idx(*h));
				b.u2(count_u16(args.len(), "bootstrap arguments")?);
				for a in args {
					b.u2(self.pool.idx(*a));
				}
			}
			list.push(Attr { name: Value::String("BootstrapMethods".into()), body: b.b });
			if let Some(r) = self.rng.as_mut() {
				// place it anywhere
				let n = list.len();
				let j = r.below(n);
				let a = list.remove(n - 1);
				list.insert(j, a);
			}
		}
		self.write_attrs(&mut w, list)?;
		Ok(w.b)
	}

	fn member(&mut self, w: &mut W, m: &Value, method: Option<usize>, ctx: &str) -> R<()> {
		w.u2(fkey_u16(m, "access", ctx)?);
		w.u2(self.pool.utf8(fget(m, "name", ctx)?)?);
		w.u2(self.pool.utf8(fget(m, "desc", ctx)?)?);
		let attrs = fobj(fget(m, "attrs", ctx)?, ctx)?;
		let level = if method.is_some() { Level::Method } else { Level::Field };
		let mc = method.map(|i| MethodInfo { index: i, decl: m });
		let list = self.attr_list(attrs, level, mc.as_ref(), ctx)?;
		self.write_attrs(w, list)
	}

	fn write_attrs(&mut self, w: &mut W, list: Vec<Attr>) -> R<()> {
		w.u2(count_u16(list.len(), "attributes")?);
		for a in list {
			w.u2(self.pool.utf8(&a.name)?);
			if a.body.len() > u32::MAX as usize {
				return unenc("attribute longer than 2^32-1 bytes");
			}
			w.u4(a.body.len() as u32);
			w.bytes(&a.body);
		}
		Ok(())
	}
}

#[derive(Clone, Copy, PartialEq, Eq, Debug)]
enum Level {
	Class,
	Field,
	Method,
	Code,
	Record,
}

struct MethodInfo<'v> {
	index: usize,
	decl: &'v Value,
}

include!("asm_attrs.rs");
include!("asm_code.rs");

/// A fixed set of named encodings used by the tests and by `cfcheck`.
pub fn standard_encodings() -> Vec<(&'static str, Encoding)> {
	let all_wide: BTreeMap<String, String> = [("load", "wide"), ("store", "wide"), ("ret", "wide"), ("iinc", "wide"), ("ldc", "w"), ("goto", "w"), ("jsr", "w")]
		.iter()
		.map(|(k, v)| (k.to_string(), v.to_string()))
		.collect();
	let plain: BTreeMap<String, String> =
		[("load", "plain"), ("store", "plain")].iter().map(|(k, v)| (k.to_string(), v.to_string())).collect();
	vec![
		("default", Encoding::default()),
		("reverse_pool", Encoding { pool_order: Some("reverse".into()), ..Default::default() }),
		("shuffle_pad300", Encoding { pool_order: Some("shuffle".into()), pool_seed: Some(42), pool_pad: Some(300), pool_pad_back: Some(7), ..Default::default() }),
		("all_wide", Encoding { default_forms: all_wide, ..Default::default() }),
		("plain_vars", Encoding { default_forms: plain, ..Default::default() }),
		("attr_shuffle", Encoding { attr_order_seed: Some(7), split_line_tables: Some(3), ..Default::default() }),
		("full_frames", Encoding { frame_forms: Some("full".into()), ..Default::default() }),
		("extended_frames", Encoding { frame_forms: Some("extended".into()), ..Default::default() }),
		("no_dedup", Encoding { dedup: Some(false), ..Default::default() }),
		(
			"everything",
			Encoding {
				pool_order: Some("shuffle".into()),
				pool_seed: Some(3),
				pool_pad: Some(260),
				attr_order_seed: Some(11),
				split_line_tables: Some(2),
				frame_forms: Some("extended".into()),
				..Default::default()
			},
		),
	]
}
