//! Projection of duke's in-memory class tree into the *class facts* format of `FACTS.md`.
//!
//! This is a **mechanical** translation of what the tree holds: nothing is repaired, completed or
//! looked up elsewhere. Where duke's tree cannot tell two class files apart (an absent attribute vs. an
//! attribute with an empty table, for annotation lists / `Record` / `StackMapTable` /
//! `LocalVariable(Type)Table`), the key is emitted iff the tree holds at least one element; this is the
//! same rule duke's own writer applies.
//!
//! Representation choices that follow from the shape of duke's types (all documented in the report):
//!
//! * access flags: `u16::from(flags)` of duke's flag structs (bits duke does not model are gone in the tree);
//! * `Object::Byte/Char/Short` hold the constant already narrowed, `Object::Boolean` a `bool` (→ `0`/`1`);
//! * `TargetInfoClass::Extends` ↦ `class_extends` with index 65535, `Implements{index}` ↦ the index;
//! * a `Lv` with a descriptor gives a `LocalVariableTable` row, one with a signature a
//!   `LocalVariableTypeTable` row (one with both gives both);
//! * `TableSwitch.high` is not a fact; it must equal `low + len(table) - 1`, else `ProjError`.

use crate::facts::{self, canon_sort, canon_sort_dedup, hex, initial_locals, s_from_units, FrameState};
use duke::tree::annotation::{Annotation, ElementValue, ElementValuePair, Object};
use duke::tree::attribute::Attribute;
use duke::tree::class::ClassFile;
use duke::tree::field::{ConstantValue, Field, FieldRef};
use duke::tree::method::code::{
	ArrayType, Code, ConstantDynamic, Handle, Instruction, InvokeDynamic, Label, LabelRange, Loadable, LvIndex,
};
use duke::tree::method::{Method, MethodRef};
use duke::tree::record::RecordComponent;
use duke::tree::type_annotation::{TargetInfoClass, TargetInfoCode, TargetInfoField, TargetInfoMethod, TypeAnnotation};
use duke::visitor::method::code::{StackMapData, VerificationTypeInfo};
use java_string::JavaStr;
use serde_json::{json, Map, Value};
use std::collections::HashMap;

#[derive(Debug, Clone, PartialEq, Eq)]
pub struct ProjError(pub String);

impl std::fmt::Display for ProjError {
	fn fmt(&self, f: &mut std::fmt::Formatter<'_>) -> std::fmt::Result {
		write!(f, "projection error: {}", self.0)
	}
}
impl std::error::Error for ProjError {}

type R<T> = Result<T, ProjError>;

fn perr<T>(msg: impl Into<String>) -> R<T> {
	Err(ProjError(msg.into()))
}

/// A Java string of duke as a facts string `S` (FACTS.md §1.1).
pub fn s(x: &JavaStr) -> Value {
	let mut units: Vec<u16> = Vec::with_capacity(x.len());
	let mut buf = [0u16; 2];
	for c in x.chars() {
		units.extend_from_slice(c.encode_utf16(&mut buf));
	}
	s_from_units(&units)
}

fn s_list<'a, I, T>(items: I) -> Value
where
	I: IntoIterator<Item = &'a T>,
	T: AsRef<JavaStr> + 'a,
{
	Value::Array(items.into_iter().map(|x| s(x.as_ref())).collect())
}

/// Projects duke's in-memory class tree into the class-facts format of FACTS.md.
pub fn duke_to_facts(class: &ClassFile) -> Result<Value, ProjError> {
	let mut c = Map::new();
	let (major, minor) = duke::verif::version(&class.version);
	c.insert("version".into(), json!([major, minor]));
	c.insert("access".into(), json!(u16::from(class.access)));
	let this = s(class.name.as_inner());
	c.insert("this".into(), this.clone());
	if let Some(sup) = &class.super_class {
		c.insert("super".into(), s(sup.as_inner()));
	}
	c.insert("interfaces".into(), s_list(class.interfaces.iter()));

	let mut fields = Vec::with_capacity(class.fields.len());
	for (i, f) in class.fields.iter().enumerate() {
		fields.push(field(f).map_err(|e| ProjError(format!("field[{i}]: {}", e.0)))?);
	}
	c.insert("fields".into(), Value::Array(fields));

	let mut methods = Vec::with_capacity(class.methods.len());
	for (i, m) in class.methods.iter().enumerate() {
		methods.push(method(m, &this).map_err(|e| ProjError(format!("method[{i}]: {}", e.0)))?);
	}
	c.insert("methods".into(), Value::Array(methods));

	let mut a = Map::new();
	if class.has_deprecated_attribute {
		a.insert("Deprecated".into(), Value::Bool(true));
	}
	if class.has_synthetic_attribute {
		a.insert("Synthetic".into(), Value::Bool(true));
	}
	if let Some(inner) = &class.inner_classes {
		let mut rows = Vec::with_capacity(inner.len());
		for ic in inner {
			let mut m = Map::new();
			m.insert("inner".into(), s(ic.inner_class.as_inner()));
			if let Some(o) = &ic.outer_class {
				m.insert("outer".into(), s(o.as_inner()));
			}
			if let Some(n) = &ic.inner_name {
				m.insert("name".into(), s(n));
			}
			m.insert("access".into(), json!(u16::from(ic.flags)));
			rows.push(Value::Object(m));
		}
		a.insert("InnerClasses".into(), Value::Array(rows));
	}
	if let Some(em) = &class.enclosing_method {
		let mut m = Map::new();
		m.insert("class".into(), s(em.class.as_inner()));
		if let Some(nd) = &em.method {
			m.insert("method".into(), json!({"name": s(nd.name.as_inner()), "desc": s(nd.desc.as_inner())}));
		}
		a.insert("EnclosingMethod".into(), Value::Object(m));
	}
	if let Some(sig) = &class.signature {
		a.insert("Signature".into(), s(sig.as_inner()));
	}
	if let Some(sf) = &class.source_file {
		a.insert("SourceFile".into(), s(sf));
	}
	if let Some(sde) = &class.source_debug_extension {
		a.insert("SourceDebugExtension".into(), s(sde));
	}
	annotations_into(&mut a, &class.runtime_visible_annotations, &class.runtime_invisible_annotations);
	type_annotations_into(
		&mut a,
		&class.runtime_visible_type_annotations,
		&class.runtime_invisible_type_annotations,
		&mut |t: &TargetInfoClass| Ok(target_class(t)),
	)?;
	if let Some(module) = &class.module {
		a.insert("Module".into(), module_value(module));
	}
	if let Some(pk) = &class.module_packages {
		a.insert("ModulePackages".into(), Value::Array(pk.iter().map(|p| s(p.as_inner())).collect()));
	}
	if let Some(mc) = &class.module_main_class {
		a.insert("ModuleMainClass".into(), s(mc.as_inner()));
	}
	if let Some(nh) = &class.nest_host_class {
		a.insert("NestHost".into(), s(nh.as_inner()));
	}
	if let Some(nm) = &class.nest_members {
		a.insert("NestMembers".into(), s_list(nm.iter()));
	}
	if let Some(ps) = &class.permitted_subclasses {
		a.insert("PermittedSubclasses".into(), s_list(ps.iter()));
	}
	if !class.record_components.is_empty() {
		let mut l = Vec::with_capacity(class.record_components.len());
		for (i, rc) in class.record_components.iter().enumerate() {
			l.push(record_component(rc).map_err(|e| ProjError(format!("record component[{i}]: {}", e.0)))?);
		}
		a.insert("Record".into(), Value::Array(l));
	}
	unknown_into(&mut a, &class.attributes);
	c.insert("attrs".into(), Value::Object(a));
	Ok(Value::Object(c))
}

// ---------------------------------------------------------------------------------------------
// attributes shared by several levels

fn unknown_into(a: &mut Map<String, Value>, attributes: &[Attribute]) {
	if attributes.is_empty() {
		return;
	}
	let mut l: Vec<Value> = attributes.iter().map(|x| json!({"name": s(&x.name), "bytes": hex(&x.bytes)})).collect();
	canon_sort(&mut l);
	a.insert("unknown".into(), Value::Array(l));
}

fn annotations_into(a: &mut Map<String, Value>, visible: &[Annotation], invisible: &[Annotation]) {
	if !visible.is_empty() {
		a.insert("RuntimeVisibleAnnotations".into(), Value::Array(visible.iter().map(annotation).collect()));
	}
	if !invisible.is_empty() {
		a.insert("RuntimeInvisibleAnnotations".into(), Value::Array(invisible.iter().map(annotation).collect()));
	}
}

fn type_annotations_into<T>(
	a: &mut Map<String, Value>,
	visible: &[TypeAnnotation<T>],
	invisible: &[TypeAnnotation<T>],
	target: &mut dyn FnMut(&T) -> R<Value>,
) -> R<()> {
	for (name, list) in [("RuntimeVisibleTypeAnnotations", visible), ("RuntimeInvisibleTypeAnnotations", invisible)] {
		if list.is_empty() {
			continue;
		}
		let mut l = Vec::with_capacity(list.len());
		for (i, ta) in list.iter().enumerate() {
			let t = target(&ta.type_reference).map_err(|e| ProjError(format!("{name}[{i}]: {}", e.0)))?;
			let path: Vec<Value> = duke::verif::type_path(&ta.type_path).into_iter().map(|(k, i)| json!([k, i])).collect();
			let mut m = Map::new();
			m.insert("target".into(), t);
			m.insert("path".into(), Value::Array(path));
			m.insert("type".into(), s(ta.annotation.annotation_type.as_inner()));
			m.insert("pairs".into(), pairs(&ta.annotation.element_value_pairs));
			l.push(Value::Object(m));
		}
		a.insert(name.into(), Value::Array(l));
	}
	Ok(())
}

fn annotation(x: &Annotation) -> Value {
	json!({"type": s(x.annotation_type.as_inner()), "pairs": pairs(&x.element_value_pairs)})
}

fn pairs(p: &[ElementValuePair]) -> Value {
	Value::Array(p.iter().map(|x| Value::Array(vec![s(&x.name), element_value(&x.value)])).collect())
}

fn element_value(v: &ElementValue) -> Value {
	match v {
		ElementValue::Object(o) => match o {
			Object::Byte(x) => json!({ "B": *x }),
			Object::Char(x) => json!({ "C": *x }),
			Object::Double(x) => json!({"D": x.to_bits().to_string()}),
			Object::Float(x) => json!({"F": x.to_bits()}),
			Object::Integer(x) => json!({ "I": *x }),
			Object::Long(x) => json!({"J": x.to_string()}),
			Object::Short(x) => json!({ "S": *x }),
			Object::Boolean(x) => json!({"Z": if *x { 1 } else { 0 }}),
			Object::String(x) => json!({"s": s(x)}),
		},
		ElementValue::Enum { type_name, const_name } => json!({"e": {"type": s(type_name.as_inner()), "name": s(const_name)}}),
		ElementValue::Class(c) => json!({"c": s(c.as_inner())}),
		ElementValue::AnnotationInterface(a) => json!({"@": annotation(a)}),
		ElementValue::ArrayType(l) => json!({"[": l.iter().map(element_value).collect::<Vec<_>>()}),
	}
}

fn target_class(t: &TargetInfoClass) -> Value {
	match t {
		TargetInfoClass::ClassTypeParameter { index } => json!({"kind": "class_type_parameter", "index": index}),
		TargetInfoClass::Extends => json!({"kind": "class_extends", "index": 65535}),
		TargetInfoClass::Implements { index } => json!({"kind": "class_extends", "index": index}),
		TargetInfoClass::ClassTypeParameterBound { type_parameter_index, bound_index } => {
			json!({"kind": "class_type_parameter_bound", "param": type_parameter_index, "bound": bound_index})
		}
	}
}

fn target_field(t: &TargetInfoField) -> Value {
	match t {
		TargetInfoField::Field => json!({"kind": "field"}),
	}
}

fn target_method(t: &TargetInfoMethod) -> Value {
	match t {
		TargetInfoMethod::MethodTypeParameter { index } => json!({"kind": "method_type_parameter", "index": index}),
		TargetInfoMethod::MethodTypeParameterBound { type_parameter_index, bound_index } => {
			json!({"kind": "method_type_parameter_bound", "param": type_parameter_index, "bound": bound_index})
		}
		TargetInfoMethod::Return => json!({"kind": "method_return"}),
		TargetInfoMethod::Receiver => json!({"kind": "method_receiver"}),
		TargetInfoMethod::FormalParameter { index } => json!({"kind": "method_formal_parameter", "index": index}),
		TargetInfoMethod::Throws { index } => json!({"kind": "throws", "index": index}),
	}
}

fn module_value(module: &duke::tree::module::Module) -> Value {
	let p = duke::verif::module_parts(module);
	let mut m = Map::new();
	m.insert("name".into(), s(&p.name));
	m.insert("access".into(), json!(p.flags));
	if let Some(v) = &p.version {
		m.insert("version".into(), s(v));
	}
	let mut req = Vec::new();
	for (name, flags, version) in &p.requires {
		let mut r = Map::new();
		r.insert("name".into(), s(name));
		r.insert("access".into(), json!(flags));
		if let Some(v) = version {
			r.insert("version".into(), s(v));
		}
		req.push(Value::Object(r));
	}
	m.insert("requires".into(), Value::Array(req));
	for (key, rows) in [("exports", &p.exports), ("opens", &p.opens)] {
		let l: Vec<Value> = rows
			.iter()
			.map(|(package, flags, to)| json!({"package": s(package), "access": flags, "to": to.iter().map(|x| s(x)).collect::<Vec<_>>()}))
			.collect();
		m.insert(key.into(), Value::Array(l));
	}
	m.insert("uses".into(), Value::Array(p.uses.iter().map(|x| s(x)).collect()));
	let prov: Vec<Value> =
		p.provides.iter().map(|(class, with)| json!({"class": s(class), "with": with.iter().map(|x| s(x)).collect::<Vec<_>>()})).collect();
	m.insert("provides".into(), Value::Array(prov));
	Value::Object(m)
}

fn record_component(rc: &RecordComponent) -> R<Value> {
	let p = duke::verif::record_component_parts(rc);
	let mut a = Map::new();
	if let Some(sig) = p.signature {
		a.insert("Signature".into(), s(sig.as_inner()));
	}
	annotations_into(&mut a, p.runtime_visible_annotations, p.runtime_invisible_annotations);
	type_annotations_into(&mut a, p.runtime_visible_type_annotations, p.runtime_invisible_type_annotations, &mut |t: &TargetInfoField| {
		Ok(target_field(t))
	})?;
	unknown_into(&mut a, p.attributes);
	Ok(json!({"name": s(rc.name.as_inner()), "desc": s(rc.descriptor.as_inner()), "attrs": Value::Object(a)}))
}

// ---------------------------------------------------------------------------------------------
// fields and methods

fn field(f: &Field) -> R<Value> {
	let mut a = Map::new();
	if f.has_deprecated_attribute {
		a.insert("Deprecated".into(), Value::Bool(true));
	}
	if f.has_synthetic_attribute {
		a.insert("Synthetic".into(), Value::Bool(true));
	}
	if let Some(cv) = &f.constant_value {
		a.insert(
			"ConstantValue".into(),
			match cv {
				ConstantValue::Integer(x) => facts::c_int(*x),
				ConstantValue::Float(x) => facts::c_float(x.to_bits()),
				ConstantValue::Long(x) => facts::c_long(*x),
				ConstantValue::Double(x) => facts::c_double(x.to_bits()),
				ConstantValue::String(x) => json!({"string": s(x)}),
			},
		);
	}
	if let Some(sig) = &f.signature {
		a.insert("Signature".into(), s(sig.as_inner()));
	}
	annotations_into(&mut a, &f.runtime_visible_annotations, &f.runtime_invisible_annotations);
	type_annotations_into(&mut a, &f.runtime_visible_type_annotations, &f.runtime_invisible_type_annotations, &mut |t: &TargetInfoField| {
		Ok(target_field(t))
	})?;
	unknown_into(&mut a, &f.attributes);
	Ok(json!({
		"access": u16::from(f.access), "name": s(f.name.as_inner()), "desc": s(f.descriptor.as_inner()), "attrs": Value::Object(a),
	}))
}

fn method(m: &Method, this: &Value) -> R<Value> {
	let access = u16::from(m.access);
	let name = s(m.name.as_inner());
	let desc = s(m.descriptor.as_inner());
	let mut a = Map::new();
	if m.has_deprecated_attribute {
		a.insert("Deprecated".into(), Value::Bool(true));
	}
	if m.has_synthetic_attribute {
		a.insert("Synthetic".into(), Value::Bool(true));
	}
	if let Some(c) = &m.code {
		let init = initial_locals(this, access as u64, &name, &desc).unwrap_or_default();
		a.insert("Code".into(), code(c, init).map_err(|e| ProjError(format!("Code: {}", e.0)))?);
	}
	if let Some(ex) = &m.exceptions {
		a.insert("Exceptions".into(), s_list(ex.iter()));
	}
	if let Some(sig) = &m.signature {
		a.insert("Signature".into(), s(sig.as_inner()));
	}
	annotations_into(&mut a, &m.runtime_visible_annotations, &m.runtime_invisible_annotations);
	type_annotations_into(&mut a, &m.runtime_visible_type_annotations, &m.runtime_invisible_type_annotations, &mut |t: &TargetInfoMethod| {
		Ok(target_method(t))
	})?;
	// duke's tree has no place for Runtime(In)VisibleParameterAnnotations.
	if let Some(d) = &m.annotation_default {
		a.insert("AnnotationDefault".into(), element_value(d));
	}
	if let Some(params) = &m.method_parameters {
		let mut l = Vec::with_capacity(params.len());
		for p in params {
			let mut r = Map::new();
			if let Some(n) = &p.name {
				r.insert("name".into(), s(n.as_inner()));
			}
			r.insert("access".into(), json!(u16::from(p.flags)));
			l.push(Value::Object(r));
		}
		a.insert("MethodParameters".into(), Value::Array(l));
	}
	unknown_into(&mut a, &m.attributes);
	Ok(json!({"access": access, "name": name, "desc": desc, "attrs": Value::Object(a)}))
}

// ---------------------------------------------------------------------------------------------
// Code

/// Label id → instruction index; `last_label` ↦ `len(insns)`.
struct Positions {
	map: HashMap<u16, usize>,
}

impl Positions {
	fn new(c: &Code) -> R<Positions> {
		let mut map: HashMap<u16, usize> = HashMap::new();
		for (i, e) in c.instructions.iter().enumerate() {
			if let Some(l) = &e.label {
				let id = duke::verif::label_id(l);
				if let Some(old) = map.insert(id, i) {
					return perr(format!("label {id} is attached to instruction {old} and to instruction {i}"));
				}
			}
		}
		if let Some(l) = &c.last_label {
			let id = duke::verif::label_id(l);
			if let Some(old) = map.insert(id, c.instructions.len()) {
				return perr(format!("label {id} is attached to instruction {old} and is the last label"));
			}
		}
		Ok(Positions { map })
	}

	fn at(&self, l: &Label) -> R<usize> {
		let id = duke::verif::label_id(l);
		match self.map.get(&id) {
			Some(i) => Ok(*i),
			None => perr(format!("label {id} is referenced but attached to no instruction")),
		}
	}

	fn range(&self, r: &LabelRange) -> R<(usize, usize)> {
		let (a, b) = duke::verif::label_range(r);
		Ok((self.at(&a)?, self.at(&b)?))
	}
}

fn vt(v: &VerificationTypeInfo, pos: &Positions) -> R<Value> {
	Ok(match v {
		VerificationTypeInfo::Top => json!("top"),
		VerificationTypeInfo::Integer => json!("int"),
		VerificationTypeInfo::Float => json!("float"),
		VerificationTypeInfo::Long => json!("long"),
		VerificationTypeInfo::Double => json!("double"),
		VerificationTypeInfo::Null => json!("null"),
		VerificationTypeInfo::UninitializedThis => json!("uninitialized_this"),
		VerificationTypeInfo::Object(c) => json!({"object": s(c.as_inner())}),
		VerificationTypeInfo::Uninitialized(l) => json!({"uninitialized": pos.at(l)?}),
	})
}

fn vts(l: &[VerificationTypeInfo], pos: &Positions) -> R<Vec<Value>> {
	l.iter().map(|x| vt(x, pos)).collect()
}

fn code(c: &Code, initial: Vec<Value>) -> R<Value> {
	let pos = Positions::new(c)?;
	let (max_stack, max_locals) = match (c.max_stack, c.max_locals) {
		(Some(a), Some(b)) => (a, b),
		_ => return perr("max_stack / max_locals are not set"),
	};

	let mut insns = Vec::with_capacity(c.instructions.len());
	let mut frames = Vec::new();
	let mut st = FrameState::new(initial);
	for (i, e) in c.instructions.iter().enumerate() {
		insns.push(instruction(&e.instruction, &pos).map_err(|x| ProjError(format!("insn[{i}]: {}", x.0)))?);
		if let Some(f) = &e.frame {
			let (locals, stack) = (|| -> R<(Vec<Value>, Vec<Value>)> {
				Ok(match f {
					StackMapData::Same => st.same(),
					StackMapData::SameLocals1StackItem { stack } => {
						let v = vt(stack, &pos)?;
						st.same_locals_1(v)
					}
					StackMapData::Chop { k } => match st.chop(*k as usize) {
						Ok(r) => r,
						Err(m) => return perr(m),
					},
					StackMapData::Append { locals } => {
						let more = vts(locals, &pos)?;
						st.append(more)
					}
					StackMapData::Full { locals, stack } => {
						let l = vts(locals, &pos)?;
						let s = vts(stack, &pos)?;
						st.full(l, s)
					}
				})
			})()
			.map_err(|x| ProjError(format!("frame at insn[{i}]: {}", x.0)))?;
			frames.push(json!({"at": i, "locals": locals, "stack": stack}));
		}
	}

	let mut exc = Vec::with_capacity(c.exception_table.len());
	for (i, x) in c.exception_table.iter().enumerate() {
		let mut row = Map::new();
		(|| -> R<()> {
			row.insert("start".into(), json!(pos.at(&x.start)?));
			row.insert("end".into(), json!(pos.at(&x.end)?));
			row.insert("handler".into(), json!(pos.at(&x.handler)?));
			Ok(())
		})()
		.map_err(|e| ProjError(format!("exceptions[{i}]: {}", e.0)))?;
		if let Some(cl) = &x.catch {
			row.insert("catch".into(), s(cl.as_inner()));
		}
		exc.push(Value::Object(row));
	}

	let mut a = Map::new();
	if !frames.is_empty() {
		a.insert("StackMapTable".into(), Value::Array(frames));
	}
	if let Some(lines) = &c.line_numbers {
		let mut rows = Vec::with_capacity(lines.len());
		for (l, line) in lines {
			let i = pos.at(l).map_err(|e| ProjError(format!("line numbers: {}", e.0)))?;
			rows.push(json!([i, line]));
		}
		canon_sort_dedup(&mut rows);
		a.insert("LineNumberTable".into(), Value::Array(rows));
	}
	if let Some(lvs) = &c.local_variables {
		let mut lvt = Vec::new();
		let mut lvtt = Vec::new();
		for (i, lv) in lvs.iter().enumerate() {
			let (start, end) = pos.range(&lv.range).map_err(|e| ProjError(format!("local variables[{i}]: {}", e.0)))?;
			if let Some(d) = &lv.descriptor {
				lvt.push(json!({"start": start, "end": end, "name": s(lv.name.as_inner()), "desc": s(d.as_inner()), "slot": lv.index.index}));
			}
			if let Some(g) = &lv.signature {
				lvtt.push(json!({"start": start, "end": end, "name": s(lv.name.as_inner()), "sig": s(g.as_inner()), "slot": lv.index.index}));
			}
		}
		if !lvt.is_empty() {
			canon_sort(&mut lvt);
			a.insert("LocalVariableTable".into(), Value::Array(lvt));
		}
		if !lvtt.is_empty() {
			canon_sort(&mut lvtt);
			a.insert("LocalVariableTypeTable".into(), Value::Array(lvtt));
		}
	}
	type_annotations_into(&mut a, &c.runtime_visible_type_annotations, &c.runtime_invisible_type_annotations, &mut |t: &TargetInfoCode| {
		target_code(t, &pos)
	})?;
	unknown_into(&mut a, &c.attributes);

	Ok(json!({
		"max_stack": max_stack, "max_locals": max_locals, "insns": insns, "exceptions": exc, "attrs": Value::Object(a),
	}))
}

fn target_code(t: &TargetInfoCode, pos: &Positions) -> R<Value> {
	fn table(rows: &[(LabelRange, LvIndex)], pos: &Positions) -> R<Value> {
		let mut l = Vec::with_capacity(rows.len());
		for (r, idx) in rows {
			let (start, end) = pos.range(r)?;
			l.push(json!({"start": start, "end": end, "slot": idx.index}));
		}
		Ok(Value::Array(l))
	}
	Ok(match t {
		TargetInfoCode::LocalVariable { table: rows } => json!({"kind": "local_variable", "table": table(rows, pos)?}),
		TargetInfoCode::ResourceVariable { table: rows } => json!({"kind": "resource_variable", "table": table(rows, pos)?}),
		TargetInfoCode::ExceptionParameter { index } => json!({"kind": "exception_parameter", "index": index}),
		TargetInfoCode::InstanceOf(l) => json!({"kind": "instanceof", "insn": pos.at(l)?}),
		TargetInfoCode::New(l) => json!({"kind": "new", "insn": pos.at(l)?}),
		TargetInfoCode::ConstructorReference(l) => json!({"kind": "constructor_reference", "insn": pos.at(l)?}),
		TargetInfoCode::MethodReference(l) => json!({"kind": "method_reference", "insn": pos.at(l)?}),
		TargetInfoCode::Cast { label, index } => json!({"kind": "cast", "insn": pos.at(label)?, "index": index}),
		TargetInfoCode::ConstructorInvocationTypeArgument { label, index } => {
			json!({"kind": "constructor_invocation_type_argument", "insn": pos.at(label)?, "index": index})
		}
		TargetInfoCode::MethodInvocationTypeArgument { label, index } => {
			json!({"kind": "method_invocation_type_argument", "insn": pos.at(label)?, "index": index})
		}
		TargetInfoCode::ConstructorReferenceTypeArgument { label, index } => {
			json!({"kind": "constructor_reference_type_argument", "insn": pos.at(label)?, "index": index})
		}
		TargetInfoCode::MethodReferenceTypeArgument { label, index } => {
			json!({"kind": "method_reference_type_argument", "insn": pos.at(label)?, "index": index})
		}
	})
}

// ---------------------------------------------------------------------------------------------
// constants

fn handle(h: &Handle) -> Value {
	fn f(kind: &str, r: &FieldRef) -> Value {
		json!({"kind": kind, "owner": s(r.class.as_inner()), "name": s(r.name.as_inner()), "desc": s(r.desc.as_inner()), "itf": false})
	}
	fn m(kind: &str, r: &MethodRef, itf: bool) -> Value {
		json!({"kind": kind, "owner": s(r.class.as_inner()), "name": s(r.name.as_inner()), "desc": s(r.desc.as_inner()), "itf": itf})
	}
	match h {
		Handle::GetField(r) => f("getfield", r),
		Handle::GetStatic(r) => f("getstatic", r),
		Handle::PutField(r) => f("putfield", r),
		Handle::PutStatic(r) => f("putstatic", r),
		Handle::InvokeVirtual(r) => m("invokevirtual", r, false),
		Handle::InvokeStatic(r, itf) => m("invokestatic", r, *itf),
		Handle::InvokeSpecial(r, itf) => m("invokespecial", r, *itf),
		Handle::NewInvokeSpecial(r) => m("newinvokespecial", r, false),
		Handle::InvokeInterface(r) => m("invokeinterface", r, true),
	}
}

fn loadable(l: &Loadable) -> Value {
	match l {
		Loadable::Integer(x) => facts::c_int(*x),
		Loadable::Float(x) => facts::c_float(x.to_bits()),
		Loadable::Long(x) => facts::c_long(*x),
		Loadable::Double(x) => facts::c_double(x.to_bits()),
		Loadable::Class(c) => json!({"class": s(c.as_inner())}),
		Loadable::String(x) => json!({"string": s(x)}),
		Loadable::MethodHandle(h) => json!({"method_handle": handle(h)}),
		Loadable::MethodType(d) => json!({"method_type": s(d.as_inner())}),
		Loadable::Dynamic(d) => json!({"dynamic": constant_dynamic(d)}),
	}
}

fn constant_dynamic(d: &ConstantDynamic) -> Value {
	json!({
		"bsm": handle(&d.handle), "args": d.arguments.iter().map(loadable).collect::<Vec<_>>(),
		"name": s(d.name.as_inner()), "desc": s(d.descriptor.as_inner()),
	})
}

fn invoke_dynamic(d: &InvokeDynamic) -> Value {
	json!({
		"bsm": handle(&d.handle), "args": d.arguments.iter().map(loadable).collect::<Vec<_>>(),
		"name": s(d.name.as_inner()), "desc": s(d.descriptor.as_inner()),
	})
}

// ---------------------------------------------------------------------------------------------
// instructions

fn instruction(i: &Instruction, pos: &Positions) -> R<Value> {
	use Instruction::*;
	let plain = |name: &str| -> R<Value> { Ok(json!({ "op": name })) };
	let var = |name: &str, v: &LvIndex| -> R<Value> { Ok(json!({"op": name, "var": v.index})) };
	let branch = |name: &str, l: &Label| -> R<Value> { Ok(json!({"op": name, "target": pos.at(l)?})) };
	let fld = |name: &str, r: &FieldRef| -> R<Value> {
		Ok(json!({"op": name, "owner": s(r.class.as_inner()), "name": s(r.name.as_inner()), "desc": s(r.desc.as_inner())}))
	};
	let inv = |name: &str, r: &MethodRef, itf: Option<bool>| -> R<Value> {
		let mut v = json!({"op": name, "owner": s(r.class.as_inner()), "name": s(r.name.as_inner()), "desc": s(r.desc.as_inner())});
		if let Some(itf) = itf {
			v["itf"] = json!(itf);
		}
		Ok(v)
	};
	let cls = |name: &str, c: &duke::tree::class::ClassName| -> R<Value> { Ok(json!({"op": name, "class": s(c.as_inner())})) };
	match i {
		Nop => plain("nop"),
		AConstNull => plain("aconst_null"),
		IConstM1 => plain("iconst_m1"),
		IConst0 => plain("iconst_0"),
		IConst1 => plain("iconst_1"),
		IConst2 => plain("iconst_2"),
		IConst3 => plain("iconst_3"),
		IConst4 => plain("iconst_4"),
		IConst5 => plain("iconst_5"),
		LConst0 => plain("lconst_0"),
		LConst1 => plain("lconst_1"),
		FConst0 => plain("fconst_0"),
		FConst1 => plain("fconst_1"),
		FConst2 => plain("fconst_2"),
		DConst0 => plain("dconst_0"),
		DConst1 => plain("dconst_1"),
		BiPush(v) => Ok(json!({"op": "bipush", "value": v})),
		SiPush(v) => Ok(json!({"op": "sipush", "value": v})),
		Ldc(l) => Ok(json!({"op": "ldc", "const": loadable(l)})),
		ILoad(v) => var("iload", v),
		LLoad(v) => var("lload", v),
		FLoad(v) => var("fload", v),
		DLoad(v) => var("dload", v),
		ALoad(v) => var("aload", v),
		IALoad => plain("iaload"),
		LALoad => plain("laload"),
		FALoad => plain("faload"),
		DALoad => plain("daload"),
		AALoad => plain("aaload"),
		BALoad => plain("baload"),
		CALoad => plain("caload"),
		SALoad => plain("saload"),
		IStore(v) => var("istore", v),
		LStore(v) => var("lstore", v),
		FStore(v) => var("fstore", v),
		DStore(v) => var("dstore", v),
		AStore(v) => var("astore", v),
		IAStore => plain("iastore"),
		LAStore => plain("lastore"),
		FAStore => plain("fastore"),
		DAStore => plain("dastore"),
		AAStore => plain("aastore"),
		BAStore => plain("bastore"),
		CAStore => plain("castore"),
		SAStore => plain("sastore"),
		Pop => plain("pop"),
		Pop2 => plain("pop2"),
		Dup => plain("dup"),
		DupX1 => plain("dup_x1"),
		DupX2 => plain("dup_x2"),
		Dup2 => plain("dup2"),
		Dup2X1 => plain("dup2_x1"),
		Dup2X2 => plain("dup2_x2"),
		Swap => plain("swap"),
		IAdd => plain("iadd"),
		LAdd => plain("ladd"),
		FAdd => plain("fadd"),
		DAdd => plain("dadd"),
		ISub => plain("isub"),
		LSub => plain("lsub"),
		FSub => plain("fsub"),
		DSub => plain("dsub"),
		IMul => plain("imul"),
		LMul => plain("lmul"),
		FMul => plain("fmul"),
		DMul => plain("dmul"),
		IDiv => plain("idiv"),
		LDiv => plain("ldiv"),
		FDiv => plain("fdiv"),
		DDiv => plain("ddiv"),
		IRem => plain("irem"),
		LRem => plain("lrem"),
		FRem => plain("frem"),
		DRem => plain("drem"),
		INeg => plain("ineg"),
		LNeg => plain("lneg"),
		FNeg => plain("fneg"),
		DNeg => plain("dneg"),
		IShl => plain("ishl"),
		LShl => plain("lshl"),
		IShr => plain("ishr"),
		LShr => plain("lshr"),
		IUShr => plain("iushr"),
		LUShr => plain("lushr"),
		IAnd => plain("iand"),
		LAnd => plain("land"),
		IOr => plain("ior"),
		LOr => plain("lor"),
		IXor => plain("ixor"),
		LXor => plain("lxor"),
		IInc(v, by) => Ok(json!({"op": "iinc", "var": v.index, "by": by})),
		I2L => plain("i2l"),
		I2F => plain("i2f"),
		I2D => plain("i2d"),
		L2I => plain("l2i"),
		L2F => plain("l2f"),
		L2D => plain("l2d"),
		F2I => plain("f2i"),
		F2L => plain("f2l"),
		F2D => plain("f2d"),
		D2I => plain("d2i"),
		D2L => plain("d2l"),
		D2F => plain("d2f"),
		I2B => plain("i2b"),
		I2C => plain("i2c"),
		I2S => plain("i2s"),
		LCmp => plain("lcmp"),
		FCmpL => plain("fcmpl"),
		FCmpG => plain("fcmpg"),
		DCmpL => plain("dcmpl"),
		DCmpG => plain("dcmpg"),
		IfEq(l) => branch("ifeq", l),
		IfNe(l) => branch("ifne", l),
		IfLt(l) => branch("iflt", l),
		IfGe(l) => branch("ifge", l),
		IfGt(l) => branch("ifgt", l),
		IfLe(l) => branch("ifle", l),
		IfICmpEq(l) => branch("if_icmpeq", l),
		IfICmpNe(l) => branch("if_icmpne", l),
		IfICmpLt(l) => branch("if_icmplt", l),
		IfICmpGe(l) => branch("if_icmpge", l),
		IfICmpGt(l) => branch("if_icmpgt", l),
		IfICmpLe(l) => branch("if_icmple", l),
		IfACmpEq(l) => branch("if_acmpeq", l),
		IfACmpNe(l) => branch("if_acmpne", l),
		Goto(l) => branch("goto", l),
		Jsr(l) => branch("jsr", l),
		Ret(v) => var("ret", v),
		TableSwitch { default, low, high, table } => {
			let expected_high = *low as i64 + table.len() as i64 - 1;
			if table.is_empty() || expected_high != *high as i64 {
				return perr(format!("tableswitch: low {low}, high {high} but {} table entries", table.len()));
			}
			let mut targets = Vec::with_capacity(table.len());
			for l in table {
				targets.push(json!(pos.at(l)?));
			}
			Ok(json!({"op": "tableswitch", "default": pos.at(default)?, "low": low, "targets": targets}))
		}
		LookupSwitch { default, pairs } => {
			let mut p = Vec::with_capacity(pairs.len());
			for (k, l) in pairs {
				p.push(json!([k, pos.at(l)?]));
			}
			Ok(json!({"op": "lookupswitch", "default": pos.at(default)?, "pairs": p}))
		}
		IReturn => plain("ireturn"),
		LReturn => plain("lreturn"),
		FReturn => plain("freturn"),
		DReturn => plain("dreturn"),
		AReturn => plain("areturn"),
		Return => plain("return"),
		GetStatic(r) => fld("getstatic", r),
		PutStatic(r) => fld("putstatic", r),
		GetField(r) => fld("getfield", r),
		PutField(r) => fld("putfield", r),
		InvokeVirtual(r) => inv("invokevirtual", r, Some(false)),
		InvokeSpecial(r, itf) => inv("invokespecial", r, Some(*itf)),
		InvokeStatic(r, itf) => inv("invokestatic", r, Some(*itf)),
		InvokeInterface(r) => inv("invokeinterface", r, None),
		InvokeDynamic(d) => Ok(json!({"op": "invokedynamic", "indy": invoke_dynamic(d)})),
		New(c) => cls("new", c),
		NewArray(t) => Ok(json!({"op": "newarray", "type": match t {
			ArrayType::Boolean => "boolean",
			ArrayType::Char => "char",
			ArrayType::Float => "float",
			ArrayType::Double => "double",
			ArrayType::Byte => "byte",
			ArrayType::Short => "short",
			ArrayType::Int => "int",
			ArrayType::Long => "long",
		}})),
		ANewArray(c) => cls("anewarray", c),
		ArrayLength => plain("arraylength"),
		AThrow => plain("athrow"),
		CheckCast(c) => cls("checkcast", c),
		InstanceOf(c) => cls("instanceof", c),
		MonitorEnter => plain("monitorenter"),
		MonitorExit => plain("monitorexit"),
		MultiANewArray(c, dims) => Ok(json!({"op": "multianewarray", "class": s(c.as_inner()), "dims": dims})),
		IfNull(l) => branch("ifnull", l),
		IfNonNull(l) => branch("ifnonnull", l),
	}
}
