//! Flattens class facts into the list of all references (class / field / method names and
//! descriptors) they contain, and computes the *residual* of facts with those strings blanked.
//!
//! One walker serves both, so `residual` blanks exactly the strings `references` reports.
//!
//! Columns per kind (`-` = null):
//!
//! | kind | owner | name | desc |
//! |---|---|---|---|
//! | `this`, `super`, `interface` | class name | - | - |
//! | `field_decl`, `method_decl` | this class | member name | descriptor |
//! | `insn_field`, `insn_method` | owner class | member name | descriptor |
//! | `insn_class` (new, anewarray, checkcast, instanceof, multianewarray) | class name | - | - |
//! | `ldc_class` | class name | - | - |
//! | `ldc_mtype` | - | - | method descriptor |
//! | `handle` (ldc MethodHandle, bootstrap method of indy / condy / unreferenced_bootstrap) | owner | name | descriptor |
//! | `indy_nt` (invokedynamic and dynamic constants, also nested) | - | name | descriptor |
//! | `bsm_arg_class` | class name | - | - |
//! | `bsm_arg_mtype` | - | - | method descriptor |
//! | `bsm_arg_handle` | owner | name | descriptor |
//! | `catch` | class name | - | - |
//! | `frame_object` | class name | - | - |
//! | `anno_type` | - | - | annotation type descriptor |
//! | `anno_enum` | - | constant name | enum type descriptor |
//! | `anno_class` | - | - | return descriptor of the class value |
//! | `signature` | - | - | the whole Signature string |
//! | `inner_class_inner` | inner class | simple name (if any) | - |
//! | `inner_class_outer` | outer class | - | - |
//! | `enclosing_method` | class | method name (if any) | method descriptor (if any) |
//! | `nest_host`, `nest_member`, `permitted`, `exceptions` | class name | - | - |
//! | `record_component` | this class | component name | descriptor |
//! | `lvt_desc` | - | - | descriptor |
//! | `lvtt_sig` | - | - | signature |
//! | `module_uses`, `module_provides`, `module_provides_with`, `module_main` | class name | - | - |
//!
//! Not references: strings of `ldc`/ConstantValue/annotation `s` values, local variable names, method
//! parameter names, source file names, module / package names, unknown attribute bytes.

use serde_json::{Map, Value};

pub const REF_KINDS: &[&str] = &[
	"this", "super", "interface", "field_decl", "method_decl", "insn_field", "insn_method", "insn_class", "ldc_class", "ldc_mtype",
	"handle", "indy_nt", "bsm_arg_class", "bsm_arg_mtype", "bsm_arg_handle", "catch", "frame_object", "anno_type", "anno_enum",
	"anno_class", "signature", "inner_class_inner", "inner_class_outer", "enclosing_method", "nest_host", "nest_member", "permitted",
	"record_component", "lvt_desc", "lvtt_sig", "exceptions", "module_uses", "module_provides", "module_provides_with", "module_main",
];

#[derive(Debug, Clone, PartialEq, serde::Serialize)]
pub struct RefRow {
	pub kind: &'static str,
	pub path: String,
	pub owner: Option<Value>,
	pub name: Option<Value>,
	pub desc: Option<Value>,
}

/// All references of the facts, in a deterministic order (document order of the facts).
pub fn references(facts: &Value) -> Vec<RefRow> {
	let mut copy = facts.clone();
	let this = facts.get("this").cloned();
	let mut rows = Vec::new();
	walk(&mut copy, &mut |kind, path, cols| {
		let [o, n, d] = cols;
		let mut row = RefRow { kind, path: path.to_owned(), owner: o.map(|v| v.clone()), name: n.map(|v| v.clone()), desc: d.map(|v| v.clone()) };
		if matches!(kind, "field_decl" | "method_decl" | "record_component") {
			row.owner = this.clone();
		}
		rows.push(row);
	});
	rows
}

/// The facts with every string reported by [`references`] replaced by `"_"`.
pub fn residual(facts: &Value) -> Value {
	let mut copy = facts.clone();
	walk(&mut copy, &mut |_, _, cols| {
		for c in cols.into_iter().flatten() {
			*c = Value::String("_".into());
		}
	});
	copy
}

type Sink<'s> = dyn FnMut(&'static str, &str, [Option<&mut Value>; 3]) + 's;

/// Mutable references to up to three keys of one object.
fn cols<'m>(m: &'m mut Value, keys: [Option<&str>; 3]) -> [Option<&'m mut Value>; 3] {
	let mut out: [Option<&'m mut Value>; 3] = [None, None, None];
	if let Value::Object(map) = m {
		for (k, v) in map.iter_mut() {
			for (i, want) in keys.iter().enumerate() {
				if *want == Some(k.as_str()) {
					out[i] = Some(v);
					break;
				}
			}
		}
	}
	out
}

fn single<'m>(v: &'m mut Value, col: usize) -> [Option<&'m mut Value>; 3] {
	let mut out: [Option<&'m mut Value>; 3] = [None, None, None];
	out[col] = Some(v);
	out
}

fn list_mut<'a>(v: Option<&'a mut Value>) -> std::slice::IterMut<'a, Value> {
	match v {
		Some(Value::Array(a)) => a.iter_mut(),
		_ => [].iter_mut(),
	}
}

fn walk(f: &mut Value, sink: &mut Sink) {
	let Value::Object(top) = f else { return };
	if let Some(v) = top.get_mut("this") {
		sink("this", "this", single(v, 0));
	}
	if let Some(v) = top.get_mut("super") {
		sink("super", "super", single(v, 0));
	}
	for (i, v) in list_mut(top.get_mut("interfaces")).enumerate() {
		sink("interface", &format!("interfaces[{i}]"), single(v, 0));
	}
	for (i, m) in list_mut(top.get_mut("fields")).enumerate() {
		let p = format!("field[{i}]");
		sink("field_decl", &p, cols(m, [None, Some("name"), Some("desc")]));
		if let Some(Value::Object(a)) = m.get_mut("attrs") {
			attrs(a, &p, sink);
		}
	}
	for (i, m) in list_mut(top.get_mut("methods")).enumerate() {
		let p = format!("method[{i}]");
		sink("method_decl", &p, cols(m, [None, Some("name"), Some("desc")]));
		if let Some(Value::Object(a)) = m.get_mut("attrs") {
			attrs(a, &p, sink);
		}
	}
	if let Some(Value::Object(a)) = top.get_mut("attrs") {
		attrs(a, "class", sink);
	}
}

fn attrs(a: &mut Map<String, Value>, at: &str, sink: &mut Sink) {
	// deterministic: BTreeMap order of keys
	for (name, v) in a.iter_mut() {
		if name == "dup" {
			if let Value::Object(m) = v {
				for (n, values) in m.iter_mut() {
					for (i, val) in list_mut(Some(values)).enumerate() {
						attr(n, val, &format!("{at}.dup.{n}[{i}]"), sink);
					}
				}
			}
		} else {
			attr(name, v, &format!("{at}.{name}"), sink);
		}
	}
}

fn attr(name: &str, v: &mut Value, p: &str, sink: &mut Sink) {
	match name {
		"Code" => code(v, p, sink),
		"Exceptions" => {
			for (i, c) in list_mut(Some(v)).enumerate() {
				sink("exceptions", &format!("{p}[{i}]"), single(c, 0));
			}
		}
		"InnerClasses" => {
			for (i, r) in list_mut(Some(v)).enumerate() {
				sink("inner_class_inner", &format!("{p}[{i}]"), cols(r, [Some("inner"), Some("name"), None]));
				if r.get("outer").is_some() {
					sink("inner_class_outer", &format!("{p}[{i}]"), cols(r, [Some("outer"), None, None]));
				}
			}
		}
		"EnclosingMethod" => {
			let Value::Object(m) = v else { return };
			let mut class = None;
			let mut method = None;
			for (k, x) in m.iter_mut() {
				match k.as_str() {
					"class" => class = Some(x),
					"method" => method = Some(x),
					_ => {}
				}
			}
			let [_, n, d] = match method {
				Some(mm) => cols(mm, [None, Some("name"), Some("desc")]),
				None => [None, None, None],
			};
			sink("enclosing_method", p, [class, n, d]);
		}
		"Signature" => sink("signature", p, single(v, 2)),
		"RuntimeVisibleAnnotations" | "RuntimeInvisibleAnnotations" => {
			for (i, a) in list_mut(Some(v)).enumerate() {
				annotation(a, &format!("{p}[{i}]"), sink);
			}
		}
		"RuntimeVisibleParameterAnnotations" | "RuntimeInvisibleParameterAnnotations" => {
			for (i, l) in list_mut(Some(v)).enumerate() {
				for (j, a) in list_mut(Some(l)).enumerate() {
					annotation(a, &format!("{p}[{i}][{j}]"), sink);
				}
			}
		}
		"RuntimeVisibleTypeAnnotations" | "RuntimeInvisibleTypeAnnotations" => {
			for (i, a) in list_mut(Some(v)).enumerate() {
				annotation(a, &format!("{p}[{i}]"), sink);
			}
		}
		"AnnotationDefault" => element_value(v, p, sink),
		"NestHost" => sink("nest_host", p, single(v, 0)),
		"NestMembers" => {
			for (i, c) in list_mut(Some(v)).enumerate() {
				sink("nest_member", &format!("{p}[{i}]"), single(c, 0));
			}
		}
		"PermittedSubclasses" => {
			for (i, c) in list_mut(Some(v)).enumerate() {
				sink("permitted", &format!("{p}[{i}]"), single(c, 0));
			}
		}
		"ModuleMainClass" => sink("module_main", p, single(v, 0)),
		"Module" => {
			if let Some(u) = v.get_mut("uses") {
				for (i, c) in list_mut(Some(u)).enumerate() {
					sink("module_uses", &format!("{p}.uses[{i}]"), single(c, 0));
				}
			}
			if let Some(pr) = v.get_mut("provides") {
				for (i, r) in list_mut(Some(pr)).enumerate() {
					sink("module_provides", &format!("{p}.provides[{i}]"), cols(r, [Some("class"), None, None]));
					for (j, c) in list_mut(r.get_mut("with")).enumerate() {
						sink("module_provides_with", &format!("{p}.provides[{i}].with[{j}]"), single(c, 0));
					}
				}
			}
		}
		"Record" => {
			for (i, c) in list_mut(Some(v)).enumerate() {
				let cp = format!("{p}[{i}]");
				sink("record_component", &cp, cols(c, [None, Some("name"), Some("desc")]));
				if let Some(Value::Object(a)) = c.get_mut("attrs") {
					attrs(a, &cp, sink);
				}
			}
		}
		"unreferenced_bootstrap" => {
			for (i, e) in list_mut(Some(v)).enumerate() {
				bootstrap(e, &format!("{p}[{i}]"), sink);
			}
		}
		"LocalVariableTable" => {
			for (i, r) in list_mut(Some(v)).enumerate() {
				sink("lvt_desc", &format!("{p}[{i}]"), cols(r, [None, None, Some("desc")]));
			}
		}
		"LocalVariableTypeTable" => {
			for (i, r) in list_mut(Some(v)).enumerate() {
				sink("lvtt_sig", &format!("{p}[{i}]"), cols(r, [None, None, Some("sig")]));
			}
		}
		"StackMapTable" => {
			for (i, f) in list_mut(Some(v)).enumerate() {
				for which in ["locals", "stack"] {
					for (j, t) in list_mut(f.get_mut(which)).enumerate() {
						if t.get("object").is_some() {
							sink("frame_object", &format!("{p}[{i}].{which}[{j}]"), cols(t, [Some("object"), None, None]));
						}
					}
				}
			}
		}
		_ => {}
	}
}

fn annotation(a: &mut Value, p: &str, sink: &mut Sink) {
	sink("anno_type", p, cols(a, [None, None, Some("type")]));
	for (i, pair) in list_mut(a.get_mut("pairs")).enumerate() {
		if let Value::Array(pv) = pair {
			if let Some(ev) = pv.get_mut(1) {
				element_value(ev, &format!("{p}.pairs[{i}]"), sink);
			}
		}
	}
}

fn element_value(ev: &mut Value, p: &str, sink: &mut Sink) {
	let Value::Object(m) = ev else { return };
	for (k, v) in m.iter_mut() {
		match k.as_str() {
			"e" => sink("anno_enum", p, cols(v, [None, Some("name"), Some("type")])),
			"c" => sink("anno_class", p, single(v, 2)),
			"@" => annotation(v, p, sink),
			"[" => {
				for (i, e) in list_mut(Some(v)).enumerate() {
					element_value(e, &format!("{p}[{i}]"), sink);
				}
			}
			_ => {}
		}
	}
}

/// `{"bsm": H, "args": [...]}` (+ name/desc for a `D`)
fn bootstrap(d: &mut Value, p: &str, sink: &mut Sink) {
	if let Some(h) = d.get_mut("bsm") {
		sink("handle", &format!("{p}.bsm"), cols(h, [Some("owner"), Some("name"), Some("desc")]));
	}
	for (i, a) in list_mut(d.get_mut("args")).enumerate() {
		let ap = format!("{p}.args[{i}]");
		let Value::Object(m) = a else { continue };
		for (k, v) in m.iter_mut() {
			match k.as_str() {
				"class" => sink("bsm_arg_class", &ap, single(v, 0)),
				"method_type" => sink("bsm_arg_mtype", &ap, single(v, 2)),
				"method_handle" => sink("bsm_arg_handle", &ap, cols(v, [Some("owner"), Some("name"), Some("desc")])),
				"dynamic" => dynamic(v, &ap, sink),
				_ => {}
			}
		}
	}
}

fn dynamic(d: &mut Value, p: &str, sink: &mut Sink) {
	sink("indy_nt", p, cols(d, [None, Some("name"), Some("desc")]));
	bootstrap(d, p, sink);
}

fn code(c: &mut Value, p: &str, sink: &mut Sink) {
	for (i, insn) in list_mut(c.get_mut("insns")).enumerate() {
		let op = insn.get("op").and_then(Value::as_str).unwrap_or("").to_owned();
		let ip = format!("{p}.insn[{i}]");
		match op.as_str() {
			"getstatic" | "putstatic" | "getfield" | "putfield" => sink("insn_field", &ip, cols(insn, [Some("owner"), Some("name"), Some("desc")])),
			"invokevirtual" | "invokespecial" | "invokestatic" | "invokeinterface" => {
				sink("insn_method", &ip, cols(insn, [Some("owner"), Some("name"), Some("desc")]))
			}
			"new" | "anewarray" | "checkcast" | "instanceof" | "multianewarray" => sink("insn_class", &ip, cols(insn, [Some("class"), None, None])),
			"invokedynamic" => {
				if let Some(d) = insn.get_mut("indy") {
					dynamic(d, &ip, sink);
				}
			}
			"ldc" => {
				if let Some(Value::Object(m)) = insn.get_mut("const") {
					for (k, v) in m.iter_mut() {
						match k.as_str() {
							"class" => sink("ldc_class", &ip, single(v, 0)),
							"method_type" => sink("ldc_mtype", &ip, single(v, 2)),
							"method_handle" => sink("handle", &ip, cols(v, [Some("owner"), Some("name"), Some("desc")])),
							"dynamic" => dynamic(v, &ip, sink),
							_ => {}
						}
					}
				}
			}
			_ => {}
		}
	}
	for (i, e) in list_mut(c.get_mut("exceptions")).enumerate() {
		if e.get("catch").is_some() {
			sink("catch", &format!("{p}.exceptions[{i}]"), cols(e, [Some("catch"), None, None]));
		}
	}
	if let Some(Value::Object(a)) = c.get_mut("attrs") {
		attrs(a, p, sink);
	}
}
