//! `cfdiff [--write] [--class <id>] [--json <path>] [--tier <tier>] [--threads <n>] [--no-samples]`
//!
//! Measures how far duke's reader (default) or writer (`--write`) agrees with the reference parser,
//! over the thorough corpus and all hand-written samples under all standard encodings.
//!
//! * read:  `parse_class(b).facts`  vs  `duke_to_facts(duke::read_class(b))`
//! * write: `duke_to_facts(t)`      vs  `parse_class(duke::write_class(t)).facts`   for every `t` duke can read
//!
//! Prints the difference atoms / signatures and the error groups; `--class <id>` prints the complete
//! difference of one class instead (ids as printed in the summary; a path to a `.class` file works too).
use cfkit::duke_diff::{self, Diff, Outcome};
use serde_json::Value;

fn short(v: &Option<Value>) -> String {
	match v {
		None => "<absent>".to_string(),
		Some(v) => {
			let s = v.to_string();
			if s.chars().count() > 300 {
				let cut: String = s.chars().take(300).collect();
				format!("{cut}… ({} chars)", s.len())
			} else {
				s
			}
		}
	}
}

fn print_diffs(d: &[Diff], left: &str, right: &str) {
	if d.is_empty() {
		println!("deep-equal");
	}
	for x in d {
		println!("{} {}", x.kind, x.path);
		println!("    {left:<9}: {}", short(&x.expected));
		println!("    {right:<9}: {}", short(&x.got));
	}
}

fn print_outcome(o: &Outcome, left: &str, right: &str) {
	match o {
		Outcome::Compared(d) => print_diffs(d, left, right),
		other => println!("{other:?}"),
	}
}

fn main() {
	let mut write = false;
	let mut class: Option<String> = None;
	let mut json_path: Option<String> = None;
	let mut tier = "thorough".to_string();
	let mut threads = 8usize;
	let mut samples = true;
	let mut args = std::env::args().skip(1);
	while let Some(a) = args.next() {
		match a.as_str() {
			"--write" => write = true,
			"--class" => class = args.next(),
			"--json" => json_path = args.next(),
			"--tier" => tier = args.next().unwrap_or_default(),
			"--threads" => threads = args.next().and_then(|x| x.parse().ok()).unwrap_or(8),
			"--no-samples" => samples = false,
			other => {
				eprintln!("unknown argument {other}");
				std::process::exit(2);
			}
		}
	}
	duke_diff::install_quiet_panic_hook();
	let t0 = std::time::Instant::now();
	let mut inputs = cfkit::corpus::corpus_classes(&tier);
	if samples {
		inputs.extend(duke_diff::sample_inputs());
	}

	if let Some(id) = class {
		let bytes = match inputs.iter().find(|(i, _)| *i == id) {
			Some((_, b)) => b.clone(),
			None => match std::fs::read(&id) {
				Ok(b) => b,
				Err(_) => {
					eprintln!("no class with id {id} (and no such file)");
					std::process::exit(2);
				}
			},
		};
		println!("== read: {id} ==");
		print_outcome(&duke_diff::compare_read(&bytes), "reference", "duke");
		if write {
			println!("== write: {id} ==");
			match duke_diff::compare_write(&bytes) {
				Some(o) => print_outcome(&o, "tree", "output"),
				None => println!("duke cannot read / the projection fails: nothing to write"),
			}
		}
		return;
	}

	let summary = if write { duke_diff::measure_write(&inputs, threads) } else { duke_diff::measure_read(&inputs, threads) };
	summary.print();
	println!("{} inputs, {:.1}s", inputs.len(), t0.elapsed().as_secs_f64());
	if let Some(p) = json_path {
		let text = serde_json::to_string_pretty(&summary.to_json()).expect("json");
		if let Err(e) = std::fs::write(&p, text) {
			eprintln!("cannot write {p}: {e}");
			std::process::exit(1);
		}
	}
}
