//! `cfdump <file.class> [facts|layout|raw|spans]` — prints what cfkit's parser sees.
fn main() {
	let args: Vec<String> = std::env::args().collect();
	let path = args.get(1).expect("usage: cfdump <file.class> [facts|layout|raw|spans]");
	let what = args.get(2).map(String::as_str).unwrap_or("facts");
	let bytes = std::fs::read(path).expect("cannot read file");
	match cfkit::parse::parse_class(&bytes) {
		Ok(p) => match what {
			"layout" => println!("{}", serde_json::to_string_pretty(&p.layout).unwrap()),
			"raw" => println!("{}", serde_json::to_string_pretty(&p.raw).unwrap()),
			"spans" => {
				for s in &p.spans {
					println!("{:6} {:5} {:8} {:40} {}", s.off, s.len, s.class, s.role, s.path);
				}
			}
			_ => println!("{}", serde_json::to_string_pretty(&p.facts).unwrap()),
		},
		Err(e) => {
			eprintln!("{e}");
			std::process::exit(1);
		}
	}
}
