//! `cfcheck <dir-or-file>...` — parses every .class file below the arguments, reassembles it under
//! several encodings and checks that the facts survive. Prints failures and a summary.
use cfkit::asm::{assemble, AsmError};
use cfkit::parse::parse_class;
use std::path::{Path, PathBuf};

fn walk(p: &Path, out: &mut Vec<PathBuf>) {
	if p.is_dir() {
		let mut entries: Vec<_> = std::fs::read_dir(p).map(|r| r.filter_map(|e| e.ok()).map(|e| e.path()).collect()).unwrap_or_default();
		entries.sort();
		for e in entries {
			walk(&e, out);
		}
	} else if p.extension().map_or(false, |e| e == "class") {
		out.push(p.to_path_buf());
	}
}

fn main() {
	let mut files = Vec::new();
	for a in std::env::args().skip(1) {
		walk(Path::new(&a), &mut files);
	}
	let encs = cfkit::asm::standard_encodings();
	let (mut ok, mut bad, mut unenc) = (0usize, 0usize, 0usize);
	for f in &files {
		let bytes = std::fs::read(f).unwrap();
		let p = match parse_class(&bytes) {
			Ok(p) => p,
			Err(e) => {
				println!("PARSE {}: {e}", f.display());
				bad += 1;
				continue;
			}
		};
		if p.consumed != bytes.len() {
			println!("TRAILING {}: consumed {} of {}", f.display(), p.consumed, bytes.len());
			bad += 1;
		}
		for (name, enc) in &encs {
			match assemble(&p.facts, enc) {
				Ok(b) => match parse_class(&b) {
					Ok(q) => {
						if q.facts != p.facts {
							println!("DIFF {} [{name}]", f.display());
							bad += 1;
						} else {
							ok += 1;
						}
					}
					Err(e) => {
						println!("REPARSE {} [{name}]: {e}", f.display());
						bad += 1;
					}
				},
				Err(AsmError::Unencodable(m)) => {
					println!("UNENCODABLE {} [{name}]: {m}", f.display());
					unenc += 1;
				}
				Err(e) => {
					println!("ASM {} [{name}]: {e}", f.display());
					bad += 1;
				}
			}
		}
	}
	println!("{} files, {ok} round trips ok, {unenc} unencodable, {bad} failures", files.len());
	if bad > 0 {
		std::process::exit(1);
	}
}
