// included into asm.rs: the Code attribute

#[derive(Clone, Copy, PartialEq, Eq, Debug)]
enum Form {
	Short,
	Plain,
	Wide,
	W,
}

impl Form {
	fn parse(s: &str) -> R<Form> {
		Ok(match s {
			"short" => Form::Short,
			"plain" => Form::Plain,
			"wide" => Form::Wide,
			"w" => Form::W,
			other => return invalid(format!("unknown form {other:?}")),
		})
	}
}

/// A lowered instruction: everything resolved except layout.
enum L {
	/// complete bytes
	Fixed(Vec<u8>),
	/// plain opcode (iload..astore, ret), mnemonic, local
	Var(u8, &'static str, u16),
	Iinc(u16, i16),
	/// pool index, category 2
	Ldc(u16, bool),
	/// conditional branch: opcode, target index
	If(u8, usize),
	/// goto (false) / jsr (true), target index
	Jump(bool, usize),
	Table { default: usize, low: i32, targets: Vec<usize> },
	Lookup { default: usize, pairs: Vec<(i32, usize)> },
}

impl L {
	fn family(&self) -> Option<&'static str> {
		match self {
			L::Var(_, n, _) => Some(if *n == "ret" {
				"ret"
			} else if n.ends_with("load") {
				"load"
			} else {
				"store"
			}),
			L::Iinc(..) => Some("iinc"),
			L::Ldc(..) => Some("ldc"),
			L::Jump(false, _) => Some("goto"),
			L::Jump(true, _) => Some("jsr"),
			_ => None,
		}
	}

	/// Normalises aliases and checks that `f` is a form of this family; `Err(msg)` otherwise.
	fn normalise(&self, f: Form) -> Result<Form, String> {
		match self {
			L::Var(_, "ret", _) | L::Iinc(..) => match f {
				Form::Short | Form::Plain => Ok(Form::Plain),
				Form::Wide => Ok(Form::Wide),
				Form::W => Err("form \"w\" does not apply".into()),
			},
			L::Var(..) => match f {
				Form::W => Err("form \"w\" does not apply".into()),
				f => Ok(f),
			},
			L::Ldc(..) | L::Jump(..) => match f {
				Form::Short | Form::Plain => Ok(Form::Short),
				Form::W => Ok(Form::W),
				Form::Wide => Err("form \"wide\" does not apply".into()),
			},
			_ => match f {
				Form::Plain => Ok(Form::Plain),
				_ => Err("only form \"plain\" applies".into()),
			},
		}
	}

	/// Can form `f` represent the operands (branch offsets are checked separately)?
	fn representable(&self, f: Form) -> bool {
		match (self, f) {
			(L::Var(_, n, v), Form::Short) => *n != "ret" && *v <= 3,
			(L::Var(_, _, v), Form::Plain) => *v <= 255,
			(L::Var(..), Form::Wide) => true,
			(L::Iinc(v, c), Form::Plain) => *v <= 255 && *c >= -128 && *c <= 127,
			(L::Iinc(..), Form::Wide) => true,
			(L::Ldc(i, cat2), Form::Short) => !*cat2 && *i <= 255,
			(L::Ldc(..), Form::W) => true,
			(L::Jump(..), Form::Short) | (L::Jump(..), Form::W) => true,
			(_, Form::Plain) => true,
			_ => false,
		}
	}

	fn minimal(&self) -> Form {
		for f in [Form::Short, Form::Plain, Form::Wide, Form::W] {
			if self.normalise(f) == Ok(f) && self.representable(f) {
				return f;
			}
		}
		Form::Plain
	}

	fn size(&self, f: Form, off: usize) -> usize {
		match self {
			L::Fixed(b) => b.len(),
			L::Var(..) => match f {
				Form::Short => 1,
				Form::Wide => 4,
				_ => 2,
			},
			L::Iinc(..) => {
				if f == Form::Wide {
					6
				} else {
					3
				}
			}
			L::Ldc(..) => {
				if f == Form::Short {
					2
				} else {
					3
				}
			}
			L::If(..) => 3,
			L::Jump(..) => {
				if f == Form::W {
					5
				} else {
					3
				}
			}
			L::Table { targets, .. } => 1 + (4 - (off + 1) % 4) % 4 + 12 + 4 * targets.len(),
			L::Lookup { pairs, .. } => 1 + (4 - (off + 1) % 4) % 4 + 8 + 8 * pairs.len(),
		}
	}
}

impl<'e> Asm<'e> {
	fn lower(&mut self, insn: &Value, n: usize, ctx: &str) -> R<L> {
		let op = fstr(fget(insn, "op", ctx)?, ctx)?;
		let (opc, kind) = match opcodes::by_name(op) {
			Some(x) => x,
			None => return invalid(format!("{ctx}: unknown mnemonic {op:?}")),
		};
		let allowed: &[&str] = match kind {
			OpKind::NoOperand => &["op"],
			OpKind::BiPush | OpKind::SiPush => &["op", "value"],
			OpKind::Ldc => &["op", "const"],
			OpKind::Var => &["op", "var"],
			OpKind::Iinc => &["op", "var", "by"],
			OpKind::Branch => &["op", "target"],
			OpKind::TableSwitch => &["op", "default", "low", "targets"],
			OpKind::LookupSwitch => &["op", "default", "pairs"],
			OpKind::Field | OpKind::InvokeInterface => &["op", "owner", "name", "desc"],
			OpKind::InvokeVirtual | OpKind::InvokeSpecialStatic => &["op", "owner", "name", "desc", "itf"],
			OpKind::InvokeDynamic => &["op", "indy"],
			OpKind::Class => &["op", "class"],
			OpKind::NewArray => &["op", "type"],
			OpKind::MultiANewArray => &["op", "class", "dims"],
			_ => &["op"],
		};
		let o = fobj(insn, ctx)?;
		if o.len() != allowed.len() || o.keys().any(|k| !allowed.contains(&k.as_str())) {
			return invalid(format!("{ctx}: instruction {op} must have exactly the keys {allowed:?}"));
		}
		let target = |v: &Value| -> R<usize> { Ok(fint(v, 0, n as i64 - 1, &format!("{ctx} target"))? as usize) };
		Ok(match kind {
			OpKind::NoOperand => L::Fixed(vec![opc]),
			OpKind::BiPush => L::Fixed(vec![opc, fint(fget(insn, "value", ctx)?, -128, 127, ctx)? as i8 as u8]),
			OpKind::SiPush => {
				let v = fint(fget(insn, "value", ctx)?, -32768, 32767, ctx)? as i16;
				L::Fixed(vec![opc, (v >> 8) as u8, v as u8])
			}
			OpKind::Ldc => {
				let (i, cat2) = self.pool.constant(fget(insn, "const", ctx)?, ctx)?;
				L::Ldc(i, cat2)
			}
			OpKind::Var => L::Var(opc, opcodes::lookup(opc).name, fkey_u16(insn, "var", ctx)?),
			OpKind::Iinc => L::Iinc(fkey_u16(insn, "var", ctx)?, fint(fget(insn, "by", ctx)?, -32768, 32767, ctx)? as i16),
			OpKind::Branch => {
				let t = target(fget(insn, "target", ctx)?)?;
				match op {
					"goto" => L::Jump(false, t),
					"jsr" => L::Jump(true, t),
					_ => L::If(opc, t),
				}
			}
			OpKind::TableSwitch => {
				let default = target(fget(insn, "default", ctx)?)?;
				let low = fi32(fget(insn, "low", ctx)?, ctx)?;
				let mut targets = Vec::new();
				for t in farr(fget(insn, "targets", ctx)?, ctx)? {
					targets.push(target(t)?);
				}
				if targets.is_empty() {
					return invalid(format!("{ctx}: tableswitch without targets"));
				}
				if low as i64 + targets.len() as i64 - 1 > i32::MAX as i64 {
					return invalid(format!("{ctx}: tableswitch high overflows"));
				}
				L::Table { default, low, targets }
			}
			OpKind::LookupSwitch => {
				let default = target(fget(insn, "default", ctx)?)?;
				let mut pairs = Vec::new();
				for p in farr(fget(insn, "pairs", ctx)?, ctx)? {
					let p = farr(p, ctx)?;
					if p.len() != 2 {
						return invalid(format!("{ctx}: lookupswitch pair must be [key, target]"));
					}
					let k = fi32(&p[0], ctx)?;
					if matches!(pairs.last(), Some((last, _)) if *last >= k) {
						return invalid(format!("{ctx}: lookupswitch keys must be strictly increasing"));
					}
					pairs.push((k, target(&p[1])?));
				}
				L::Lookup { default, pairs }
			}
			OpKind::Field => {
				let i = self.pool.member(insn, 0, ctx)?;
				L::Fixed(vec![opc, (i >> 8) as u8, i as u8])
			}
			OpKind::InvokeVirtual | OpKind::InvokeSpecialStatic => {
				let itf = match fget(insn, "itf", ctx)? {
					Value::Bool(b) => *b,
					_ => return invalid(format!("{ctx}: itf must be a boolean")),
				};
				let i = self.pool.member(insn, if itf { 2 } else { 1 }, ctx)?;
				L::Fixed(vec![opc, (i >> 8) as u8, i as u8])
			}
			OpKind::InvokeInterface => {
				let i = self.pool.member(insn, 2, ctx)?;
				let slots = s_to_units(fget(insn, "desc", ctx)?).ok().and_then(|u| crate::facts::method_arg_slots(&u));
				let count = match slots {
					Some(s) if s < 255 => s as u8 + 1,
					_ => return invalid(format!("{ctx}: invokeinterface with a malformed or too large descriptor")),
				};
				L::Fixed(vec![opc, (i >> 8) as u8, i as u8, count, 0])
			}
			OpKind::InvokeDynamic => {
				let id = self.pool.dynamic_id(fget(insn, "indy", ctx)?, true, ctx)?;
				let i = self.pool.idx(id);
				L::Fixed(vec![opc, (i >> 8) as u8, i as u8, 0, 0])
			}
			OpKind::Class => {
				let i = self.pool.class(fget(insn, "class", ctx)?)?;
				L::Fixed(vec![opc, (i >> 8) as u8, i as u8])
			}
			OpKind::NewArray => {
				let t = fstr(fget(insn, "type", ctx)?, ctx)?;
				match opcodes::ATYPES.iter().find(|(_, n)| *n == t) {
					Some((c, _)) => L::Fixed(vec![opc, *c]),
					None => return invalid(format!("{ctx}: unknown newarray type {t:?}")),
				}
			}
			OpKind::MultiANewArray => {
				let i = self.pool.class(fget(insn, "class", ctx)?)?;
				let d = fint(fget(insn, "dims", ctx)?, 1, 255, ctx)? as u8;
				L::Fixed(vec![opc, (i >> 8) as u8, i as u8, d])
			}
			_ => return invalid(format!("{ctx}: {op:?} is not a canonical mnemonic")),
		})
	}

	/// Chooses forms and computes offsets. Returns (forms, offsets incl. end).
	fn layout(&self, ls: &[L], method: usize, ctx: &str) -> R<(Vec<Form>, Vec<u32>)> {
		let n = ls.len();
		let mut forms = Vec::with_capacity(n);
		let mut forced = vec![false; n];
		for (i, l) in ls.iter().enumerate() {
			let f = if let Some(s) = self.forms.get(&(method, i)) {
				let f = match l.normalise(Form::parse(s)?) {
					Ok(f) => f,
					Err(m) => return unenc(format!("{ctx}.insn[{i}]: requested form {s:?}: {m}")),
				};
				if !l.representable(f) {
					return unenc(format!("{ctx}.insn[{i}]: form {s:?} cannot represent the operand"));
				}
				forced[i] = true;
				f
			} else {
				let pref = l.family().and_then(|fam| self.enc.default_forms.get(fam));
				let mut chosen = None;
				if let Some(s) = pref {
					if let Ok(f) = l.normalise(Form::parse(s)?) {
						if l.representable(f) {
							chosen = Some(f);
						}
					}
				}
				chosen.unwrap_or_else(|| l.minimal())
			};
			forms.push(f);
		}
		let mut offsets = vec![0u32; n + 1];
		loop {
			let mut off = 0usize;
			for i in 0..n {
				offsets[i] = off as u32;
				off += ls[i].size(forms[i], off);
				if off > 0x7fff_0000 {
					return unenc(format!("{ctx}: code too long"));
				}
			}
			offsets[n] = off as u32;
			let mut changed = false;
			for i in 0..n {
				if let L::Jump(_, t) = &ls[i] {
					if forms[i] == Form::Short {
						let rel = offsets[*t] as i64 - offsets[i] as i64;
						if rel < -32768 || rel > 32767 {
							if forced[i] {
								return unenc(format!("{ctx}.insn[{i}]: branch offset {rel} does not fit the short form"));
							}
							forms[i] = Form::W;
							changed = true;
						}
					}
				}
			}
			if !changed {
				break;
			}
		}
		for i in 0..n {
			if let L::If(_, t) = &ls[i] {
				let rel = offsets[*t] as i64 - offsets[i] as i64;
				if rel < -32768 || rel > 32767 {
					return unenc(format!("{ctx}.insn[{i}]: conditional branch offset {rel} does not fit 16 bits"));
				}
			}
		}
		if offsets[n] > 65535 {
			return unenc(format!("{ctx}: code_length {} exceeds 65535", offsets[n]));
		}
		Ok((forms, offsets))
	}

	fn emit_code_bytes(ls: &[L], forms: &[Form], offsets: &[u32]) -> Vec<u8> {
		let mut w = W::default();
		for (i, l) in ls.iter().enumerate() {
			let off = offsets[i] as i64;
			let rel = |t: &usize| offsets[*t] as i64 - off;
			match l {
				L::Fixed(b) => w.bytes(b),
				L::Var(opc, name, v) => match forms[i] {
					Form::Short => w.u1(opcodes::short_var_opcode(name, *v).unwrap_or(0)),
					Form::Wide => {
						w.u1(0xc4);
						w.u1(*opc);
						w.u2(*v);
					}
					_ => {
						w.u1(*opc);
						w.u1(*v as u8);
					}
				},
				L::Iinc(v, c) => {
					if forms[i] == Form::Wide {
						w.u1(0xc4);
						w.u1(0x84);
						w.u2(*v);
						w.u2(*c as u16);
					} else {
						w.u1(0x84);
						w.u1(*v as u8);
						w.u1(*c as i8 as u8);
					}
				}
				L::Ldc(ix, cat2) => {
					if *cat2 {
						w.u1(0x14);
						w.u2(*ix);
					} else if forms[i] == Form::Short {
						w.u1(0x12);
						w.u1(*ix as u8);
					} else {
						w.u1(0x13);
						w.u2(*ix);
					}
				}
				L::If(opc, t) => {
					w.u1(*opc);
					w.u2(rel(t) as i16 as u16);
				}
				L::Jump(jsr, t) => {
					if forms[i] == Form::W {
						w.u1(if *jsr { 0xc9 } else { 0xc8 });
						w.u4(rel(t) as i32 as u32);
					} else {
						w.u1(if *jsr { 0xa8 } else { 0xa7 });
						w.u2(rel(t) as i16 as u16);
					}
				}
				L::Table { default, low, targets } => {
					w.u1(0xaa);
					while w.b.len() % 4 != 0 {
						w.u1(0);
					}
					w.u4(rel(default) as i32 as u32);
					w.u4(*low as u32);
					w.u4((*low as i64 + targets.len() as i64 - 1) as i32 as u32);
					for t in targets {
						w.u4(rel(t) as i32 as u32);
					}
				}
				L::Lookup { default, pairs } => {
					w.u1(0xab);
					while w.b.len() % 4 != 0 {
						w.u1(0);
					}
					w.u4(rel(default) as i32 as u32);
					w.u4(pairs.len() as u32);
					for (k, t) in pairs {
						w.u4(*k as u32);
						w.u4(rel(t) as i32 as u32);
					}
				}
			}
		}
		w.b
	}

	fn code(&mut self, c: &Value, mi: &MethodInfo, ctx: &str) -> R<Vec<u8>> {
		let allowed = ["max_stack", "max_locals", "insns", "exceptions", "attrs"];
		if fobj(c, ctx)?.keys().any(|k| !allowed.contains(&k.as_str())) {
			return invalid(format!("{ctx}: unexpected key in Code"));
		}
		let insns = farr(fget(c, "insns", ctx)?, ctx)?;
		if insns.is_empty() {
			return invalid(format!("{ctx}: Code without instructions"));
		}
		let n = insns.len();
		let mut ls = Vec::with_capacity(n);
		for (i, insn) in insns.iter().enumerate() {
			ls.push(self.lower(insn, n, &format!("{ctx}.insn[{i}]"))?);
		}
		let (forms, offsets) = match self.layout(&ls, mi.index, ctx) {
			Ok(x) => x,
			Err(e) => {
				if self.pool.collecting {
					// indices are provisional in the first pass: layout problems are judged in the second
					(ls.iter().map(L::minimal).collect(), (0..=n as u32).collect())
				} else {
					return Err(e);
				}
			}
		};
		let bytes = if self.pool.collecting { Vec::new() } else { Self::emit_code_bytes(&ls, &forms, &offsets) };
		if !self.pool.collecting && bytes.len() != offsets[n] as usize {
			return invalid("internal: layout and emission disagree");
		}
		let lay = CodeLay { offsets };
		let mut w = W::default();
		w.u2(fkey_u16(c, "max_stack", ctx)?);
		w.u2(fkey_u16(c, "max_locals", ctx)?);
		w.u4(bytes.len() as u32);
		w.bytes(&bytes);
		let exc = farr(fget(c, "exceptions", ctx)?, ctx)?;
		w.u2(count_u16(exc.len(), ctx)?);
		for e in exc {
			w.u2(lay.pc_insn(fget(e, "start", ctx)?, ctx)?);
			w.u2(lay.pc(fget(e, "end", ctx)?, ctx)?);
			w.u2(lay.pc_insn(fget(e, "handler", ctx)?, ctx)?);
			match e.get("catch") {
				Some(cl) => w.u2(self.pool.class(cl)?),
				None => w.u2(0),
			}
		}
		let attrs = fobj(fget(c, "attrs", ctx)?, ctx)?;
		let list = self.attr_list_code(attrs, Level::Code, Some(mi), Some(&lay), ctx)?;
		self.write_attrs(&mut w, list)?;
		Ok(w.b)
	}

	fn verification_type(&mut self, w: &mut W, v: &Value, lay: &CodeLay, ctx: &str) -> R<()> {
		if let Some(s) = v.as_str() {
			w.u1(match s {
				"top" => 0,
				"int" => 1,
				"float" => 2,
				"double" => 3,
				"long" => 4,
				"null" => 5,
				"uninitialized_this" => 6,
				other => return invalid(format!("{ctx}: unknown verification type {other:?}")),
			});
			return Ok(());
		}
		if let Some(c) = v.get("object") {
			w.u1(7);
			w.u2(self.pool.class(c)?);
		} else if let Some(i) = v.get("uninitialized") {
			w.u1(8);
			w.u2(lay.pc_insn(i, ctx)?);
		} else {
			return invalid(format!("{ctx}: unknown verification type {v}"));
		}
		Ok(())
	}

	fn stack_map_table(&mut self, w: &mut W, v: &Value, lay: &CodeLay, mi: &MethodInfo, ctx: &str) -> R<()> {
		let mode = self.enc.frame_forms.as_deref().unwrap_or("compact");
		if !matches!(mode, "compact" | "full" | "extended") {
			return invalid(format!("unknown frame_forms {mode:?}"));
		}
		let frames = farr(v, ctx)?;
		w.u2(count_u16(frames.len(), ctx)?);
		let access = fkey_u16(mi.decl, "access", ctx)? as u64;
		let mut prev: Vec<Value> =
			match crate::facts::initial_locals(&self.this_name, access, fget(mi.decl, "name", ctx)?, fget(mi.decl, "desc", ctx)?) {
				Some(l) => l,
				None => return invalid(format!("{ctx}: StackMapTable on a method with a malformed descriptor")),
			};
		let mut prev_pc: i64 = -1;
		for f in frames {
			let pc = lay.pc_insn(fget(f, "at", ctx)?, ctx)? as i64;
			let delta = pc - prev_pc - 1;
			if delta < 0 {
				return invalid(format!("{ctx}: frames must have strictly increasing positions"));
			}
			let delta = delta as u16;
			prev_pc = pc;
			let locals = farr(fget(f, "locals", ctx)?, ctx)?;
			let stack = farr(fget(f, "stack", ctx)?, ctx)?;
			let ext = mode == "extended";
			let mut done = false;
			if mode != "full" {
				if stack.is_empty() && *locals == prev {
					if delta <= 63 && !ext {
						w.u1(delta as u8);
					} else {
						w.u1(251);
						w.u2(delta);
					}
					done = true;
				} else if stack.len() == 1 && *locals == prev {
					if delta <= 63 && !ext {
						w.u1(64 + delta as u8);
					} else {
						w.u1(247);
						w.u2(delta);
					}
					self.verification_type(w, &stack[0], lay, ctx)?;
					done = true;
				} else if stack.is_empty() && locals.len() < prev.len() && prev.len() - locals.len() <= 3 && prev[..locals.len()] == locals[..] {
					w.u1(251 - (prev.len() - locals.len()) as u8);
					w.u2(delta);
					done = true;
				} else if stack.is_empty() && locals.len() > prev.len() && locals.len() - prev.len() <= 3 && locals[..prev.len()] == prev[..] {
					w.u1(251 + (locals.len() - prev.len()) as u8);
					w.u2(delta);
					for l in &locals[prev.len()..] {
						self.verification_type(w, l, lay, ctx)?;
					}
					done = true;
				}
			}
			if !done {
				w.u1(255);
				w.u2(delta);
				w.u2(count_u16(locals.len(), ctx)?);
				for l in locals {
					self.verification_type(w, l, lay, ctx)?;
				}
				w.u2(count_u16(stack.len(), ctx)?);
				for s in stack {
					self.verification_type(w, s, lay, ctx)?;
				}
			}
			prev = locals.clone();
		}
		Ok(())
	}
}
