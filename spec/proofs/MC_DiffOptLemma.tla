--------------------------- MODULE MC_DiffOptLemma ---------------------------
(* TLC confirms that the definitions repeated in DiffOptLemma.tla coincide with those of    *)
(* DiffApply.tla on the model alphabet (so the TLAPS theorems speak about the same operators). *)
EXTENDS Naturals, TLC
L == INSTANCE DiffOptLemma
D == INSTANCE DiffApply
V == {"", "x", "y", <<>>, <<"d">>}
Acts == {L!None} \cup {L!Add(b) : b \in V} \cup {L!Rem(a) : a \in V} \cup {L!Edit(a, b) : a \in V, b \in V}
ASSUME \A none \in {"", <<>>} : \A a \in V, b \in V :
            /\ L!FromTuple(a, b, none) = D!FromTuple(a, b, none)
            /\ \A act \in Acts : /\ L!ApplyOpt(act, a, none) = D!ApplyOpt(act, a, none)
                                 /\ L!ActConsistent(act, a, none) = D!ActConsistent(act, a, none)
VARIABLE x
Spec == x = 0 /\ [][x' = x]_x
=============================================================================
