--------------------------- MODULE MC_DiffOptLemma ---------------------------
(* TLC confirms that the definitions repeated in DiffOptLemma.tla coincide with those of    *)
(* DiffApply.tla on the model alphabet (so the TLAPS theorems speak about the same operators). *)
EXTENDS Naturals, TLC
L == INSTANCE DiffOptLemma
D == INSTANCE DiffApply
Acts(V) == {L!None} \cup {L!Add(b) : b \in V} \cup {L!Rem(a) : a \in V} \cup {L!Edit(a, b) : a \in V, b \in V}
Agree(V, none) ==
    \A a \in V, b \in V :
        /\ L!FromTuple(a, b, none) = D!FromTuple(a, b, none)
        /\ \A act \in Acts(V) : /\ L!ApplyOpt(act, a, none) = D!ApplyOpt(act, a, none)
                                /\ L!ActConsistent(act, a, none) = D!ActConsistent(act, a, none)
ASSUME Agree({"", "x", "y"}, "")                     \* names
ASSUME Agree({<<>>, <<"d">>, <<"e">>}, <<>>)         \* comments
VARIABLE x
Spec == x = 0 /\ [][x' = x]_x
=============================================================================
