SPECIFICATION Spec
