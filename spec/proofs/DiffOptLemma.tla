---------------------------- MODULE DiffOptLemma ----------------------------
(***************************************************************************)
(* The node-level inverse law of C04 for ARBITRARY values (TLC checks it   *)
(* over three-value alphabets only): applying the action that diff         *)
(* computes for (a, b) to a yields b, and an action applies exactly when   *)
(* its stated old value is the current value.                              *)
(* Proved with TLAPS (tlapm); not part of the registered checks.           *)
(* The definitions are those of spec/quill/DiffApply.tla and               *)
(* MappingTree.tla, repeated here because tlapm does not digest the        *)
(* RECURSIVE operators of those modules; MC_DiffOptLemma.tla lets TLC      *)
(* confirm that the copies agree with the originals on the model alphabet. *)
(***************************************************************************)
EXTENDS Sequences

None == <<"none">>
Add(b) == <<"add", b>>
Rem(a) == <<"rem", a>>
Edit(a, b) == <<"edit", a, b>>
Ok(v) == [ok |-> TRUE, v |-> v]
Err   == [ok |-> FALSE, v |-> <<>>]

FromTuple(a, b, none) ==
    IF a = none THEN (IF b = none THEN None ELSE Add(b))
    ELSE (IF b = none THEN Rem(a) ELSE Edit(a, b))

ApplyOpt(act, cur, none) ==
    CASE act[1] = "none" -> Ok(cur)
      [] act[1] = "add"  -> IF cur # none THEN Err ELSE Ok(act[2])
      [] act[1] = "rem"  -> IF cur = none \/ cur # act[2] THEN Err ELSE Ok(none)
      [] act[1] = "edit" -> IF cur = none \/ cur # act[2] THEN Err ELSE Ok(act[3])

ActConsistent(act, cur, none) ==
    \/ act[1] = "none"
    \/ act[1] = "add" /\ cur = none
    \/ act[1] \in {"rem", "edit"} /\ cur = act[2]

THEOREM Inverse ==
    ASSUME NEW a, NEW b, NEW none
    PROVE  ApplyOpt(FromTuple(a, b, none), a, none) = Ok(b)
<1>1. CASE a = none /\ b = none
    BY <1>1 DEF ApplyOpt, FromTuple, None, Ok
<1>2. CASE a = none /\ b # none
    BY <1>2 DEF ApplyOpt, FromTuple, Add, Ok
<1>3. CASE a # none /\ b = none
    BY <1>3 DEF ApplyOpt, FromTuple, Rem, Ok
<1>4. CASE a # none /\ b # none
    BY <1>4 DEF ApplyOpt, FromTuple, Edit, Ok
<1> QED BY <1>1, <1>2, <1>3, <1>4

(* an action built from a stated old value o (# none where one is stated) applies iff o is the current value *)
THEOREM RefusesStale ==
    ASSUME NEW o, NEW n, NEW cur, NEW none, o # none, n # none
    PROVE  /\ ApplyOpt(Edit(o, n), cur, none).ok <=> cur = o
           /\ ApplyOpt(Rem(o), cur, none).ok <=> cur = o
           /\ ApplyOpt(Add(n), cur, none).ok <=> cur = none
           /\ ApplyOpt(None, cur, none) = Ok(cur)
BY DEF ApplyOpt, Edit, Rem, Add, None, Ok, Err
=============================================================================
