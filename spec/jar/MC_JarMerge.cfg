SPECIFICATION Spec
CONSTANT Tier = 0
INVARIANT InvRepairedLaw
INVARIANT InvRepairedMarked
INVARIANT InvRepairedNoTail
INVARIANT InvLawSat
INVARIANT InvCompatSym
INVARIANT InvScrambled
INVARIANT InvAsCodedClosedForm
INVARIANT InvAsCodedUnion
INVARIANT InvAsCodedDeviation
INVARIANT InvJarLaw
INVARIANT InvTable
INVARIANT InvPre
INVARIANT Emit
CHECK_DEADLOCK FALSE
