SPECIFICATION Spec
CONSTANT Tier = 0
INVARIANT InvJar
INVARIANT InvJarAsCoded
INVARIANT InvJarAlt
INVARIANT InvAgree
INVARIANT InvMap
INVARIANT InvTr
INVARIANT InvRead
INVARIANT Emit
CHECK_DEADLOCK FALSE
