\* demonstration only (not registered): claims that apply_nests_to_mappings AS CODED satisfies the law.
\* TLC answers with a mapping set containing a class without a target name (see NOTES-C14.md / FINDINGS-C14.md).
SPECIFICATION Spec
CONSTANT Tier = 0
INVARIANT InvAsCodedApplyLaw
CHECK_DEADLOCK FALSE
