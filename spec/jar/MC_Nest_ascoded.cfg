\* demonstration only (not registered): claims that apply_nests_to_mappings and nest_jar AS CODED satisfy the laws.
\* TLC answers with a mapping set containing a class without a target name (InvAsCodedApplyLaw) or, with that line removed,
\* a table whose enclosing class is missing from the jar (InvAsCodedJarLaw); see NOTES-C14.md / FINDINGS-C14.md.
SPECIFICATION Spec
CONSTANT Tier = 0
INVARIANT InvAsCodedApplyLaw
INVARIANT InvAsCodedJarLaw
CHECK_DEADLOCK FALSE
