SPECIFICATION Spec
CONSTANT Tier = 0
INVARIANT InvWellFormed
INVARIANT InvOpen
INVARIANT InvRoundTrip
INVARIANT InvProvider
INVARIANT InvParsed
INVARIANT Emit
CHECK_DEADLOCK FALSE
