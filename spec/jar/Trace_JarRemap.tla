--------------------------- MODULE Trace_JarRemap ---------------------------
(***************************************************************************)
(* I2S for C07.  A record holds the mapping set, the library inheritance   *)
(* and the jar that were given to dukebox::remap::remap, and `got`: what   *)
(* the harness observed with the independent parser                        *)
(*   sup    the inheritance of the input (jar classes first, then library) *)
(*   in     the input jar: entries <<name, kind, content id>> and per      *)
(*          class entry [this, rows, res]                                  *)
(*   out    the same for the result of to_mem(), reopened as a zip, plus   *)
(*          wf = verdict of the strict parser and its structural summary   *)
(*   tree   per class entry of the ParsedJar: the stack map types of the   *)
(*          remapped tree (the class writer emits no StackMapTable)        *)
(* TLC recomputes every remapper answer from the recorded mapping set and  *)
(* inheritance and maps the input rows; the driver computes no expectation.*)
(* Accepted iff the call succeeded and JarLaw holds: no entry lost or      *)
(* invented, every entry under its name, non-class entries unchanged,      *)
(* classes renamed row by row, residuals equal, classes well-formed.       *)
(* Jars in which two entries can be given the same name (class map not     *)
(* injective on the jar) are judged only entry by entry where no collision *)
(* is possible, and a refusal of such a jar is accepted.                   *)
(***************************************************************************)
EXTENDS JarRemap, Json, IOUtils, SequencesExt

WFm == INSTANCE WellFormed
Rec == ndJsonDeserialize(IOEnv.TRACE)
VARIABLES l, rej

Has(r, k) == k \in DOMAIN r
WFok(co) == Has(co, "wf") /\ co.wf.parse = "ok" /\ WFm!WellFormed(co.wf.raw)

ClassIdx(J) == {i \in DOMAIN J.entries : J.entries[i][2] = "class"}
(* the entry of the result an input entry went to: the first admissible name present, "" if none *)
Went(X, J, O, i) == LET S == Targets(X, J, i) \cap NamesOf(O) IN IF S = {} THEN "" ELSE CHOOSE t \in S : TRUE

TreeOK(X, J, g, i) ==
    LET n == J.entries[i][1]
    IN \E t \in Targets(X, J, i) : Has(g.tree, t) /\ Has(g.tree[t], "frames")
                                   /\ RowsOK(X, "frame_object", J.classes[n].rows.frame_object, g.tree[t].frames)

(* the namespaces the jar was remapped between (1-based; absent: first -> second) *)
FromOf(r) == IF Has(r, "from") THEN r.from ELSE 1
ToOf(r) == IF Has(r, "to") THEN r.to ELSE 2
CtxOf(r, sup) == CtxFT(NormTree(r.M), FromOf(r), ToOf(r), sup)

Accept(r) ==
    LET g == r.got IN
    IF ~Has(g, "ok") THEN FALSE                                   \* a panic
    ELSE LET X == CtxOf(r, g.sup)
             J == g.in
         IN IF ~g.ok THEN ~AllUnclashed(X, J)                     \* a valid jar must be remapped
            ELSE /\ JarLaw(X, J, g.out, WFok)
                 /\ \A i \in ClassIdx(J) : Unclashed(X, J, i) => TreeOK(X, J, g, i)

BadKinds(X, ci, co) == {k \in DOMAIN ci.rows : ~(Has(co.rows, k) /\ RowsOK(X, k, ci.rows[k], co.rows[k]))}
Expected(r) ==
    LET g == r.got IN
    IF ~Has(g, "in") THEN [ok |-> TRUE]
    ELSE LET X == CtxOf(r, g.sup)
             J == g.in
         IN IF ~g.ok THEN [ok |-> TRUE, clash |-> ~AllUnclashed(X, J)]
            ELSE LET O == g.out IN
                 [ok |-> TRUE,
                  dups |-> ~NoDupNames(O),
                  extra |-> SetToSeq({n \in NamesOf(O) : ~\E i \in DOMAIN J.entries : n \in Targets(X, J, i)}),
                  pairs |-> [i \in DOMAIN J.entries |->
                      LET e == J.entries[i]
                          t == Went(X, J, O, i)
                          isc == e[2] = "class"
                          ci == J.classes[e[1]]
                      IN [n |-> e[1], k |-> e[2], clash |-> ~Unclashed(X, J, i), t |-> t,
                          shape |-> IF isc THEN EntryShape(e[1], ci.this) ELSE "",
                          want |-> SetToSeq(Targets(X, J, i)),
                          same |-> IF t = "" THEN FALSE ELSE EntryOf(O, t)[2] = e[2] /\ (e[2] = "other" => EntryOf(O, t)[3] = e[3]),
                          wf |-> IF isc /\ t # "" /\ Has(O.classes, t) THEN WFok(O.classes[t]) ELSE ~isc,
                          frames |-> IF isc THEN TreeOK(X, J, g, i) ELSE TRUE,
                          rows |-> IF isc /\ t # "" /\ Has(O.classes, t)
                                   THEN [k \in BadKinds(X, ci, O.classes[t]) |-> RemapRows(X, ci.rows)[k]]
                                   ELSE <<>>]]]

Init == l = 1 /\ rej = 0
Next ==
    /\ l <= Len(Rec)
    /\ l' = l + 1
    /\ IF Accept(Rec[l]) THEN rej' = rej
       ELSE /\ PrintT(ToJson([reject |-> l, exp |-> Expected(Rec[l])]))
            /\ rej' = rej + 1
Spec == Init /\ [][Next]_<<l, rej>>
Consumed == TLCGet("stats").diameter - 1 = Len(Rec)
=============================================================================
